#!/bin/bash
# validate.sh <Cxx> [round-suffix]: coordinator's validation of a seeded change handed in at /tmp/mut/<Cxx>.out
#  1. the agent's worktree /tmp/mut/<Cxx> must contain exactly patch.diff (re-derived with git diff)
#  2. build (incremental, overlay) must succeed except the baseline GeantVolumeMapper target
#  3. demo exits non-zero with the change, zero on the clean tree (/tmp/mut/CLEAN)
#  4. full ctest passes except baseline failures (MpiCommunicator*)
# Writes /tmp/mut/<Cxx>.out/validation.json
ID=$1; WT=/tmp/mut/$ID; OUT=/tmp/mut/$ID.out; M=/root/mut/mrun
cd $OUT || exit 2
git -C $WT diff > $OUT/patch.rederived.diff
if ! diff -q <(grep -v '^index ' patch.diff) <(grep -v '^index ' patch.rederived.diff) >/dev/null; then echo "NOTE: patch.diff differs from worktree diff; using worktree diff"; cp patch.rederived.diff patch.diff; fi
[ -s patch.diff ] || { echo "empty patch"; exit 3; }
$M $WT -- ninja -C /repo/_build -j${J:-8} -k 0 > build.log 2>&1
BF=$(grep '^FAILED:' build.log | grep -v GeantVolumeMapper | wc -l)
$M $WT -- bash $OUT/build_and_run.sh > demo_with.log 2>&1; RC_WITH=$?
$M /tmp/mut/CLEAN -- bash $OUT/build_and_run.sh > demo_without.log 2>&1; RC_WITHOUT=$?
$M $WT -- ctest --test-dir /repo/_build -j${J:-8} --timeout 900 > ctest.log 2>&1
FAILS=$(sed -n '/The following tests FAILED/,$p' ctest.log | grep -E '^\s+[0-9]+ - ' | sed 's/^\s*[0-9]* - //; s/ (.*//' | grep -v MpiCommunicator | tr '\n' ' ')
# rerun flaky/timeouts alone once
if [ -n "$FAILS" ]; then
  STILL=""
  for t in $FAILS; do $M $WT -- ctest --test-dir /repo/_build --timeout 900 -R "^${t//\//\\/}\$" > ctest_rerun.log 2>&1 || STILL="$STILL $t"; done
  FAILS="$STILL"
fi
python3 - <<PY
import json
json.dump({"build_failures_excl_baseline": $BF, "demo_rc_with_change": $RC_WITH, "demo_rc_without_change": $RC_WITHOUT,
           "suite_failures_excl_baseline": "$FAILS".split(), "summary_line": open("ctest.log").read().strip().splitlines()[-12:][0:3]},
          open("$OUT/validation.json","w"), indent=1)
PY
echo "$ID build_failures=$BF demo_with=$RC_WITH demo_without=$RC_WITHOUT suite_fail='$FAILS'"
[ $BF -eq 0 ] && [ $RC_WITH -ne 0 ] && [ $RC_WITHOUT -eq 0 ] && [ -z "$FAILS" ] && echo "VALID $ID" || echo "INVALID $ID"
