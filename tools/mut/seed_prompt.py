#!/usr/bin/env python3
"""seed_prompt.py <round>: write /root/mut/prompts/<Cxx>.md for every property (prompt for a fresh
sub-agent that must seed a property-breaking change). The prompt contains the property text and
one-line summaries of changes already tried (so that new ones differ) -- nothing about the checks."""
import json, os, sys, glob
V = os.path.dirname(os.path.dirname(os.path.dirname(os.path.abspath(__file__))))
rnd = sys.argv[1] if len(sys.argv) > 1 else "3"
suffix = sys.argv[2] if len(sys.argv) > 2 else ""
os.makedirs("/root/mut/prompts", exist_ok=True)
for l in open(os.path.join(V, "properties.jsonl")):
    p = json.loads(l); pid = p["id"]
    prev = []
    for d in sorted(glob.glob(os.path.join(V, "seeded", pid + "-m*"))):
        try:
            m = json.load(open(os.path.join(d, "meta.json")))
            prev.append("- " + ", ".join(os.path.basename(f) for f in m.get("files_changed", [])) + ": " + (m.get("summary") or "")[:260].replace("\n", " "))
        except Exception:
            pass
    wt = "/tmp/mut/%s%s" % (pid, suffix)
    out = "/tmp/mut/%s%s.out" % (pid, suffix)
    txt = f"""# Task: seed a realistic property-breaking change into celeritas ({pid}, round {rnd})

You are an experienced C++ developer testing the strength of a verification effort. You work ONLY in
the scratch git worktree `{wt}` (a detached checkout of the celeritas repository, GPU-accelerated
Monte Carlo particle transport; this build is CPU-only, double precision, ORANGE geometry, no Geant4).
Do NOT read, list or touch `/verif` (anything there is off limits so that your work stays independent),
and do NOT modify `/repo` or commit anything anywhere.

## The property you must break

**{pid} — {p['title']}**

Statement: {p['statement']}

Quantified over: {p['quantifier']['text']}

Why the existing tests cannot settle it: {p['why_tests_cant']}

Code the property is anchored in:
{chr(10).join('- ' + f for f in p['anchors']['files'])}

Mechanisms: {json.dumps(p['anchors']['mechanism'])}

## What to produce

A change to the celeritas sources (under `{wt}/src` or `{wt}/app`; NOT the tests) that

1. still compiles (whole project including tests),
2. passes the existing test suite unedited (the only allowed failures are the baseline failures
   `corecel/sys/MpiCommunicator*`; `app/celer-geo:cpu` may time out under load — rerun it alone),
3. makes the property above FALSE for some input / history / configuration,
4. needs something specific to manifest — a multi-step sequence of operations, an unusual input or
   configuration, a particular interleaving, a fault at a particular point, or two cooperating sites
   that each look fine alone — NOT something ordinary use would expose at once, and
5. looks like something a developer could plausibly write (an "optimisation", refactoring, tidy-up,
   an off-by-one, a mis-merged condition, a lost special case ...). Keep it small (1-3 hunks).

Plus a demonstration: a small standalone C++ program `demo.cc` (or a gtest file you compile yourself)
with a `build_and_run.sh` that exits NON-ZERO with your change and ZERO without it, showing the
property violation through public APIs of the code.

Changes already tried in earlier rounds for this property (do something DIFFERENT — different site
or different mechanism):
{chr(10).join(prev) if prev else '- (none)'}

## How to build and test (important — read carefully)

`/repo/_build` is an up-to-date build (cmake+ninja) of the unchanged tree. You never build there
directly. Instead use the wrapper

    /root/mut/mrun {wt} -- <command>

which runs `<command>` in a private mount namespace where `/repo/src`, `/repo/test`, `/repo/app`, ...
ARE your worktree's directories and `/repo/_build` is a private copy-on-write copy of the real build
dir. So inside `mrun`, an incremental `ninja -C /repo/_build -j6 -k 0` rebuilds exactly what your
edits affect, and `ctest --test-dir /repo/_build -j4 --timeout 900` runs the suite against your change:

    /root/mut/mrun {wt} -- ninja -C /repo/_build -j6 -k 0 2>&1 | tail -5
    /root/mut/mrun {wt} -- ctest --test-dir /repo/_build -j4 --timeout 900 -R '<regex>' 2>&1 | tail
    /root/mut/mrun {wt} -- ctest --test-dir /repo/_build -j4 --timeout 900 2>&1 | tail -15     # full suite, once at the end

(The machine is shared with other jobs: keep to -j6 / -j4. Editing a widely included header
triggers a long rebuild; prefer sites with limited fan-out when you have a choice, but correctness of
the seeded change matters more.) Do not run git inside `mrun`; run git in `{wt}` normally.

Your demo must also be built and run inside `mrun` so that it sees your sources and rebuilt
libraries. `build_and_run.sh` is run as `/root/mut/mrun <some worktree> -- bash <path>/build_and_run.sh`
and must refer to the tree under test only as `/repo` (sources `/repo/src`, generated headers
`/repo/_build/include`, libraries in `/repo/_build/lib`), and to demo.cc via its own directory
(`$(dirname "$0")`); build into a `mktemp -d` directory. A typical compile line:

    g++ -std=c++17 -O1 -fopenmp -I/repo/src -I/repo/_build/include -I/root/miniconda/include demo.cc \\
        -L/repo/_build/lib -Wl,-rpath,/repo/_build/lib -lceleritas -lorange -lgeocel -lcorecel -o demo

(add `-I/repo/test -I/repo/_build/test` and `-ltestcel_celeritas -ltestcel_orange -ltestcel_geocel -ltestcel_core
-ltestcel_harness -L/root/miniconda/lib -Wl,-rpath,/root/miniconda/lib -lgtest` if you use the repo's test-support
classes; check `ls /repo/_build/lib`). Run binaries with `CELER_DISABLE_PARALLEL=1` (mrun sets it).
NOTE: this build has `CELERITAS_DEBUG=0`: `CELER_EXPECT/ASSERT/ENSURE` are compiled out, only
`CELER_VALIDATE` is live.

To check the demo on the UNCHANGED tree use the clean worktree: `/root/mut/mrun /tmp/mut/CLEAN -- bash {out}/build_and_run.sh`
(never edit /tmp/mut/CLEAN).

## Deliverables (write them to `{out}/`)

- `patch.diff`  — `git -C {wt} diff` (sources only)
- `demo.cc`, `build_and_run.sh`
- `meta.json` with keys: `property` ("{pid}: ..."), `summary` (what the change does), `why_it_breaks_the_property`,
  `what_it_needs_to_manifest`, `files_changed` (list), `tests_run` (list of commands and outcomes),
  `demo_result_with_change`, `demo_result_without_change`.

Leave your change applied in `{wt}` (built) when you finish. In your final reply give a 5-line summary
(site, mechanism, trigger, suite result, demo result). If after a serious effort you cannot make the
suite pass with a property-breaking change, say so plainly rather than handing in something that
fails tests.
"""
    open("/root/mut/prompts/%s%s.md" % (pid, suffix), "w").write(txt)
print("written")
