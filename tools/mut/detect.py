#!/usr/bin/env python3
"""detect.py <seeded-name> [--wt DIR] [--tier quick|thorough] [--also Cxx ...]
Run the property's check against a seeded change: the patch is applied in a scratch worktree (default: a
fresh one under /tmp/det/<name>, removed afterwards; --wt reuses an existing patched worktree), the check runs
inside tools/mut/mcheck (namespace: /repo := patched tree, private COW copy of the library build). Writes
seeded/<name>/detection.json."""
import json, os, re, subprocess, sys, time, shutil
V = os.path.dirname(os.path.dirname(os.path.dirname(os.path.abspath(__file__))))
M = os.path.join(V, "tools", "mut")
name = sys.argv[1]; a = sys.argv[2:]
tier, also, wt = "quick", [], None
while a:
    x = a.pop(0)
    if x == "--tier": tier = a.pop(0)
    elif x == "--wt": wt = a.pop(0)
    elif x == "--also": also += a; a = []
d = os.path.join(V, "seeded", name)
meta = json.load(open(os.path.join(d, "meta.json")))
pid = meta.get("breaks_property") or name.split("-")[0]
own = wt is None
if own:
    wt = "/tmp/det/" + name
    subprocess.run([os.path.join(M, "rmwt"), wt], capture_output=True)
    os.makedirs("/tmp/det", exist_ok=True)
    subprocess.run([os.path.join(M, "mkwt"), wt], check=True, capture_output=True)
    r = subprocess.run(["git", "-C", wt, "apply", os.path.join(d, "patch.diff")], capture_output=True, text=True)
    if r.returncode != 0:
        print("patch does not apply:", r.stderr); sys.exit(3)
res = {"patch": name, "tier": tier, "checks": {}, "how": "tools/mut/detect.py (mcheck namespace)"}
try:
    for p in [pid] + also:
        t = time.time()
        env = dict(os.environ); env.pop("VERIF_REPO", None); env.pop("VERIF_BUILD", None)
        r = subprocess.run([os.path.join(M, "mcheck"), wt, "--", "./check", p, "--tier", tier], capture_output=True, text=True, timeout=7200, env=env)
        out = r.stdout + r.stderr
        open(os.path.join(wt + ".chk", "check_%s.log" % p), "w").write(out)
        viol = re.findall(r"^VIOLATION property=\S+ replay=(\S+)(.*)$", out, flags=re.M)
        kinds = []
        for path, suffix in viol[:40]:
            pp = path.replace(os.path.join(V, "replays"), os.path.join(wt + ".chk", "replays"))
            try:
                j = json.load(open(pp)); kinds.append({"kind": j.get("kind"), "what": j.get("what", "")[:200], "no_input": j.get("no_failing_input_found")})
            except Exception:
                kinds.append({"kind": "?", "what": path, "no_input": "no-failing-input-found" in suffix})
        res["checks"][p] = {"rc": r.returncode, "violations": len(viol), "wall_s": round(time.time() - t, 1),
                            "with_concrete_input": sum(1 for k in kinds if not k.get("no_input")),
                            "first": kinds[:6], "tail": out[-800:] if r.returncode not in (0, 1) else ""}
        print(name, p, "rc=%d violations=%d concrete=%d wall=%.0fs" % (r.returncode, len(viol), res["checks"][p]["with_concrete_input"], time.time() - t), flush=True)
finally:
    json.dump(res, open(os.path.join(d, "detection.json"), "w"), indent=1)
    if own:
        subprocess.run([os.path.join(M, "rmwt"), wt], capture_output=True)
        shutil.rmtree(wt + ".chk", ignore_errors=True)
