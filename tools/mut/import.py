#!/usr/bin/env python3
"""import.py <Cxx> <k>: copy a coordinator-validated seeded change from /tmp/mut/<Cxx>.out to /verif/seeded/<Cxx>-m<k>/"""
import json, os, shutil, sys
ID, K = sys.argv[1], sys.argv[2]
PID = ID[:3]
src = "/tmp/mut/%s.out" % ID
dst = os.path.join(os.path.dirname(os.path.dirname(os.path.dirname(os.path.abspath(__file__)))), "seeded", "%s-m%s" % (PID, K))
val = json.load(open(os.path.join(src, "validation.json")))
ok = (val["build_failures_excl_baseline"] == 0 and val["demo_rc_with_change"] != 0 and val["demo_rc_without_change"] == 0
      and not val["suite_failures_excl_baseline"])
if not ok and "--force" not in sys.argv:
    print("not valid:", val); sys.exit(1)
os.makedirs(dst, exist_ok=True)
for f in os.listdir(src):
    if f in ("patch.diff", "meta.json") or (f.endswith((".cc", ".hh", ".sh", ".py", ".txt")) and os.path.getsize(os.path.join(src, f)) < 200000):
        shutil.copy(os.path.join(src, f), dst)
meta = json.load(open(os.path.join(src, "meta.json")))
meta["coordinator_validation"] = dict(val, ran="tools/mut/validate.sh %s (agent's worktree re-diffed against patch.diff; incremental ninja -k 0 in a copy-on-write overlay of /repo/_build; demo with change; demo on clean worktree; full ctest -j8 --timeout 900; failing tests re-run alone once)" % ID,
    suite_note="baseline failures corecel/sys/MpiCommunicator* excluded")
meta["breaks_property"] = PID
meta["round"] = 4 if ID.endswith("b") else 3
json.dump(meta, open(os.path.join(dst, "meta.json"), "w"), indent=1)
print("imported", dst)
