#!/usr/bin/env python3
"""import_seeded.py <ID> <k>: copy a validated seeded change from /tmp/mut/<ID>/out/m<k> to /verif/seeded/<ID>-m<k>/"""
import json, os, re, shutil, sys
ID, K = sys.argv[1], sys.argv[2]
src = "/tmp/mut/%s/out/m%s" % (ID, K)
dst = "/verif/seeded/%s-m%s" % (ID, K)
os.makedirs(dst, exist_ok=True)
for f in ("patch.diff", "demo.cc", "build_and_run.sh"):
    if os.path.exists(os.path.join(src, f)):
        shutil.copy(os.path.join(src, f), dst)
for f in os.listdir(src):
    if f.endswith((".cc", ".hh", ".sh", ".json", ".txt", ".py")) and f not in ("meta.json",):
        if not os.path.exists(os.path.join(dst, f)):
            shutil.copy(os.path.join(src, f), dst)
meta = json.load(open(os.path.join(src, "meta.json")))
log = open(os.path.join(src, "validate.log")).read()
meta["coordinator_validation"] = {
    "ran": "/root/mut/validate.sh %s %s  (overlay of /repo: apply patch, ninja -k 0, demo, full ctest -j8, revert, rebuild, demo)" % (ID, K),
    "demo_rc_with_change": int(re.search(r"DEMO_WITH_RC=(\d+)", log).group(1)),
    "demo_rc_without_change": int(re.search(r"DEMO_WITHOUT_RC=(\d+)", log).group(1)),
    "suite_failures_with_change": re.findall(r"- (\S+) \((?:Failed|Timeout)\)", log),
    "suite_note": "MpiCommunicator* fail on the unchanged tree too (baseline always_fail / MPI disabled under the wrapper); app/celer-geo:cpu has a fixed 20 s timeout that is exceeded only under machine load",
}
meta["breaks_property"] = ID
json.dump(meta, open(os.path.join(dst, "meta.json"), "w"), indent=1)
print("imported", dst, meta["coordinator_validation"])
