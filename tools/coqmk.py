#!/usr/bin/env python3
"""Regenerate coq/_CoqProject + Makefile and build the given targets.
usage: tools/coqmk.py [targets...]   (default: all)"""
import sys, os
sys.path.insert(0, os.path.dirname(os.path.abspath(__file__)))
import vlib
c = vlib.Context("BASE")
c.coq_makefile()
t = sys.argv[1:]
rc, out = vlib.sh("timeout 3000 make -k -j%d %s" % (vlib.NCPU, " ".join(t)), cwd=vlib.COQDIR)
print(out[-6000:])
sys.exit(rc)
