#!/usr/bin/env python3
"""Build Coq targets (relative to coq/) with the concurrent-safe builder.
usage: tools/coqmk.py C15/SamplersProofs.vo ...   (no args: everything)"""
import sys, os
sys.path.insert(0, os.path.dirname(os.path.abspath(__file__)))
import vlib
c = vlib.Context("BASE")
t = sys.argv[1:] or [f + "o" for f in c._coq_files()]
ok, outs, failed = c.coq_make(t)
for k, v in outs.items():
    if v.strip():
        print("###", k); print(v[-6000:])
print("OK" if ok else "FAILED: %s" % failed)
sys.exit(0 if ok else 1)
