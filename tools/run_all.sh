#!/bin/bash
# run_all.sh [tier] [jobs] [ids...]: run every property's check, J at a time; logs in _work/runall/
cd "$(dirname "$0")/.."
TIER=${1:-quick}; J=${2:-4}; shift 2 2>/dev/null
IDS="$@"; [ -n "$IDS" ] || IDS=$(python3 -c "import json;print(' '.join(c['property_id'] for c in json.load(open('MANIFEST.json'))['checks']))")
mkdir -p _work/runall
printf '%s\n' $IDS | xargs -P $J -I{} bash -c 's=$(date +%s); ./check {} --tier '$TIER' > _work/runall/{}.'$TIER'.log 2>&1; rc=$?; echo "{} rc=$rc $(( $(date +%s)-s ))s viol=$(grep -c ^VIOLATION _work/runall/{}.'$TIER'.log) known=$(grep -c ^KNOWN-FINDING _work/runall/{}.'$TIER'.log)"'
