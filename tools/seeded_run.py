#!/usr/bin/env python3
"""seeded_run.py <seeded-dir-name> [--tier quick|thorough] [--also Cxx ...]
Apply /verif/seeded/<name>/patch.diff to a scratch worktree of /repo (SEED_WT, default /tmp/seedwt;
checks run with VERIF_REPO=<worktree> VERIF_BUILD=/verif/_build/mut, i.e. exactly as on /repo but isolated), run ./check for the property it
breaks (plus --also), record the outcome in seeded/<name>/detection.json, and
ALWAYS restore /repo (git checkout -- .) afterwards."""
import json, os, re, subprocess, sys, time
V = os.path.dirname(os.path.dirname(os.path.abspath(__file__)))
name = sys.argv[1]
tier = "quick"
also = []
a = sys.argv[2:]
while a:
    x = a.pop(0)
    if x == "--tier": tier = a.pop(0)
    elif x == "--also": also += a; a = []
d = os.path.join(V, "seeded", name)
meta = json.load(open(os.path.join(d, "meta.json")))
pid = meta.get("breaks_property") or name.split("-")[0]
WT = os.environ.get("SEED_WT", "/tmp/seedwt")
ENV = dict(os.environ, VERIF_REPO=WT, VERIF_BUILD=os.environ.get("SEED_BUILD", os.path.join(V, "_build", "mut")))
st = subprocess.run(["git", "-C", WT, "status", "--porcelain", "--untracked-files=no"], capture_output=True, text=True).stdout
if st.strip():
    print("refusing: worktree has local changes:\n" + st); sys.exit(2)
res = {"patch": name, "tier": tier, "checks": {}}
try:
    r = subprocess.run(["git", "-C", WT, "apply", os.path.join(d, "patch.diff")], capture_output=True, text=True)
    if r.returncode != 0:
        print("patch does not apply:", r.stderr); res["error"] = "patch does not apply: " + r.stderr; sys.exit(3)
    for p in [pid] + also:
        t = time.time()
        r = subprocess.run(["./check", p, "--tier", tier], cwd=V, capture_output=True, text=True, timeout=7200, env=ENV)
        out = r.stdout + r.stderr
        viol = re.findall(r"^VIOLATION property=\S+ replay=(\S+)(.*)$", out, flags=re.M)
        kinds = []
        for path, suffix in viol[:40]:
            try:
                j = json.load(open(path)); kinds.append({"kind": j.get("kind"), "what": j.get("what", "")[:200], "no_input": j.get("no_failing_input_found")})
            except Exception:
                kinds.append({"kind": "?", "what": path})
        res["checks"][p] = {"rc": r.returncode, "violations": len(viol), "wall_s": round(time.time() - t, 1),
                            "with_concrete_input": sum(1 for k in kinds if not k.get("no_input")),
                            "first": kinds[:6], "tail": out[-600:] if r.returncode not in (0, 1) else ""}
        print(name, p, "rc=%d violations=%d concrete=%d wall=%.0fs" % (r.returncode, len(viol), res["checks"][p]["with_concrete_input"], time.time() - t), flush=True)
finally:
    subprocess.run(["git", "-C", WT, "checkout", "--", "."])
    subprocess.run(["git", "-C", WT, "clean", "-fdq"])
    json.dump(res, open(os.path.join(d, "detection.json"), "w"), indent=1)
