#!/usr/bin/env python3
"""Write /verif/seeded/README.md: one row per seeded change with what the check reported."""
import json, os, glob
V = os.path.dirname(os.path.dirname(os.path.abspath(__file__)))
rows = []
for d in sorted(glob.glob(os.path.join(V, "seeded", "C*-m*"))):
    name = os.path.basename(d)
    try:
        meta = json.load(open(os.path.join(d, "meta.json")))
    except Exception:
        continue
    det = {}
    if os.path.exists(os.path.join(d, "detection.json")):
        det = json.load(open(os.path.join(d, "detection.json")))
    pid = meta.get("breaks_property", name.split("-")[0])
    c = det.get("checks", {}).get(pid, {})
    files = meta.get("files_changed")
    if isinstance(files, list):
        files = ", ".join(os.path.basename(str(f)) for f in files)
    kinds = sorted({k.get("kind") or "?" for k in c.get("first", [])})
    if not c:
        verdict = "not run"
    elif c.get("rc") == 1:
        verdict = "caught (%d violations, %d with a concrete input; %s)" % (c["violations"], c["with_concrete_input"], "/".join(kinds))
    elif c.get("rc") == 0:
        verdict = "MISSED"
    else:
        verdict = "check error rc=%s" % c.get("rc")
    summ = " ".join(str(meta.get("summary", "")).split())[:230]
    need = " ".join(str(meta.get("what_it_needs_to_manifest", "")).split())[:200]
    rows.append((name, pid, files, summ, need, verdict, c.get("wall_s", "")))
out = ["# Seeded breaking changes and what the checks report on them", "",
       "Each directory holds `patch.diff`, the author's demonstration (`demo.cc`, `build_and_run.sh`), `meta.json` "
       "(which property it breaks, what it needs to manifest, what was run to validate it: compiles, existing suite "
       "passes, demo fails with / passes without) and `detection.json` (outcome of `tools/seeded_run.py <name>`: "
       "the property's quick check run with the patch applied in an isolated worktree).", "",
       "| change | file(s) | what it does | needs | quick check |", "|---|---|---|---|---|"]
for r in rows:
    out.append("| %s | %s | %s | %s | %s |" % (r[0], r[2], r[3].replace("|", "/"), r[4].replace("|", "/"), r[5]))
n = len(rows); caught = sum(1 for r in rows if r[5].startswith("caught")); missed = [r[0] for r in rows if r[5] == "MISSED"]
out += ["", "Total %d, caught %d, missed %d%s." % (n, caught, len(missed), (": " + ", ".join(missed)) if missed else "")]
open(os.path.join(V, "seeded", "README.md"), "w").write("\n".join(out) + "\n")
print("Total %d, caught %d, missed %s" % (n, caught, missed))
