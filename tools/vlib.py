#!/usr/bin/env python3
"""Shared framework for the /verif checks (see DESIGN.md section 2).

A property's runner (props/Cxx/run.py) defines `run(ctx)`; `./check Cxx`
creates the Context, calls it, and `ctx.finish()` writes the evidence file,
prints KNOWN-FINDING / VIOLATION lines and sets the exit status.
"""
import hashlib
import json
import os
import random
import re
import shlex
import subprocess
import sys
import time

VERIF = os.path.dirname(os.path.dirname(os.path.abspath(__file__)))
REPO = os.environ.get("VERIF_REPO", "/repo")
COQDIR = os.path.join(VERIF, "coq")
BUILD = os.environ.get("VERIF_BUILD", os.path.join(VERIF, "_build", "rel"))
WORK = os.path.join(VERIF, "_work")
MINICONDA = "/root/miniconda"
NCPU = os.cpu_count() or 4

FORBIDDEN = re.compile(
    r"\b(Admitted|admit|Axiom|Axioms|Parameter|Parameters|Conjecture|Conjectures"
    r"|Admit Obligations|bypass_check|native_compute)\b|Unset\s+Guard|Unset\s+Positivity"
    r"|Unset\s+Universe|type-in-type|impredicative-set")

CMAKE_ARGS = [
    "-G", "Ninja", "-S", REPO, "-B", BUILD,
    "-DCMAKE_BUILD_TYPE=RelWithDebInfo", "-DCMAKE_CXX_FLAGS=-Wno-error",
    "-DBUILD_SHARED_LIBS=ON", "-DCELERITAS_BUILD_TESTS=ON",
    "-DCELERITAS_DEBUG=OFF", "-DCELERITAS_USE_MPI=ON",
    "-DCELERITAS_USE_OpenMP=ON", "-DCELERITAS_USE_PNG=ON",
    "-DCELERITAS_USE_Python=ON", "-DCELERITAS_USE_Geant4=OFF",
    "-DCELERITAS_USE_ROOT=OFF", "-DCELERITAS_USE_VecGeom=OFF",
    "-DCELERITAS_USE_HepMC3=OFF", "-DCELERITAS_USE_CUDA=OFF",
    "-DCELERITAS_USE_HIP=OFF", "-DCELERITAS_USE_Perfetto=OFF",
    "-DCELERITAS_BUILD_DOCS=OFF",
    "-DGTest_DIR=%s/lib/cmake/GTest" % MINICONDA,
    "-Dnlohmann_json_DIR=%s/share/cmake/nlohmann_json" % MINICONDA,
]

LIB_DIRS = {
    "corecel": "lib", "geocel": "lib", "orange": "lib", "celeritas": "lib",
    "testcel_harness": "test", "testcel_core": "test/corecel",
    "testcel_geocel": "test/geocel", "testcel_orange": "test/orange",
    "testcel_celeritas": "test/celeritas",
}


def sh(cmd, timeout=None, cwd=None, env=None, input=None):
    """Run a command (list or string); return (rc, stdout+stderr)."""
    if isinstance(cmd, str):
        cmd = ["bash", "-c", cmd]
    e = dict(os.environ)
    if env:
        e.update(env)
    try:
        p = subprocess.run(cmd, cwd=cwd, env=e, input=input, timeout=timeout,
                           stdout=subprocess.PIPE, stderr=subprocess.STDOUT,
                           text=True, errors="replace")
        return p.returncode, p.stdout
    except subprocess.TimeoutExpired as ex:
        out = ex.stdout or ""
        if isinstance(out, bytes):
            out = out.decode(errors="replace")
        return 124, out + "\n[timeout after %ss]" % timeout


# ---------------------------------------------------------------------------
# float helpers

def hexf(x):
    """Python float -> Coq primitive float literal (exact)."""
    import math
    if x != x:
        return "nan"
    if x == math.inf:
        return "infinity"
    if x == -math.inf:
        return "neg_infinity"
    if x == 0:
        return "(-0)" if math.copysign(1, x) < 0 else "0"
    h = float(x).hex()
    if h.startswith("-"):
        return "(%s)" % h
    return h


def close(a, b, rtol=1e-9, atol=0.0):
    import math
    if a is None or b is None:
        return a is b
    if isinstance(a, (list, tuple)) and isinstance(b, (list, tuple)):
        return len(a) == len(b) and all(close(x, y, rtol, atol) for x, y in zip(a, b))
    if isinstance(a, bool) or isinstance(b, bool) or isinstance(a, str) or isinstance(b, str):
        return a == b
    if isinstance(a, int) and isinstance(b, int):
        return a == b
    a = float(a)
    b = float(b)
    if a != a or b != b:
        return (a != a) and (b != b)
    if math.isinf(a) or math.isinf(b):
        return a == b
    return abs(a - b) <= atol + rtol * max(abs(a), abs(b))


# ---------------------------------------------------------------------------
# parser for values printed by Coq (`Eval vm_compute in ...`)

_TOK = re.compile(r"""\s*(?:
    (?P<num>[-+]?(?:0x[0-9a-fA-F.]+p[-+]?\d+|\d+\.?\d*(?:[eE][-+]?\d+)?))
  | (?P<id>[A-Za-z_][A-Za-z_0-9'.]*)
  | (?P<str>"(?:[^"]|"")*")
  | (?P<p>[\[\]();,])
)""", re.X)


def _tokens(s):
    s = re.sub(r"%[A-Za-z_0-9]+", "", s)
    pos = 0
    out = []
    while pos < len(s):
        if s[pos:].strip() == "":
            break
        m = _TOK.match(s, pos)
        if not m:
            raise ValueError("cannot tokenize Coq output at: %r" % s[pos:pos + 40])
        pos = m.end()
        if m.group("num") is not None:
            t = m.group("num")
            if t.lower().startswith(("0x", "-0x", "+0x")):
                out.append(("num", float.fromhex(t)))
            elif re.fullmatch(r"[-+]?\d+", t):
                out.append(("num", int(t)))
            else:
                out.append(("num", float(t)))
        elif m.group("id") is not None:
            out.append(("id", m.group("id")))
        elif m.group("str") is not None:
            out.append(("str", m.group("str")[1:-1].replace('""', '"')))
        else:
            out.append(("p", m.group("p")))
    return out


_CONSTS = {"true": True, "false": False, "None": None, "nil": [],
           "infinity": float("inf"), "neg_infinity": float("-inf"),
           "nan": float("nan"), "tt": ()}


def _parse_atom(t, i):
    k, v = t[i]
    if k == "num":
        return v, i + 1
    if k == "str":
        return v, i + 1
    if k == "id":
        if v in _CONSTS:
            return _CONSTS[v], i + 1
        return ("ctor", v), i + 1
    if v == "[":
        i += 1
        items = []
        if t[i] == ("p", "]"):
            return items, i + 1
        while True:
            x, i = _parse_app(t, i)
            items.append(x)
            if t[i] == ("p", ";"):
                i += 1
                continue
            if t[i] == ("p", "]"):
                return items, i + 1
            raise ValueError("bad list")
    if v == "(":
        i += 1
        items = []
        while True:
            x, i = _parse_app(t, i)
            items.append(x)
            if t[i] == ("p", ","):
                i += 1
                continue
            if t[i] == ("p", ")"):
                i += 1
                break
            raise ValueError("bad tuple")
        if len(items) == 1:
            return items[0], i
        return tuple(items), i
    raise ValueError("unexpected token %r" % (t[i],))


def _parse_app(t, i):
    """application: atom atom*  (Some x / constructor applications)."""
    head, i = _parse_atom(t, i)
    if isinstance(head, tuple) and len(head) == 2 and head[0] == "ctor":
        args = []
        while i < len(t) and not (t[i][0] == "p" and t[i][1] in "]);,"):
            a, i = _parse_atom(t, i)
            if isinstance(a, tuple) and len(a) == 2 and a[0] == "ctor":
                a = {"c": a[1], "a": []}
            args.append(a)
        if head[1] == "Some":
            return args[0], i
        if head[1] == "-" and args:
            return -args[0], i
        return {"c": head[1], "a": args}, i
    return head, i


def parse_coq_value(s):
    """Parse one value printed by Coq into Python data.

    lists -> list, tuples -> tuple, Some x -> x, None -> None, bools, ints,
    floats, other constructors -> {"c": name, "a": [args]}.
    """
    t = _tokens(s)
    v, i = _parse_app(t, 0)
    if i != len(t):
        raise ValueError("trailing tokens in Coq value: %r" % (t[i:i + 5],))
    return v


def split_eval_outputs(out):
    """Split coqc stdout into the values of successive `Eval ... in` commands."""
    vals = []
    cur = None
    for line in out.splitlines():
        if line.startswith("     = "):
            if cur is not None:
                vals.append(cur)
            cur = line[7:]
        elif line.startswith("     : "):
            if cur is not None:
                vals.append(cur)
                cur = None
        elif cur is not None:
            cur += " " + line.strip()
    if cur is not None:
        vals.append(cur)
    return vals


# ---------------------------------------------------------------------------

class Context:
    def __init__(self, pid, tier="quick", seed=None, replay=None):
        self.pid = pid
        self.tier = tier
        self.seed = int(seed if seed is not None else os.environ.get("VERIF_SEED", "1") or 1)
        self.rng = random.Random(self.seed * 1000003 + sum(map(ord, pid)))
        self.replay = replay
        self.t0 = time.time()
        self.work = os.path.join(WORK, pid)
        os.makedirs(self.work, exist_ok=True)
        os.makedirs(os.path.join(VERIF, "replays"), exist_ok=True)
        os.makedirs(os.path.join(VERIF, "evidence"), exist_ok=True)
        self.violations = []      # list of dict(kind, what, replay)
        self.known_hits = []
        self.obligations = []     # theorem names
        self.discharged = []
        self.axioms = {}          # theorem -> [axiom lines]
        self.trusted = []
        self.assumptions = []
        self.coverage = {}
        self.samples = []
        self.dist = {}
        self.evaluations = 0
        self.nontrivial = set()
        self.notes = []
        self.level = "proof"
        self.checker_cmds = []
        self.known = self._load_known()

    # -- bookkeeping ------------------------------------------------------
    def log(self, *a):
        print("[%s %6.1fs]" % (self.pid, time.time() - self.t0), *a, flush=True)

    def count(self, key, n=1):
        self.dist[key] = self.dist.get(key, 0) + n

    def sample(self, s, limit=6):
        if len(self.samples) < limit:
            self.samples.append(s)

    def case(self, key=None, nontrivial=True):
        """Register one evaluated case; key identifies distinct non-trivial ones."""
        self.evaluations += 1
        if nontrivial and key is not None:
            if not isinstance(key, (str, bytes)):
                key = json.dumps(key, sort_keys=True, default=str)
            if isinstance(key, str):
                key = key.encode()
            self.nontrivial.add(hashlib.sha1(key).digest()[:8])

    def _load_known(self):
        p = os.path.join(VERIF, "known_findings.json")
        if not os.path.exists(p):
            return []
        with open(p) as f:
            data = json.load(f)
        return [k for k in data.get("known", []) if k.get("property") == self.pid]

    # -- violations -------------------------------------------------------
    def violation(self, kind, what, replay, signature=None, no_input=False):
        """Report a violation candidate.

        signature: short string identifying the failing site/input class; a
        known finding suppresses it only if its `signature` equals this one.
        """
        for k in self.known:
            if signature is not None and k.get("signature") == signature:
                if not any(h["signature"] == signature for h in self.known_hits):
                    self.known_hits.append({"signature": signature, "what": k.get("what", what)})
                return
        body = {"property": self.pid, "kind": kind, "what": what, "seed": self.seed,
                "tier": self.tier, "signature": signature,
                "no_failing_input_found": bool(no_input), "replay": replay,
                "reproduce": "cd /verif && VERIF_SEED=%d ./check %s --tier %s" % (self.seed, self.pid, self.tier)}
        txt = json.dumps(body, indent=1, sort_keys=True, default=str)
        h = hashlib.sha1(txt.encode()).hexdigest()[:10]
        path = os.path.join(VERIF, "replays", "%s-%s.json" % (self.pid, h))
        with open(path, "w") as f:
            f.write(txt + "\n")
        self.violations.append({"kind": kind, "what": what, "path": path, "no_input": bool(no_input)})
        self.log("VIOLATION candidate:", kind, "-", what)

    # -- Coq --------------------------------------------------------------
    def coq_makefile(self):
        """(Re)generate _CoqProject + Makefile from the files present."""
        files = []
        for root, _, names in os.walk(COQDIR):
            for n in names:
                if n.endswith(".v") and not n.startswith("."):
                    rel = os.path.relpath(os.path.join(root, n), COQDIR)
                    if rel.startswith("scratch"):
                        continue
                    files.append(rel)
        files.sort()
        proj = "-Q . Celer\n-arg -w -arg -notation-overridden,-inexact-float,-deprecated\n" + "\n".join(files) + "\n"
        pp = os.path.join(COQDIR, "_CoqProject")
        old = open(pp).read() if os.path.exists(pp) else None
        if old != proj or not os.path.exists(os.path.join(COQDIR, "Makefile")):
            with open(pp, "w") as f:
                f.write(proj)
            rc, out = sh(["coq_makefile", "-f", "_CoqProject", "-o", "Makefile"], cwd=COQDIR)
            if rc != 0:
                raise RuntimeError("coq_makefile failed: " + out)

    def scan_forbidden(self, relfiles):
        hits = []
        for rel in relfiles:
            p = os.path.join(COQDIR, rel)
            if not os.path.exists(p):
                continue
            txt = open(p).read()
            txt = re.sub(r"\(\*.*?\*\)", "", txt, flags=re.S)
            for m in FORBIDDEN.finditer(txt):
                hits.append("%s: %s" % (rel, m.group(0)))
        return hits


    # -- own parallel Coq builder (coqdep + coqc, per-file locks) ----------
    COQ_WARN = "-notation-overridden,-inexact-float,-deprecated,-extraction"

    def _coq_files(self):
        files = []
        for root, _, names in os.walk(COQDIR):
            for n in names:
                if n.endswith(".v") and not n.startswith("."):
                    rel = os.path.relpath(os.path.join(root, n), COQDIR)
                    if not rel.startswith("scratch"):
                        files.append(rel)
        return sorted(files)

    def _coq_depgraph(self):
        files = self._coq_files()
        rc, out = sh(["coqdep", "-Q", ".", "Celer"] + files, cwd=COQDIR)
        deps = {}
        for line in out.splitlines():
            if ":" not in line or line.startswith("***") or line.startswith("Warning"):
                continue
            lhs, rhs = line.split(":", 1)
            tg = [t for t in lhs.split() if t.endswith(".vo")]
            if not tg:
                continue
            ds = [d for d in rhs.split() if d.endswith(".vo") and not d.startswith("/")]
            deps[os.path.normpath(tg[0])] = [os.path.normpath(d) for d in ds]
        return deps

    def coq_make(self, targets, timeout=1500, force=()):
        """Build .vo targets (paths relative to coq/) and their dependencies in
        parallel. Safe to run concurrently from several processes (per-file
        flock). Returns (ok, {vo: output}, failed list)."""
        import fcntl
        from concurrent.futures import ThreadPoolExecutor
        deps = self._coq_depgraph()
        need = []
        def visit(t):
            if t in need:
                return
            for d in deps.get(t, []):
                visit(d)
            need.append(t)
        for t in targets:
            t = os.path.normpath(t)
            if t not in deps:
                return False, {t: "no such Coq target: " + t}, [t]
            visit(t)
        outputs, failed, done = {}, [], {}
        deadline = time.time() + timeout

        def build_one(t):
            for d in deps.get(t, []):
                if d in need and not done[d].result():
                    return False
            src = os.path.join(COQDIR, t[:-1])
            vo = os.path.join(COQDIR, t)
            with open(vo + ".lock", "w") as lf:
                fcntl.flock(lf, fcntl.LOCK_EX)
                fresh = os.path.exists(vo) and os.path.getmtime(vo) >= os.path.getmtime(src) and all(
                    os.path.exists(os.path.join(COQDIR, d)) and
                    os.path.getmtime(vo) >= os.path.getmtime(os.path.join(COQDIR, d)) for d in deps.get(t, []))
                if fresh and t not in force:
                    return True
                left = max(5, int(deadline - time.time()))
                rc, out = sh(["timeout", str(left), "coqc", "-w", self.COQ_WARN, "-Q", ".", "Celer", t[:-1]], cwd=COQDIR)
                outputs[t] = out
                if rc != 0:
                    try:
                        os.remove(vo)
                    except OSError:
                        pass
                    failed.append(t)
                    return False
                return True

        with ThreadPoolExecutor(max_workers=NCPU) as ex:
            for t in need:   # topological order: deps submitted first
                done[t] = ex.submit(build_one, t)
            ok = all(f.result() for f in done.values())
        return ok, outputs, failed

    def coq_deps(self, target_v):
        """Transitive project-local dependencies (relative .v paths) of a file,
        from coqdep's graph (so every `From Celer Require Import A B.` form is followed)."""
        graph = self._coq_depgraph()
        seen = []
        todo = [os.path.normpath(target_v[:-2] + ".vo")]
        while todo:
            t = todo.pop()
            if t in seen:
                continue
            seen.append(t)
            todo += graph.get(t, [])
        return [t[:-1] for t in seen]

    def coq_prove(self, props_file, timeout=1500):
        """Build coq/<props_file> (a Properties_Cxx.v) and everything it needs.

        Obligations = the Theorems in props_file. Returns True if all
        discharged. Records axioms from `Print Assumptions`.
        """
        self.coq_makefile()
        src = open(os.path.join(COQDIR, props_file)).read()
        src_nc = re.sub(r"\(\*.*?\*\)", "", src, flags=re.S)
        thms = re.findall(r"^\s*(?:Theorem|Corollary)\s+([A-Za-z_][\w']*)", src_nc, flags=re.M)
        self.obligations += thms
        target = props_file[:-2] + ".vo"
        self.checker_cmds.append("cd /verif/coq && coq_makefile -f _CoqProject -o Makefile && make -j16 %s  (run by tools/vlib.py coq_make: same coqc commands, per-file locks)" % target)
        t = time.time()
        ok_, outs, failed = self.coq_make([target], timeout=timeout, force=(target,))
        rc = 0 if ok_ else 1
        out = "\n".join("### %s\n%s" % (k, v) for k, v in outs.items() if k != target) + "\n### %s\n%s" % (target, outs.get(target, ""))
        with open(os.path.join(self.work, "coq_build.log"), "w") as f:
            f.write(out)
        self.log("coq build of %s: ok=%s in %.1fs%s" % (props_file, ok_, time.time() - t, (" FAILED: %s" % failed) if failed else ""))
        deps = self.coq_deps(props_file)
        forb = self.scan_forbidden(deps)
        ok = rc == 0 and os.path.exists(os.path.join(COQDIR, target)) and not forb
        # axioms: parse Print Assumptions blocks in order
        blocks = self._assumption_blocks(outs.get(target, ""))
        pa = re.findall(r"Print\s+Assumptions\s+([A-Za-z_][\w']*)", src_nc)
        for name, blk in zip(pa, blocks):
            self.axioms[name] = blk
        if ok:
            missing = [t_ for t_ in thms if t_ not in pa]
            if missing:
                self.notes.append("theorems without Print Assumptions: %s" % missing)
            self.discharged += thms
        else:
            failing = re.findall(r'File "\./([^"]+)", line (\d+)', out) + [(f_, "?") for f_ in failed]
            detail = {"target": target, "rc": rc, "forbidden": forb,
                      "errors": failing[:5], "log_tail": out[-3000:]}
            self.broken_proof = detail
            # theorems in files that compiled are still discharged if the
            # props file itself failed after them -- be conservative: none.
        return ok

    @staticmethod
    def _assumption_blocks(out):
        blocks = []
        cur = None
        for line in out.splitlines():
            if line.startswith("Closed under the global context"):
                blocks.append([])
                cur = None
            elif line.startswith("Axioms:"):
                cur = []
                blocks.append(cur)
            elif cur is not None:
                if line.startswith((" ", "\t")):
                    if cur:
                        cur[-1] += " " + line.strip()
                elif re.match(r"^[A-Za-z_][\w.']*\s*(:|$)", line):
                    cur.append(line.strip())
                else:
                    cur = None
        return blocks

    def coq_eval(self, name, preamble, exprs, timeout=600, chunk=None):
        """Evaluate Gallina expressions with vm_compute; returns parsed values.

        preamble: text placed at the top of the file (Require Import ...).
        exprs: list of Gallina expression strings.
        Requires the imported .vo files to be built already (coq_prove or
        coq_build).
        """
        if chunk is None:
            chunk = max(1, len(exprs))
        results = []
        jobs = []
        for ci, start in enumerate(range(0, len(exprs), chunk)):
            part = exprs[start:start + chunk]
            fn = os.path.join(self.work, "%s_%d.v" % (name, ci))
            with open(fn, "w") as f:
                f.write(preamble + "\n")
                for e in part:
                    f.write("Eval vm_compute in (%s).\n" % e)
            jobs.append((fn, len(part)))
        procs = []
        for fn, n in jobs:
            # output goes to a file, not a pipe: a pipe fills up (64 KB) and
            # dead-locks when >= NCPU processes are waiting to be read
            of = open(fn + ".out", "w")
            procs.append((fn, n, of, subprocess.Popen(
                ["timeout", str(timeout), "coqc", "-w", "-notation-overridden,-inexact-float,-deprecated",
                 "-Q", COQDIR, "Celer", fn],
                cwd=self.work, stdout=of, stderr=subprocess.STDOUT, text=True)))
            while sum(1 for p in procs if p[3].poll() is None) >= NCPU:
                time.sleep(0.05)
        for fn, n, of, p in procs:
            p.wait()
            of.close()
            out = open(fn + ".out", errors="replace").read()
            if p.returncode != 0:
                raise RuntimeError("coqc failed on %s:\n%s" % (fn, out[-2000:]))
            vals = split_eval_outputs(out)
            if len(vals) != n:
                raise RuntimeError("expected %d values from %s, got %d" % (n, fn, len(vals)))
            results += [parse_coq_value(v) for v in vals]
        return results

    def coq_build(self, targets, timeout=1500):
        ok, outs, failed = self.coq_make(list(targets), timeout=timeout)
        out = "\n".join("### %s\n%s" % kv for kv in outs.items())
        with open(os.path.join(self.work, "coq_build_model.log"), "w") as f:
            f.write(out)
        return ok, out

    def ocaml_extract(self, extract_v, driver_ml, exe, modname):
        """Run coq/<extract_v> (which does `Extraction "<modname>.ml" ...` into cwd)
        then compile with driver_ml (absolute path) into self.work/exe."""
        d = os.path.join(self.work, "ocaml")
        os.makedirs(d, exist_ok=True)
        rc, out = sh(["timeout", "600", "coqc", "-w", "-notation-overridden,-extraction",
                      "-Q", COQDIR, "Celer", os.path.join(COQDIR, extract_v)], cwd=d)
        if rc != 0:
            raise RuntimeError("extraction failed:\n" + out[-3000:])
        sh(["cp", driver_ml, os.path.join(d, "driver.ml")])
        rc, out = sh(["ocamlfind", "ocamlopt", "-O3", "-w", "-a", modname + ".mli", modname + ".ml",
                      "driver.ml", "-o", exe], cwd=d)
        if rc != 0:
            rc, out = sh(["ocamlfind", "ocamlopt", "-w", "-a", modname + ".mli", modname + ".ml",
                          "driver.ml", "-o", exe], cwd=d)
        if rc != 0:
            raise RuntimeError("ocaml build failed:\n" + out[-3000:])
        return os.path.join(d, exe)

    # -- C++ --------------------------------------------------------------
    def ensure_configured(self):
        if not os.path.exists(os.path.join(BUILD, "build.ninja")):
            os.makedirs(BUILD, exist_ok=True)
            rc, out = sh(["cmake"] + CMAKE_ARGS, timeout=600)
            if rc != 0:
                raise RuntimeError("cmake configure failed:\n" + out[-3000:])

    def build_libs(self, libs, timeout=3000):
        """Incremental ninja build of celeritas libraries from /repo's tree."""
        self.ensure_configured()
        os.makedirs(os.path.dirname(BUILD.rstrip("/")) or "/", exist_ok=True)
        lock = BUILD.rstrip("/") + ".ninja.lock"   # one lock per build directory
        import fcntl
        with open(lock, "w") as lf:
            fcntl.flock(lf, fcntl.LOCK_EX)
            t = time.time()
            rc, out = sh(["ninja", "-C", BUILD] + list(libs), timeout=timeout)
            self.log("ninja %s: rc=%d in %.1fs" % (" ".join(libs), rc, time.time() - t))
        if rc != 0:
            with open(os.path.join(self.work, "ninja.log"), "w") as f:
                f.write(out)
            raise BuildError("library build failed", out[-4000:])
        return True

    def cxx_flags(self, libs=(), test_includes=False, opt="-O1", extra=()):
        self.ensure_configured()
        fl = ["-std=c++17", opt, "-g0", "-fopenmp", "-Wno-deprecated-declarations",
              "-I%s/src" % REPO, "-I%s/include" % BUILD,
              "-isystem", "%s/include" % MINICONDA,
              "-isystem", "/usr/lib/x86_64-linux-gnu/openmpi/include"]
        if test_includes:
            fl += ["-I%s/test" % REPO, "-I%s/test" % BUILD]
        fl += list(extra)
        ld = []
        rp = set()
        for l in libs:
            d = os.path.join(BUILD, LIB_DIRS[l])
            ld += ["-L" + d, "-l" + l]
            rp.add(d)
        if any(l.startswith("testcel") for l in libs):
            ld += ["-L%s/lib" % MINICONDA, "-lgtest"]
            rp.add("%s/lib" % MINICONDA)
        if libs:
            # nlohmann is header only; MPI needed by corecel
            pass
        for d in sorted(rp):
            ld.append("-Wl,-rpath," + d)
        return fl, ld

    def compile_harness(self, srcs, exe, libs=(), test_includes=False, opt="-O1", extra=(), timeout=900):
        fl, ld = self.cxx_flags(libs, test_includes, opt, extra)
        out_exe = os.path.join(self.work, exe)
        cmd = ["g++"] + fl + list(srcs) + ["-o", out_exe] + ld
        t = time.time()
        rc, out = sh(cmd, timeout=timeout)
        self.log("compiled %s: rc=%d in %.1fs" % (exe, rc, time.time() - t))
        if rc != 0:
            raise BuildError("harness compile failed: " + exe, out[-4000:])
        return out_exe

    def run_harness(self, exe, args=(), input=None, timeout=600, env=None):
        e = {"CELER_DISABLE_PARALLEL": "1", "CELER_LOG": "error", "OMP_NUM_THREADS": "1"}
        if env:
            e.update(env)
        rc, out = sh([exe] + list(args), input=input, timeout=timeout, env=e)
        return rc, out

    # -- finish -----------------------------------------------------------
    def finish(self):
        wall = time.time() - self.t0
        cov = dict(self.coverage)
        ax = sorted({a for v in self.axioms.values() for a in v})
        tb = ["Coq 8.16.1 kernel + vm_compute (no native_compute)"]
        prim = re.compile(r"^(PrimInt63\.|PrimFloat\.|Uint63\.|float\b|(add|sub|mul|div|opp|abs|sqrt|eqb|ltb|leb|compare|classify|of_uint63|normfr_mantissa|frshiftexp|ldshiftexp|next_up|next_down)\s*:)")
        tb += [("kernel primitive (Print Assumptions, not an axiom): " if prim.match(a) else "axiom (Print Assumptions): ") + a for a in ax]
        tb += self.trusted
        nobl = len(self.obligations)
        cov.update({
            "obligations": nobl,
            "discharged": len(self.discharged),
            "checker_cmd": " ; ".join(self.checker_cmds) or "n/a",
            "trusted_base": tb,
            "theorems": self.obligations,
            "axioms_per_theorem": self.axioms,
            "evaluations": self.evaluations,
            "distinct_nontrivial": len(self.nontrivial),
            "samples": self.samples or ["(no samples recorded)"],
            "input_distribution": self.dist,
            "notes": self.notes,
            "known_findings_hit": self.known_hits,
        })
        ev = {"property_id": self.pid, "tier": self.tier, "seed": self.seed,
              "level": self.level, "coverage": cov,
              "assumptions": self.assumptions, "wall_s": round(wall, 2),
              "violations": len(self.violations)}
        with open(os.path.join(VERIF, "evidence", self.pid + ".json"), "w") as f:
            json.dump(ev, f, indent=1, sort_keys=True, default=str)
            f.write("\n")
        for h in self.known_hits:
            print("KNOWN-FINDING: property=%s %s" % (self.pid, h["what"]))
        for v in self.violations:
            print("VIOLATION property=%s replay=%s%s" % (
                self.pid, v["path"], " no-failing-input-found" if v["no_input"] else ""))
        self.log("done: obligations=%d discharged=%d evaluations=%d distinct=%d violations=%d wall=%.1fs" % (
            nobl, len(self.discharged), self.evaluations, len(self.nontrivial), len(self.violations), wall))
        return 1 if self.violations else 0


class BuildError(Exception):
    def __init__(self, msg, log=""):
        super().__init__(msg)
        self.log = log
