#!/usr/bin/env python3
"""Assemble /verif/MANIFEST.json from props/*/manifest.json fragments."""
import json, os, glob
V = os.path.dirname(os.path.dirname(os.path.abspath(__file__)))
props = [json.loads(l) for l in open(os.path.join(V, "properties.jsonl"))]
checks, na = [], []
for p in props:
    pid = p["id"]
    frag = os.path.join(V, "props", pid, "manifest.json")
    if os.path.exists(frag) and os.path.exists(os.path.join(V, "props", pid, "READY")):
        f = json.load(open(frag))
        if f.get("not_applicable"):
            na.append({"property_id": pid, "reason": f["not_applicable"]})
            continue
        c = {"property_id": pid,
             "quick_cmd": "./check %s --tier quick" % pid,
             "thorough_cmd": "./check %s --tier thorough" % pid,
             "evidence_file": "/verif/evidence/%s.json" % pid,
             "replay_cmd_template": "cat {path}  # replay files carry the reproducing command",
             "engine": "coq-proof+correspondence",
             "level_claimed": {"category": "proof", "text": f["level_text"], "design_ref": "DESIGN.md section 5, %s" % pid},
             "level_note": f["level_note"],
             "technique": f.get("technique", "machine-checked proof in Coq 8.16 about a hand-written model + differential correspondence check of the model's executable definitions against the C++")}
        checks.append(c)
    else:
        na.append({"property_id": pid, "reason": "check not built yet in this round (planned in DESIGN.md section 5); not claimed"})
m = {"version": 1,
     "setup_cmd": "./setup.sh",
     "hooks": {"guard": "CELERITAS_VERIF_HOOKS", "enable": "no hooks are needed: all observation points are public API (DESIGN.md section 8)",
               "baseline_off_cmd": "cmake --build /repo/_build && ctest --test-dir /repo/_build -j8 --timeout 900",
               "source_commits": [], "add_only": True},
     "engines": [{"name": "coq-proof+correspondence", "path": "/verif/check",
                  "serves_properties": [c["property_id"] for c in checks],
                  "kind_free_text": "Coq 8.16 theorems about Gallina models (coq/), tied to /repo by translators (translators/) and by differential correspondence of the models' executable definitions (vm_compute / extracted OCaml) against harnesses compiled from /repo's working tree"}],
     "checks": checks,
     "not_applicable": na,
     "notes": "See DESIGN.md. Fix commits in /repo and known findings are listed in known_findings.json."}
json.dump(m, open(os.path.join(V, "MANIFEST.json"), "w"), indent=1)
print("checks:", [c["property_id"] for c in checks], "not claimed:", [n["property_id"] for n in na])
