#!/bin/bash
# run_coqchk.sh [jobs]: re-check every compiled Properties_Cxx.vo (and everything it depends on) with the
# independent checker coqchk and record the context summary (axioms, type-in-type, guard flags) in coqchk/.
cd "$(dirname "$0")/../coq"
J=${1:-4}
mkdir -p ../coqchk; : > ../coqchk/summary.txt
ls Properties_C*.v | sed 's/\.v$//' | xargs -P $J -I{} bash -c 'timeout 3000 coqchk -o -silent -Q . Celer Celer.{} > ../coqchk/{}.txt 2>&1; echo "{} rc=$?" | sed "s/Properties_//" >> ../coqchk/summary.txt'
sort -o ../coqchk/summary.txt ../coqchk/summary.txt
cat ../coqchk/summary.txt
