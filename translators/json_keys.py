#!/usr/bin/env python3
"""C19 translator: extract from the *current* celeritas source the literal
JSON keys used by every to_json / from_json pair of the ORANGE input codec,
plus the tables the model hard-codes (surface type names, storage extents,
visit_surface_type cases, logic and z-order characters, transform sizes), and
emit them as coq/Generated/C19_keys.v.  Properties_C19.v states
`keys_written subset keys_read` per struct and `model = source` for all of
them, so a key renamed or dropped on one side, or a table edited, breaks a
proof obligation.

An unrecognised source shape is reported in the returned "problems" list (the
caller turns it into a broken-tie VIOLATION); the generated file is still
written (with what could be extracted) so the failure shows up as unprovable
obligations rather than a crash.
"""
import os
import re
import sys


def strip_comments(s):
    s = re.sub(r"/\*.*?\*/", " ", s, flags=re.S)
    s = re.sub(r"//[^\n]*", " ", s)
    return s


def body_after(src, pos):
    """Text of the brace-balanced block starting at the first '{' after pos."""
    i = src.find("{", pos)
    if i < 0:
        return None
    depth = 0
    in_str = None
    j = i
    while j < len(src):
        c = src[j]
        if in_str:
            if c == "\\":
                j += 2
                continue
            if c == in_str:
                in_str = None
        elif c in "\"'":
            in_str = c
        elif c == "{":
            depth += 1
        elif c == "}":
            depth -= 1
            if depth == 0:
                return src[i:j + 1]
        j += 1
    return None


def find_function(src, sig_regex):
    m = re.search(sig_regex, src)
    if not m:
        return None
    return body_after(src, m.end() - 1 if src[m.end() - 1] == "{" else m.end())


KEY_PATTERNS = [
    r"\[\s*\"([^\"]+)\"\s*\]",                               # j["key"]
    r"\.\s*(?:at|find|contains|value|count)\s*\(\s*\"([^\"]+)\"",   # j.at("key") ...
    r"\{\s*\"([^\"]+)\"\s*,",                                # {"key", value} in initializer lists
]


def keys_in(body):
    """Literal keys in key position, in order of first appearance."""
    found = []
    text = body
    # for (char const* key : {"a", "b"}) loops: every literal is a key
    for m in re.finditer(r"for\s*\(\s*char const\s*\*\s*\w+\s*:\s*\{([^}]*)\}\s*\)", text):
        for k in re.finditer(r"\"([^\"]+)\"", m.group(1)):
            found.append((m.start() + k.start(), k.group(1)))
    text2 = re.sub(r"for\s*\(\s*char const\s*\*\s*\w+\s*:\s*\{([^}]*)\}\s*\)", lambda m: " " * len(m.group(0)), text)
    for pat in KEY_PATTERNS:
        for m in re.finditer(pat, text2):
            found.append((m.start(), m.group(1)))
    found.sort()
    out = []
    for _, k in found:
        if k not in out:
            out.append(k)
    return out


def extract(repo):
    problems = []
    P = lambda *a: os.path.join(repo, "src", *a)

    def read(path):
        try:
            return strip_comments(open(path).read())
        except OSError as e:
            problems.append("cannot read %s: %s" % (path, e))
            return ""

    io = read(P("orange", "OrangeInputIO.json.cc"))
    impl = read(P("orange", "detail", "OrangeInputIOImpl.json.cc"))
    utils = read(P("corecel", "io", "JsonUtils.json.cc"))
    types_cc = read(P("orange", "OrangeTypes.cc"))
    types_hh = read(P("orange", "OrangeTypes.hh"))
    traits = read(P("orange", "surf", "SurfaceTypeTraits.hh"))

    helpers = {}
    for name, text, sig in [
        ("get_bbox", io, r"\bBBox\s+get_bbox\s*\(\s*nlohmann::json const&\s*\w+\s*\)"),
        ("save_units", utils, r"\bvoid\s+save_units\s*\(\s*nlohmann::json&\s*\w+\s*\)"),
        ("check_units", utils, r"\bvoid\s+check_units\s*\(\s*nlohmann::json const&\s*\w+\s*,[^)]*\)"),
    ]:
        b = find_function(text, sig)
        if b is None:
            problems.append("helper %s not found" % name)
            helpers[name] = []
        else:
            helpers[name] = keys_in(b)
            if not helpers[name]:
                problems.append("helper %s: no keys recognised" % name)

    def with_helpers(body):
        ks = keys_in(body)
        for h, hk in helpers.items():
            if re.search(r"\b%s\s*\(" % h, body):
                for k in hk:
                    if k not in ks:
                        ks.append(k)
        return ks

    keys = {}
    structs = [("volume", "VolumeInput"), ("unit", "UnitInput"), ("rectarray", "RectArrayInput"),
               ("tolerance", r"Tolerance<T>"), ("input", "OrangeInput")]
    for name, ty in structs:
        wb = find_function(io, r"\bvoid\s+to_json\s*\(\s*nlohmann::json&\s*\w+\s*,\s*%s const&\s*\w+\s*\)" % ty)
        rb = find_function(io, r"\bvoid\s+from_json\s*\(\s*nlohmann::json const&\s*\w+\s*,\s*%s&\s*\w+\s*\)" % ty)
        if wb is None:
            problems.append("to_json(%s) not found" % ty)
        if rb is None:
            problems.append("from_json(%s) not found" % ty)
        w = with_helpers(wb) if wb else []
        r = with_helpers(rb) if rb else []
        if wb is not None and not w:
            problems.append("to_json(%s): no keys recognised" % ty)
        if rb is not None and not r:
            problems.append("from_json(%s): no keys recognised" % ty)
        keys[name] = (w, r)
    wb = find_function(impl, r"\bnlohmann::json\s+export_zipped_surfaces\s*\([^)]*\)")
    rb = find_function(impl, r"\bimport_zipped_surfaces\s*\(\s*nlohmann::json const&\s*\w+\s*\)")
    if wb is None or rb is None:
        problems.append("export/import_zipped_surfaces not found")
    keys["surfaces"] = (keys_in(wb) if wb else [], keys_in(rb) if rb else [])

    # axis keys of rect arrays are computed (to_char(ax)): record that both sides do so
    axis = {}
    for side, sig in (("write", r"\bvoid\s+to_json\s*\(\s*nlohmann::json&\s*\w+\s*,\s*RectArrayInput const&\s*\w+\s*\)"),
                      ("read", r"\bvoid\s+from_json\s*\(\s*nlohmann::json const&\s*\w+\s*,\s*RectArrayInput&\s*\w+\s*\)")):
        b = find_function(io, sig) or ""
        axis[side] = bool(re.search(r"std::string\s*\(\s*1\s*,\s*to_char\s*\(\s*ax\s*\)\s*\)", b))
    if not (axis["write"] and axis["read"]):
        problems.append("rect array axis keys (std::string(1, to_char(ax))) not recognised on both sides")

    # surface type names, in enum order
    names = []
    b = find_function(types_cc, r"\bchar const\*\s*to_cstring\s*\(\s*SurfaceType\s+\w+\s*\)")
    if b:
        names = re.findall(r"\"([a-z]+)\"", b)
    if not names:
        problems.append("to_cstring(SurfaceType) table not recognised")
    enum = []
    m = re.search(r"enum class SurfaceType[^{]*\{([^}]*)\}", types_hh)
    if m:
        enum = [e.strip().split("=")[0].strip() for e in m.group(1).split(",") if e.strip()]
        enum = [e for e in enum if e != "size_"]
    if enum != names:
        problems.append("SurfaceType enum %r and to_cstring table %r differ" % (enum, names))

    # storage extents through the traits table
    arity = []
    cls = dict(re.findall(r"ORANGE_SURFACE_TRAITS\(\s*(\w+)\s*,\s*(\w+)", traits))
    for n in names:
        c = cls.get(n)
        ext = None
        if c:
            h = read(P("orange", "surf", c + ".hh"))
            mm = re.search(r"using\s+StorageSpan\s*=\s*Span<\s*(?:const\s+)?real_type(?:\s+const)?\s*,\s*(\d+)\s*>", h)
            if mm:
                ext = int(mm.group(1))
        if ext is None:
            problems.append("storage extent of surface type %s not found" % n)
            ext = 0
        arity.append(ext)

    # visit_surface_type cases
    visit = []
    b = find_function(traits, r"\bvisit_surface_type\s*\(\s*F&&\s*\w+\s*,\s*SurfaceType\s+\w+\s*\)")
    if b:
        visit = re.findall(r"ORANGE_ST_VISIT_CASE\(\s*(\w+)\s*\)", b)
        visit = [v for v in visit if v != "TYPE"]
    if not visit:
        problems.append("visit_surface_type cases not recognised")

    # logic characters: writer table and reader switch
    m = re.search(r"is_operator_token\(tok\)\s*\?\s*\"([^\"]*)\"\s*\[\s*tok\s*-\s*lbegin\s*\]", types_hh)
    logic_chars = m.group(1) if m else ""
    if not m:
        problems.append("logic::to_char table not recognised")
    m = re.search(r"enum OperatorToken[^{]*\{([^}]*)\}", types_hh)
    tok_order = []
    if m:
        for e in m.group(1).split(","):
            e = e.strip()
            if not e:
                continue
            nm = e.split("=")[0].strip()
            if nm in ("lbegin", "lend"):
                continue
            tok_order.append(nm)
    if tok_order[:1] != ["lopen"] or len(tok_order) != len(logic_chars):
        problems.append("OperatorToken enum not recognised: %r" % tok_order)
    b = find_function(impl, r"\bstring_to_logic\s*\(\s*std::string const&\s*\w+\s*\)")
    logic_read = re.findall(r"case\s*'(.)'\s*:\s*result\.push_back\(\s*logic::(\w+)\s*\)", b or "")
    if not logic_read:
        problems.append("string_to_logic switch not recognised")

    # z-order characters
    zw, zr = [], []
    b = find_function(types_cc, r"\bchar\s+to_char\s*\(\s*ZOrder\s+\w+\s*\)")
    if b:
        zw = re.findall(r"case\s+ZOrder::(\w+)\s*:\s*return\s*'(.)'", b)
    b = find_function(types_cc, r"\bZOrder\s+to_zorder\s*\(\s*char\s+\w+\s*\)")
    if b:
        zr = [(n, c) for c, n in re.findall(r"case\s*'(.)'\s*:\s*return\s+ZOrder::(\w+)", b)]
    if not zw or not zr:
        problems.append("to_char(ZOrder)/to_zorder tables not recognised")

    # transform sizes accepted by the reader and storage extents of the variants
    b = find_function(impl, r"\bVariantTransform\s+import_transform\s*\([^)]*\)")
    tsizes = [int(x) for x in re.findall(r"data\.size\(\)\s*==\s*(\d+)", b or "")]
    textents = []
    for c in ("NoTransformation", "Translation", "Transformation"):
        h = read(P("orange", "transform", c + ".hh"))
        mm = re.search(r"using\s+StorageSpan\s*=\s*Span<\s*real_type const\s*,\s*(\d+)\s*>", h)
        textents.append(int(mm.group(1)) if mm else -1)
    if tsizes != textents:
        problems.append("import_transform sizes %r differ from transform storage extents %r" % (tsizes, textents))

    return {"keys": keys, "names": names, "arity": arity, "visit": visit, "logic_chars": logic_chars,
            "tok_order": tok_order, "logic_read": logic_read, "zorder_write": zw, "zorder_read": zr,
            "transform_sizes": tsizes, "problems": problems}


def cstr(s):
    return '"' + s.replace('"', '""') + '"'


def clist(xs):
    return "[" + "; ".join(xs) + "]"


def render(ex):
    out = ["(* GENERATED by translators/json_keys.py from the current source; do not edit. *)",
           "From Coq Require Import List String.", "Import ListNotations.", "Local Open Scope string_scope.", ""]
    out.append("(* struct -> (keys written by to_json, keys read by from_json) *)")
    out.append("Definition source_keys : list (string * (list string * list string)) :=")
    rows = []
    for name in ("volume", "unit", "rectarray", "tolerance", "input", "surfaces"):
        w, r = ex["keys"].get(name, ([], []))
        rows.append("   (%s, (%s,\n      %s))" % (cstr(name), clist(map(cstr, w)), clist(map(cstr, r))))
    out.append("  [\n" + ";\n".join(rows) + "].")
    out.append("")
    out.append("Definition source_surface_names : list string := %s." % clist(map(cstr, ex["names"])))
    out.append("Definition source_surface_arity : list nat := %s%%nat." % clist(str(a) for a in ex["arity"]))
    out.append("Definition source_visit_cases : list string := %s." % clist(map(cstr, ex["visit"])))
    out.append("Definition source_logic_chars : string := %s." % cstr(ex["logic_chars"]))
    out.append("Definition source_logic_tokens : list string := %s." % clist(map(cstr, ex["tok_order"])))
    out.append("Definition source_logic_read : list (string * string) := %s." %
               clist("(%s, %s)" % (cstr(c), cstr(n)) for c, n in ex["logic_read"]))
    out.append("Definition source_zorder_write : list (string * string) := %s." %
               clist("(%s, %s)" % (cstr(n), cstr(c)) for n, c in ex["zorder_write"]))
    out.append("Definition source_zorder_read : list (string * string) := %s." %
               clist("(%s, %s)" % (cstr(n), cstr(c)) for n, c in ex["zorder_read"]))
    out.append("Definition source_transform_sizes : list nat := %s%%nat." % clist(str(a) for a in ex["transform_sizes"]))
    return "\n".join(out) + "\n"


def generate(repo, out_path):
    ex = extract(repo)
    text = render(ex)
    os.makedirs(os.path.dirname(out_path), exist_ok=True)
    old = open(out_path).read() if os.path.exists(out_path) else None
    if old != text:
        tmp = out_path + ".tmp%d" % os.getpid()
        with open(tmp, "w") as f:
            f.write(text)
        os.replace(tmp, out_path)
    return ex


if __name__ == "__main__":
    repo = sys.argv[1] if len(sys.argv) > 1 else os.environ.get("VERIF_REPO", "/repo")
    here = os.path.dirname(os.path.dirname(os.path.abspath(__file__)))
    ex = generate(repo, os.path.join(here, "coq", "Generated", "C19_keys.v"))
    for p in ex["problems"]:
        print("PROBLEM:", p)
    print(render(ex))
