#!/usr/bin/env python3
"""C06 translator: per-stream state fields and what (re)initialises them.

Reads /repo's *current* sources (VERIF_REPO overrides the root) and writes
coq/Generated/C06_fields.v with

  all_state_fields      every data member of the per-stream state structs
  init_primary_writes   fields written by InitTracksExecutor (geometry from position)
  init_secondary_writes fields written by InitTracksExecutor (geometry copied from parent)
  inplace_writes        fields written by ProcessSecondariesExecutor's in-place re-initialisation
  reseed_writes         fields written for EVERY slot by Stepper::reseed
  state_reset_writes    fields written by CoreState::reset
  shape_checks          (description, bool) for every source shape the parser relies on

A shape that is no longer recognised is reported as `false` (never silently
skipped): coq/C06/ResetComplete.v proves `shapes_all_ok` by vm_compute, so the
obligation breaks.  The translator never decides whether a field is "fine":
that is the Coq obligation `reset_complete`.

Usage: state_fields.py [out.v]      (also importable: generate(repo) -> dict)
"""
import json
import os
import re
import sys

REPO = os.environ.get("VERIF_REPO", "/repo")
VERIF = os.path.dirname(os.path.dirname(os.path.abspath(__file__)))
OUT = os.path.join(VERIF, "coq", "Generated", "C06_fields.v")


# --------------------------------------------------------------------------
# tiny C++ helpers

def strip_comments(s):
    s = re.sub(r"/\*.*?\*/", " ", s, flags=re.S)
    s = re.sub(r"//[^\n]*", "", s)
    return s


def read(repo, rel):
    with open(os.path.join(repo, "src", rel)) as f:
        return strip_comments(f.read())


def block_after(src, pos):
    """text of the {...} block whose '{' is the first one at or after pos"""
    i = src.index("{", pos)
    depth = 0
    for j in range(i, len(src)):
        if src[j] == "{":
            depth += 1
        elif src[j] == "}":
            depth -= 1
            if depth == 0:
                return src[i + 1:j]
    raise ValueError("unbalanced braces")


def struct_body(src, name):
    m = re.search(r"\b(?:struct|class)\s+%s\b[^;{]*\{" % re.escape(name), src)
    if not m:
        return None
    return block_after(src, m.start())


def top_level(body):
    """remove nested {...} blocks (method bodies, initialisers) from a struct body"""
    out = []
    depth = 0
    for ch in body:
        if ch == "{":
            depth += 1
            if depth == 1:
                out.append("{}")
        elif ch == "}":
            depth -= 1
        elif depth == 0:
            out.append(ch)
    return "".join(out)


def members(src, name):
    """data members of struct `name`: list of (type, identifier); None if not found"""
    body = struct_body(src, name)
    if body is None:
        return None
    flat = top_level(body)
    # a method body leaves "...) const {}" without ';' -> cut those away
    flat = re.sub(r"[^;{}]*\)\s*(?:const)?\s*(?:->\s*[\w:<>&\s]+)?\{\}", "", flat)
    res = []
    for stmt in flat.split(";"):
        st = " ".join(stmt.split())
        # drop access specifiers
        st = re.sub(r"^(?:(?:public|private|protected)\s*:\s*)+", "", st)
        if not st:
            continue
        if re.match(r"^(using|template|typedef|friend|static|explicit|enum|struct|class)\b", st):
            # "template<class T> using X = ..." spans up to the ';'
            continue
        if "(" in st or "operator" in st:
            continue
        m = re.match(r"^(.*?[\w>\]&\*])\s+(\w+)\s*(?:\{\}|=\s*[^;]+)?$", st)
        if m:
            res.append((m.group(1), m.group(2)))
    return res


def method_body(src, qualified_regex):
    """body of the out-of-class definition whose header matches the regex"""
    m = re.search(qualified_regex, src)
    if not m:
        return None
    return block_after(src, m.end() - 1 if src[m.end() - 1] == "{" else m.end())



def control_context(body, pos):
    """heads of the brace blocks enclosing position pos in a function body
    ('' for a plain block), outermost first"""
    stack = []
    start = 0
    for i, ch in enumerate(body[:pos]):
        if ch == "{":
            stack.append(" ".join(body[start:i].split()))
            start = i + 1
        elif ch == "}":
            if stack:
                stack.pop()
            start = i + 1
        elif ch == ";":
            start = i + 1
    return stack


def returns_before(body, pos):
    """for every `return` statement textually before pos: the list of enclosing
    block heads (the guard conditions under which it is taken)"""
    out = []
    for m in re.finditer(r"\breturn\b", body[:pos]):
        out.append(control_context(body, m.start()))
    return out


# --------------------------------------------------------------------------
# inventory of every per-stream state struct in the sources (round 3): a struct
# named *StateData*, or deriving from AuxStateInterface / AuxStateData, that is
# NOT in this table -- or whose member list differs from the one recorded here --
# is emitted as a FAILED shape check (C06_shapes_all_ok then fails: broken tie).
#   category "core":  reachable from celeritas::CoreStateData; its members are in
#                     all_state_fields and must be classified by reset_complete
#   category "aux":   per-stream auxiliary / user state outside CoreStateData (held in
#                     AuxStateVec or a StreamStore), with the reason why it cannot leak
#                     into the per-track step records of a later event
#   category "unused": other RNG / geometry back-end, device only, or not part of the
#                     celeritas::Stepper loop in this build
STATE_STRUCTS = {
    "celeritas/global/CoreTrackData.hh:CoreStateData": ("core", None, "members checked above"),
    "celeritas/track/SimData.hh:SimStateData": ("core", None, ""),
    "celeritas/phys/ParticleData.hh:ParticleStateData": ("core", None, ""),
    "celeritas/phys/PhysicsData.hh:PhysicsStateData": ("core", None, ""),
    "celeritas/em/data/AtomicRelaxationData.hh:AtomicRelaxStateData": ("core", None, ""),
    "celeritas/mat/MaterialData.hh:MaterialStateData": ("core", None, ""),
    "celeritas/track/TrackInitData.hh:TrackInitStateData": ("core", None, ""),
    "celeritas/random/XorwowRngData.hh:XorwowRngStateData": ("core", None, ""),
    "orange/OrangeData.hh:OrangeStateData": ("core", None, ""),
    "celeritas/track/ExtendFromPrimariesAction.hh:PrimaryStateData": (
        "aux", ["storage", "count"],
        "pending primaries of ONE Stepper call: insert_impl overwrites storage[0..count) and count "
        "(ExtendFromPrimariesAction.cc:167-176), step_impl consumes them and sets count = 0 (:190-195); "
        "entries beyond count are never read"),
    "celeritas/track/StatusCheckData.hh:StatusCheckStateData": (
        "aux", ["action", "order", "status", "post_step_action", "along_step_action"],
        "debug StatusChecker snapshot, an observer (C06_observer_invariance): it only throws; compared "
        "dynamically by the status-checker on/off replays"),
    "celeritas/user/StepData.hh:StepStateData": (
        "aux", ["data", "scratch", "valid_id", "stream_id"],
        "step-gather buffers: StepGatherExecutor rewrites track_id of EVERY slot each step (invalid id for "
        "inactive ones) and the other fields of the active ones before any reader sees them; the buffers ARE "
        "the step records compared bit-exactly by the replays"),
    "celeritas/user/StepData.hh:StepStateDataImpl": (
        "aux", ["points", "track_id", "detector", "event_id", "parent_id", "action_id", "track_step_count",
                "step_length", "particle", "energy_deposition"], "see StepStateData"),
    "celeritas/user/StepData.hh:StepPointStateData": (
        "aux", ["time", "pos", "dir", "volume_id", "energy"], "see StepStateData"),
    "celeritas/user/SimpleCaloData.hh:SimpleCaloStateData": (
        "aux", ["energy_deposition", "num_track_slots"],
        "user tally accumulating over events BY DESIGN (cleared by SimpleCalo::clear); written only, never read by the stepping loop"),
    "celeritas/user/ParticleTallyData.hh:ParticleTallyStateData": (
        "aux", ["counts"],
        "ActionDiagnostic / StepDiagnostic tallies accumulating over events by design; written only by the loop"),
    "celeritas/user/SlotDiagnostic.cc:SlotDiagnostic": (
        "aux", ["outfile", "buffer"], "diagnostic output file + scratch buffer rewritten every step; observer"),
    "celeritas/optical/detail/OffloadParams.hh:OpticalOffloadState": (
        "aux", ["store", "buffer_size"],
        "optical offload (Cerenkov/scintillation gather): only exists when optical offload actions are registered; "
        "none of the replayed problems registers them (an added member still trips this table)"),
    "celeritas/optical/OffloadData.hh:OffloadStateData": (
        "aux", ["step", "cerenkov", "scintillation", "offsets"], "see OpticalOffloadState"),
    "corecel/data/AuxStateData.hh:AuxStateData": (
        "aux", ["store_"], "generic holder (CollectionStateStore) of the aux structs listed here"),
    "celeritas/optical/CoreState.hh:CoreStateInterface": (
        "unused", [], "interface of the separate optical stepping loop (optical::CoreState), not reachable from celeritas::CoreStateData"),
    "celeritas/optical/CoreTrackData.hh:CoreStateData": (
        "unused", ["geometry", "particle", "physics", "rng", "sim", "init", "stream_id"],
        "optical::CoreStateData: state of the separate optical loop (own Stepper-less driver), not used by celeritas::Stepper"),
    "celeritas/optical/CoreTrackData.hh:PhysicsStateData": ("unused", [], "optical loop (empty placeholder)"),
    "celeritas/optical/ParticleData.hh:ParticleStateData": ("unused", ["energy", "polarization"], "optical loop"),
    "celeritas/optical/SimData.hh:SimStateData": (
        "unused", ["time", "step_length", "status", "post_step_action"], "optical loop"),
    "celeritas/optical/TrackInitData.hh:TrackInitStateData": ("unused", ["initializers", "vacancies"], "optical loop"),
    "celeritas/random/CuHipRngData.hh:CuHipRngStateData": ("unused", ["rng"], "device RNG; RngStateData aliases XorwowRngStateData (checked above)"),
    "geocel/g4/GeantGeoData.hh:GeantGeoStateData": (
        "unused", ["pos", "dir", "next_step", "safety_radius", "nav_state"], "Geant4 geometry back-end; GeoStateData aliases OrangeStateData (checked above)"),
    "geocel/vg/VecgeomData.hh:VecgeomStateData": (
        "unused", ["pos", "dir", "vgstate", "vgnext"], "VecGeom geometry back-end; GeoStateData aliases OrangeStateData (checked above)"),
    "geocel/rasterize/ImageData.hh:ImageStateData": ("unused", ["image"], "ray-trace imager, not part of transport"),
}
STATE_SCAN_DIRS = ("celeritas", "corecel", "orange", "geocel", "accel")


def scan_state_structs(repo):
    """every struct/class DEFINITION named *StateData* or deriving from AuxStateInterface /
    AuxStateData under src/: list of (key, member names)"""
    found = []
    for top in STATE_SCAN_DIRS:
        base = os.path.join(repo, "src", top)
        for dp, dn, fns in os.walk(base):
            dn.sort()
            for fn in sorted(fns):
                if not fn.endswith((".hh", ".cc", ".h", ".hpp")):
                    continue
                full = os.path.join(dp, fn)
                rel = os.path.relpath(full, os.path.join(repo, "src"))
                src = strip_comments(open(full, errors="replace").read())
                for m in re.finditer(r"\b(?:struct|class)\s+(\w+)\b([^;{()]*)\{", src):
                    name, base_cl = m.group(1), m.group(2)
                    aux = re.search(r":\s*(?:public\s+)?(?:\w+::)*AuxState(?:Interface|Data)\b", base_cl)
                    if "StateData" not in name and not aux:
                        continue
                    if name == "S":          # template parameter list of AuxStateData itself
                        mm = re.search(r"class\s+(\w+)\s+final\s*:", base_cl)
                        if not mm:
                            continue
                        name = mm.group(1)
                    ms = members(src[m.start():], m.group(1))
                    found.append(("%s:%s" % (rel, name), [n for _, n in ms or []]))
    return found

# --------------------------------------------------------------------------

def generate(repo=REPO):
    fields = []          # (group, name)
    checks = []          # (text, bool)

    def check(text, ok):
        checks.append((text, bool(ok)))
        return bool(ok)

    def add_members(group, rel, struct, expect_min=1):
        src = read(repo, rel)
        ms = members(src, struct)
        ok = check("struct %s found in %s with >= %d data members" % (struct, rel, expect_min),
                   ms is not None and len(ms) >= expect_min)
        for _, n in (ms or []):
            fields.append((group, n))
        return ms or []

    # ---- member lists ----------------------------------------------------
    core = add_members("core", "celeritas/global/CoreTrackData.hh", "CoreStateData", 9)
    core_names = [n for _, n in core]
    expected_sub = {"geometry": "GeoStateData", "materials": "MaterialStateData",
                    "particles": "ParticleStateData", "physics": "PhysicsStateData",
                    "rng": "RngStateData", "sim": "SimStateData", "init": "TrackInitStateData"}
    # every member of CoreStateData must be either a known sub-state or a known scalar
    known_core = set(expected_sub) | {"track_slots", "stream_id"}
    check("CoreStateData members are exactly the known sub-states (a new sub-state struct must be added to the translator): %s"
          % sorted(set(core_names) ^ known_core), set(core_names) == known_core)
    for t, n in core:
        if n in expected_sub:
            check("CoreStateData::%s has type %s" % (n, expected_sub[n]), expected_sub[n] in t)
    # the sub-state aggregates themselves are not leaf fields
    fields[:] = [f for f in fields if not (f[0] == "core" and f[1] in expected_sub)]

    add_members("sim", "celeritas/track/SimData.hh", "SimStateData", 10)
    add_members("particles", "celeritas/phys/ParticleData.hh", "ParticleStateData", 2)
    phys = add_members("physics", "celeritas/phys/PhysicsData.hh", "PhysicsStateData", 5)
    known_phys = {"state", "msc_step", "per_process_xs", "relaxation", "secondaries"}
    check("PhysicsStateData members are the known ones: %s" % sorted({n for _, n in phys} ^ known_phys),
          {n for _, n in phys} == known_phys)
    fields[:] = [f for f in fields if not (f[0] == "physics" and f[1] in ("state", "relaxation", "secondaries"))]
    add_members("physics.state", "celeritas/phys/PhysicsData.hh", "PhysicsTrackState", 7)
    add_members("physics.relaxation", "celeritas/em/data/AtomicRelaxationData.hh", "AtomicRelaxStateData", 2)
    add_members("physics.secondaries", "corecel/data/StackAllocatorData.hh", "StackAllocatorData", 2)
    mat = add_members("materials", "celeritas/mat/MaterialData.hh", "MaterialStateData", 2)
    check("MaterialStateData members are {state, element_scratch}", {n for _, n in mat} == {"state", "element_scratch"})
    fields[:] = [f for f in fields if not (f[0] == "materials" and f[1] == "state")]
    add_members("materials.state", "celeritas/mat/MaterialData.hh", "MaterialTrackState", 1)
    geofwd = read(repo, "celeritas/geo/GeoFwd.hh")
    check("GeoStateData aliases OrangeStateData (ORANGE build)",
          re.search(r"using\s+GeoStateData\s*=\s*OrangeStateData<W,\s*M>", geofwd))
    add_members("geometry", "orange/OrangeData.hh", "OrangeStateData", 18)
    add_members("init", "celeritas/track/TrackInitData.hh", "TrackInitStateData", 6)
    rngd = read(repo, "celeritas/random/RngData.hh")
    check("RngStateData aliases XorwowRngStateData", re.search(r"using\s+RngStateData\s*=\s*XorwowRngStateData<W,\s*M>", rngd))
    rng = add_members("rng", "celeritas/random/XorwowRngData.hh", "XorwowRngStateData", 1)
    check("XorwowRngStateData has the single member `state`", [n for _, n in rng] == ["state"])
    fields[:] = [f for f in fields if not (f[0] == "rng" and f[1] == "state")]
    add_members("rng.state", "celeritas/random/XorwowRngData.hh", "XorwowState", 2)
    add_members("counters", "celeritas/track/CoreStateCounters.hh", "CoreStateCounters", 6)
    cs = add_members("CoreState", "celeritas/global/CoreState.hh", "CoreState", 4)
    # states_ and counters_ are expanded above
    fields[:] = [f for f in fields if not (f[0] == "CoreState" and f[1] in ("states_", "counters_"))]
    check("CoreState owns states_ and counters_", {"states_", "counters_"} <= {n for _, n in cs})

    allf = set(fields)

    def writes_from(group, names, where):
        out = []
        for n in names:
            if (group, n) in allf:
                out.append((group, n))
            else:
                check("%s writes %s.%s which is not a known state field" % (where, group, n), False)
        return out

    # ---- SimTrackView / ParticleTrackView / PhysicsTrackView / MaterialTrackView initialisers
    def view_init(rel, cls, group, pattern, what):
        src = read(repo, rel)
        body = method_body(src, r"%s::operator=\s*\(\s*Initializer_t const&[^)]*\)\s*\{" % cls)
        if not check("%s::operator=(Initializer_t) found in %s" % (cls, rel), body is not None):
            return []
        names = re.findall(pattern, body)
        # every assignment statement in the body must be one we understood
        stmts = []
        for st in body.split(";"):
            st = re.sub(r"^(?:\s|\{|\}|if\s*\((?:[^()]|\([^()]*\))*\))*", "", st).strip()
            if st.startswith("CELER_") or st.startswith("return"):
                continue
            if re.search(r"(?<![=!<>])=(?!=)", st):
                stmts.append(st + ";")
        und = [s for s in stmts if not re.search(pattern, s)]
        check("%s: every assignment in the initialiser is of the recognised shape (%s); unrecognised: %r" % (cls, what, und[:3]), not und)
        return writes_from(group, sorted(set(names), key=names.index), cls + "::operator=")

    sim_w = view_init("celeritas/track/SimTrackView.hh", "SimTrackView", "sim",
                      r"states_\.(\w+)\[track_slot_\]\s*=[^=]", "states_.X[track_slot_] = ...")
    # conditional writes: `if (!states_.X.empty()) states_.X[..] = ` is a write whenever the array exists
    par_w = view_init("celeritas/phys/ParticleTrackView.hh", "ParticleTrackView", "particles",
                      r"states_\.(\w+)\[track_slot_\]\s*=[^=]", "states_.X[track_slot_] = ...")
    phy_w = view_init("celeritas/phys/PhysicsTrackView.hh", "PhysicsTrackView", "physics.state",
                      r"this->state\(\)\.(\w+)\s*=[^=]", "this->state().X = ...")
    msrc = read(repo, "celeritas/mat/MaterialTrackView.hh")
    mbody = method_body(msrc, r"MaterialTrackView::operator=\s*\(\s*Initializer_t const&[^)]*\)\s*\{")
    mat_w = []
    if check("MaterialTrackView::operator=(Initializer_t) assigns the whole MaterialTrackState (`this->state() = other`)",
             mbody is not None and re.search(r"this->state\(\)\s*=\s*other\s*;", mbody)):
        mat_w = [f for f in fields if f[0] == "materials.state"]
    check("MaterialTrackView::Initializer_t is MaterialTrackState", re.search(r"using\s+Initializer_t\s*=\s*MaterialTrackState\s*;", msrc))

    # ---- ORANGE initialisers ---------------------------------------------
    osrc = read(repo, "orange/OrangeTrackView.hh")
    lsa_src = read(repo, "orange/detail/LevelStateAccessor.hh")
    lsa_fields = sorted(set(re.findall(r"&\s*(\w+)\(\)\s*\{\s*return\s+states_->(\w+)\[", lsa_src)))
    check("LevelStateAccessor accessors map name() -> states_->name[...]: %s" % lsa_fields,
          lsa_fields and all(a == b for a, b in lsa_fields))
    lsa_names = [a for a, _ in lsa_fields]
    lsa_assign = method_body(lsa_src, r"LevelStateAccessor::operator=\s*\(\s*LevelStateAccessor const&[^)]*\)\s*\{")
    lsa_copy = re.findall(r"this->(\w+)\(\)\s*=\s*other\.\1\(\)", lsa_assign or "")
    check("LevelStateAccessor::operator= copies every accessor field", sorted(lsa_copy) == sorted(lsa_names))

    def setter_writes(name, args_regex=r"[^)]*"):
        b = method_body(osrc, r"OrangeTrackView::%s\s*\(%s\)\s*(?:const\s*)?\{" % (name, args_regex))
        if b is None:
            check("OrangeTrackView::%s setter found" % name, False)
            return []
        w = re.findall(r"states_\.(\w+)\[track_slot_\]\s*=[^=]", b)
        for callee in re.findall(r"this->(\w+)\(", b):
            if callee in ("next_step",):
                w += setter_writes_cached(callee + "_set")
        return w

    cache = {}

    def setter_writes_cached(key):
        if key in cache:
            return cache[key]
        table = {
            "level": ("level", r"\s*LevelId\s+\w+\s*"),
            "boundary": ("boundary", r"\s*BoundaryResult\s+\w+\s*"),
            "next_step_set": ("next_step", r"\s*real_type\s+\w+\s*"),
            "clear_surface": ("clear_surface", r"\s*"),
            "clear_next": ("clear_next", r"\s*"),
            "surface": ("surface", r"\s*LevelId\s+\w+\s*,\s*detail::OnLocalSurface\s+\w+\s*"),
        }
        nm, args = table[key]
        cache[key] = []
        cache[key] = setter_writes(nm, args)
        return cache[key]

    def orange_init(kind, header_regex):
        body = method_body(osrc, header_regex)
        if not check("OrangeTrackView::operator=(%s) found" % kind, body is not None):
            return []
        w = []
        for callee, has_arg in re.findall(r"this->(level|boundary|clear_surface|clear_next|surface)\(\s*([^)]?)", body):
            if callee in ("level", "boundary") and not has_arg:
                continue   # getter call
            w += setter_writes_cached(callee)
        # level-state accessor writes
        for a in lsa_names:
            if re.search(r"\blsa\.%s\(\)\s*=[^=]" % a, body):
                w.append(a)
        if re.search(r"\blsa\s*=\s*init\.other\.make_lsa\(", body):
            w += lsa_names
        # any direct states_ write
        w += re.findall(r"states_\.(\w+)\[track_slot_\]\s*=[^=]", body)
        seen = []
        for x in w:
            if x not in seen:
                seen.append(x)
        return writes_from("geometry", seen, "OrangeTrackView::operator=(%s)" % kind)

    geo_pos_w = orange_init("Initializer_t", r"OrangeTrackView::operator=\s*\(\s*Initializer_t const&[^)]*\)\s*\{")
    geo_par_w = orange_init("DetailedInitializer", r"OrangeTrackView::operator=\s*\(\s*DetailedInitializer const&[^)]*\)\s*\{")

    # ---- InitTracksExecutor ----------------------------------------------
    isrc = read(repo, "celeritas/track/detail/InitTracksExecutor.hh")
    ibody = method_body(isrc, r"InitTracksExecutor::operator\(\)\s*\(\s*ThreadId\s+\w+\s*\)\s*const\s*\{")
    init_primary, init_secondary = [], []
    if check("InitTracksExecutor::operator()(ThreadId) found", ibody is not None):
        s_sim = check("InitTracksExecutor: `vacancy.make_sim_view() = init.sim`", re.search(r"vacancy\.make_sim_view\(\)\s*=\s*init\.sim\s*;", ibody))
        s_par = check("InitTracksExecutor: `vacancy.make_particle_view() = init.particle`", re.search(r"vacancy\.make_particle_view\(\)\s*=\s*init\.particle\s*;", ibody))
        s_gpos = check("InitTracksExecutor: `geo = init.geo` (from position)", re.search(r"\bgeo\s*=\s*init\.geo\s*;", ibody))
        s_gpar = check("InitTracksExecutor: `geo = GeoTrackView::DetailedInitializer{parent_geo, ...}`",
                       re.search(r"\bgeo\s*=\s*GeoTrackView::DetailedInitializer\s*\{\s*parent_geo\s*,", ibody))
        s_mat = check("InitTracksExecutor: `vacancy.make_material_view() = {matid}`", re.search(r"vacancy\.make_material_view\(\)\s*=\s*\{\s*matid\s*\}\s*;", ibody))
        s_phy = check("InitTracksExecutor: `vacancy.make_physics_view() = {}`", re.search(r"vacancy\.make_physics_view\(\)\s*=\s*\{\s*\}\s*;", ibody))
        check("InitTracksExecutor: the sim/particle initialisation precedes every early return",
              ibody.find("make_particle_view() =") < (ibody.find("return;") if "return;" in ibody else len(ibody)))
        common = (sim_w if s_sim else []) + (par_w if s_par else []) + (mat_w if s_mat else []) + (phy_w if s_phy else [])
        init_primary = common + (geo_pos_w if s_gpos else [])
        init_secondary = common + (geo_par_w if s_gpar else [])

    psrc = read(repo, "celeritas/track/detail/ProcessSecondariesExecutor.hh")
    pbody = method_body(psrc, r"ProcessSecondariesExecutor::operator\(\)\s*\(\s*TrackSlotId\s+\w+\s*\)\s*const\s*\{")
    inplace = []
    if check("ProcessSecondariesExecutor::operator()(TrackSlotId) found", pbody is not None):
        if check("ProcessSecondariesExecutor in-place init: `sim = ti.sim`", re.search(r"\bsim\s*=\s*ti\.sim\s*;", pbody)):
            inplace += sim_w
        if check("ProcessSecondariesExecutor in-place init: `particle = ti.particle`", re.search(r"\bparticle\s*=\s*ti\.particle\s*;", pbody)):
            inplace += par_w
        if check("ProcessSecondariesExecutor in-place init: `phys = {}`", re.search(r"\bphys\s*=\s*\{\s*\}\s*;", pbody)):
            inplace += phy_w
        check("ProcessSecondariesExecutor in-place init: `geo = GeoTrackView::DetailedInitializer{geo, ...}` (same slot)",
              re.search(r"\bgeo\s*=\s*GeoTrackView::DetailedInitializer\s*\{\s*geo\s*,", pbody))

    # ---- reseed ------------------------------------------------------------
    ssrc = read(repo, "celeritas/global/Stepper.cc")
    sbody = method_body(ssrc, r"Stepper<M>::reseed\s*\(\s*UniqueEventId\s+\w+\s*\)\s*\{")
    reseed = []
    ok_rng = ok_ids = False
    if check("Stepper<M>::reseed found", sbody is not None):
        ok_rng = check("Stepper::reseed calls reseed_rng(params rng, state rng, stream, event)",
                       re.search(r"reseed_rng\s*\(\s*get_ref<M>\(\*params_->rng\(\)\)\s*,\s*state_->ref\(\)\.rng\s*,", sbody))
        ok_ids = check("Stepper::reseed calls init()->reset_track_ids(stream, &state init)",
                       re.search(r"params_->init\(\)->reset_track_ids\s*\(\s*state_->stream_id\(\)\s*,\s*&state_->ref\(\)\.init\s*\)", sbody))
    rsrc = read(repo, "celeritas/random/RngReseed.cc")
    rbody = method_body(rsrc, r"void\s+reseed_rng\s*\(\s*HostCRef<RngParamsData>[^)]*\)\s*\{")
    all_slots = False
    if check("host reseed_rng found", rbody is not None):
        c1 = check("reseed_rng: `ull_int size = state.size();`", re.search(r"ull_int\s+size\s*=\s*state\.size\(\)\s*;", rbody))
        c2 = check("reseed_rng: loop `for (TrackSlotId::size_type i = 0; i < size; ++i)` covers every slot",
                   re.search(r"for\s*\(\s*TrackSlotId::size_type\s+i\s*=\s*0\s*;\s*i\s*<\s*size\s*;\s*\+\+i\s*\)", rbody))
        c3 = check("reseed_rng: engine for slot i is assigned the initializer (`RngEngine engine(params, state, TrackSlotId{i}); engine = init;`)",
                   re.search(r"RngEngine\s+engine\s*\(\s*params\s*,\s*state\s*,\s*TrackSlotId\s*\{\s*i\s*\}\s*\)\s*;\s*engine\s*=\s*init\s*;", rbody))
        c4 = check("reseed_rng: seed = params.seed and subsequence = event_id * size + i",
                   re.search(r"init\.seed\s*=\s*params\.seed\s*;", rbody)
                   and re.search(r"init\.subsequence\s*=\s*event_id\.unchecked_get\(\)\s*\*\s*size\s*\+\s*i\s*;", rbody))
        check("reseed_rng: no early exit in the loop", not re.search(r"\b(break|continue|return)\b", rbody))
        all_slots = c1 and c2 and c3 and c4
    xsrc = read(repo, "celeritas/random/XorwowRngEngine.hh")
    xbody = method_body(xsrc, r"XorwowRngEngine::operator=\s*\(\s*Initializer_t const&[^)]*\)\s*\{")
    if check("XorwowRngEngine::operator=(Initializer_t) found", xbody is not None):
        five = all(re.search(r"\bs\[%d\]\s*=" % k, xbody) for k in range(5))
        c5 = check("XorwowRngEngine initialiser writes xorstate[0..4] (s = state_->xorstate)",
                   five and re.search(r"auto&\s*s\s*=\s*state_->xorstate\s*;", xbody))
        c6 = check("XorwowRngEngine initialiser writes weylstate", re.search(r"state_->weylstate\s*=[^=]", xbody))
        check("XorwowRngEngine initialiser seeds from init.seed only and skips by init.subsequence / init.offset",
              re.search(r"SplitMix64\s+rng\s*\{\s*init\.seed\[0\]\s*\}", xbody) and re.search(r"discard_subsequence\(init\.subsequence\)", xbody))
        if ok_rng and all_slots:
            reseed += writes_from("rng.state", (["xorstate"] if c5 else []) + (["weylstate"] if c6 else []), "reseed_rng")
    tsrc = read(repo, "celeritas/track/TrackInitParams.hh")
    tbody = method_body(tsrc, r"TrackInitParams::reset_track_ids\s*\([^)]*\)\s*const\s*\{")
    if check("TrackInitParams::reset_track_ids found", tbody is not None):
        c7 = check("reset_track_ids zero-fills ALL of track_counters",
                   re.search(r"Filler<size_type,\s*M>\s+fill_zero\s*\{\s*0\s*,\s*stream\s*\}\s*;", tbody)
                   and re.search(r"fill_zero\s*\(\s*state->track_counters\[AllItems<size_type,\s*M>\{\}\]\s*\)\s*;", tbody))
        if ok_ids and c7:
            reseed += writes_from("init", ["track_counters"], "reset_track_ids")

    # ---- CoreState::reset --------------------------------------------------
    csrc = read(repo, "celeritas/global/CoreState.cc")
    cbody = method_body(csrc, r"void\s+CoreState<M>::reset\s*\(\s*\)\s*\{")
    sreset = []
    if check("CoreState<M>::reset found", cbody is not None):
        if check("CoreState::reset: `counters_ = CoreStateCounters{}`", re.search(r"counters_\s*=\s*CoreStateCounters\s*\{\s*\}\s*;", cbody)):
            sreset += [f for f in fields if f[0] == "counters"]
        check("CoreState::reset: `counters_.num_vacancies = this->size()`", re.search(r"counters_\.num_vacancies\s*=\s*this->size\(\)\s*;", cbody))
        if check("CoreState::reset: every slot status set inactive", re.search(r"fill\s*\(\s*TrackStatus::inactive\s*,\s*&this->ref\(\)\.sim\.status\s*\)\s*;", cbody)):
            sreset += writes_from("sim", ["status"], "CoreState::reset")
        if check("CoreState::reset: vacancies refilled with the identity sequence", re.search(r"fill_sequence\s*\(\s*&this->ref\(\)\.init\.vacancies\s*,", cbody)):
            sreset += writes_from("init", ["vacancies"], "CoreState::reset")

    # ---- thread -> slot discipline (perm_invariance tie) --------------------
    tv = read(repo, "celeritas/global/CoreTrackView.hh")
    check("CoreTrackView(ThreadId) maps the thread through track_slots (or identity when empty)",
          re.search(r"track_slot_id_\s*=\s*TrackSlotId\s*\{\s*states_\.track_slots\.empty\(\)\s*\?\s*thread_id_\.get\(\)\s*:\s*states_\.track_slots\[thread_id_\]\s*\}", tv))
    check("CoreTrackView::make_rng_engine indexes the generator by the track SLOT",
          re.search(r"make_rng_engine\(\)\s*const\s*->\s*RngEngine\s*\{\s*return\s+RngEngine\s*\{\s*params_\.rng\s*,\s*states_\.rng\s*,\s*this->track_slot_id\(\)\s*\}", " ".join(tv.split())))
    for view, member in (("make_sim_view", "sim"), ("make_particle_view", "particles"), ("make_geo_view", "geometry"),
                         ("make_material_view", "materials"), ("make_physics_view", "physics"),
                         ("make_physics_step_view", "physics")):
        b = method_body(tv, r"CoreTrackView::%s\(\)\s*const\s*(?:->\s*\w+\s*)?\{" % view)
        check("CoreTrackView::%s uses states_.%s and this->track_slot_id()" % (view, member),
              b is not None and ("states_.%s" % member) in b and "this->track_slot_id()" in b)

    # ---- pre-step clearing of the per-step temporaries, on EVERY path a track that is
    #      still processed later can take (errored tracks go on to the tracking cut,
    #      the step gather and LocateAlive/ProcessSecondaries) -----------------------
    pre_src = read(repo, "celeritas/phys/detail/PreStepExecutor.hh")
    pre_body = method_body(pre_src, r"PreStepExecutor::operator\(\)\s*\(\s*celeritas::CoreTrackView const&\s*\w+\s*\)\s*\{")
    prestep_clears = []
    if check("PreStepExecutor::operator()(CoreTrackView const&) found", pre_body is not None):
        pre_nodebug = re.sub(r"#if\s+CELERITAS_DEBUG.*?#endif", "", pre_body, flags=re.S)
        inactive_guard = re.compile(r"^if \(sim\.status\(\) == TrackStatus::inactive\)$")
        for stmt, fld_name in ((r"step\.reset_energy_deposition\(\)\s*;", "energy_deposition"),
                               (r"step\.secondaries\(\s*\{\s*\}\s*\)\s*;", "secondaries"),
                               (r"step\.element\(\s*\{\s*\}\s*\)\s*;", "element")):
            ms = [m for m in re.finditer(stmt, pre_nodebug)]
            if not check("PreStepExecutor clears physics.state.%s exactly once outside the debug block" % fld_name, len(ms) == 1):
                continue
            pos = ms[0].start()
            ctxs = [h for h in control_context(pre_nodebug, pos) if h]
            uncond = check("PreStepExecutor: the clearing of %s is unconditional (enclosing blocks: %r)" % (fld_name, ctxs), not ctxs)
            rets = returns_before(pre_nodebug, pos)
            bad = [r_ for r_ in rets if not (len([h for h in r_ if h]) == 1 and inactive_guard.match([h for h in r_ if h][0]))]
            early = check("PreStepExecutor: the only `return` before the clearing of %s is the one for INACTIVE slots "
                          "(errored / initializing tracks are still read by tracking-cut, step gather, LocateAlive); offending guards: %r"
                          % (fld_name, bad), not bad)
            if uncond and early:
                prestep_clears += writes_from("physics.state", [fld_name], "PreStepExecutor")
        check("PreStepExecutor: `step` is the physics step view of the track (`auto step = track.make_physics_step_view();`)",
              re.search(r"auto\s+step\s*=\s*track\.make_physics_step_view\(\)\s*;", pre_nodebug))
    psv = read(repo, "celeritas/phys/PhysicsStepView.hh")
    for meth, fld_name, pat in (("reset_energy_deposition", "energy_deposition", r"this->state\(\)\.energy_deposition\s*=\s*0\s*;"),
                                ("secondaries", "secondaries", r"this->state\(\)\.secondaries\s*=\s*\w+\s*;"),
                                ("element", "element", r"this->state\(\)\.element\s*=\s*\w+\s*;")):
        b = None
        for m in re.finditer(r"PhysicsStepView::%s\s*\(([^)]*)\)\s*\{" % meth, psv):
            if meth == "reset_energy_deposition" or m.group(1).strip():
                b = block_after(psv, m.end() - 1)
                break
        check("PhysicsStepView::%s writes state().%s" % (meth, fld_name), b is not None and re.search(pat, b))
    tc = read(repo, "celeritas/phys/detail/TrackingCutExecutor.hh")
    check("TrackingCutExecutor ADDS to the step's energy deposition (`deposit_energy`), i.e. reads the pre-step value",
          re.search(r"make_physics_step_view\(\)\.deposit_energy\(", tc))
    ctv = read(repo, "celeritas/global/CoreTrackView.hh")
    ae = method_body(ctv, r"CoreTrackView::apply_errored\(\)\s*\{")
    check("apply_errored routes the track to the tracking cut (status errored, post-step action = tracking_cut_action)",
          ae is not None and re.search(r"sim\.status\(TrackStatus::errored\)", ae)
          and re.search(r"sim\.post_step_action\(this->tracking_cut_action\(\)\)", ae))

    # ---- explicit TrackSlotId constructions (anything that addresses a slot other than
    #      through CoreTrackView's thread->slot map) -------------------------------
    slot_ctor_files = []
    root = os.path.join(repo, "src", "celeritas")
    for dp, dns, fns in os.walk(root):
        dns.sort()
        if os.path.relpath(dp, root).split(os.sep)[0] == "ext":
            continue
        for fn in sorted(fns):
            if not fn.endswith((".hh", ".cc")):
                continue
            rel = os.path.relpath(os.path.join(dp, fn), os.path.join(repo, "src"))
            txt = strip_comments(open(os.path.join(dp, fn), errors="replace").read())
            n = 0
            for m in re.finditer(r"\bTrackSlotId\s*[{(]", txt):
                ctx_before = txt[max(0, m.start() - 12):m.start()]
                after = txt[m.end():m.end() + 2]
                if re.search(r"range\($", ctx_before) or after.startswith("}") or after.startswith(")"):
                    continue      # iteration bound / null id
                n += 1
            if n:
                slot_ctor_files.append((rel, str(n)))

    # ---- inventory of all state structs (unknown struct / changed member list = broken tie) ----
    inventory = []
    seen_keys = set()
    for key, names in scan_state_structs(repo):
        seen_keys.add(key)
        ent = STATE_STRUCTS.get(key)
        if ent is None:
            check("state struct %s (members %s) is classified in translators/state_fields.py STATE_STRUCTS" % (key, names), False)
            inventory.append((key, "UNKNOWN"))
            continue
        cat, expect, _why = ent
        inventory.append((key, cat))
        if expect is not None:
            check("state struct %s [%s] still has exactly the recorded members %s (found %s)" % (key, cat, expect, names),
                  names == expect)
    for key, (cat, _e, _w) in sorted(STATE_STRUCTS.items()):
        if cat != "unused":
            check("classified state struct %s is still present in the sources" % key, key in seen_keys)
    core_keys = sorted(k for k, v in STATE_STRUCTS.items() if v[0] == "core")
    check("the 'core' state structs are exactly the ones whose members are in all_state_fields",
          core_keys == sorted(["celeritas/global/CoreTrackData.hh:CoreStateData", "celeritas/track/SimData.hh:SimStateData",
                               "celeritas/phys/ParticleData.hh:ParticleStateData", "celeritas/phys/PhysicsData.hh:PhysicsStateData",
                               "celeritas/em/data/AtomicRelaxationData.hh:AtomicRelaxStateData", "celeritas/mat/MaterialData.hh:MaterialStateData",
                               "celeritas/track/TrackInitData.hh:TrackInitStateData", "celeritas/random/XorwowRngData.hh:XorwowRngStateData",
                               "orange/OrangeData.hh:OrangeStateData"]))

    return {
        "state_struct_inventory": inventory,
        "slot_ctor_files": slot_ctor_files,
        "prestep_clears": dedup(prestep_clears),
        "all_state_fields": fields,
        "init_primary_writes": dedup(init_primary),
        "init_secondary_writes": dedup(init_secondary),
        "inplace_writes": dedup(inplace),
        "reseed_writes": dedup(reseed),
        "state_reset_writes": dedup(sreset),
        "shape_checks": checks,
    }


def dedup(xs):
    out = []
    for x in xs:
        if x not in out:
            out.append(x)
    return out


# --------------------------------------------------------------------------

def coq_str(s):
    return '"' + s.replace('"', '""') + '"'


def coq_pairs(name, xs, comment):
    body = ";\n   ".join("(%s, %s)" % (coq_str(g), coq_str(n)) for g, n in xs)
    return "(* %s *)\nDefinition %s : list (string * string) :=\n  [%s].\n" % (comment, name, body)


def emit(data, repo=REPO):
    out = ["(* GENERATED by translators/state_fields.py from %s/src on every run of ./check C06 -- do not edit. *)" % repo,
           "From Coq Require Import String List Bool.", "Import ListNotations.", "Local Open Scope string_scope.", ""]
    out.append(coq_pairs("all_state_fields", data["all_state_fields"], "(group, member) of every per-stream state struct"))
    out.append(coq_pairs("init_primary_writes", data["init_primary_writes"], "InitTracksExecutor, geometry initialised from the position"))
    out.append(coq_pairs("init_secondary_writes", data["init_secondary_writes"], "InitTracksExecutor, geometry copied from the parent slot"))
    out.append(coq_pairs("inplace_writes", data["inplace_writes"], "ProcessSecondariesExecutor in-place re-initialisation (same slot as the parent)"))
    out.append(coq_pairs("reseed_writes", data["reseed_writes"], "Stepper::reseed, for EVERY slot / every event counter"))
    out.append(coq_pairs("state_reset_writes", data["state_reset_writes"], "CoreState::reset"))
    out.append(coq_pairs("prestep_clears", data["prestep_clears"],
                         "cleared by PreStepExecutor on every path of a non-inactive track (also errored ones)"))
    out.append(coq_pairs("slot_ctor_files", data["slot_ctor_files"],
                         "(file, number of explicit TrackSlotId{...} constructions) outside CoreTrackView's thread->slot map"))
    out.append(coq_pairs("state_struct_inventory", data.get("state_struct_inventory", []),
                         "(file:struct, category) of every *StateData* / AuxStateInterface struct found in the sources"))
    body = ";\n   ".join("(%s, %s)" % (coq_str(t), "true" if ok else "false") for t, ok in data["shape_checks"])
    out.append("(* source shapes the translator relies on *)\nDefinition shape_checks : list (string * bool) :=\n  [%s].\n" % body)
    return "\n".join(out)


def main(argv):
    out = argv[1] if len(argv) > 1 else OUT
    data = generate(REPO)
    os.makedirs(os.path.dirname(out), exist_ok=True)
    txt = emit(data)
    old = open(out).read() if os.path.exists(out) else None
    if old != txt:      # keep the mtime when nothing changed (no needless Coq rebuild)
        with open(out, "w") as f:
            f.write(txt)
    bad = [t for t, ok in data["shape_checks"] if not ok]
    print(json.dumps({"fields": len(data["all_state_fields"]), "failed_shapes": bad}, indent=1))
    return 0


if __name__ == "__main__":
    sys.exit(main(sys.argv))
