#!/usr/bin/env python3
"""C07 translator: inventory of memory cells that could be shared between streams.

Scans src/{corecel,celeritas,orange,geocel} (*.hh, *.cc) of /repo's CURRENT
sources (VERIF_REPO overrides the root) for

  mutable      `mutable` data members (writable through const params/actions)
  static       non-const function-local / class `static` and `thread_local` variables
  global       non-const namespace-scope variables
  begin_run    data members assigned inside begin_run / begin_run_impl of an action
               (non-const entry point called once per Stepper on the SHARED action)
  const_cast   const_cast<...> expressions (a way to write through shared const data)

and writes coq/Generated/C07_cells.v: `cells : list (string * string * string)`
= (file, identifier, kind).  The hand-reviewed guard table lives in
coq/C07/Cells.v; obligation `all_cells_guarded` fails for a cell that is not in
the table (a NEW shared mutable cell) and `guard_table_current` fails for a
table row that no longer exists.

Usage: shared_mutable.py [out.v]   (importable: generate(repo) -> list of cells)
"""
import json
import os
import re
import sys

REPO = os.environ.get("VERIF_REPO", "/repo")
VERIF = os.path.dirname(os.path.dirname(os.path.abspath(__file__)))
OUT = os.path.join(VERIF, "coq", "Generated", "C07_cells.v")
DIRS = ["corecel", "celeritas", "orange", "geocel"]
VAR_HEAD = re.compile(r"^(?:[A-Za-z_][\w:]*(?:<[^;{}]*>)?(?:\s*[\*&])*\s+)+(?:[A-Za-z_]\w*::)*[A-Za-z_]\w*(?:\s*\[[^\]]*\])*$")
SKIP_STMT = re.compile(r"^(using|typedef|template|class|struct|union|enum|extern|friend|namespace|return|static_assert|public|private|protected|case|default|goto|throw|delete|if|else|for|while|do|switch|try|catch|CELER_\w+|#)\b")


def strip(src):
    """remove comments, string/char literals and preprocessor lines (keeping line structure)"""
    out = []
    i, n = 0, len(src)
    while i < n:
        c = src[i]
        if src.startswith("//", i):
            j = src.find("\n", i)
            i = n if j < 0 else j
        elif src.startswith("/*", i):
            j = src.find("*/", i + 2)
            seg = src[i:(n if j < 0 else j + 2)]
            out.append("\n" * seg.count("\n"))
            i = n if j < 0 else j + 2
        elif c == 'R' and src.startswith('R"', i):
            m = re.match(r'R"([^(\s]*)\(', src[i:])
            if m:
                end = src.find(")" + m.group(1) + '"', i)
                seg = src[i:(n if end < 0 else end + len(m.group(1)) + 2)]
                out.append('""' + "\n" * seg.count("\n"))
                i += len(seg)
            else:
                out.append(c)
                i += 1
        elif c == '"' or c == "'":
            j = i + 1
            while j < n and src[j] != c:
                j += 2 if src[j] == "\\" else 1
            out.append(c + c)
            i = j + 1
        else:
            out.append(c)
            i += 1
    txt = "".join(out)
    # preprocessor lines (with continuations) -> blank, but keep macro bodies that declare statics
    lines = txt.split("\n")
    res = []
    cont = False
    for ln in lines:
        if cont or re.match(r"\s*#", ln):
            cont = ln.rstrip().endswith("\\")
            # keep the text of multi-line macro bodies (they may define statics), drop the directive itself
            res.append(re.sub(r"^\s*#\s*\w+", "", ln).rstrip("\\") if (cont or not re.match(r"\s*#", ln)) else "")
        else:
            res.append(ln)
    return "\n".join(res)


def is_const_decl(decl):
    """decl = text of a variable declaration up to its name (no initialiser)"""
    if re.search(r"\b(constexpr|CELER_CONSTEXPR\w*)\b", decl):
        return True
    toks = re.findall(r"\bconst\b|\*|&", decl)
    if "const" not in toks:
        return False
    if "*" not in toks:
        return True
    # pointer: the object itself is const only if a `const` follows the last '*'
    last_star = max(i for i, t in enumerate(toks) if t == "*")
    return "const" in toks[last_star + 1:]


def decl_name(decl):
    d = re.sub(r"\[[^\]]*\]", "", decl).strip()
    m = re.search(r"([A-Za-z_]\w*)\s*$", d)
    return m.group(1) if m else None


def scan_file(rel, src):
    cells = []
    txt = strip(src)
    # ---- mutable members and static / thread_local variables (keyword driven)
    for m in re.finditer(r"(?<![\w])(mutable|static|thread_local)\s", txt):
        kw = m.group(1)
        # statement text up to the first of ; = { (
        j = m.end()
        depth = 0
        while j < len(txt):
            ch = txt[j]
            if ch == "<":
                depth += 1
            elif ch == ">":
                depth = max(0, depth - 1)
            elif depth == 0 and ch in ";={(":
                break
            j += 1
        if j >= len(txt):
            continue
        decl = " ".join(txt[m.end():j].split())
        stop = txt[j]
        # `static` preceded by other specifiers on the same statement
        pre = txt[max(0, m.start() - 40):m.start()]
        if re.search(r"\b(constexpr|CELER_CONSTEXPR_FUNCTION)\s*$", pre):
            continue
        if stop == "(":
            continue            # function (or paren-initialised object: none non-const in this code base)
        if not decl or re.match(r"^(inline\s+)?(constexpr|CELER_CONSTEXPR\w*|CELER_FUNCTION|CELER_FORCEINLINE\w*|__forceinline__|void\b)", decl):
            if not re.match(r"^inline\s", decl) or re.match(r"^inline\s+(constexpr|CELER_)", decl):
                continue
        decl = re.sub(r"^(inline|static|thread_local)\s+", "", decl)
        decl = re.sub(r"^(inline|static|thread_local)\s+", "", decl)
        if kw != "mutable" and is_const_decl(decl):
            continue
        name = decl_name(decl)
        if not name or name in ("const", "operator"):
            continue
        kind = {"mutable": "mutable", "static": "static", "thread_local": "thread_local"}[kw]
        cells.append((rel, name, kind))
    # ---- namespace-scope variables without `static`
    stack = []     # True = namespace-like scope
    stmt_start = 0
    i = 0
    n = len(txt)
    paren = 0
    while i < n:
        ch = txt[i]
        if ch == "(":
            paren += 1
        elif ch == ")":
            paren = max(0, paren - 1)
        elif ch == "{" and paren == 0:
            head = " ".join(txt[stmt_start:i].split())
            is_ns = bool(re.search(r"(^|\s)namespace(\s+[\w:]+)?\s*$", head)) or bool(re.search(r'extern\s*""\s*$', head))
            if all(stack) and not is_ns and head and "(" not in head and not SKIP_STMT.match(head) and "=" not in head \
                    and not re.search(r"\b(class|struct|union|enum|operator)\b", head) and VAR_HEAD.match(head):
                # brace-initialised namespace-scope variable:  T name{...};
                if not is_const_decl(head) and not re.match(r"^(static|thread_local|inline)\b", head):
                    nm = decl_name(head)
                    if nm:
                        cells.append((rel, nm, "global"))
            stack.append(is_ns)
            stmt_start = i + 1
        elif ch == "}" and paren == 0:
            if stack:
                stack.pop()
            stmt_start = i + 1
        elif ch == ";" and paren == 0:
            if all(stack):
                st = " ".join(txt[stmt_start:i].split())
                head = st.split("=")[0].strip()
                if st and "(" not in head and not SKIP_STMT.match(st) and not re.match(r"^(static|thread_local|inline|mutable)\b", st) \
                        and VAR_HEAD.match(head) and not re.search(r"\boperator\b", head) and not is_const_decl(head):
                    nm = decl_name(head)
                    if nm:
                        cells.append((rel, nm, "global"))
            stmt_start = i + 1
        i += 1
    # ---- members assigned in begin_run / begin_run_impl
    for m in re.finditer(r"\b(\w+)::(begin_run(?:_impl)?)\s*\([^)]*\)\s*(const\s*)?\{", txt):
        if m.group(3):
            continue
        start = m.end() - 1
        depth = 0
        j = start
        while j < n:
            if txt[j] == "{":
                depth += 1
            elif txt[j] == "}":
                depth -= 1
                if depth == 0:
                    break
            j += 1
        body = txt[start:j]
        for w in sorted(set(re.findall(r"(?<![\w.>])(\w+_)\s*=(?!=)", body))):
            cells.append((rel, "%s::%s" % (m.group(1), w), "begin_run"))
    # ---- const_cast
    for m in re.finditer(r"\bconst_cast\s*<\s*([^;(]*?)\s*>\s*\(", txt):
        cells.append((rel, "const_cast<%s>" % " ".join(m.group(1).split()), "const_cast"))
    return cells


# round 3: the multi-stream driver (one Transporter / Stepper / CoreState per stream) is scanned
# too; paths are relative to src/ ("../app/celer-sim/...")
EXTRA_CELL_DIRS = ["../app/celer-sim"]


def generate(repo=REPO):
    cells = []
    for d in DIRS + EXTRA_CELL_DIRS:
        root = os.path.normpath(os.path.join(repo, "src", d))
        for dp, dns, fns in os.walk(root):
            dns.sort()
            for fn in sorted(fns):
                if not fn.endswith((".hh", ".cc", ".h")):
                    continue
                p = os.path.join(dp, fn)
                rel = os.path.relpath(p, os.path.join(repo, "src"))
                try:
                    src = open(p, errors="replace").read()
                except OSError:
                    continue
                cells += scan_file(rel, src)
    out = []
    for c in cells:
        if c not in out:
            out.append(c)
    return out



# --------------------------------------------------------------------------
# use sites of the accessors / RAII classes that WRITE unsynchronised global cells
# (cells whose guard is "only touched from single-threaded setup code")

UNSYNC_APIS = [
    # (api label, regex of a use, cell it writes)
    ("ScopedMem", r"\bScopedMem\s*(?:\w+\s*)?[({]", "corecel/sys/MemRegistry.cc:mr"),
    ("mem_registry()", r"\bmem_registry\s*\(\s*\)", "corecel/sys/MemRegistry.cc:mr"),
    ("environment()", r"\benvironment\s*\(\s*\)", "corecel/sys/Environment.cc:result"),
    ("activate_device", r"\bactivate_device(?:_local)?\s*\(", "corecel/sys/Device.cc:device"),
    ("kernel_registry()", r"\bkernel_registry\s*\(\s*\)", "corecel/sys/KernelRegistry.cc:kr"),
    ("logger-setter", r"\b(?:world_logger|self_logger)\s*\(\s*\)\s*\.\s*(?:level|handle)\s*\(\s*[^)\s]", "corecel/io/Logger.cc:logger"),
    ("ScopedMpiInit", r"\bScopedMpiInit\s+\w+\s*[({;]", "corecel/sys/ScopedMpiInit.cc:status_"),
]
CONTROL_KW = re.compile(r"^(if|for|while|switch|catch|else|do|try|return)\b")
PER_STREAM_CLASS = re.compile(r"^(CoreState|Stepper|AuxStateVec|StreamStore|CollectionStateStore|ActionSequence|Transporter|"
                              r"\w*(Executor|Applier|Launcher|Interactor|TrackView|StepView|GatherAction))(<[^>]*>)?$")
PER_STREAM_FUNC = {"step", "step_impl", "begin_run", "begin_run_impl", "create_state", "process_steps", "launch_action",
                   "launch_core", "launch_impl", "reseed", "reseed_rng", "resize", "warm_up", "kill_active", "reset",
                   "reset_state", "make_aux_state", "state", "state_ref", "execute", "accum", "simple_calo_accum"}
PER_STREAM_CALLABLE = re.compile(r"(Executor|Applier|Action|Interactor|Launcher|Stepper|Sampler|Distribution|Generator|Propagator)(<[^>]*>)?$")


def is_per_stream(func):
    """heuristic: is this (qualified) function executed once per stream / per step?"""
    parts = [q for q in re.split(r"::(?![^<]*>)", func) if q]
    if not parts:
        return False
    last = parts[-1]
    cls = parts[-2] if len(parts) > 1 else ""
    if any(PER_STREAM_CLASS.match(q) for q in parts[:-1]) or (cls and re.sub(r"<.*", "", cls) == re.sub(r"[~<].*", "", last.lstrip("~")) and PER_STREAM_CLASS.match(cls)):
        return True
    if last in PER_STREAM_FUNC:
        return True
    if last.startswith("operator()") and PER_STREAM_CALLABLE.search(cls or ""):
        return True
    return False


def use_sites(rel, src):
    """[(file, enclosing function, api, per_stream)] for every use of an unsynchronised-cell writer"""
    txt = strip(src)
    hits = []
    for api, rx, cell in UNSYNC_APIS:
        for m in re.finditer(rx, txt):
            hits.append((m.start(), api))
    if not hits:
        return []
    hits.sort()
    out = []
    stack = []            # (kind, name)
    last_func = {}        # nesting level -> name of the function block that closed last
    stmt_start = 0
    paren = 0
    hi = 0
    for i, ch in enumerate(txt):
        while hi < len(hits) and hits[hi][0] == i:
            api = hits[hi][1]
            hi += 1
            funcs = [n for k, n in stack if k == "function"]
            head = " ".join(txt[stmt_start:i].split())
            if funcs:
                where = funcs[0]
            elif any(k == "class" for k, n in stack):
                where = "(class scope) " + [n for k, n in stack if k == "class"][-1]
            else:
                # namespace scope: a declaration / definition header of the accessor itself,
                # or a constructor's initialiser list written out of class
                mctor = re.search(r"((?:[\w~]+(?:<[^<>]*>)?::)+~?\w+)\s*\(", head)
                if mctor and ":" in head.split(")")[-1]:
                    where = mctor.group(1)
                else:
                    continue
            out.append((rel, where, api, is_per_stream(where)))
        if ch == "(":
            paren += 1
        elif ch == ")":
            paren = max(0, paren - 1)
        elif ch == "{" and paren == 0:
            head = " ".join(txt[stmt_start:i].split())
            level = len(stack)
            in_func = any(k == "function" for k, n in stack)
            if in_func:
                stack.append(("block", ""))
            elif re.search(r"(^|\s)namespace(\s+[\w:]+)?\s*$", head) or re.search(r'extern\s*""\s*$', head):
                stack.append(("namespace", ""))
            elif "(" not in head and re.search(r"\b(class|struct|union)\s+(?:\w+\s+)*?(\w+)\s*(?:final\s*)?(?::[^{;]*)?$", head):
                mm = re.search(r"\b(class|struct|union)\s+(?:CELER\w*\s+)?(\w+)", head)
                stack.append(("class", mm.group(2)))
            elif "(" in head and not CONTROL_KW.match(head):
                mm = re.search(r"((?:[\w~]+(?:<[^<>()]*>)?::)*(?:operator\s*\(\s*\)|operator[^\s(]+|~?\w+))\s*\(", head)
                name = mm.group(1).replace(" ", "") if mm else "?"
                if name.startswith("operator()") or name.endswith("::operator()"):
                    pass
                cls = [n for k, n in stack if k == "class"]
                if cls and "::" not in name:
                    name = cls[-1] + "::" + name
                stack.append(("function", name))
            elif (head == "" or head.startswith(",")) and level in last_func:
                stack.append(("function", last_func[level]))      # rest of a ctor init list / its body
            else:
                stack.append(("other", ""))
            stmt_start = i + 1
        elif ch == "}" and paren == 0:
            if stack:
                k, n = stack.pop()
                if k == "function":
                    last_func[len(stack)] = n
                elif k != "block":
                    last_func.pop(len(stack), None)
            stmt_start = i + 1
        elif ch == ";" and paren == 0:
            if not any(k == "function" for k, n in stack):
                last_func.pop(len(stack), None)
            stmt_start = i + 1
    res = []
    for u in out:
        if u not in res:
            res.append(u)
    return res


def generate_uses(repo=REPO):
    uses = []
    for d in DIRS:
        root = os.path.join(repo, "src", d)
        for dp, dns, fns in os.walk(root):
            dns.sort()
            for fn in sorted(fns):
                if not fn.endswith((".hh", ".cc", ".h")):
                    continue
                p = os.path.join(dp, fn)
                rel = os.path.relpath(p, os.path.join(repo, "src"))
                try:
                    src = open(p, errors="replace").read()
                except OSError:
                    continue
                uses += use_sites(rel, src)
    return uses

def coq_str(s):
    return '"' + s.replace('"', '""') + '"'


def emit(cells, repo=REPO, uses=None):
    body = ";\n   ".join("(%s, %s, %s)" % (coq_str(f), coq_str(n), coq_str(k)) for f, n, k in cells)
    if uses is None:
        uses = generate_uses(repo)
    ubody = ";\n   ".join("(%s, %s, %s, %s)" % (coq_str(f), coq_str(fn), coq_str(a), "true" if ps else "false") for f, fn, a, ps in uses)
    return emit_cells(body, repo) + (
        "\n(* (file, enclosing function, api, on-a-per-stream-path?) of every use of an accessor / RAII class that\n"
        "   writes an UNSYNCHRONISED global cell (MemRegistry, Environment, Device, logger handles, ...) *)\n"
        "Definition unsync_uses : list (string * string * string * bool) :=\n  [%s].\n" % ubody)


def emit_cells(body, repo):
    return ("(* GENERATED by translators/shared_mutable.py from %s/src on every run of ./check C07 -- do not edit. *)\n"
            "From Coq Require Import String List.\nImport ListNotations.\nLocal Open Scope string_scope.\n\n"
            "(* (file, identifier, kind) of every potentially shared mutable cell *)\n"
            "Definition cells : list (string * string * string) :=\n  [%s].\n" % (repo, body))


def main(argv):
    out = argv[1] if len(argv) > 1 else OUT
    cells = generate(REPO)
    os.makedirs(os.path.dirname(out), exist_ok=True)
    uses = generate_uses(REPO)
    txt = emit(cells, REPO, uses)
    old = open(out).read() if os.path.exists(out) else None
    if old != txt:
        with open(out, "w") as f:
            f.write(txt)
    print(json.dumps({"cells": len(cells)}, indent=1))
    for c in cells:
        print("%-55s %-45s %s" % c)
    print("--- use sites of unsynchronised-cell writers")
    for u in uses:
        print("%-50s %-55s %-18s %s" % (u[0], u[1], u[2], "PER-STREAM" if u[3] else ""))
    return 0


if __name__ == "__main__":
    sys.exit(main(sys.argv))
