#!/usr/bin/env python3
"""C08 translator: celeritas field integrators -> coq/Generated/C08_steppers.v

Regenerates, from the *current* source tree on every run, the Gallina model of

  RungeKuttaStepper<E>::operator()   (rk_step)      src/celeritas/field/RungeKuttaStepper.hh
  RungeKuttaStepper<E>::do_step      (rk_do_step)
  DormandPrinceStepper<E>::operator() (dp_step)     src/celeritas/field/DormandPrinceStepper.hh

statement by statement: every `constexpr` scalar becomes a top-level
`Definition <prefix>_<name> : T` (so the proofs talk about the literal tableau
constants of the source), every `OdeState x = ...`, assignment and
`axpy(a, x, &y)` becomes one `let`.  The right-hand side functor `calc_rhs_` is
the section variable `rhs`.

The accepted statement language is tiny on purpose; anything else raises
TieError (reported by props/C08/run.py as a broken tie), never a crash:

  using ...;                                  ignored
  constexpr R|real_type NAME = SCALAR;        constant
  real_type NAME = SCALAR;                    scalar let
  result_type result;                         declares result.{mid,end,err}_state
  OdeState NAME;                              declaration only
  [OdeState] LHS = ODE;                       let
  LHS = {{0, 0, 0}, {0, 0, 0}};               zero state
  axpy(SCALAR, ODE, &LHS);                    LHS <- SCALAR * ODE + LHS
  return NAME;
  ODE    ::= NAME | result.F | calc_rhs_(ODE) | this->do_step(SCALAR, ODE, ODE)
  SCALAR ::= literal | NAME | R(SCALAR) | real_type(SCALAR) | SCALAR op SCALAR | -SCALAR | (SCALAR)

Integer/integer division (which C++ would truncate) is rejected.
"""
import os
import re
import sys
from fractions import Fraction


class TieError(Exception):
    pass


def _read(repo, rel):
    p = os.path.join(repo, "src", rel)
    try:
        with open(p) as f:
            return f.read()
    except OSError as e:
        raise TieError("cannot read %s: %s" % (rel, e))


def _strip(src):
    src = re.sub(r"/\*.*?\*/", " ", src, flags=re.S)
    src = re.sub(r"//[^\n]*", " ", src)
    return src


def _function(src, header_rx, what):
    """return (param string, body) of the function definition whose header
    matches header_rx (body = text between the matching braces)"""
    m = re.search(header_rx, src, flags=re.S)
    if not m:
        raise TieError("definition of %s not found" % what)
    i = m.end()
    # parameter list: from the '(' that ends the header match
    depth, j = 1, i
    while j < len(src) and depth:
        depth += {"(": 1, ")": -1}.get(src[j], 0)
        j += 1
    params = src[i:j - 1]
    k = src.find("{", j)
    semi = src.find(";", j)
    if k < 0 or (0 <= semi < k):
        raise TieError("%s: no body after the header" % what)
    depth, e = 1, k + 1
    while e < len(src) and depth:
        depth += {"{": 1, "}": -1}.get(src[e], 0)
        e += 1
    if depth:
        raise TieError("%s: unbalanced braces" % what)
    return params, src[k + 1:e - 1]


def _statements(body):
    out, depth, cur = [], 0, ""
    for ch in body:
        if ch in "({":
            depth += 1
        elif ch in ")}":
            depth -= 1
        if ch == ";" and depth == 0:
            out.append(" ".join(cur.split()))
            cur = ""
        else:
            cur += ch
    if cur.strip():
        raise TieError("trailing text after the last statement: %r" % cur.strip()[:60])
    return [s for s in out if s]


# --------------------------------------------------------------------------
# scalar expressions

_TOK = re.compile(r"\s*(?:(?P<num>(?:\d+\.\d*|\.\d+|\d+)(?:[eE][-+]?\d+)?)(?P<suf>[fFlL]?)"
                  r"|(?P<id>[A-Za-z_][A-Za-z_0-9]*(?:::[A-Za-z_][A-Za-z_0-9]*)*)"
                  r"|(?P<op>[-+*/(),]))")


def _tokens(s):
    pos, toks = 0, []
    s = s.strip()
    while pos < len(s):
        m = _TOK.match(s, pos)
        if not m:
            raise TieError("cannot tokenise scalar expression %r at %r" % (s, s[pos:pos + 20]))
        if m.group("num") is not None:
            toks.append(("num", m.group("num")))
        elif m.group("id") is not None:
            toks.append(("id", m.group("id")))
        else:
            toks.append(("op", m.group("op")))
        pos = m.end()
    return toks


class Scalar:
    """kind 'int' (value = python int, still an integer in C++) or 'real' (coq = Gallina text)"""

    def __init__(self, kind, coq=None, value=None):
        self.kind, self.coq, self.value = kind, coq, value

    def real(self):
        if self.kind == "real":
            return self.coq
        return "nofZ %d" % self.value if self.value >= 0 else "nofZ (%d)" % self.value


def _lit(text):
    if re.fullmatch(r"\d+", text):
        return Scalar("int", value=int(text))
    m = re.fullmatch(r"(\d*)\.?(\d*)(?:[eE]([-+]?\d+))?", text)
    if not m:
        raise TieError("literal %r" % text)
    fr = Fraction(int((m.group(1) or "0") + (m.group(2) or "")), 10 ** len(m.group(2) or ""))
    if m.group(3):
        fr *= Fraction(10) ** int(m.group(3))
    if fr.denominator == 1:
        return Scalar("real", "nofZ %d" % fr.numerator)
    # decimal literal: the nearest double to p/q, which is what nQ p q computes
    # (p and q must be exactly representable for that to hold)
    num = int((m.group(1) or "0") + (m.group(2) or ""))
    den = 10 ** len(m.group(2) or "")
    if m.group(3):
        e = int(m.group(3))
        if e >= 0:
            num *= 10 ** e
        else:
            den *= 10 ** (-e)
    if num >= 2 ** 53 or den >= 2 ** 53:
        raise TieError("decimal literal %r has too many digits for an exact p/q" % text)
    return Scalar("real", "nQ %d %d" % (num, den))


class ScalarParser:
    def __init__(self, text, env):
        self.t, self.i, self.env, self.text = _tokens(text), 0, env, text

    def peek(self):
        return self.t[self.i] if self.i < len(self.t) else (None, None)

    def eat(self, kind=None, val=None):
        k, v = self.peek()
        if k is None or (kind and k != kind) or (val and v != val):
            raise TieError("scalar expression %r: expected %s at token %d" % (self.text, val or kind, self.i))
        self.i += 1
        return v

    def parse(self):
        e = self.expr()
        if self.i != len(self.t):
            raise TieError("scalar expression %r: trailing tokens" % self.text)
        return e

    def expr(self):
        a = self.term()
        while self.peek() in (("op", "+"), ("op", "-")):
            op = self.eat()
            a = self.binop(op, a, self.term())
        return a

    def term(self):
        a = self.unary()
        while self.peek() in (("op", "*"), ("op", "/")):
            op = self.eat()
            a = self.binop(op, a, self.unary())
        return a

    def unary(self):
        if self.peek() == ("op", "-"):
            self.eat()
            a = self.unary()
            if a.kind == "int":
                return Scalar("int", value=-a.value)
            return Scalar("real", "(- %s)" % a.coq)
        if self.peek() == ("op", "+"):
            self.eat()
            return self.unary()
        return self.atom()

    def atom(self):
        k, v = self.peek()
        if k == "num":
            self.eat()
            return _lit(v)
        if k == "op" and v == "(":
            self.eat()
            a = self.expr()
            self.eat("op", ")")
            if a.kind == "real":
                return Scalar("real", "(%s)" % a.coq)
            return a
        if k == "id":
            self.eat()
            if v in ("R", "real_type") and self.peek() == ("op", "("):
                self.eat()
                a = self.expr()
                self.eat("op", ")")
                return Scalar("real", "(%s)" % a.real())
            if v in self.env:
                return Scalar("real", self.env[v])
            raise TieError("scalar expression %r: unknown name %r" % (self.text, v))
        raise TieError("scalar expression %r: unexpected token %r" % (self.text, v))

    def binop(self, op, a, b):
        if a.kind == "int" and b.kind == "int":
            if op == "/":
                raise TieError("scalar expression %r: integer/integer division" % self.text)
            return Scalar("int", value={"+": a.value + b.value, "-": a.value - b.value, "*": a.value * b.value}[op])
        return Scalar("real", "%s %s %s" % (a.real(), op, b.real()))


# --------------------------------------------------------------------------
# ODE-valued expressions and statements

def _split_args(s):
    out, depth, cur = [], 0, ""
    for ch in s:
        if ch in "({":
            depth += 1
        elif ch in ")}":
            depth -= 1
        if ch == "," and depth == 0:
            out.append(cur.strip())
            cur = ""
        else:
            cur += ch
    out.append(cur.strip())
    return out


class Fn:
    def __init__(self, name, prefix, params, body, ret, allow_do_step):
        self.name, self.prefix, self.ret, self.allow_do_step = name, prefix, ret, allow_do_step
        self.consts = []          # (coq name, coq expr)
        self.lets = []            # (coq name, coq expr)
        self.senv = {}            # C++ scalar name -> coq text
        self.odes = set()         # C++ ode names in scope (coq names are the same with . -> _)
        self.assigned = set()
        self.params = []
        for p in _split_args(params):
            m = re.fullmatch(r"real_type (\w+)", p)
            if m:
                self.senv[m.group(1)] = m.group(1)
                self.params.append("(%s : T)" % m.group(1))
                continue
            m = re.fullmatch(r"OdeState const ?& ?(\w+)", p)
            if m:
                self.odes.add(m.group(1))
                self.assigned.add(m.group(1))
                self.params.append("(%s : ode T)" % m.group(1))
                continue
            raise TieError("%s: parameter %r not recognised" % (name, p))
        self.result = None
        self.returned = None
        for st in _statements(body):
            if self.returned is not None:
                raise TieError("%s: statement after return: %r" % (name, st))
            self.stmt(st)
        if self.returned is None:
            raise TieError("%s: no return statement" % name)

    def scalar(self, text):
        return ScalarParser(text, self.senv).parse().real()

    def lhs(self, text, declare=False):
        m = re.fullmatch(r"result\.(mid_state|end_state|err_state)", text)
        if m:
            if self.result is None:
                raise TieError("%s: result used before its declaration" % self.name)
            return "result_" + m.group(1)
        if re.fullmatch(r"\w+", text):
            if declare:
                self.odes.add(text)
            if text not in self.odes:
                raise TieError("%s: assignment to unknown state %r" % (self.name, text))
            return text
        raise TieError("%s: left-hand side %r" % (self.name, text))

    def ode(self, text):
        text = text.strip()
        m = re.fullmatch(r"calc_rhs_ ?\((.*)\)", text)
        if m:
            return "rhs (%s)" % self.ode(m.group(1)) if " " in self.ode(m.group(1)) else "rhs %s" % self.ode(m.group(1))
        m = re.fullmatch(r"this ?-> ?do_step ?\((.*)\)", text)
        if m:
            if not self.allow_do_step:
                raise TieError("%s: unexpected call of do_step" % self.name)
            a = _split_args(m.group(1))
            if len(a) != 3:
                raise TieError("%s: do_step with %d arguments" % (self.name, len(a)))
            return "rk_do_step (%s) (%s) (%s)" % (self.scalar(a[0]), self.ode(a[1]), self.ode(a[2]))
        name = self.lhs(text)
        if name not in self.assigned:
            raise TieError("%s: state %r read before it is assigned" % (self.name, text))
        return name

    def let(self, name, expr):
        self.lets.append((name, expr))
        self.assigned.add(name)

    def stmt(self, st):
        if st.startswith("using "):
            return
        m = re.fullmatch(r"constexpr (?:R|real_type) (\w+) = (.*)", st)
        if m:
            cname = "%s_%s" % (self.prefix, m.group(1))
            if "step" in re.findall(r"\w+", m.group(2)):
                raise TieError("%s: constexpr %s depends on a parameter" % (self.name, m.group(1)))
            self.consts.append((cname, self.scalar(m.group(2))))
            self.senv[m.group(1)] = cname
            return
        m = re.fullmatch(r"real_type (\w+) = (.*)", st)
        if m:
            self.lets.append((m.group(1), self.scalar(m.group(2))))
            self.senv[m.group(1)] = m.group(1)
            return
        if st == "result_type result":
            self.result = True
            self.odes |= {"result_mid_state", "result_end_state", "result_err_state"}
            return
        m = re.fullmatch(r"OdeState (\w+)", st)
        if m:
            self.odes.add(m.group(1))
            return
        m = re.fullmatch(r"axpy ?\((.*)\)", st)
        if m:
            a = _split_args(m.group(1))
            if len(a) != 3 or not a[2].startswith("&"):
                raise TieError("%s: axpy call %r" % (self.name, st))
            tgt = self.lhs(a[2][1:].strip())
            if tgt not in self.assigned:
                raise TieError("%s: axpy onto unassigned state %r" % (self.name, a[2]))
            self.let(tgt, "oaxpy (%s) %s %s" % (self.scalar(a[0]), self.ode_atom(a[1]), tgt))
            return
        m = re.fullmatch(r"return (\w+)", st)
        if m:
            self.returned = m.group(1)
            if self.ret == "sres":
                if m.group(1) != "result":
                    raise TieError("%s: returns %r, expected result" % (self.name, m.group(1)))
                for f in ("result_mid_state", "result_end_state", "result_err_state"):
                    if f not in self.assigned:
                        raise TieError("%s: %s never assigned" % (self.name, f))
            elif m.group(1) not in self.assigned:
                raise TieError("%s: returns unassigned %r" % (self.name, m.group(1)))
            return
        m = re.fullmatch(r"(?:(OdeState) )?([\w.]+) = (.*)", st)
        if m:
            tgt = self.lhs(m.group(2), declare=bool(m.group(1)))
            rhs = m.group(3).strip()
            if re.fullmatch(r"\{ ?\{ ?0 ?, ?0 ?, ?0 ?\} ?, ?\{ ?0 ?, ?0 ?, ?0 ?\} ?\}", rhs):
                self.let(tgt, "ozero")
            else:
                self.let(tgt, self.ode(rhs))
            return
        raise TieError("%s: statement not recognised: %r" % (self.name, st[:80]))

    def ode_atom(self, text):
        e = self.ode(text)
        return "(%s)" % e if " " in e else e

    def emit(self):
        rt = "sres T" if self.ret == "sres" else "ode T"
        lines = ["  Definition %s %s : %s :=" % (self.name, " ".join(self.params), rt)]
        for n, e in self.lets:
            lines.append("    let %s := %s in" % (n, e))
        if self.ret == "sres":
            lines.append("    SRes result_mid_state result_end_state result_err_state.")
        else:
            lines.append("    %s." % self.returned)
        return lines


RK = "celeritas/field/RungeKuttaStepper.hh"
DP = "celeritas/field/DormandPrinceStepper.hh"


def translate(repo):
    rk = _strip(_read(repo, RK))
    dp = _strip(_read(repo, DP))
    p, b = _function(rk, r"RungeKuttaStepper\s*<\s*E\s*>\s*::\s*do_step\s*\(", "RungeKuttaStepper::do_step")
    f_do = Fn("rk_do_step", "rkd", p, b, "ode", False)
    p, b = _function(rk, r"RungeKuttaStepper\s*<\s*E\s*>\s*::\s*operator\s*\(\s*\)\s*\(", "RungeKuttaStepper::operator()")
    f_rk = Fn("rk_step", "rk", p, b, "sres", True)
    p, b = _function(dp, r"DormandPrinceStepper\s*<\s*E\s*>\s*::\s*operator\s*\(\s*\)\s*\(", "DormandPrinceStepper::operator()")
    f_dp = Fn("dp_step", "dp", p, b, "sres", False)
    out = ["(** GENERATED by translators/steppers.py from %s and %s" % (RK, DP),
           "    -- regenerated from the source tree on every run of props/C08/run.py; do not edit. *)",
           "From Coq Require Import ZArith List Bool.",
           "From Celer Require Import Base.Num Base.Vec3 C08.PropagatorModel C08.DriverModel C08.StepperBase.",
           "Local Open Scope num_scope.",
           "",
           "Section GenSteppers.",
           "  Context {T : Type} `{Num T}.",
           ""]
    for f in (f_do, f_rk, f_dp):
        for n, e in f.consts:
            out.append("  Definition %s : T := %s." % (n, e))
    out += ["", "  (** [calc_rhs_] *)", "  Variable rhs : ode T -> ode T.", ""]
    for f in (f_do, f_rk, f_dp):
        out += f.emit() + [""]
    out += ["End GenSteppers.", ""]
    names = [n for f in (f_do, f_rk, f_dp) for n, _ in f.consts]
    return "\n".join(out), names


def write_if_changed(path, text):
    try:
        with open(path) as f:
            if f.read() == text:
                return False
    except OSError:
        pass
    tmp = path + ".tmp%d" % os.getpid()
    with open(tmp, "w") as f:
        f.write(text)
    os.replace(tmp, path)
    return True


if __name__ == "__main__":
    repo = sys.argv[1] if len(sys.argv) > 1 else os.environ.get("VERIF_REPO", "/repo")
    text, names = translate(repo)
    if len(sys.argv) > 2:
        print("written" if write_if_changed(sys.argv[2], text) else "unchanged", sys.argv[2])
    else:
        print(text)
