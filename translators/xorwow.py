#!/usr/bin/env python3
"""C13 translator: celeritas XORWOW sources -> coq/Generated/C13_tables.v

Extracts from the *current* source tree (every run):
  XorwowRngParams.cc        both 32 x 5-word jump tables
  XorwowRngEngine.hh        next() shift amounts, Weyl increments (operator()
                            and discard), digit mask/shift of jump(count,..),
                            bit order of jump(JumpPoly), SplitMix64 constants,
                            shape of operator=(Initializer)
  XorwowRngData.hh          word size / table geometry
  RngReseed.cc              subsequence formula
  detail/GenerateCanonical32.hh   shifts and norms of both specialisations

and computes (UNTRUSTED, checked by Coq with vm_compute in
C13/XorwowProofs.v and C13/Period.v):
  an annihilating polynomial p of the transition matrix T (degree 160),
  quotient certificates for  tbl[i+1] = tbl[i]^4 mod p,  z^(2^67) mod p,
  z^(2^160-1) = 1 mod p,  z^((2^160-1)/q) mod p and Bezout certificates
  showing z^((2^160-1)/q) - 1 is invertible mod p, for every prime q.

A source shape that is not recognised raises TieError (reported by run.py as a
broken tie), never a crash.
"""
import os
import random
import re
import struct
import sys


class TieError(Exception):
    pass


# ---------------------------------------------------------------------------
# source reading helpers

def _read(repo, rel):
    p = os.path.join(repo, "src", rel)
    try:
        with open(p) as f:
            return f.read()
    except OSError as e:
        raise TieError("cannot read %s: %s" % (rel, e))


def _strip(src):
    src = re.sub(r"/\*.*?\*/", " ", src, flags=re.S)
    src = re.sub(r"//[^\n]*", " ", src)
    return re.sub(r"\s+", " ", src)


def _rx(template):
    """Template -> regex: literal text, whitespace-insensitive, with
    @name@ capturing an integer literal (optional u/ul/ull suffix)."""
    out = []
    for part in re.split(r"(@\w+@)", template):
        m = re.fullmatch(r"@(\w+)@", part)
        if m:
            out.append(r"(?P<%s>0[xX][0-9a-fA-F]+|\d+)(?:[uU]?[lL]{0,2})\s*" % m.group(1))
        else:
            toks = re.findall(r"\w+|[^\w\s]", part)
            out.append(r"\s*".join(re.escape(t) for t in toks))
            out.append(r"\s*")
    return re.compile("".join(out))


def _match(what, template, text):
    m = _rx(template).search(text)
    if not m:
        raise TieError("unrecognised source shape: " + what)
    return {k: int(v, 0) for k, v in m.groupdict().items()}


def _body(what, text, signature):
    """Return the brace-balanced body following `signature` (a regex)."""
    m = re.search(signature, text)
    if not m:
        raise TieError("cannot find " + what)
    i = text.find("{", m.end())
    if i < 0:
        raise TieError("cannot find body of " + what)
    depth = 0
    for j in range(i, len(text)):
        if text[j] == "{":
            depth += 1
        elif text[j] == "}":
            depth -= 1
            if depth == 0:
                return text[i:j + 1]
    raise TieError("unbalanced body of " + what)


def _whole(what, template, body):
    """The body must match the template entirely."""
    m = _rx(template).fullmatch(body.strip())
    if not m:
        raise TieError("unrecognised source shape: " + what)
    return {k: int(v, 0) for k, v in m.groupdict().items()}


# ---------------------------------------------------------------------------
# extraction

def extract(repo, errors=None):
    """Extract all parameters. With errors=None an unrecognised shape raises
    TieError; otherwise every independent block is attempted, failures are
    appended to `errors` and the partial dict is returned."""
    P = {}
    S = {}    # comment-stripped sources
    errs = []

    def src(key, rel, strip=True):
        if key not in S:
            t = _read(repo, rel)
            S[key] = _strip(t) if strip else t
        return S[key]

    def _blk0():
        cc = src("cc", "celeritas/random/XorwowRngParams.cc", True)
        # ---- tables
        for name, fn in (("jump", "get_jump_poly"), ("jump_subsequence", "get_jump_subsequence_poly")):
            body = _body(fn, cc, r"XorwowRngParams::%s\s*\(\s*\)\s*->\s*ArrayJumpPoly const&" % fn)
            m = re.fullmatch(r"\{\s*static ArrayJumpPoly const (\w+) = \{\s*\{(.*)\}\s*\}\s*;\s*return (\w+)\s*;\s*\}", body.strip())
            if not m or m.group(1) != m.group(3):
                raise TieError("unrecognised source shape: %s table definition" % name)
            rows = re.findall(r"\{([^{}]*)\}", m.group(2))
            rest = re.sub(r"\{[^{}]*\}", "", m.group(2))
            if rest.replace(",", "").strip():
                raise TieError("unrecognised text inside %s table" % name)
            tbl = []
            for r in rows:
                ws = [w.strip() for w in r.split(",") if w.strip()]
                vals = []
                for w in ws:
                    mm = re.fullmatch(r"(0[xX][0-9a-fA-F]+|\d+)[uU]?", w)
                    if not mm:
                        raise TieError("unrecognised table word %r in %s" % (w, name))
                    v = int(mm.group(1), 0)
                    if v >= 2 ** 32:
                        raise TieError("table word out of 32-bit range in %s" % name)
                    vals.append(v)
                tbl.append(vals)
            if len(tbl) != 32 or any(len(r) != 5 for r in tbl):
                raise TieError("%s table is not 32 x 5 words" % name)
            P[name] = tbl

    def _blk1():
        cc = src("cc", "celeritas/random/XorwowRngParams.cc", True)
        ctor = _body("XorwowRngParams ctor", cc, r"XorwowRngParams::XorwowRngParams\s*\(\s*unsigned int seed\s*\)")
        _match("params ctor table wiring",
               "host_data.seed = {seed}; host_data.jump = this->get_jump_poly(); "
               "host_data.jump_subsequence = this->get_jump_subsequence_poly();", ctor)


    def _blk2():
        dh = src("dh", "celeritas/random/XorwowRngData.hh", True)
        # ---- data layout
        _match("XorwowUInt", "using XorwowUInt = std::uint32_t;", dh)
        g = _match("table geometry", "using JumpPoly = Array<XorwowUInt, @nw@>; using ArrayJumpPoly = Array<JumpPoly, @nt@>;", dh)
        if (g["nw"], g["nt"]) != (5, 32):
            raise TieError("table geometry is not 5 words x 32 entries")
        _match("num_bits", "num_bits() { return 8 * sizeof(XorwowUInt); }", dh)
        _match("num_words", "num_words() { return JumpPoly{}.size(); }", dh)
        _match("XorwowState", "struct XorwowState { Array<XorwowUInt, 5> xorstate; XorwowUInt weylstate; };", dh)
        _match("XorwowRngInitializer",
               "struct XorwowRngInitializer { Array<unsigned int, 1> seed{0}; ull_int subsequence{0}; ull_int offset{0}; };", dh)


    def _blk3():
        eh = src("eh", "celeritas/random/XorwowRngEngine.hh", True)
        b = _body("next()", eh, r"void XorwowRngEngine::next\s*\(\s*\)")
        P.update(_whole("next()",
                        "{ auto& s = state_->xorstate; auto const t = (s[0] ^ (s[0] >> @sh_a@)); "
                        "s[0] = s[1]; s[1] = s[2]; s[2] = s[3]; s[3] = s[4]; "
                        "s[4] = (s[4] ^ (s[4] << @sh_c@)) ^ (t ^ (t << @sh_b@)); }", b))

    def _blk4():
        eh = src("eh", "celeritas/random/XorwowRngEngine.hh", True)
        b = _body("operator()", eh, r"XorwowRngEngine::operator\(\)\s*\(\s*\)\s*->\s*result_type")
        P.update(_whole("operator()",
                        "{ this->next(); state_->weylstate += @weyl_draw@; "
                        "return state_->weylstate + state_->xorstate[4]; }", b))

    def _blk5():
        eh = src("eh", "celeritas/random/XorwowRngEngine.hh", True)
        b = _body("discard", eh, r"void XorwowRngEngine::discard\s*\(\s*ull_int count\s*\)")
        P.update(_whole("discard",
                        "{ this->jump(count, params_.jump); "
                        "state_->weylstate += static_cast<unsigned int>(count) * @weyl_discard@; }", b))

    def _blk6():
        eh = src("eh", "celeritas/random/XorwowRngEngine.hh", True)
        b = _body("discard_subsequence", eh, r"void XorwowRngEngine::discard_subsequence\s*\(\s*ull_int count\s*\)")
        _whole("discard_subsequence", "{ this->jump(count, params_.jump_subsequence); }", b)

    def _blk7():
        eh = src("eh", "celeritas/random/XorwowRngEngine.hh", True)
        b = _body("jump(count, table)", eh, r"XorwowRngEngine::jump\s*\(\s*ull_int count\s*,\s*ArrayJumpPoly const& jump_poly_arr\s*\)")
        P.update(_whole("jump(count, table)",
                        "{ constexpr size_type max_num_jump = @digit_mask@; size_type jump_idx = 0; "
                        "while (count > 0) { uint_t num_jump = static_cast<uint_t>(count) & max_num_jump; "
                        "for (size_type i = 0; i < num_jump; ++i) { CELER_ASSERT(jump_idx < jump_poly_arr.size()); "
                        "this->jump(jump_poly_arr[jump_idx]); } ++jump_idx; count >>= @digit_shift@; } }", b))

    def _blk8():
        eh = src("eh", "celeritas/random/XorwowRngEngine.hh", True)
        b = _body("jump(poly)", eh, r"void XorwowRngEngine::jump\s*\(\s*JumpPoly const& jump_poly\s*\)")
        _whole("jump(poly) (bit order: word 0 first, least significant bit first)",
               "{ Array<uint_t, 5> s = {0}; for (size_type i : range(params_.num_words())) { "
               "for (size_type j : range(params_.num_bits())) { if (jump_poly[i] & (1 << j)) { "
               "for (size_type k : range(params_.num_words())) { s[k] ^= state_->xorstate[k]; } } "
               "this->next(); } } state_->xorstate = s; }", b)

    def _blk9():
        eh = src("eh", "celeritas/random/XorwowRngEngine.hh", True)
        b = _body("operator=(Initializer)", eh, r"XorwowRngEngine::operator=\s*\(\s*Initializer_t const& init\s*\)")
        _whole("operator=(Initializer)",
               "{ auto& s = state_->xorstate; SplitMix64 rng{init.seed[0]}; std::uint64_t seed = rng(); "
               "s[0] = static_cast<uint_t>(seed); s[1] = static_cast<uint_t>(seed >> 32); seed = rng(); "
               "s[2] = static_cast<uint_t>(seed); s[3] = static_cast<uint_t>(seed >> 32); seed = rng(); "
               "s[4] = static_cast<uint_t>(seed); state_->weylstate = static_cast<uint_t>(seed >> 32); "
               "this->discard_subsequence(init.subsequence); this->discard(init.offset); return *this; }", b)

    def _blk10():
        eh = src("eh", "celeritas/random/XorwowRngEngine.hh", True)
        b = _body("SplitMix64", eh, r"XorwowRngEngine::SplitMix64::operator\(\)\s*\(\s*\)")
        P.update(_whole("SplitMix64",
                        "{ std::uint64_t z = (state += @sm_gamma@); z = (z ^ (z >> @sm_s1@)) * @sm_m1@; "
                        "z = (z ^ (z >> @sm_s2@)) * @sm_m2@; return z ^ (z >> @sm_s3@); }", b))
        _match("SplitMix64 state", "struct SplitMix64 { std::uint64_t state;", eh)


    def _blk11():
        rs = src("rs", "celeritas/random/RngReseed.cc", True)
        b = _body("reseed_rng", rs, r"void reseed_rng\s*\(\s*HostCRef<RngParamsData> const& params")
        _match("reseed_rng subsequence formula",
               "ull_int size = state.size();", b)
        _match("reseed_rng subsequence formula",
               "for (TrackSlotId::size_type i = 0; i < size; ++i) { RngEngine::Initializer_t init; "
               "init.seed = params.seed; init.subsequence = event_id.unchecked_get() * size + i; "
               "RngEngine engine(params, state, TrackSlotId{i}); engine = init; }", b)


    def _blk12():
        gcs = src("gcs", "celeritas/random/detail/GenerateCanonical32.hh", True)
        b = _body("GenerateCanonical32<double>", gcs, r"double GenerateCanonical32<double>::operator\(\)\s*\(\s*Generator& rng\s*\)")
        m = re.search(r"constexpr double norm = ([0-9.eE+-]+);", b)
        if not m:
            raise TieError("unrecognised double norm")
        P["norm_d"] = float(m.group(1))
        b2 = b.replace(m.group(0), "NORM;")
        P.update(_whole("GenerateCanonical32<double>",
                        '{ static_assert(Generator::max() == 0xffffffffu, "Generator must return 32-bit sample"); '
                        'static_assert(sizeof(ull_int) == 8, "Expected 64-bit UL"); '
                        "unsigned int upper = rng(); unsigned int lower = rng(); NORM; "
                        "return norm * static_cast<double>((static_cast<ull_int>(upper) << (@cd_hi@ - @cd_lo@)) "
                        "^ static_cast<ull_int>(lower)); }", b2))

    def _blk13():
        gcs = src("gcs", "celeritas/random/detail/GenerateCanonical32.hh", True)
        b = _body("GenerateCanonical32<float>", gcs, r"float GenerateCanonical32<float>::operator\(\)\s*\(\s*Generator& rng\s*\)")
        m = re.search(r"constexpr float norm = ([0-9.eE+-]+)f;", b)
        if not m:
            raise TieError("unrecognised float norm")
        P["norm_f"] = struct.unpack("f", struct.pack("f", float(m.group(1))))[0]
        b2 = b.replace(m.group(0), "NORM;")
        _whole("GenerateCanonical32<float>",
               '{ static_assert(Generator::max() == 0xffffffffu, "Generator must return 32-bit sample"); '
               "NORM; return norm * rng(); }", b2)

    def _blk14():
        if "cd_hi" not in P or "norm_d" not in P or "norm_f" not in P:
            return      # already reported by the block that failed
        P["canon_shift"] = P["cd_hi"] - P["cd_lo"]
        if P["canon_shift"] < 0 or P["cd_hi"] > 63:
            raise TieError("canonical shift out of range")
        # norms enter the model as exponents: they must be exact powers of two
        import math
        for k in ("norm_d", "norm_f"):
            mant, ex = math.frexp(P[k])
            if mant != 0.5:
                raise TieError("%s is not a power of two" % k)
            P[k + "_log2"] = -(ex - 1)

    for blk in (_blk0, _blk1, _blk2, _blk3, _blk4, _blk5, _blk6, _blk7, _blk8, _blk9, _blk10, _blk11, _blk12, _blk13, _blk14):
        try:
            blk()
        except TieError as e:
            errs.append(str(e))
    if errs:
        if errors is None:
            raise TieError("; ".join(errs))
        errors.extend(errs)
    return P


# ---------------------------------------------------------------------------
# GF(2)[z] with Python ints (bit k = coefficient of z^k)

def clmul(a, b):
    r = 0
    while b:
        if b & 1:
            r ^= a
        a <<= 1
        b >>= 1
    return r


def pdivmod(a, b):
    db = b.bit_length()
    q = 0
    while a.bit_length() >= db:
        s = a.bit_length() - db
        q |= 1 << s
        a ^= b << s
    return q, a


def pgcdext(a, b):
    """returns (g, u, v) with u a + v b = g over GF(2)[z]."""
    r0, r1 = a, b
    u0, u1 = 1, 0
    v0, v1 = 0, 1
    while r1:
        q, r = pdivmod(r0, r1)
        r0, r1 = r1, r
        u0, u1 = u1, u0 ^ clmul(q, u1)
        v0, v1 = v1, v0 ^ clmul(q, v1)
    return r0, u0, v0


def plcm(a, b):
    g, _, _ = pgcdext(a, b)
    return pdivmod(clmul(a, b), g)[0]


M32 = 0xffffffff


def next_state(P, s):
    s0, s1, s2, s3, s4 = s
    t = s0 ^ (s0 >> P["sh_a"])
    return (s1, s2, s3, s4,
            (s4 ^ ((s4 << P["sh_c"]) & M32)) ^ (t ^ ((t << P["sh_b"]) & M32)))


def pack(s):
    return s[0] | s[1] << 32 | s[2] << 64 | s[3] << 96 | s[4] << 128


def minpoly_of_vector(P, x):
    """Minimal polynomial of the sequence x, Tx, T^2 x, ... (Krylov + elimination)."""
    basis = []   # (vector, combination) reduced rows; combination bit k = T^k x
    s = x
    for k in range(161):
        v, c = pack(s), 1 << k
        for bv, bc in basis:
            if v ^ bv < v:
                v ^= bv
                c ^= bc
        if v == 0:
            return c
        basis.append((v, c))
        basis.sort(reverse=True)
        s = next_state(P, s)
    raise TieError("no linear dependency among 161 vectors (impossible)")


def annihilator(P):
    """Polynomial p with p(T) = 0: lcm of Krylov minimal polynomials of a few
    vectors (deterministic choice). Untrusted: Coq checks p(T) e_i = 0."""
    r = random.Random(160)
    p = 1
    vecs = [(1, 0, 0, 0, 0), (0, 0, 0, 0, 1)] + [tuple(r.getrandbits(32) for _ in range(5)) for _ in range(6)]
    for x in vecs:
        p = plcm(p, minpoly_of_vector(P, x))
    return p


# exponent chains: g <- g^2 * z^bit mod p, one (q, g') certificate per step

def pow_chain(p, g, bits):
    steps = []
    for b in bits:
        a = clmul(g, g)
        if b:
            a <<= 1
        q, r = pdivmod(a, p)
        steps.append((q, r))
        g = r
    return g, steps


def words_to_poly(row):
    return sum(w << (32 * i) for i, w in enumerate(row))


def table_chain(p, tbl):
    """For each consecutive pair: (q1, mid, q2) with tbl[i]^2 = q1 p + mid,
    mid^2 = q2 p + r (Coq compares r with tbl[i+1] taken from the source)."""
    out = []
    for i in range(len(tbl) - 1):
        g = words_to_poly(tbl[i])
        q1, mid = pdivmod(clmul(g, g), p)
        q2, _ = pdivmod(clmul(mid, mid), p)
        out.append((q1, mid, q2))
    return out


PRIMES_2_160_M1 = [(3, 1), (5, 2), (11, 1), (17, 1), (31, 1), (41, 1), (257, 1), (61681, 1),
                   (65537, 1), (414721, 1), (4278255361, 1), (44479210368001, 1)]


def period_certs(p):
    M = 2 ** 160 - 1
    prod = 1
    for q, e in PRIMES_2_160_M1:
        prod *= q ** e
    assert prod == M
    z = 2
    # z^M: bits of M after the leading one, starting from g = z
    gM, stepsM = pow_chain(p, z, [1] * 159)
    per_prime = []
    for q, _ in PRIMES_2_160_M1:
        e = M // q
        bits = [int(c) for c in bin(e)[3:]]
        h, steps = pow_chain(p, z, bits)
        g, u, v = pgcdext(h ^ 1, p)     # u (h+1) + v p = g
        per_prime.append((q, e, steps, u, v, g))
    return gM, stepsM, per_prime


# ---------------------------------------------------------------------------
# emission

def _n(x):
    return "0x%x" % x if x > 9 else str(x)


def _list(items, per_line=1):
    return "[" + ";\n   ".join(items) + "]"


def emit(P, with_period=True):
    p = annihilator(P)
    L = []
    A = L.append
    A("(* GENERATED by translators/xorwow.py from the celeritas source tree -- do not edit.")
    A("   Regenerated on every run of ./check C13. Certificates are untrusted: Coq checks them. *)")
    A("From Coq Require Import NArith List.")
    A("Import ListNotations.")
    A("Local Open Scope N_scope.")
    A("")
    for k in ("sh_a", "sh_b", "sh_c", "weyl_draw", "weyl_discard", "digit_mask", "digit_shift",
              "sm_gamma", "sm_s1", "sm_m1", "sm_s2", "sm_m2", "sm_s3", "canon_shift",
              "norm_d_log2", "norm_f_log2"):
        A("Definition src_%s : N := %s." % (k, _n(P[k])))
    A("")
    for name, key in (("src_jump", "jump"), ("src_jump_sub", "jump_subsequence")):
        A("Definition %s : list (list N) :=\n  %s." % (
            name, _list(["[" + "; ".join(_n(w) for w in row) + "]" for row in P[key]])))
        A("")
    A("(* annihilating polynomial of the transition matrix, bit k = coefficient of z^k *)")
    A("Definition cert_p : N := %s." % _n(p))
    A("")
    for name, key in (("cert_jump_chain", "jump"), ("cert_sub_chain", "jump_subsequence")):
        ch = table_chain(p, P[key])
        A("Definition %s : list (N * N * N) :=\n  %s." % (
            name, _list(["(%s, %s, %s)" % tuple(_n(x) for x in t) for t in ch])))
        A("")
    _, st = pow_chain(p, 2, [0] * 67)
    A("(* z^(2^67): 67 squarings from z; (quotient, remainder) per step *)")
    A("Definition cert_sub0_chain : list (N * N) :=\n  %s." % _list(["(%s, %s)" % (_n(q), _n(r)) for q, r in st]))
    A("")
    tables_txt = "\n".join(L) + "\n"
    L = []
    A = L.append
    A("(* GENERATED by translators/xorwow.py -- do not edit. Period certificates (untrusted: Coq checks them). *)")
    A("From Coq Require Import NArith List.")
    A("Import ListNotations.")
    A("Local Open Scope N_scope.")
    A("")
    if with_period:
        gM, stepsM, per_prime = period_certs(p)
        A("(* z^(2^160-1): from z, 159 steps g <- g^2 z *)")
        A("Definition cert_full_chain : list (N * N) :=\n  %s." % _list(["(%s, %s)" % (_n(q), _n(r)) for q, r in stepsM]))
        A("")
        A("(* per prime q of 2^160-1: (q, bits of (2^160-1)/q after the leading one, chain, u, v)")
        A("   with u (h + 1) + v p = 1 where h = z^((2^160-1)/q) mod p *)")
        items = []
        for q, e, steps, u, v, g in per_prime:
            bits = "[" + ";".join("true" if c == "1" else "false" for c in bin(e)[3:]) + "]"
            items.append("(%s, %s,\n    %s,\n    %s, %s)" % (
                _n(q), bits, "[" + "; ".join("(%s, %s)" % (_n(a), _n(b)) for a, b in steps) + "]", _n(u), _n(v)))
        A("Definition cert_primes : list (N * list bool * list (N * N) * N * N) :=\n  %s." % _list(items))
        A("")
    return tables_txt, "\n".join(L) + "\n", p


def _write_if_changed(path, txt):
    old = None
    if os.path.exists(path):
        with open(path) as f:
            old = f.read()
    if old != txt:
        tmp = path + ".tmp%d" % os.getpid()
        with open(tmp, "w") as f:
            f.write(txt)
        os.replace(tmp, path)


def translate(repo, out_path, with_period=True):
    """Extract, emit; write only if the content changed (keeps .vo files fresh).
    Also writes C13_period.v next to it. Returns the dict of extracted
    parameters (plus 'p')."""
    P = extract(repo)
    txt, ptxt, p = emit(P, with_period)
    P["p"] = p
    os.makedirs(os.path.dirname(out_path), exist_ok=True)
    _write_if_changed(out_path, txt)
    _write_if_changed(os.path.join(os.path.dirname(out_path), "C13_period.v"), ptxt)
    return P


if __name__ == "__main__":
    repo = os.environ.get("VERIF_REPO", "/repo")
    out = sys.argv[1] if len(sys.argv) > 1 else os.path.join(
        os.path.dirname(os.path.dirname(os.path.abspath(__file__))), "coq", "Generated", "C13_tables.v")
    try:
        P = translate(repo, out)
    except TieError as e:
        print("TIE BROKEN:", e)
        sys.exit(1)
    print("wrote", out, "deg p =", P["p"].bit_length() - 1)
