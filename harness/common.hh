// Shared helpers for /verif correspondence harnesses (header-only).
#pragma once
#include <cstdio>
#include <cstdlib>
#include <cmath>
#include <cstdint>
#include <iostream>
#include <sstream>
#include <string>
#include <vector>
#include <stdexcept>

#include "corecel/Types.hh"
#include "celeritas/random/distribution/GenerateCanonical.hh"

namespace verif
{
//! Thrown when a replayed uniform stream is exhausted
struct StreamExhausted : std::runtime_error
{
    StreamExhausted() : std::runtime_error("stream exhausted") {}
};

//! RNG engine that replays a fixed list of canonical uniforms
class ReplayEngine
{
  public:
    using result_type = unsigned int;
    static constexpr result_type min() { return 0u; }
    static constexpr result_type max() { return 0xffffffffu; }

    explicit ReplayEngine(std::vector<double> v) : vals_(std::move(v)) {}
    double next()
    {
        if (pos_ >= vals_.size())
            throw StreamExhausted{};
        return vals_[pos_++];
    }
    // Raw 32-bit draws are not modelled: any use is a tie failure
    result_type operator()() { throw std::logic_error("raw rng() call on ReplayEngine"); }
    std::size_t consumed() const { return pos_; }

  private:
    std::vector<double> vals_;
    std::size_t pos_{0};
};

inline std::string hex(double x)
{
    char buf[64];
    if (std::isnan(x)) return "nan";
    if (std::isinf(x)) return x > 0 ? "inf" : "-inf";
    std::snprintf(buf, sizeof(buf), "%a", x);
    return buf;
}
inline double rd(std::istream& is)
{
    std::string s;
    if (!(is >> s)) throw std::runtime_error("missing number");
    return std::strtod(s.c_str(), nullptr);
}
inline std::vector<double> rdvec(std::istream& is)
{
    // format: <n> v1 ... vn
    std::size_t n; is >> n; std::vector<double> v(n);
    for (auto& x : v) x = rd(is);
    return v;
}
}  // namespace verif

namespace celeritas
{
template<>
class GenerateCanonical<verif::ReplayEngine, double>
{
  public:
    using real_type = double;
    using result_type = double;
    result_type operator()(verif::ReplayEngine& rng) { return rng.next(); }
};
}  // namespace celeritas
