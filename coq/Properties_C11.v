(** * C11 property theorems — statements only; proofs live in C11/SafetyProofs.v. *)
From Coq Require Import Reals ZArith List.
From Celer Require Import Base.Num Base.NumR Base.Vec3
  C12.Solver C12.Surfaces C12.SurfacesProofs C11.Safety C11.SafetyProofs.
Import ListNotations.
Local Open Scope R_scope.

(** CalcSafetyDistance is the Euclidean distance to the face for the
    simple-safety surface types, wherever the normal is defined *)
Theorem C11_plane_aligned_safety_is_distance : forall t pos p,
  calc_safety (SPlaneAligned t pos) p = Some (Rabs (vget t p - pos)).
Proof. exact plane_aligned_safety_is_distance. Qed.
Print Assumptions C11_plane_aligned_safety_is_distance.

Theorem C11_plane_safety_is_distance : forall n d p, vdot n n = 1 ->
  calc_safety (SPlane n d) p = Some (Rabs (vdot n p - d)).
Proof. exact plane_safety_is_distance. Qed.
Print Assumptions C11_plane_safety_is_distance.

Theorem C11_sphere_safety_is_distance : forall o rsq p, 0 < rsq ->
  let w := vsub p o in vdot w w <> 0 ->
  calc_safety (SSphere o rsq) p = Some (Rabs (sqrt (vdot w w) - sqrt rsq)).
Proof. exact sphere_safety_is_distance. Qed.
Print Assumptions C11_sphere_safety_is_distance.

Theorem C11_sphere_centered_safety_is_distance : forall rsq p, 0 < rsq -> vdot p p <> 0 ->
  calc_safety (SSphereCentered rsq) p = Some (Rabs (sqrt (vdot p p) - sqrt rsq)).
Proof. exact sphere_centered_safety_is_distance. Qed.
Print Assumptions C11_sphere_centered_safety_is_distance.

Theorem C11_cylc_safety_is_distance : forall t rsq p, 0 < rsq ->
  let ww := vget (u_axis t) p * vget (u_axis t) p + vget (v_axis t) p * vget (v_axis t) p in
  ww <> 0 ->
  calc_safety (SCylCentered t rsq) p = Some (Rabs (sqrt ww - sqrt rsq)).
Proof. exact cylc_safety_is_distance. Qed.
Print Assumptions C11_cylc_safety_is_distance.

(** any surface type: the open ball of the reported radius stays strictly on one side *)
Theorem C11_calc_safety_conservative : forall s p rho,
  surf_ok s -> normal_is_nan s p = false -> calc_safety s p = Some rho -> ball_clear s p rho.
Proof. exact calc_safety_conservative. Qed.
Print Assumptions C11_calc_safety_conservative.

(** SimpleUnitTracker::safety (min over the volume's faces, 0 without the flag) *)
Theorem C11_min_faces_conservative : forall flag faces p rho,
  faces_ok faces p -> volume_safety flag faces p = Some rho ->
  forall s, In s faces -> ball_clear s p rho.
Proof. exact min_faces_conservative. Qed.
Print Assumptions C11_min_faces_conservative.

(** ... hence all senses, and with them the volume's logic expression, are constant on that ball *)
Theorem C11_min_faces_same_volume : forall flag faces p rho,
  faces_ok faces p -> volume_safety flag faces p = Some rho ->
  forall x, sqrt (dist2 p x) < rho ->
  map (fun s => surf_sense s x) faces = map (fun s => surf_sense s p) faces.
Proof. exact min_faces_same_volume. Qed.
Print Assumptions C11_min_faces_same_volume.

Theorem C11_volume_safety_inf_no_faces : forall faces p,
  faces_ok faces p -> volume_safety true faces p = None -> faces = [].
Proof. exact volume_safety_inf_no_faces. Qed.
Print Assumptions C11_volume_safety_inf_no_faces.

(** OrangeTrackView::find_safety (min over the universe levels, each in its local frame) *)
Theorem C11_min_levels_conservative : forall (levels : list (level (T:=R))) rho,
  (forall l, In l levels -> faces_ok (lv_faces l) (lv_pos l)) ->
  find_safety levels = Some rho ->
  forall l, In l levels -> forall s, In s (lv_faces l) -> ball_clear s (lv_pos l) rho.
Proof. exact min_levels_conservative. Qed.
Print Assumptions C11_min_levels_conservative.

(** find_safety(max_step), the overload used by multiple scattering *)
Theorem C11_find_safety_max_conservative : forall (levels : list (level (T:=R))) m rho,
  (forall l, In l levels -> faces_ok (lv_faces l) (lv_pos l)) ->
  find_safety_max levels m = Some rho ->
  (forall l, In l levels -> forall s, In s (lv_faces l) -> ball_clear s (lv_pos l) rho) /\
  find_safety levels = Some rho.
Proof. exact find_safety_max_conservative. Qed.
Print Assumptions C11_find_safety_max_conservative.

Theorem C11_zero_is_conservative : forall faces p s,
  volume_safety false faces p = Some 0 /\ ball_clear s p 0.
Proof. exact zero_is_conservative. Qed.
Print Assumptions C11_zero_is_conservative.

(** Finding F4: the faithful model of the NaN branch is NOT conservative *)
Theorem C11_safety_center_refuted :
  exists (s : surface R) (p x : vec),
    surf_ok s /\ calc_safety s p = None /\ find_safety [LV true [s] p] = None /\
    sqrt (dist2 p x) = 2 /\ surf_f s x = 0 /\ ~ same_side s p x.
Proof. exact safety_center_refuted. Qed.
Print Assumptions C11_safety_center_refuted.
