(** * C11 property theorems — statements only; proofs live in C11/SafetyProofs.v. *)
From Coq Require Import Reals ZArith List.
From Celer Require Import Base.Num Base.NumR Base.Vec3
  C12.Solver C12.Surfaces C12.SurfacesProofs C11.Safety C11.SafetyProofs C11.Msc C11.MscProofs C11.MscBoundProofs C12.Transforms C11.Levels C11.LevelsProofs.
Import ListNotations.
Local Open Scope R_scope.

(** CalcSafetyDistance is the Euclidean distance to the face for the
    simple-safety surface types, wherever the normal is defined *)
Theorem C11_plane_aligned_safety_is_distance : forall t pos p,
  calc_safety (SPlaneAligned t pos) p = Some (Rabs (vget t p - pos)).
Proof. exact plane_aligned_safety_is_distance. Qed.
Print Assumptions C11_plane_aligned_safety_is_distance.

Theorem C11_plane_safety_is_distance : forall n d p, vdot n n = 1 ->
  calc_safety (SPlane n d) p = Some (Rabs (vdot n p - d)).
Proof. exact plane_safety_is_distance. Qed.
Print Assumptions C11_plane_safety_is_distance.

Theorem C11_sphere_safety_is_distance : forall o rsq p, 0 < rsq ->
  let w := vsub p o in vdot w w <> 0 ->
  calc_safety (SSphere o rsq) p = Some (Rabs (sqrt (vdot w w) - sqrt rsq)).
Proof. exact sphere_safety_is_distance. Qed.
Print Assumptions C11_sphere_safety_is_distance.

Theorem C11_sphere_centered_safety_is_distance : forall rsq p, 0 < rsq -> vdot p p <> 0 ->
  calc_safety (SSphereCentered rsq) p = Some (Rabs (sqrt (vdot p p) - sqrt rsq)).
Proof. exact sphere_centered_safety_is_distance. Qed.
Print Assumptions C11_sphere_centered_safety_is_distance.

Theorem C11_cylc_safety_is_distance : forall t rsq p, 0 < rsq ->
  let ww := vget (u_axis t) p * vget (u_axis t) p + vget (v_axis t) p * vget (v_axis t) p in
  ww <> 0 ->
  calc_safety (SCylCentered t rsq) p = Some (Rabs (sqrt ww - sqrt rsq)).
Proof. exact cylc_safety_is_distance. Qed.
Print Assumptions C11_cylc_safety_is_distance.

(** any surface type: the open ball of the reported radius stays strictly on one side *)
Theorem C11_calc_safety_conservative : forall s p rho,
  surf_ok s -> normal_is_nan s p = false -> calc_safety s p = Some rho -> ball_clear s p rho.
Proof. exact calc_safety_conservative. Qed.
Print Assumptions C11_calc_safety_conservative.

(** SimpleUnitTracker::safety (min over the volume's faces, 0 without the flag) *)
Theorem C11_min_faces_conservative : forall flag faces p rho,
  faces_ok faces p -> volume_safety flag faces p = Some rho ->
  forall s, In s faces -> ball_clear s p rho.
Proof. exact min_faces_conservative. Qed.
Print Assumptions C11_min_faces_conservative.

(** ... hence all senses, and with them the volume's logic expression, are constant on that ball *)
Theorem C11_min_faces_same_volume : forall flag faces p rho,
  faces_ok faces p -> volume_safety flag faces p = Some rho ->
  forall x, sqrt (dist2 p x) < rho ->
  map (fun s => surf_sense s x) faces = map (fun s => surf_sense s p) faces.
Proof. exact min_faces_same_volume. Qed.
Print Assumptions C11_min_faces_same_volume.

Theorem C11_volume_safety_inf_no_faces : forall faces p,
  faces_ok faces p -> volume_safety true faces p = None -> faces = [].
Proof. exact volume_safety_inf_no_faces. Qed.
Print Assumptions C11_volume_safety_inf_no_faces.

(** OrangeTrackView::find_safety (min over the universe levels, each in its local frame) *)
Theorem C11_min_levels_conservative : forall (levels : list (level (T:=R))) rho,
  (forall l, In l levels -> faces_ok (lv_faces l) (lv_pos l)) ->
  find_safety levels = Some rho ->
  forall l, In l levels -> forall s, In s (lv_faces l) -> ball_clear s (lv_pos l) rho.
Proof. exact min_levels_conservative. Qed.
Print Assumptions C11_min_levels_conservative.

(** find_safety(max_step), the overload used by multiple scattering *)
Theorem C11_find_safety_max_conservative : forall (levels : list (level (T:=R))) m rho,
  (forall l, In l levels -> faces_ok (lv_faces l) (lv_pos l)) ->
  find_safety_max levels m = Some rho ->
  (forall l, In l levels -> forall s, In s (lv_faces l) -> ball_clear s (lv_pos l) rho) /\
  find_safety levels = Some rho.
Proof. exact find_safety_max_conservative. Qed.
Print Assumptions C11_find_safety_max_conservative.

Theorem C11_zero_is_conservative : forall faces p s,
  volume_safety false faces p = Some 0 /\ ball_clear s p 0.
Proof. exact zero_is_conservative. Qed.
Print Assumptions C11_zero_is_conservative.

(** Finding F4: the faithful model of the NaN branch is NOT conservative *)
Theorem C11_safety_center_refuted :
  exists (s : surface R) (p x : vec),
    surf_ok s /\ calc_safety s p = None /\ find_safety [LV true [s] p] = None /\
    sqrt (dist2 p x) = 2 /\ surf_f s x = 0 /\ ~ same_side s p x.
Proof. exact safety_center_refuted. Qed.
Print Assumptions C11_safety_center_refuted.

(** ** The MSC users of the safety (em/msc/UrbanMsc.hh apply_step, detail/UrbanMscScatter.hh,
    detail/UrbanMscSafetyStepLimit.hh) *)
(** the displacement UrbanMscScatter applies is no longer than (1 - safety_tol) * safety
    (and than calc_displacement); strictly inside the safety sphere for a positive tolerance *)
Theorem C11_msc_displacement_within_safety :
  forall safety_tol geom_limit skip disp s geom_path true_path (udir d : vec),
  0 <= geom_limit -> vdot udir udir <= 1 ->
  msc_displacement safety_tol geom_limit skip disp (Some s) geom_path true_path udir = Some d ->
  sqrt (vdot d d) <= (1 - safety_tol) * s /\
  sqrt (vdot d d) <= calc_displacement geom_path true_path /\
  (0 < safety_tol -> 0 < s -> sqrt (vdot d d) < s).
Proof. exact msc_displacement_within_safety. Qed.
Print Assumptions C11_msc_displacement_within_safety.

(** sample_displacement_dir (rotate = make_unit_vector o rotate_raw) is at most a unit vector *)
Theorem C11_msc_displacement_dir_unit : forall (min_acc u : R) b phi inc_dir,
  let d := sample_displacement_dir min_acc u b phi inc_dir in vdot d d <= 1.
Proof. exact sample_displacement_dir_le1. Qed.
Print Assumptions C11_msc_displacement_dir_unit.

(** UrbanMsc::apply_step with find_safety(max_step): the displaced point is strictly inside the
    (conservative) safety sphere of every level, so every face keeps its sense: same volume *)
Theorem C11_msc_displaced_point_in_volume :
  forall safety_tol geom_limit (levels : list (level (T:=R))) skip disp geom_path true_path (udir d : vec) rho,
  0 < safety_tol < 1 -> 0 <= geom_limit -> vdot udir udir <= 1 ->
  (forall l, In l levels -> faces_ok (lv_faces l) (lv_pos l)) ->
  find_safety levels = Some rho ->
  msc_apply_step safety_tol geom_limit levels skip disp geom_path true_path udir = Some d ->
  0 < rho /\ sqrt (vdot d d) <= (1 - safety_tol) * rho /\ sqrt (vdot d d) < rho /\
  forall l, In l levels -> forall s, In s (lv_faces l) ->
    same_side s (lv_pos l) (vadd (lv_pos l) d) /\
    surf_sense s (vadd (lv_pos l) d) = surf_sense s (lv_pos l).
Proof. exact msc_displaced_point_in_volume. Qed.
Print Assumptions C11_msc_displaced_point_in_volume.

(** UrbanMscSafetyStepLimit: limit_ >= limit_min, >= safety_factor * safety when the safety is below the range *)
Theorem C11_msc_limit_bounds : forall safety range range_factor range_init limit_min safety_factor,
  let lim := msc_limit safety range range_factor range_init limit_min safety_factor in
  limit_min <= lim /\
  (safety < range -> safety_factor * safety <= lim /\ range_factor * range_init <= lim) /\
  (range <= safety -> range <= lim).
Proof. exact msc_limit_bounds. Qed.
Print Assumptions C11_msc_limit_bounds.

Theorem C11_msc_step_limit_bounds : forall max_step limit limit_min sampled,
  limit_min <= max_step ->
  limit_min <= msc_step_limit max_step limit limit_min sampled <= max_step.
Proof. exact msc_step_limit_bounds. Qed.
Print Assumptions C11_msc_step_limit_bounds.

(** the bound handed to find_safety(max_step) suffices: a safety at or above it never cuts the
    displacement (so find_safety may stop looking beyond max_step), and it is at least geom_limit *)
Theorem C11_msc_bound_sufficient : forall safety_tol geom_limit g t s,
  0 <= safety_tol <= 1 / 2 ->
  msc_safety_bound safety_tol geom_limit g t <= s ->
  msc_length safety_tol (Some s) g t = calc_displacement g t /\ geom_limit <= s.
Proof. exact msc_bound_sufficient. Qed.
Print Assumptions C11_msc_bound_sufficient.

(** ** what C11_min_levels_conservative needs from the navigator: after any sequence of
    move_internal(dist) / move_to_boundary (both move EVERY level) and set_dir, every level's local
    position is the (accumulated) transform of the one global position ... *)
Theorem C11_levels_positions_consistent : forall ops g u ls,
  levels_consistent g u ls ->
  let '(g', u', ls') := run_ops ops g u ls in levels_consistent g' u' ls'.
Proof. exact levels_positions_consistent. Qed.
Print Assumptions C11_levels_positions_consistent.

(** ... which fails for a move that only updates the levels down to the next surface's level *)
Theorem C11_move_prefix_refuted :
  exists (g u : vec3 R) d (ls : list (lstate R)),
    levels_consistent g u ls /\ ~ levels_consistent (vadd g (vscale d u)) u (move_prefix 0 d ls).
Proof. exact move_prefix_refuted. Qed.
Print Assumptions C11_move_prefix_refuted.
