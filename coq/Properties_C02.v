(** * C02 property theorems — statements only; proofs live in coq/C02/*.v.
    Model: C02/TrackInit.v.  Invariant vocabulary: C02/InvA.v ([n_inactive],
    [inactive_from]), C02/InvA2.v ([iidx], [vidx]), C02/InvB.v ([key],
    [all_tracks], [survivors], [fresh_batch], [spec_all]).
    All theorems quantify over ARBITRARY op lists from the initial state whose
    execution respects the calling protocol ([exec] returns [Some]). *)
From Coq Require Import List Arith Bool PeanoNat Permutation.
From Celer Require Import C02.TrackInit C02.ListLemmas C02.InvA C02.InvA2 C02.InvB C02.TrackInitProofs C02.Parents C02.Drain C02.Examples C02.DrainGen C02.DrainExamples C02.InitData C02.InitDataProofs C02.InitExamples C02.Refine C02.ResetRefine.
Import ListNotations.

Theorem C02_counters_vacancies_exact : forall cfg ops s,
  exec cfg (init_state cfg) ops = Some s -> ph s <> Failed ->
  length (slots s) = n_slots cfg /\
  c_init (cnt s) = length (stack s) /\ length (stack s) <= capacity cfg /\
  c_vac (cnt s) = n_inactive (slots s) /\
  (ph s = Ready -> vac s = inactive_from 0 (slots s) /\ length (vac s) = c_vac (cnt s) /\
                   c_alive (cnt s) = n_slots cfg - n_inactive (slots s)) /\
  (ph s = Inited \/ ph s = Interacted -> c_active (cnt s) = n_slots cfg - n_inactive (slots s)).
Proof. exact counters_vacancies_exact. Qed.
Print Assumptions C02_counters_vacancies_exact.

Theorem C02_step_counters : forall cfg ops s,
  exec cfg (init_state cfg) ops = Some s ->
  (forall ps s', insert_primaries cfg s ps = Ok s' ->
     c_gen (cnt s') = c_gen (cnt s) + length ps /\ length (stack s') = length (stack s) + length ps) /\
  (forall s', extend_from_secondaries cfg s = Ok s' ->
     c_sec (cnt s') + length (stack s) = length (stack s') /\
     c_alive (cnt s') = n_slots cfg - length (vac s') /\ c_vac (cnt s') = length (vac s')) /\
  (forall s', initialize_tracks cfg s = Ok s' ->
     length (stack s) - length (stack s') = Nat.min (c_vac (cnt s)) (c_init (cnt s)) /\
     c_active (cnt s') = n_slots cfg - c_vac (cnt s')).
Proof. exact step_counters. Qed.
Print Assumptions C02_step_counters.

Theorem C02_track_ids_unique : forall cfg ops s,
  exec cfg (init_state cfg) ops = Some s -> ph s <> Failed ->
  NoDup (map key (all_tracks s)) /\
  Forall (fun t => tev t < n_events cfg /\ tid t < nth (tev t) (next_id s) 0 /\
                   (forall p, tpar t = Some p -> p < tid t)) (all_tracks s).
Proof. exact track_ids_unique. Qed.
Print Assumptions C02_track_ids_unique.

Theorem C02_init_assignment_injective : forall cfg ops s,
  exec cfg (init_state cfg) ops = Some s -> ph s = Ready ->
  let ci := c_init (cnt s) in
  let cv := c_vac (cnt s) in
  let num_new := Nat.min cv ci in
  let indices := if charge_order cfg then partition_initializers (stack s) ci num_new else [] in
  let ii := iidx (stack s) ci num_new (charge_order cfg) in
  let vi := vidx (stack s) ci cv num_new (charge_order cfg) in
  (* what each thread reads and writes *)
  (forall t, fst (fst (init_thread cfg s indices num_new t)) = nth (vi t) (vac s) 0 /\
             snd (fst (init_thread cfg s indices num_new t)) = nth (ii t) (stack s) dflt_trk) /\
  (* both index maps are injective into their windows *)
  (forall t, t < num_new -> ci - num_new <= ii t < ci /\ vi t < cv) /\
  (forall t1 t2, t1 < num_new -> t2 < num_new -> ii t1 = ii t2 -> t1 = t2) /\
  (forall t1 t2, t1 < num_new -> t2 < num_new -> vi t1 = vi t2 -> t1 = t2) /\
  (* hence distinct threads write distinct, vacant slots *)
  NoDup (map (fun t => nth (vi t) (vac s) 0) (seq 0 num_new)) /\
  (forall t, t < num_new -> nth (vi t) (vac s) 0 < n_slots cfg /\
                            sst (nth (nth (vi t) (vac s) 0) (slots s) dflt_slot) = Inactive).
Proof. exact init_assignment_injective. Qed.
Print Assumptions C02_init_assignment_injective.

Theorem C02_scan_ranges_disjoint : forall counts i j,
  i < j -> j < length counts ->
  let scan := fst (exclusive_scan 0 counts) in
  let total := snd (exclusive_scan 0 counts) in
  nth i scan 0 + nth i counts 0 <= nth j scan 0 /\ nth j scan 0 + nth j counts 0 <= total.
Proof. exact scan_ranges_disjoint. Qed.
Print Assumptions C02_scan_ranges_disjoint.

Theorem C02_secondaries_layout : forall cfg ops s s',
  exec cfg (init_state cfg) ops = Some s -> extend_from_secondaries cfg s = Ok s' ->
  let sp := spec_all (charge_order cfg) (slots s) (next_id s) in
  slots s' = fst (fst sp) /\ stack s' = stack s ++ snd (fst sp) /\ next_id s' = snd sp.
Proof. exact secondaries_layout. Qed.
Print Assumptions C02_secondaries_layout.

Theorem C02_exactly_once : forall cfg ops s,
  exec cfg (init_state cfg) ops = Some s ->
  (* primaries: one fresh initializer per primary, nothing else changes *)
  (forall ps s', insert_primaries cfg s ps = Ok s' ->
     slots s' = slots s /\
     exists news, stack s' = stack s ++ news /\ length news = length ps /\
       fresh_batch (n_events cfg) (next_id s) (next_id s') news) /\
  (* initialisation: tracks are only moved from the stack into vacant slots *)
  (forall s', initialize_tracks cfg s = Ok s' ->
     Permutation (all_tracks s') (all_tracks s) /\
     (forall j, j < n_slots cfg -> sst (nth j (slots s) dflt_slot) <> Inactive ->
                nth j (slots s') dflt_slot = nth j (slots s) dflt_slot)) /\
  (* physics does not touch identities *)
  (forall f s', physics_outcome cfg s f = Ok s' -> all_tracks s' = all_tracks s) /\
  (* secondaries: alive tracks and queued initializers stay, killed tracks
     leave, each emitted secondary appears exactly once with a fresh id *)
  (forall s', extend_from_secondaries cfg s = Ok s' ->
     exists news,
       Permutation (all_tracks s') ((survivors (slots s) ++ stack s) ++ news) /\
       fresh_batch (n_events cfg) (next_id s) (next_id s') news /\
       (forall j, sst (nth j (slots s) dflt_slot) = Alive -> j < n_slots cfg ->
                  nth j (slots s') dflt_slot = nth j (slots s) dflt_slot)).
Proof. exact exactly_once. Qed.
Print Assumptions C02_exactly_once.

Theorem C02_capacity_checked_first : forall cfg s,
  (forall ps s', insert_primaries cfg s ps = Err s' ->
     capacity cfg < length ps + c_init (cnt s) /\ s' = set_ph Failed s) /\
  (forall ps, ph s = Ready -> forallb (fun p => p_ev p <? n_events cfg) ps = true ->
     capacity cfg < length ps + c_init (cnt s) -> insert_primaries cfg s ps = Err (set_ph Failed s)) /\
  (forall s', extend_from_secondaries cfg s = Err s' ->
     slots s' = slots s /\ stack s' = stack s /\ parents s' = parents s /\ next_id s' = next_id s /\
     capacity cfg < c_init (cnt s')) /\
  (forall s', extend_from_secondaries cfg s = Ok s' -> c_init (cnt s') <= capacity cfg).
Proof. exact capacity_checked_first. Qed.
Print Assumptions C02_capacity_checked_first.

Theorem C02_reset_then_run_ok : forall cfg ops s s1 ops' s2,
  exec cfg (init_state cfg) ops = Some s ->
  reset cfg s = Ok s1 ->
  exec cfg s1 ops' = Some s2 ->
  (stack s1 = [] /\ vac s1 = seq 0 (n_slots cfg) /\ cnt s1 = cnt (init_state cfg) /\ ph s1 = Ready /\
   Forall (fun sl => sst sl = Inactive) (slots s1)) /\
  InvA cfg s2 /\ InvB cfg s2.
Proof. exact reset_then_run_ok. Qed.
Print Assumptions C02_reset_then_run_ok.

Theorem C02_drain_progress_partial : forall cfg ops s s',
  exec cfg (init_state cfg) ops = Some s -> 1 <= n_slots cfg ->
  initialize_tracks cfg s = Ok s' ->
  length (stack s') = length (stack s) - Nat.min (n_inactive (slots s)) (length (stack s)) /\
  (n_inactive (slots s) = n_slots cfg -> 0 < length (stack s) ->
     length (stack s') < length (stack s) /\ n_inactive (slots s') < n_slots cfg).
Proof. exact drain_progress_partial. Qed.
Print Assumptions C02_drain_progress_partial.

Theorem C02_parents_correct : forall cfg ops s s',
  exec cfg (init_state cfg) ops = Some s -> extend_from_secondaries cfg s = Ok s' ->
  let n := n_slots cfg in
  let total := c_sec (cnt s') in
  let orig := origins (charge_order cfg) 0 (slots s) in
  let pushed := skipn (length (stack s)) (stack s') in
  length orig = total /\
  Forall2 (fun t (o : nat * bool) =>
             let sl := nth (fst o) (slots s) dflt_slot in
             tev t = tev (str sl) /\ tpar t = Some (tid (str sl)) /\ snd o = status_eqb (sst sl) Alive)
          pushed orig /\
  (forall o, 1 <= o <= n ->
     nth (n - o) (parents s') None =
     match nth_error orig (total - o) with
     | Some (j, al) => if (o <=? total) && (negb (charge_order cfg) || al) then Some j
                       else nth (n - o) (parents s) None
     | None => nth (n - o) (parents s) None
     end).
Proof. exact parents_correct. Qed.
Print Assumptions C02_parents_correct.

(** Observation O2 (props/C02/NOTES.md): a model-level witness, reproduced on
    the real code (props/C02/corpus/O2-stale-parent.txt), that the slot named by
    [parents] at initialisation need not hold the initializer's parent when
    extend-from-primaries does not run between the steps (init_charge). *)
Theorem C02_parent_slot_stale_refuted :
  exists s sid ini p,
    exec o2_cfg (init_state o2_cfg) o2_ops = Some s /\ ph s = Ready /\
    init_thread o2_cfg s (partition_initializers (stack s) (c_init (cnt s)) 1) 1 0 = (sid, ini, Some p) /\
    tpar ini <> Some (tid (str (nth p (slots s) dflt_slot))) /\
    tpar ini <> tpar (str (nth p (slots s) dflt_slot)).
Proof. exact parent_slot_stale_refuted. Qed.
Print Assumptions C02_parent_slot_stale_refuted.

(** drain_terminates, partial: proved for the non-productive outcome stream
    (every track in flight dies without secondaries), from any reachable state;
    [iterate cfg k] = k iterations of initialize-tracks, physics, extend-from-secondaries *)
Theorem C02_drain_terminates_kill_all_partial : forall cfg ops s,
  exec cfg (init_state cfg) ops = Some s -> ph s = Ready -> 1 <= n_slots cfg ->
  exists k s', k <= 1 + length (stack s) /\ iterate cfg k s = Some s' /\
               drained s' = true /\ c_init (cnt s') = 0 /\ c_alive (cnt s') = 0 /\ ph s' = Ready.
Proof. exact drain_kill_all. Qed.
Print Assumptions C02_drain_terminates_kill_all_partial.

(** drain_terminates, general form (coq/C02/DrainGen.v).  [G k i t] is an
    arbitrary adaptive outcome strategy (iteration, slot, track -> dies? which
    secondaries?); it is [finitely_productive] w.r.t. a potential [W] when [W]
    never grows while a track waits and every step pays one unit:
    W' (track if it survives) + sum of W' over the emitted non-null secondaries
    + 1 <= W (track).  [loop] runs initialize-tracks / physics / extend-from-
    secondaries until [drained]; its ledger records every initializer popped and
    pushed.  From ANY reachable Ready state the loop ends within [potential]
    iterations, either drained (alive = queued = 0, nothing in flight, every
    initializer that was queued or pushed has been popped exactly once:
    popped = queued ++ pushed as multisets, and no (event, track id) occurs
    twice among queued ++ pushed) or with the capacity error reported (only possible if
    the capacity is below the potential); the end state is again reachable, so
    every other theorem applies to it. *)
Theorem C02_drain_terminates : forall cfg ops s G W k,
  exec cfg (init_state cfg) ops = Some s -> ph s = Ready -> 1 <= n_slots cfg ->
  finitely_productive G W ->
  match loop cfg G k (potential W k s) s (mkL [] [] 0) with
  | Drained s' L =>
    l_iters L <= potential W k s /\
    ph s' = Ready /\ drained s' = true /\ c_init (cnt s') = 0 /\ c_alive (cnt s') = 0 /\ all_tracks s' = [] /\
    Permutation (l_popped L) (stack s ++ l_pushed L) /\ NoDup (map key (stack s ++ l_pushed L)) /\
    exists ops', exec cfg (init_state cfg) ops' = Some s'
  | CapError s' L =>
    l_iters L <= potential W k s /\
    ph s' = Failed /\ capacity cfg < c_init (cnt s') /\ capacity cfg < potential W k s /\
    exists ops', exec cfg (init_state cfg) ops' = Some s'
  | _ => False
  end.
Proof. exact drain_terminates. Qed.
Print Assumptions C02_drain_terminates.

(** ... and for capacities that are not exceeded the loop drains *)
Theorem C02_drain_terminates_ample : forall cfg ops s G W k,
  exec cfg (init_state cfg) ops = Some s -> ph s = Ready -> 1 <= n_slots cfg ->
  finitely_productive G W -> potential W k s <= capacity cfg ->
  exists s' L, loop cfg G k (potential W k s) s (mkL [] [] 0) = Drained s' L /\
    l_iters L <= potential W k s /\
    ph s' = Ready /\ drained s' = true /\ c_init (cnt s') = 0 /\ c_alive (cnt s') = 0 /\ all_tracks s' = [] /\
    Permutation (l_popped L) (stack s ++ l_pushed L) /\ NoDup (map key (stack s ++ l_pushed L)) /\
    exists ops', exec cfg (init_state cfg) ops' = Some s'.
Proof. exact drain_terminates_ample. Qed.
Print Assumptions C02_drain_terminates_ample.

(** the freshly constructed state (coq/C02/InitData.v: CoreState constructor,
    TrackInitData.hh [resize], [operator bool]s): for EVERY (slots, capacity,
    events, order) construction fails (RuntimeError) iff slots = 0; otherwise
    the state is [init_state] -- the start of every theorem above --, satisfies
    all invariants, is drained, every collection has the size the actions rely
    on, and the CELER_ENSURE on the data (compiled out) holds iff the parameters are
    assigned (capacity > 0 and max_events > 0) *)
Theorem C02_construct_state_ok : forall cfg,
  (construct_state cfg = None <-> n_slots cfg = 0) /\
  (forall s d, construct_state cfg = Some (s, d) ->
     s = init_state cfg /\ d = resize_init_data cfg /\
     InvA cfg s /\ InvB cfg s /\ all_tracks s = [] /\ drained s = true /\
     length (d_parents d) = n_slots cfg /\ length (d_vacancies d) = n_slots cfg /\
     length (d_secondary_counts d) = n_slots cfg + 1 /\
     length (d_indices d) = (if charge_order cfg then n_slots cfg else 0) /\
     length (d_track_counters d) = n_events cfg /\ d_initializers d = capacity cfg /\
     (data_assigned d = true <-> params_assigned cfg = true)).
Proof. exact construct_state_ok. Qed.
Print Assumptions C02_construct_state_ok.

(** the sizes chosen by [resize] suffice in every reachable state: the
    partition of initialize-tracks needs at most [size] indices, the scan of
    extend-from-secondaries exactly [size + 1] counts, live vacancies and
    queued initializers stay within their storage *)
Theorem C02_resize_sizes_suffice : forall cfg ops s,
  exec cfg (init_state cfg) ops = Some s -> ph s <> Failed ->
  let d := resize_init_data cfg in
  Nat.min (c_vac (cnt s)) (c_init (cnt s)) <= length (d_vacancies d) /\
  (charge_order cfg = true -> Nat.min (c_vac (cnt s)) (c_init (cnt s)) <= length (d_indices d)) /\
  length (fst (exclusive_scan 0 (map snd (locate_all (charge_order cfg) 0 (slots s))))) + 1
    = length (d_secondary_counts d) /\
  c_vac (cnt s) <= length (d_vacancies d) /\
  length (parents s) = length (d_parents d) /\
  length (next_id s) = length (d_track_counters d) /\
  c_init (cnt s) <= d_initializers d.
Proof. exact resize_sizes_suffice. Qed.
Print Assumptions C02_resize_sizes_suffice.

(** reset_then_run_ok as a refinement (coq/C02/Refine.v, ResetRefine.v): from
    ANY reachable state (in particular right after a capacity error), after
    [reset] every continuation that follows the Stepper protocol
    ([stepper_protocol]: initialize-tracks .. extend-from-secondaries only after
    the primaries action has run since the reset) yields op by op the same
    result kinds and observably equal states ([state_rel false]: stack,
    vacancies, counters, track counters, statuses, tracks of occupied slots,
    secondaries at extend-from-secondaries) as on the freshly constructed state
    with the same track counters; stale slot data and the stale parents array
    are never observed.  With zeroed counters that state is [init_state]. *)
Theorem C02_reset_refines_fresh : forall cfg ops s s1 ops',
  exec cfg (init_state cfg) ops = Some s -> reset cfg s = Ok s1 ->
  stepper_protocol false ops' = true ->
  state_rel false s1 (fresh_with cfg (next_id s)) /\
  Forall2 res_obs (run cfg s1 ops') (run cfg (fresh_with cfg (next_id s)) ops') /\
  fresh_with cfg (repeat 0 (n_events cfg)) = init_state cfg.
Proof. exact reset_refines_fresh. Qed.
Print Assumptions C02_reset_refines_fresh.
