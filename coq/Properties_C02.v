(** * C02 property theorems — statements only; proofs live in C02/TrackInitProofs.v. *)
From Coq Require Import List Arith Bool.
From Celer Require Import C02.TrackInit C02.TrackInitProofs.
Import ListNotations.

Theorem C02_insert_capacity_checked_first : forall cfg s ps,
  ph s = Ready -> forallb (fun p => p_ev p <? n_events cfg) ps = true ->
  capacity cfg < length ps + c_init (cnt s) ->
  insert_primaries cfg s ps = Err (set_ph Failed s).
Proof. exact insert_capacity_checked_first. Qed.
Print Assumptions C02_insert_capacity_checked_first.
