(** * C03: sign of a quadric along a ray (plain real analysis).

    Along pos + t dir every ORANGE surface evaluates to q(t) = a t^2 + 2 h t + c
    (a = 0 for planes).  The sense is the sign of q.  These lemmas justify the
    "one flip per crossing" hypothesis of [nav_refines_locate_partial]: for a
    non-tangent ray (positive discriminant) the sign of q changes exactly at
    its two simple roots and nowhere else. *)
From Coq Require Import Reals Lra Psatz.
Local Open Scope R_scope.

Lemma quadric_completed_square a h c t :
  a * (a * t * t + 2 * h * t + c) = (a * t + h) * (a * t + h) - (h * h - a * c).
Proof. ring. Qed.

(** in the variable u = a t + h (monotone in t) the roots are u = -D and u = +D *)
Theorem quadric_sign_between_roots a h c t :
  a <> 0 -> 0 < h * h - a * c ->
  let D := sqrt (h * h - a * c) in
  let q := a * t * t + 2 * h * t + c in
  (a * q < 0 <-> - D < a * t + h < D)
  /\ (q = 0 <-> (a * t + h = D \/ a * t + h = - D))
  /\ (0 < a * q <-> (a * t + h < - D \/ D < a * t + h)).
Proof.
  intros Ha Hdisc D q.
  assert (HD : D * D = h * h - a * c) by (apply sqrt_sqrt; lra).
  assert (HDpos : 0 < D) by (apply sqrt_lt_R0; exact Hdisc).
  assert (Hsq : a * q = (a * t + h) * (a * t + h) - D * D).
  { unfold q. rewrite HD. apply quadric_completed_square. }
  set (u := a * t + h) in *.
  split; [|split].
  - rewrite Hsq. split; intros Hx.
    + split; nra.
    + destruct Hx as [H1 H2]. nra.
  - split; intros Hx.
    + assert (Hz : (u - D) * (u + D) = 0) by (rewrite Hx in Hsq; nra).
      apply Rmult_integral in Hz. destruct Hz; [left | right]; lra.
    + assert (Hz : a * q = 0) by (rewrite Hsq; destruct Hx as [-> | ->]; ring).
      apply Rmult_integral in Hz. destruct Hz; [contradiction | assumption].
  - rewrite Hsq. split; intros Hx.
    + destruct (Rlt_dec u (- D)) as [|Hn1]; [left; assumption|].
      destruct (Rlt_dec D u) as [|Hn2]; [right; assumption|]. exfalso.
      assert (H1 : 0 <= u + D) by lra. assert (H2 : 0 <= D - u) by lra.
      pose proof (Rmult_le_pos _ _ H1 H2). nra.
    + destruct Hx as [Hx|Hx].
      * assert (H1 : 0 < - D - u) by lra. assert (H2 : 0 < D - u) by lra.
        replace (u * u - D * D) with ((- D - u) * (D - u)) by ring.
        apply Rmult_lt_0_compat; assumption.
      * assert (H1 : 0 < u - D) by lra. assert (H2 : 0 < u + D) by lra.
        replace (u * u - D * D) with ((u - D) * (u + D)) by ring.
        apply Rmult_lt_0_compat; assumption.
Qed.

(** tangent or missing ray: no sign change at all *)
Theorem quadric_no_crossing a h c t :
  a <> 0 -> h * h - a * c < 0 -> 0 < a * (a * t * t + 2 * h * t + c).
Proof.
  intros Ha Hdisc. rewrite quadric_completed_square.
  pose proof (Rle_0_sqr (a * t + h)) as Hs. unfold Rsqr in Hs. lra.
Qed.

(** planes (a = 0): q is strictly monotone with one simple root *)
Theorem linear_sign h c t1 t2 :
  h <> 0 ->
  ((2 * h * t1 + c = 0) <-> t1 = - c / (2 * h))
  /\ (2 * h * t2 + c) - (2 * h * t1 + c) = 2 * h * (t2 - t1).
Proof.
  intros Hh. split; [|ring]. split; intros Hx.
  - assert (Ht : 2 * h * t1 = - c) by lra.
    replace t1 with ((2 * h * t1) / (2 * h)) by (field; exact Hh). rewrite Ht. reflexivity.
  - rewrite Hx. field. exact Hh.
Qed.

Example quadric_hyps_sat : exists a h c : R, a <> 0 /\ 0 < h * h - a * c.
Proof. exists 1, 0, (-1). split; lra. Qed.
