(** * C03: entry points for the correspondence check (float instance). *)
From Coq Require Import ZArith List Floats.
From Celer Require Import Base.Num Base.NumF Base.Vec3 C12.Solver C12.Surfaces C12.Transforms
  C03.LogicWalk C03.NavModel C03.UnitWalk C03.UnitWalkBg C03.UnitAbs.
Import ListNotations.

Definition ofv (v : vec3 float) : list float := [vx v; vy v; vz v].

Definition out_obs (o : obs float) :=
  (o_ok o, o_stack o, o_onb o, o_reentrant o,
   match o_surf o with Some (l, s, b) => [Z.of_nat l; Z.of_nat s; if b then 1%Z else 0%Z] | None => [] end,
   o_next_step o, ofv (o_pos o), ofv (o_dir o),
   match o_res o with Some (d, b) => [(d, b)] | None => [] end,
   o_failed o).

Definition run (tol : tolerance float) (g : geometry float) (p d : vec3 float) (ops : list (op float)) :=
  map out_obs (run_ray tol g p d ops).

(** same program with the pre-fix set_dir (normal rotated through level() levels) is
    not needed at run time; see NavWitness.v *)

Definition run_locate (g : geometry float) (pts : list (vec3 float)) :=
  map (fun p => locate g p) pts.

(** the unit-level loop of UnitWalk.v on a concrete single-unit geometry *)
Definition run_unit_trace (tol : tolerance float) (g : geometry float) (p d : vec3 float) := unit_trace tol g p d.
