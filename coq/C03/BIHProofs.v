(** * C03 proofs: the BIH traversal.
    1. the flat-array state machine of BIHTraverser::operator() computes the recursive
       traversal [rec_traverse] of the tree the arrays represent (any numeric instance);
    2. [rec_traverse] returns the first volume, in depth-first order, among the leaves the
       point's path reaches, that passes the test; [None] iff there is none;
    3. over R: with bounding planes that bound their subtrees and the point strictly inside
       the bbox of every volume that contains it, the traversal equals linear search. *)
From Coq Require Import Reals List Bool Arith Lia Lra.
From Celer Require Import Base.Num Base.NumR Base.Vec3 C03.BIH.
Import ListNotations.

Lemma first_vol_none test vols : first_vol test vols = None -> forall v, In v vols -> test v = false.
Proof.
  induction vols as [|x r IH]; intros Hf v Hin; [contradiction|]. cbn in Hf.
  destruct (test x) eqn:E; [discriminate|]. destruct Hin as [<-|Hin]; [exact E|apply IH; assumption].
Qed.
Lemma first_vol_some test vols v : first_vol test vols = Some v -> In v vols /\ test v = true.
Proof.
  induction vols as [|x r IH]; intros Hf; [discriminate|]. cbn in Hf.
  destruct (test x) eqn:E.
  - inversion Hf; subst. split; [left; reflexivity|exact E].
  - destruct (IH Hf) as [? ?]. split; [right|]; assumption.
Qed.
Lemma first_vol_exists test vols v : In v vols -> test v = true -> exists w, first_vol test vols = Some w.
Proof.
  intros Hin Ht. destruct (first_vol test vols) as [w|] eqn:E; [exists w; reflexivity|].
  rewrite (first_vol_none _ _ E v Hin) in Ht. discriminate.
Qed.

Section Generic.
  Context {T : Type} `{Num T}.

  Fixpoint bvols (b : btree T) : list nat :=
    match b with BLeaf vols => vols | BNode _ _ _ l r => bvols l ++ bvols r end.
  Fixpoint bsize (b : btree T) : nat :=
    match b with BLeaf _ => 1 | BNode _ _ _ l r => 1 + bsize l + bsize r end.

  (** the leaves the traversal can reach for point [p] *)
  Fixpoint reach (p : vec3 T) (b : btree T) (v : nat) : Prop :=
    match b with
    | BLeaf vols => In v vols
    | BNode ax lp rp l r =>
        ((pcomp p ax <? lp)%num = true /\ reach p l v)
        \/ (((pcomp p ax <? lp)%num = false \/ (rp <? pcomp p ax)%num = true) /\ reach p r v)
    end.

  Lemma reach_in p b v : reach p b v -> In v (bvols b).
  Proof.
    induction b as [vols|ax lp rp l IHl r IHr]; cbn; [tauto|].
    intros [[_ Hr]|[_ Hr]]; apply in_or_app; [left; apply IHl|right; apply IHr]; exact Hr.
  Qed.

  (** *** the traversal is complete and returns a passing, reachable volume *)
  Theorem rec_traverse_none test p b :
    rec_traverse test p b = None <-> (forall v, reach p b v -> test v = false).
  Proof.
    induction b as [vols|ax lp rp l IHl r IHr]; cbn [rec_traverse reach].
    - split; [apply first_vol_none|]. intros Hall.
      destruct (first_vol test vols) as [w|] eqn:E; [|reflexivity].
      destruct (first_vol_some _ _ _ E) as [Hin Ht]. rewrite (Hall w Hin) in Ht. discriminate.
    - destruct (pcomp p ax <? lp)%num eqn:El.
      + destruct (rec_traverse test p l) as [w|] eqn:Rl.
        * split; [discriminate|]. intros Hall. exfalso.
          assert (Hx : Some w = None).
          { apply IHl. intros v Hv. apply Hall. left. split; [reflexivity|exact Hv]. }
          discriminate.
        * destruct (rp <? pcomp p ax)%num eqn:Er.
          -- rewrite IHr. split.
             ++ intros Hr v [[_ Hv]|[_ Hv]]; [apply (proj1 IHl eq_refl v Hv)|apply Hr; exact Hv].
             ++ intros Hall v Hv. apply Hall. right. split; [right; reflexivity|exact Hv].
          -- split; [|reflexivity]. intros _ v [[_ Hv]|[[Hc|Hc] _]]; [apply (proj1 IHl eq_refl v Hv)|discriminate|discriminate].
      + rewrite IHr. split.
        * intros Hr v [[Hc _]|[_ Hv]]; [discriminate|apply Hr; exact Hv].
        * intros Hall v Hv. apply Hall. right. split; [left; reflexivity|exact Hv].
  Qed.

  Theorem rec_traverse_some test p b w :
    rec_traverse test p b = Some w -> reach p b w /\ test w = true.
  Proof.
    induction b as [vols|ax lp rp l IHl r IHr]; cbn [rec_traverse reach].
    - apply first_vol_some.
    - destruct (pcomp p ax <? lp)%num eqn:El.
      + destruct (rec_traverse test p l) as [w'|] eqn:Rl.
        * intros E. inversion E; subst. destruct (IHl eq_refl) as [? ?]. split; [left; split; [reflexivity|assumption]|assumption].
        * destruct (rp <? pcomp p ax)%num eqn:Er; [|discriminate].
          intros E. destruct (IHr E) as [? ?]. split; [right; split; [right; reflexivity|assumption]|assumption].
      + intros E. destruct (IHr E) as [? ?]. split; [right; split; [left; reflexivity|assumption]|assumption].
  Qed.

  (** ** the flat arrays: [repr id parent b] -- node [id] of the arrays, whose parent link is
      [parent], is the root of (a flattening of) [b] *)
  Variable t : bih_tree T.
  Variable p : vec3 T.
  Variable is_inside : nat -> bool.
  Definition btest (v : nat) : bool := visit_bbox t v p && is_inside v.

  Inductive repr : nat -> option nat -> btree T -> Prop :=
  | repr_leaf id parent vols :
      (length (t_inner t) <= id)%nat -> get_leaf t id = Leaf parent vols -> repr id parent (BLeaf vols)
  | repr_node id parent ax lp lc rp rc l r :
      (id < length (t_inner t))%nat -> get_inner t id = Inner parent ax lp lc rp rc ->
      Some lc <> parent -> Some rc <> parent -> lc <> rc ->
      repr lc (Some id) l -> repr rc (Some id) r -> repr id parent (BNode ax lp rp l r).

  (** what happens when the traversal of a subtree ends without a hit: back to the parent *)
  Definition ret (k : nat) (parent : option nat) (id : nat) : option (option nat) :=
    match parent with
    | None => Some None
    | Some pp => bih_loop k t p is_inside pp (Some id)
    end.

  Lemma oid_eqb_refl a : oid_eqb a a = true.
  Proof. destruct a; cbn; [apply Nat.eqb_refl|reflexivity]. Qed.
  Lemma oid_eqb_neq a b : a <> b -> oid_eqb a b = false.
  Proof.
    destruct a as [x|], b as [y|]; cbn; intros Hne; try reflexivity; [|congruence].
    apply Nat.eqb_neq. congruence.
  Qed.

  Lemma refine_subtree id parent b :
    repr id parent b ->
    exists s, (1 <= s <= 3 * bsize b)%nat /\
      forall k, bih_loop (s + k) t p is_inside id parent =
                match rec_traverse btest p b with
                | Some v => Some (Some v)
                | None => ret k parent id
                end.
  Proof.
    induction 1 as [id parent vols Hid Hleaf
                   |id parent ax lp lc rp rc l r Hid Hin Hlp Hrp Hlr _ IHl _ IHr].
    - exists 1%nat. split; [cbn; lia|]. intros k. cbn [Nat.add bih_loop rec_traverse].
      unfold is_inner. replace (Nat.ltb id (length (t_inner t))) with false by (symmetry; apply Nat.ltb_ge; exact Hid).
      rewrite Hleaf. cbn [lf_vols]. unfold visit_leaf. fold btest.
      change (fun v => visit_bbox t v p && is_inside v) with btest.
      destruct (first_vol btest vols); [reflexivity|].
      unfold next_node, is_inner.
      replace (Nat.ltb id (length (t_inner t))) with false by (symmetry; apply Nat.ltb_ge; exact Hid).
      unfold ret. destruct parent; reflexivity.
    - destruct IHl as [sl [Hsl El]]. destruct IHr as [sr [Hsr Er]].
      assert (Hinner : is_inner t id = true) by (apply Nat.ltb_lt; exact Hid).
      (* one step at an inner node *)
      assert (Step : forall k prev, bih_loop (S k) t p is_inside id prev =
                match next_node t id prev p with None => Some None | Some nxt => bih_loop k t p is_inside nxt (Some id) end).
      { intros k prev. cbn [bih_loop]. rewrite Hinner. reflexivity. }
      assert (N1 : next_node t id parent p = if (pcomp p ax <? lp)%num then Some lc else Some rc).
      { unfold next_node. rewrite Hinner, Hin. cbn [in_parent in_lchild in_rchild]. rewrite oid_eqb_refl.
        unfold visit_left. cbn [in_axis in_lpos]. reflexivity. }
      assert (N2 : next_node t id (Some lc) p = if (rp <? pcomp p ax)%num then Some rc else parent).
      { unfold next_node. rewrite Hinner, Hin. cbn [in_parent in_lchild in_rchild].
        rewrite (oid_eqb_neq _ _ Hlp), oid_eqb_refl. unfold visit_right. cbn [in_axis in_rpos]. reflexivity. }
      assert (N3 : next_node t id (Some rc) p = parent).
      { unfold next_node. rewrite Hinner, Hin. cbn [in_parent in_lchild in_rchild].
        rewrite (oid_eqb_neq _ _ Hrp). rewrite oid_eqb_neq by congruence. reflexivity. }
      assert (Third : forall k, bih_loop (S k) t p is_inside id (Some rc) = ret k parent id).
      { intros k. rewrite Step, N3. unfold ret. destruct parent; reflexivity. }
      cbn [rec_traverse bsize].
      destruct (pcomp p ax <? lp)%num eqn:Cl.
      + destruct (rec_traverse btest p l) as [v|] eqn:Rl.
        * exists (S sl). split; [lia|]. intros k. cbn [Nat.add]. rewrite Step, N1; cbv iota beta. apply El.
        * destruct (rp <? pcomp p ax)%num eqn:Cr.
          -- destruct (rec_traverse btest p r) as [v|] eqn:Rr.
             ++ exists (S (sl + S sr)). split; [lia|]. intros k.
                replace (S (sl + S sr) + k)%nat with (S (sl + S (sr + k)))%nat by lia.
                rewrite Step, N1; cbv iota beta. rewrite El. cbn [ret].
                rewrite Step, N2; cbv iota beta. apply Er.
             ++ exists (S (sl + S (sr + 1))). split; [lia|]. intros k.
                replace (S (sl + S (sr + 1)) + k)%nat with (S (sl + S (sr + S k)))%nat by lia.
                rewrite Step, N1; cbv iota beta. rewrite El. cbn [ret].
                rewrite Step, N2; cbv iota beta. rewrite Er. cbn [ret]. apply Third.
          -- exists (S (sl + 1)). split; [lia|]. intros k.
             replace (S (sl + 1) + k)%nat with (S (sl + S k))%nat by lia.
             rewrite Step, N1; cbv iota beta. rewrite El. cbn [ret].
             rewrite Step, N2; cbv iota beta. unfold ret. destruct parent; reflexivity.
      + destruct (rec_traverse btest p r) as [v|] eqn:Rr.
        * exists (S sr). split; [lia|]. intros k. cbn [Nat.add]. rewrite Step, N1; cbv iota beta. apply Er.
        * exists (S (sr + 1)). split; [lia|]. intros k.
          replace (S (sr + 1) + k)%nat with (S (sr + S k))%nat by lia.
          rewrite Step, N1; cbv iota beta. rewrite Er. cbn [ret]. apply Third.
  Qed.

  (** *** BIHTraverser::operator() on flat arrays representing [b] = recursive traversal,
      then the infinite volumes; the fuel 3 * #nodes + 1 always suffices *)
  Theorem bih_traverse_refines b :
    repr 0 None b ->
    (bsize b <= length (t_inner t) + length (t_leaves t))%nat ->
    bih_traverse t p is_inside =
    Some (match rec_traverse btest p b with
          | Some v => Some v
          | None => visit_inf_vols t is_inside
          end).
  Proof.
    intros Hr Hsz. destruct (refine_subtree 0 None b Hr) as [s [Hs E]].
    unfold bih_traverse, bih_fuel.
    replace (3 * (length (t_inner t) + length (t_leaves t)) + 1)%nat
      with (s + (3 * (length (t_inner t) + length (t_leaves t)) + 1 - s))%nat by lia.
    rewrite E. destruct (rec_traverse btest p b); reflexivity.
  Qed.
End Generic.

(** ** over R: equality with linear search *)
Local Open Scope R_scope.

Section Linear.
  Variable bb : nat -> vec3 R * vec3 R.      (* bounding box of each volume *)

  (** BIHBuilder: the left plane is the upper bound of the left subtree's boxes on the split
      axis, the right plane the lower bound of the right subtree's *)
  Fixpoint planes_sound (b : btree R) : Prop :=
    match b with
    | BLeaf _ => True
    | BNode ax lp rp l r =>
        (forall v, In v (bvols l) -> pcomp (snd (bb v)) ax <= lp)
        /\ (forall v, In v (bvols r) -> rp <= pcomp (fst (bb v)) ax)
        /\ planes_sound l /\ planes_sound r
    end.

  Definition strictly_inside (v : nat) (p : vec3 R) : Prop :=
    forall ax, pcomp (fst (bb v)) ax < pcomp p ax < pcomp (snd (bb v)) ax.

  Lemma strictly_inside_reach p b v :
    planes_sound b -> In v (bvols b) -> strictly_inside v p -> reach p b v.
  Proof.
    induction b as [vols|ax lp rp l IHl r IHr]; cbn [planes_sound bvols reach]; [tauto|].
    intros [Hl [Hr [Pl Pr]]] Hin Hs. apply in_app_or in Hin. destruct Hin as [Hin|Hin].
    - left. split; [|apply IHl; assumption]. numR. apply Rltb_true.
      specialize (Hl v Hin). specialize (Hs ax). lra.
    - right. split; [|apply IHr; assumption]. right. numR. apply Rltb_true.
      specialize (Hr v Hin). specialize (Hs ax). lra.
  Qed.

  (** *** bih_equals_linear_search: bounding boxes sound in the strict sense (a volume that
      passes the test has the point strictly inside its -- bumped -- bounding box) and at most
      one volume passes (partition): the traversal finds exactly what a linear scan over the
      tree's volumes finds *)
  Theorem bih_equals_linear_search (test : nat -> bool) (p : vec3 R) (b : btree R) :
    planes_sound b ->
    (forall v, In v (bvols b) -> test v = true -> strictly_inside v p) ->
    (forall v w, In v (bvols b) -> In w (bvols b) -> test v = true -> test w = true -> v = w) ->
    rec_traverse test p b = first_vol test (bvols b).
  Proof.
    intros Hp Hs Hu. destruct (first_vol test (bvols b)) as [v|] eqn:E.
    - destruct (first_vol_some _ _ _ E) as [Hin Ht].
      destruct (rec_traverse test p b) as [w|] eqn:R.
      + destruct (rec_traverse_some _ _ _ _ R) as [Hrw Htw]. f_equal.
        apply Hu; try assumption. apply (reach_in p). exact Hrw.
      + rewrite (proj1 (rec_traverse_none test p b) R v) in Ht; [discriminate|].
        apply strictly_inside_reach; auto.
    - destruct (rec_traverse test p b) as [w|] eqn:R; [|reflexivity].
      destruct (rec_traverse_some _ _ _ _ R) as [Hrw Htw].
      rewrite (first_vol_none _ _ E w (reach_in p b w Hrw)) in Htw. discriminate.
  Qed.

  (** without strictness the claim fails: a point exactly ON the left bounding plane (= on
      the closed upper face of a left box) is not searched in the left subtree *)
  Theorem bih_boundary_point_missed :
    exists (test : nat -> bool) (p : vec3 R) (b : btree R) (bbx : nat -> vec3 R * vec3 R),
      bbox_contains (bbx 0%nat) p = true /\ test 0%nat = true
      /\ first_vol (fun v => bbox_contains (bbx v) p && test v) (bvols b) = Some 0%nat
      /\ rec_traverse (fun v => bbox_contains (bbx v) p && test v) p b = None.
  Proof.
    exists (fun v => Nat.eqb v 0), (V3 1 0 0), (BNode 0 1 1 (BLeaf [0%nat]) (BLeaf [1%nat])),
           (fun v => if Nat.eqb v 0 then (V3 0 0 0, V3 1 1 1) else (V3 1 0 0, V3 2 1 1)).
    cbn. numR.
    repeat (first [rewrite (proj2 (Rleb_true _ _)) by lra | rewrite (proj2 (Rltb_false _ _)) by lra]).
    cbn. repeat split; reflexivity.
  Qed.
End Linear.

(** ** non-vacuity: a flat tree with two inner nodes, three leaves and an infinite volume *)
Definition ex_tree : bih_tree R :=
  Tree [Inner None 0 2 1 2 2; Inner (Some 0%nat) 0 1 3 1 4]
       [Leaf (Some 0%nat) [3%nat]; Leaf (Some 1%nat) [1%nat]; Leaf (Some 1%nat) [2%nat]]
       [0%nat]
       [(V3 (-1) (-1) (-1), V3 9 9 9); (V3 0 0 0, V3 1 1 1); (V3 1 0 0, V3 2 1 1); (V3 2 0 0, V3 3 1 1)].
Definition ex_btree : btree R :=
  BNode 0 2 2 (BNode 0 1 1 (BLeaf [1%nat]) (BLeaf [2%nat])) (BLeaf [3%nat]).

Example bih_hyps_sat :
  repr ex_tree 0%nat None ex_btree
  /\ (bsize ex_btree <= length (t_inner ex_tree) + length (t_leaves ex_tree))%nat
  /\ planes_sound (fun v => nth v (t_bboxes ex_tree) null_bbox) ex_btree.
Proof.
  split; [|split].
  - eapply repr_node with (lc := 1%nat) (rc := 2%nat); try (cbn; lia); try reflexivity; try congruence.
    + eapply repr_node with (lc := 3%nat) (rc := 4%nat); try (cbn; lia); try reflexivity; try congruence.
      * apply repr_leaf; [cbn; lia|reflexivity].
      * apply repr_leaf; [cbn; lia|reflexivity].
    + apply repr_leaf; [cbn; lia|reflexivity].
  - cbn. lia.
  - cbn. repeat split; intros v Hv; cbn in Hv; intuition (subst; cbn; lra).
Qed.
