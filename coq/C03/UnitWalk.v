(** * C03 model, layer L1.5: one *unit partitioned by several volumes* along a ray.

    Abstract twin of the unit-level routines of NavModel.v
      SimpleUnitTracker::initialize      ([find_volume] / [unit_initialize])   -> [a_find_volume], [a_locate]
      SimpleUnitTracker::cross_boundary  ([neighbors], [cross_search], [unit_cross])
                                                                               -> [a_neighbors_from], [a_cross_search], [a_unit_cross]
      SimpleUnitTracker::intersect_impl  (complex branch)                      -> [a_intersect]
    in which the geometry is seen only through what the tracker really uses:
      - a per-point *sense oracle* [nat -> bool] (SenseCalculator on the surfaces of the unit;
        the surface the track is on keeps its stored sense: [forced_sense]),
      - the list of crossings (surface id, distance) ahead of the track (CalcIntersections).
    [UnitWalkProofs.bridge_*] prove that NavModel's concrete routines ARE these
    functions for the oracle [fun s => to_sense (surf_sense (get_surf u s) pos)].
    [nav_trace] is the loop  find_next_step ; move_to_boundary ; cross_boundary  in one unit;
    [spec_trace] is the specification: point location (first volume whose logic is true)
    in every interval between consecutive crossings, consecutive equal answers merged.
    No proofs here. *)
From Coq Require Import List Bool Arith.
From Celer Require Import Base.Num C03.LogicWalk.
Import ListNotations.
Local Open Scope num_scope.

Section UnitWalk.
  Context {T : Type} `{Num T}.

  (** VolumeRecord seen abstractly: faces (local surface ids), logic as a function of the
      face senses, Flags::implicit_vol *)
  Record avol := AVol { av_faces : list nat; av_inside : list bool -> bool; av_implicit : bool }.

  Definition no_avol : avol := AVol [] (fun _ => false) true.
  Definition a_vol (vols : list avol) (i : nat) : avol := nth i vols no_avol.

  (** SenseCalculator: the surface the track is on keeps its stored sense *)
  Definition forced_sense (oracle : nat -> bool) (forced : option (nat * bool)) (s : nat) : bool :=
    match forced with
    | Some (s', b) => if Nat.eqb s' s then b else oracle s
    | None => oracle s
    end.
  Definition face_senses (oracle : nat -> bool) (forced : option (nat * bool)) (faces : list nat)
    : list bool := map (forced_sense oracle forced) faces.
  Definition a_contains (v : avol) (oracle : nat -> bool) (forced : option (nat * bool)) : bool :=
    av_inside v (face_senses oracle forced (av_faces v)).

  (** initialize: first volume whose logic is true, else the background volume *)
  Fixpoint a_find_volume (vols : list avol) (oracle : nat -> bool) (i : nat) : option nat :=
    match vols with
    | [] => None
    | v :: r => if a_contains v oracle None then Some i else a_find_volume r oracle (S i)
    end.
  Definition a_locate (vols : list avol) (bg : option nat) (oracle : nat -> bool) : option nat :=
    match a_find_volume vols oracle 0 with Some i => Some i | None => bg end.

  (** connectivity of a surface: non-implicit volumes that have it as a face *)
  Fixpoint a_neighbors_from (s : nat) (vols : list avol) (i : nat) : list nat :=
    match vols with
    | [] => []
    | v :: r =>
        let rest := a_neighbors_from s r (S i) in
        if negb (av_implicit v) && existsb (Nat.eqb s) (av_faces v) then i :: rest else rest
    end.

  (** cross_boundary: first candidate other than the current volume whose logic is true
      with the crossed surface's sense forced to its post-crossing value *)
  Fixpoint a_cross_search (vols : list avol) (oracle : nat -> bool) (cur : nat)
           (surf : nat * bool) (cands : list nat) : option nat :=
    match cands with
    | [] => None
    | i :: r =>
        if Nat.eqb i cur then a_cross_search vols oracle cur surf r
        else if a_contains (a_vol vols i) oracle (Some surf) then Some i
             else a_cross_search vols oracle cur surf r
    end.
  Definition a_unit_cross (vols : list avol) (bg : option nat) (oracle : nat -> bool) (cur : nat)
             (surf : nat * bool) : option nat :=
    let nb := a_neighbors_from (fst surf) vols 0 in
    let cands := if Nat.ltb (length nb) 3 then nb else seq 0 (length vols) in
    match a_cross_search vols oracle cur surf cands with
    | Some i => Some i
    | None => bg
    end.

  (** VolumeView::find_face *)
  Fixpoint face_index (s : nat) (faces : list nat) (i : nat) : option nat :=
    match faces with [] => None | y :: r => if Nat.eqb s y then Some i else face_index s r (S i) end.

  (** the crossings the tracker computes for one volume: those crossings of the ray that
      lie on one of the volume's faces, as (face index, distance) *)
  Fixpoint local_crossings (faces : list nat) (xs : list (nat * T)) : list (crossing (T:=T)) :=
    match xs with
    | [] => []
    | (s, d) :: r =>
        match face_index s faces 0 with
        | Some f => (f, d) :: local_crossings faces r
        | None => local_crossings faces r
        end
    end.

  (** intersect (complex branch; the simple branch is its special case, see
      [simple_is_complex_first]): result as (surface id, pre-crossing sense, distance) *)
  Definition a_intersect (v : avol) (senses : list bool) (xs : list (nat * T))
    : option (nat * bool * T) :=
    match complex_walk (av_inside v) senses (local_crossings (av_faces v) xs) with
    | Some (f, b, d) => Some (nth f (av_faces v) 0%nat, b, d)
    | None => None
    end.

  (** crossings strictly ahead of ray parameter [t] *)
  Definition ahead (t : T) (xs : list (nat * T)) : list (nat * T) :=
    filter (fun x => negb (snd x <=? t)) xs.

  (** the navigation loop inside one unit.  [xs] = all crossings (surface id, ray parameter)
      of the unit's surfaces along the ray; [oracle_at t] = the sense oracle at the point of
      parameter [t].  State: ray parameter, current volume, surface the track is on.
      Output: (volume entered, ray parameter of the crossing); [None] = tracker failure. *)
  Fixpoint nav_trace (fuel : nat) (vols : list avol) (bg : option nat) (oracle_at : T -> nat -> bool)
           (xs : list (nat * T)) (t : T) (cur : nat) (on : option (nat * bool))
    : list (option nat * T) :=
    match fuel with
    | O => []
    | S k =>
        let v := a_vol vols cur in
        match a_intersect v (face_senses (oracle_at t) on (av_faces v)) (ahead t xs) with
        | None => []
        | Some (s, b, d) =>
            match a_unit_cross vols bg (oracle_at d) cur (s, negb b) with
            | None => [(None, d)]
            | Some v' => (Some v', d) :: nav_trace k vols bg oracle_at xs d v' (Some (s, negb b))
            end
        end
    end.

  (** the specification: TRUE senses at ray parameter [t] (initial senses with one flip per
      crossing passed), point location from them, and the sequence of maximal segments *)
  Definition true_sense (s0 : list bool) (xs : list (nat * T)) (t : T) (s : nat) : bool :=
    nth s (senses_upto t s0 xs) false.
  Definition spec_locate (vols : list avol) (bg : option nat) (s0 : list bool) (xs : list (nat * T))
             (t : T) : option nat :=
    a_locate vols bg (true_sense s0 xs t).

  Definition onat_eqb (a b : option nat) : bool :=
    match a, b with Some x, Some y => Nat.eqb x y | None, None => true | _, _ => false end.

  (** [ds] = the parameters of the crossings in ray order; the location is constant on every
      interval [d_k, d_k+1) *)
  Fixpoint spec_trace (loc : T -> option nat) (cur : option nat) (ds : list T) : list (option nat * T) :=
    match ds with
    | [] => []
    | d :: r =>
        let v' := loc d in
        if onat_eqb cur v' then spec_trace loc cur r
        else match v' with
             | Some _ => (v', d) :: spec_trace loc v' r
             | None => [(None, d)]
             end
    end.
End UnitWalk.
