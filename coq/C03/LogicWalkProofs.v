(** * C03 proofs for layers L1 (logic walk) and L2 (minimum over levels), over R. *)
From Coq Require Import Reals List Bool Arith Lia Lra Sorting.Sorted Permutation.
From Celer Require Import Base.Num Base.NumR C03.LogicWalk.
Import ListNotations.
Local Open Scope R_scope.

Notation crossingR := (crossing (T:=R)).

(** sense vector after crossing all of [xs] in order *)
Definition flips (xs : list crossingR) (s : list bool) : list bool :=
  fold_left (fun s x => flip_at (fst x) s) xs s.

Lemma flips_cons x xs s : flips (x :: xs) s = flips xs (flip_at (fst x) s).
Proof. reflexivity. Qed.
Lemma flips_app xs ys s : flips (xs ++ ys) s = flips ys (flips xs s).
Proof. unfold flips; apply fold_left_app. Qed.

(** ** complex_walk *)
Lemma complex_walk_app inside s xs ys :
  complex_walk inside s (xs ++ ys) =
  match complex_walk inside s xs with
  | Some r => Some r
  | None => complex_walk inside (flips xs s) ys
  end.
Proof.
  revert s; induction xs as [|[f d] xs IH]; intros s; cbn [app complex_walk].
  - reflexivity.
  - rewrite flips_cons; cbn [fst]. destruct (inside (flip_at f s)); [apply IH | reflexivity].
Qed.

(** index form: the walk stops at the first position k such that the logic is
    false after k+1 flips *)
Lemma complex_walk_some inside s xs f b d :
  complex_walk inside s xs = Some (f, b, d) <->
  exists k, nth_error xs k = Some (f, d)
            /\ b = nth f (flips (firstn k xs) s) false
            /\ inside (flips (firstn (S k) xs) s) = false
            /\ forall j, (j < k)%nat -> inside (flips (firstn (S j) xs) s) = true.
Proof.
  revert s; induction xs as [|[f0 d0] xs IH]; intros s.
  - cbn. split; [discriminate|]. intros [k [Hk _]]. destruct k; discriminate.
  - cbn [complex_walk]. destruct (inside (flip_at f0 s)) eqn:Hin.
    + rewrite IH. split.
      * intros [k [Hk [Hb [Hf Hall]]]]. exists (S k). cbn [nth_error firstn].
        repeat split; try assumption.
        intros j Hj. destruct j as [|j].
        -- cbn. exact Hin.
        -- cbn [firstn]. rewrite flips_cons. apply Hall. lia.
      * intros [k [Hk [Hb [Hf Hall]]]]. destruct k as [|k].
        -- cbn in Hk. inversion Hk; subst. cbn in Hf. congruence.
        -- exists k. cbn [nth_error firstn] in *. repeat split; try assumption.
           intros j Hj. specialize (Hall (S j)). cbn [firstn] in Hall. rewrite flips_cons in Hall.
           apply Hall. lia.
    + split.
      * intros Heq. inversion Heq; subst. exists 0%nat. cbn. repeat split; try assumption.
        intros j Hj; lia.
      * intros [k [Hk [Hb [Hf Hall]]]]. destruct k as [|k].
        -- cbn in Hk, Hb. inversion Hk; subst. reflexivity.
        -- specialize (Hall 0%nat). cbn in Hall. rewrite Hall in Hin by lia. discriminate.
Qed.

Lemma complex_walk_none inside s xs :
  complex_walk inside s xs = None <->
  forall k, (k < length xs)%nat -> inside (flips (firstn (S k) xs) s) = true.
Proof.
  revert s; induction xs as [|[f0 d0] xs IH]; intros s.
  - cbn. split; [intros _ k Hk; lia | reflexivity].
  - cbn [complex_walk]. destruct (inside (flip_at f0 s)) eqn:Hin.
    + rewrite IH. split.
      * intros Hall k Hk. destruct k as [|k]; [exact Hin|].
        cbn [firstn]. rewrite flips_cons. apply Hall. cbn in Hk. lia.
      * intros Hall k Hk. specialize (Hall (S k)). cbn [firstn] in Hall. rewrite flips_cons in Hall.
        apply Hall. cbn. lia.
    + split; [discriminate|]. intros Hall. specialize (Hall 0%nat). cbn in Hall.
      rewrite Hall in Hin by lia. discriminate.
Qed.

(** ** link with the ray parameter: [senses_upto t] *)
Definition upto (t : R) (xs : list crossingR) : list crossingR :=
  filter (fun x => Rleb (snd x) t) xs.

Lemma senses_upto_flips t s xs : senses_upto t s xs = flips (upto t xs) s.
Proof.
  revert s; induction xs as [|[f d] xs IH]; intros s; cbn [senses_upto upto filter snd].
  - reflexivity.
  - change (@nleb R NumR d t) with (Rleb d t). destruct (Rleb d t).
    + rewrite flips_cons. apply IH.
    + apply IH.
Qed.

Definition strictly_sorted (xs : list crossingR) : Prop :=
  StronglySorted (fun a b => snd a < snd b) xs.
Definition sorted (xs : list crossingR) : Prop :=
  StronglySorted (fun a b => snd a <= snd b) xs.

Lemma strictly_sorted_sorted xs : strictly_sorted xs -> sorted xs.
Proof.
  induction 1 as [|a l Hs IH Hall]; constructor; [assumption|].
  eapply Forall_impl; [|exact Hall]. cbn; intros; lra.
Qed.

(** in a strictly sorted list the crossings with distance <= d_k are exactly the first k+1 *)
Lemma upto_firstn xs k f d :
  strictly_sorted xs -> nth_error xs k = Some (f, d) -> upto d xs = firstn (S k) xs.
Proof.
  revert k; induction xs as [|[f0 d0] xs IH]; intros k Hs Hk.
  - destruct k; discriminate.
  - inversion Hs as [|? ? Hs' Hall]; subst. destruct k as [|k].
    + cbn in Hk. inversion Hk; subst. cbn [upto filter snd firstn].
      replace (Rleb d d) with true by (symmetry; apply Rleb_true; lra). f_equal.
      clear - Hall. induction xs as [|[f1 d1] xs IH]; [reflexivity|].
      inversion Hall as [|? ? H1 H2]; subst. cbn [filter snd] in *.
      replace (Rleb d1 d) with false by (symmetry; apply Rleb_false; lra). apply IH; assumption.
    + cbn [nth_error] in Hk. cbn [upto filter snd].
      assert (Hlt : d0 < d).
      { apply nth_error_In in Hk. rewrite Forall_forall in Hall. apply (Hall (f, d) Hk). }
      replace (Rleb d0 d) with true by (symmetry; apply Rleb_true; lra).
      change ((f0, d0) :: upto d xs = (f0, d0) :: firstn (S k) xs).
      rewrite (IH k Hs' Hk). reflexivity.
Qed.

(** crossings strictly before d_k are the first k *)
Lemma upto_before xs k f d t :
  strictly_sorted xs -> nth_error xs k = Some (f, d) ->
  (forall j fj dj, (j < k)%nat -> nth_error xs j = Some (fj, dj) -> dj <= t) -> t < d ->
  upto t xs = firstn k xs.
Proof.
  revert k; induction xs as [|[f0 d0] xs IH]; intros k Hs Hk Hbefore Ht.
  - destruct k; discriminate.
  - inversion Hs as [|? ? Hs' Hall]; subst. destruct k as [|k].
    + cbn in Hk. inversion Hk; subst. cbn [upto filter snd firstn].
      replace (Rleb d t) with false by (symmetry; apply Rleb_false; lra).
      clear - Hall Ht. induction xs as [|[f1 d1] xs IH]; [reflexivity|].
      inversion Hall as [|? ? H1 H2]; subst. cbn [filter snd] in *.
      replace (Rleb d1 t) with false by (symmetry; apply Rleb_false; lra). apply IH; assumption.
    + cbn [nth_error] in Hk. cbn [upto filter snd].
      assert (Hle : d0 <= t) by (apply (Hbefore 0%nat f0 d0); [lia | reflexivity]).
      replace (Rleb d0 t) with true by (symmetry; apply Rleb_true; lra).
      change ((f0, d0) :: upto t xs = (f0, d0) :: firstn k xs). f_equal.
      apply (IH k); try assumption.
      intros j fj dj Hj Hnth. apply (Hbefore (S j) fj dj); [lia | exact Hnth].
Qed.

(** *** Headline L1 theorem: for crossings sorted with strictly increasing
    distances, the walk returns the LEAST crossing distance at which the
    volume's logic, evaluated on the sense vector just past that crossing,
    becomes false; and [None] iff it never does. *)
Theorem complex_exit_is_first_exit inside s (xs : list crossingR) :
  strictly_sorted xs ->
  (forall f b d, complex_walk inside s xs = Some (f, b, d) ->
     In (f, d) xs /\ inside (senses_upto d s xs) = false
     /\ (forall f' d', In (f', d') xs -> d' < d -> inside (senses_upto d' s xs) = true))
  /\ (forall f d, In (f, d) xs -> inside (senses_upto d s xs) = false ->
        exists f0 b0 d0, complex_walk inside s xs = Some (f0, b0, d0) /\ d0 <= d)
  /\ (complex_walk inside s xs = None <->
        forall f d, In (f, d) xs -> inside (senses_upto d s xs) = true).
Proof.
  intros Hs.
  assert (Hidx : forall f d, In (f, d) xs -> exists k, nth_error xs k = Some (f, d)
                  /\ senses_upto d s xs = flips (firstn (S k) xs) s).
  { intros f d Hin. apply In_nth_error in Hin. destruct Hin as [k Hk]. exists k. split; [assumption|].
    rewrite senses_upto_flips. f_equal. eapply upto_firstn; eassumption. }
  assert (Hmono : forall j k fj dj fk dk, nth_error xs j = Some (fj, dj) ->
                  nth_error xs k = Some (fk, dk) -> (j < k)%nat -> dj < dk).
  { clear Hidx. induction Hs as [|a l Hs' IH Hall]; intros j k fj dj fk dk Hj Hk Hlt.
    - destruct j; discriminate.
    - destruct k as [|k]; [lia|]. destruct j as [|j].
      + cbn in Hj. inversion Hj; subst. cbn in Hk. apply nth_error_In in Hk.
        rewrite Forall_forall in Hall. apply (Hall _ Hk).
      + cbn in Hj, Hk. eapply IH; try eassumption. lia. }
  split; [|split].
  - intros f b d Hw. apply complex_walk_some in Hw. destruct Hw as [k [Hk [Hb [Hf Hall]]]].
    split; [eapply nth_error_In; eassumption|]. split.
    + rewrite senses_upto_flips. erewrite upto_firstn by eassumption. exact Hf.
    + intros f' d' Hin Hlt. destruct (Hidx f' d' Hin) as [j [Hj Heq]]. rewrite Heq. apply Hall.
      destruct (Nat.lt_ge_cases j k) as [|Hge]; [assumption|exfalso].
      destruct (Nat.eq_dec j k) as [->|Hne].
      * rewrite Hk in Hj. inversion Hj; subst. lra.
      * assert (d < d') by (eapply (Hmono k j); try eassumption; lia). lra.
  - intros f d Hin Hfalse. destruct (complex_walk inside s xs) as [[[f0 b0] d0]|] eqn:Hw.
    + exists f0, b0, d0. split; [reflexivity|].
      apply complex_walk_some in Hw. destruct Hw as [k [Hk [Hb [Hf Hall]]]].
      destruct (Hidx f d Hin) as [j [Hj Heq]]. rewrite Heq in Hfalse.
      destruct (Nat.lt_ge_cases j k) as [Hlt|Hge].
      * rewrite (Hall j Hlt) in Hfalse. discriminate.
      * destruct (Nat.eq_dec j k) as [->|Hne].
        -- rewrite Hk in Hj. inversion Hj; subst. lra.
        -- assert (d0 < d) by (eapply (Hmono k j); try eassumption; lia). lra.
    + exfalso. rewrite complex_walk_none in Hw. destruct (Hidx f d Hin) as [j [Hj Heq]].
      rewrite Heq in Hfalse. rewrite Hw in Hfalse; [discriminate|].
      apply nth_error_Some. rewrite Hj. discriminate.
  - rewrite complex_walk_none. split.
    + intros Hall f d Hin. destruct (Hidx f d Hin) as [j [Hj Heq]]. rewrite Heq. apply Hall.
      apply nth_error_Some. rewrite Hj. discriminate.
    + intros Hall k Hk. destruct (nth_error xs k) as [[f d]|] eqn:Hn.
      * specialize (Hall f d (nth_error_In _ _ Hn)). rewrite senses_upto_flips in Hall.
        erewrite upto_firstn in Hall by eassumption. exact Hall.
      * apply nth_error_None in Hn. lia.
Qed.

Example complex_exit_hyps_sat : strictly_sorted [(0%nat, 1); (1%nat, 2); (0%nat, 3)].
Proof.
  unfold strictly_sorted. repeat constructor; cbn; lra.
Qed.

(** ** limited search at L1: the crossings kept by IsNotFurtherThan(m) are a
    prefix of the sorted list *)
Lemma keep_upto_cons m f d (l : list crossingR) :
  keep_upto m ((f, d) :: l) = if Rleb d m then (f, d) :: keep_upto m l else keep_upto m l.
Proof. reflexivity. Qed.

Lemma keep_upto_all_further m (l : list crossingR) :
  Forall (fun x => m < snd x) l -> keep_upto m l = [].
Proof.
  induction 1 as [|[f d] l Hx Hall IH]; [reflexivity|].
  rewrite keep_upto_cons. cbn in Hx.
  replace (Rleb d m) with false by (symmetry; apply Rleb_false; lra). exact IH.
Qed.

Lemma sorted_keep_prefix m (xs : list crossingR) :
  sorted xs -> exists ys, xs = keep_upto m xs ++ ys /\ Forall (fun x => m < snd x) ys.
Proof.
  induction 1 as [|[f d] l Hs IH Hall].
  - exists []. split; [reflexivity | constructor].
  - rewrite keep_upto_cons. destruct (Rleb_spec d m) as [Hle|Hgt].
    + destruct IH as [ys [Heq Hys]]. exists ys. split; [|exact Hys].
      cbn [app]. rewrite <- Heq. reflexivity.
    + assert (Hfar : Forall (fun x : crossingR => m < snd x) l).
      { eapply Forall_impl; [|exact Hall]. cbn; intros; lra. }
      exists ((f, d) :: l). split.
      * rewrite (keep_upto_all_further m l Hfar). reflexivity.
      * constructor; [cbn; lra | exact Hfar].
Qed.

Lemma complex_walk_result_in inside s (xs : list crossingR) f b d :
  complex_walk inside s xs = Some (f, b, d) -> In (f, d) xs.
Proof.
  intros Hw. apply complex_walk_some in Hw. destruct Hw as [k [Hk _]]. eapply nth_error_In; eassumption.
Qed.

(** the walk on the crossings not further than [m] is the unlimited walk cut at [m] *)
Theorem complex_walk_truncates inside s (xs : list crossingR) m :
  sorted xs ->
  complex_walk inside s (keep_upto m xs) =
  match complex_walk inside s xs with
  | Some (f, b, d) => if Rleb d m then Some (f, b, d) else None
  | None => None
  end.
Proof.
  intros Hs. destruct (sorted_keep_prefix m xs Hs) as [ys [Heq Hys]].
  set (ks := keep_upto m xs) in *.
  assert (Hks : Forall (fun x => snd x <= m) ks).
  { unfold ks, keep_upto. apply Forall_forall. intros x Hx. apply filter_In in Hx.
    destruct Hx as [_ Hx]. change (Rleb (snd x) m = true) in Hx. apply Rleb_true in Hx. exact Hx. }
  rewrite Heq. rewrite complex_walk_app.
  destruct (complex_walk inside s ks) as [[[f b] d]|] eqn:Hw.
  - apply complex_walk_result_in in Hw. rewrite Forall_forall in Hks. specialize (Hks _ Hw). cbn in Hks.
    replace (Rleb d m) with true by (symmetry; apply Rleb_true; lra). reflexivity.
  - destruct (complex_walk inside (flips ks s) ys) as [[[f b] d]|] eqn:Hw2; [|reflexivity].
    apply complex_walk_result_in in Hw2. rewrite Forall_forall in Hys. specialize (Hys _ Hw2). cbn in Hys.
    replace (Rleb d m) with false by (symmetry; apply Rleb_false; lra). reflexivity.
Qed.

(** ** simple volumes *)
Lemma min_crossing_fold (r : list crossingR) (x : crossingR) :
  let res := fold_left (fun best y => if Rltb (snd y) (snd best) then y else best) r x in
  In res (x :: r) /\ forall y, In y (x :: r) -> snd res <= snd y.
Proof.
  revert x; induction r as [|y r IH]; intros x; cbn [fold_left].
  - split; [left; reflexivity|]. intros y [<-|[]]. lra.
  - destruct (Rltb_spec (snd y) (snd x)) as [Hlt|Hge].
    + destruct (IH y) as [Hin Hmin]. split.
      * destruct Hin as [<-|Hin]; [right; left; reflexivity | right; right; exact Hin].
      * intros z [<-|[<-|Hz]].
        -- specialize (Hmin y (or_introl eq_refl)). lra.
        -- apply Hmin. left; reflexivity.
        -- apply Hmin. right; exact Hz.
    + destruct (IH x) as [Hin Hmin]. split.
      * destruct Hin as [<-|Hin]; [left; reflexivity | right; right; exact Hin].
      * intros z [<-|[<-|Hz]].
        -- apply Hmin. left; reflexivity.
        -- specialize (Hmin x (or_introl eq_refl)). lra.
        -- apply Hmin. right; exact Hz.
Qed.

Lemma min_crossing_spec (xs : list crossingR) f d :
  min_crossing xs = Some (f, d) ->
  In (f, d) xs /\ forall f' d', In (f', d') xs -> d <= d'.
Proof.
  destruct xs as [|x r]; [discriminate|]. cbn [min_crossing]. intros Heq. injection Heq as Hres.
  change (@nltb R NumR) with Rltb in Hres.
  pose proof (min_crossing_fold r x) as [Hin Hmin]. cbn zeta in Hin, Hmin.
  rewrite Hres in Hin, Hmin. split; [exact Hin|]. intros f' d' Hin'. apply (Hmin (f', d') Hin').
Qed.

Lemma flip_at_nth f s : (f < length s)%nat -> nth f (flip_at f s) false = negb (nth f s false).
Proof.
  revert f; induction s as [|b s IH]; intros f Hf; [cbn in Hf; lia|].
  destruct f as [|f]; cbn; [reflexivity|]. apply IH. cbn in Hf. lia.
Qed.
Lemma flip_at_length f s : length (flip_at f s) = length s.
Proof. revert f; induction s as [|b s IH]; intros [|f]; cbn; try reflexivity. f_equal. apply IH. Qed.

Lemma conj_literals_true want s : conj_literals want s = true -> s = want.
Proof.
  unfold conj_literals. rewrite andb_true_iff, Nat.eqb_eq. intros [Hlen Hall].
  revert want Hlen Hall; induction s as [|b s IH]; intros [|w want] Hlen Hall; try discriminate.
  - reflexivity.
  - cbn in Hall. apply andb_true_iff in Hall. destruct Hall as [Hb Hall].
    apply eqb_prop in Hb. subst. f_equal. apply IH; [cbn in Hlen; lia | exact Hall].
Qed.

Lemma conj_literals_flip want s f :
  conj_literals want s = true -> (f < length s)%nat -> conj_literals want (flip_at f s) = false.
Proof.
  intros Hin Hf. destruct (conj_literals want (flip_at f s)) eqn:Hflip; [|reflexivity].
  apply conj_literals_true in Hin. apply conj_literals_true in Hflip.
  pose proof (flip_at_nth f s Hf) as Hn. rewrite Hflip, Hin in Hn. destruct (nth f want false); discriminate.
Qed.

(** *** simple_exit_correct: in a volume whose logic is a conjunction of
    literals (the "simple" flag), crossing the nearest face leaves it. *)
Theorem simple_exit_correct want s (xs : list crossingR) :
  conj_literals want s = true ->
  (forall f d, In (f, d) xs -> (f < length s)%nat) ->
  xs <> [] ->
  exists f d, simple_exit s xs = Some (f, nth f s false, d)
    /\ In (f, d) xs /\ (forall f' d', In (f', d') xs -> d <= d')
    /\ conj_literals want (flip_at f s) = false.
Proof.
  intros Hin Hfaces Hne. unfold simple_exit.
  destruct (min_crossing xs) as [[f d]|] eqn:Hmin.
  - destruct (min_crossing_spec xs f d Hmin) as [Hmem Hleast].
    exists f, d. repeat split; try assumption.
    apply conj_literals_flip; [exact Hin | eapply Hfaces; eassumption].
  - destruct xs; [contradiction | discriminate].
Qed.

(** the complex walk agrees: on such a volume it stops at the very first crossing *)
Theorem simple_is_complex_first want s f d (xs : list crossingR) :
  conj_literals want s = true -> (f < length s)%nat ->
  complex_walk (conj_literals want) s ((f, d) :: xs) = Some (f, nth f s false, d).
Proof.
  intros Hin Hf. cbn [complex_walk]. rewrite (conj_literals_flip want s f Hin Hf). reflexivity.
Qed.

Example simple_exit_hyps_sat :
  conj_literals [true; false] [true; false] = true /\ [(1%nat, 2); (0%nat, 1)] <> ([] : list crossingR).
Proof. split; [reflexivity | discriminate]. Qed.

(** ** background volume *)
Theorem background_enter_first enter (xs : list crossingR) f b d :
  background_enter enter xs = Some (f, b, d) <->
  exists k, nth_error xs k = Some (f, d) /\ enter f d = Some b
            /\ forall j f' d', (j < k)%nat -> nth_error xs j = Some (f', d') -> enter f' d' = None.
Proof.
  induction xs as [|[f0 d0] xs IH].
  - cbn. split; [discriminate|]. intros [k [Hk _]]. destruct k; discriminate.
  - cbn [background_enter]. destruct (enter f0 d0) as [b0|] eqn:He.
    + split.
      * intros Heq. inversion Heq; subst. exists 0%nat. repeat split; try assumption. intros; lia.
      * intros [k [Hk [Hb Hall]]]. destruct k as [|k].
        -- cbn in Hk. inversion Hk; subst. congruence.
        -- specialize (Hall 0%nat f0 d0). cbn in Hall. rewrite Hall in He by (lia || reflexivity). discriminate.
    + rewrite IH. split.
      * intros [k [Hk [Hb Hall]]]. exists (S k). repeat split; try assumption.
        intros j f' d' Hj Hn. destruct j as [|j].
        -- cbn in Hn. inversion Hn; subst. exact He.
        -- cbn in Hn. eapply Hall; [|exact Hn]. lia.
      * intros [k [Hk [Hb Hall]]]. destruct k as [|k].
        -- cbn in Hk. inversion Hk; subst. congruence.
        -- exists k. repeat split; try assumption. intros j f' d' Hj Hn.
           apply (Hall (S j) f' d'); [lia | exact Hn].
Qed.

(** ** L2: minimum over levels *)
Notation isectR := (isect R).
Definition hit (r : isectR) : Prop := i_surf r <> None.

Lemma truncate_lt (r : isectR) m :
  i_dist (truncate r m) < m -> hit r /\ i_dist r < m /\ truncate r m = r.
Proof.
  unfold truncate, hit. destruct (i_surf r) as [sf|] eqn:Hs.
  - change (@nleb R NumR (i_dist r) m) with (Rleb (i_dist r) m).
    destruct (Rleb_spec (i_dist r) m) as [Hle|Hgt]; cbn; intros Hlt.
    + repeat split; [congruence | exact Hlt].
    + lra.
  - cbn. intros; lra.
Qed.

Lemma truncate_ge (r : isectR) m :
  ~ i_dist (truncate r m) < m -> hit r -> m <= i_dist r.
Proof.
  unfold truncate, hit. destruct (i_surf r) as [sf|] eqn:Hs; [|congruence].
  change (@nleb R NumR (i_dist r) m) with (Rleb (i_dist r) m).
  destruct (Rleb_spec (i_dist r) m) as [Hle|Hgt]; cbn; intros Hn _; lra.
Qed.

Section Levels.
  Variable r : nat -> isectR.             (* unlimited search result of each level *)
  Variable search : nat -> R -> isectR.
  Hypothesis search_trunc : forall l m, search l m = truncate (r l) m.

  Lemma mol_spec n : forall start best bl res lev,
    (bl < start)%nat ->
    min_over_levels search start n best bl = (res, lev) ->
    ((res = best /\ lev = bl)
     \/ ((start <= lev < start + n)%nat /\ res = r lev /\ hit (r lev) /\ i_dist res < i_dist best))
    /\ i_dist res <= i_dist best
    /\ (forall l, (start <= l < start + n)%nat -> hit (r l) -> i_dist res <= i_dist (r l))
    /\ (forall l, (start <= l < start + n)%nat -> (l < lev)%nat -> hit (r l) -> i_dist res < i_dist (r l)).
  Proof.
    induction n as [|n IH]; intros start best bl res lev Hbl Hm; cbn [min_over_levels] in Hm.
    - inversion Hm; subst. split; [left; split; reflexivity|]. split; [lra|]. split; intros; lia.
    - rewrite search_trunc in Hm. change (@nltb R NumR) with Rltb in Hm.
      destruct (Rltb_spec (i_dist (truncate (r start) (i_dist best))) (i_dist best)) as [Hlt|Hnlt].
      + destruct (truncate_lt _ _ Hlt) as [Hhit [Hd Heq]]. rewrite Heq in Hm.
        assert (Hbl' : (start < S start)%nat) by lia.
        destruct (IH _ _ _ _ _ Hbl' Hm) as [Hcase [Hle [Hall Hstrict]]].
        split; [|split; [|split]].
        * right. destruct Hcase as [[-> ->]|[Hrange [Hres [Hh Hlt2]]]].
          -- repeat split; try assumption; lia.
          -- repeat split; try assumption; try lia. lra.
        * lra.
        * intros l Hl Hhl. destruct (Nat.eq_dec l start) as [->|Hne]; [exact Hle|]. apply Hall; [lia|exact Hhl].
        * intros l Hl Hll Hhl. destruct (Nat.eq_dec l start) as [->|Hne].
          -- destruct Hcase as [[-> ->]|[Hrange [Hres [Hh Hlt2]]]]; [lia | exact Hlt2].
          -- apply Hstrict; [lia | exact Hll | exact Hhl].
      + assert (Hbl' : (bl < S start)%nat) by lia.
        destruct (IH _ _ _ _ _ Hbl' Hm) as [Hcase [Hle [Hall Hstrict]]].
        split; [|split; [|split]].
        * destruct Hcase as [[-> ->]|[Hrange [Hres [Hh Hlt2]]]]; [left; split; reflexivity|].
          right. repeat split; try assumption; lia.
        * exact Hle.
        * intros l Hl Hhl. destruct (Nat.eq_dec l start) as [->|Hne].
          -- pose proof (truncate_ge _ _ Hnlt Hhl). lra.
          -- apply Hall; [lia|exact Hhl].
        * intros l Hl Hll Hhl. destruct (Nat.eq_dec l start) as [->|Hne].
          -- destruct Hcase as [[-> ->]|[Hrange [Hres [Hh Hlt2]]]]; [lia|].
             pose proof (truncate_ge _ _ Hnlt Hhl). lra.
          -- apply Hstrict; [lia | exact Hll | exact Hhl].
  Qed.

  (** *** min_over_levels_correct: the reported distance is the least of the
      level-0 distance and the distances of the deeper levels that have an
      intersection; the reported level is the SHALLOWEST attaining it. *)
  Theorem min_over_levels_correct n r0 res lev :
    find_next_levels r0 search n = (res, lev) ->
    ((lev = 0%nat /\ res = r0)
     \/ ((1 <= lev <= n)%nat /\ res = r lev /\ hit (r lev) /\ i_dist res < i_dist r0))
    /\ i_dist res <= i_dist r0
    /\ (forall l, (1 <= l <= n)%nat -> hit (r l) -> i_dist res <= i_dist (r l))
    /\ (forall l, (1 <= l <= n)%nat -> (l < lev)%nat -> hit (r l) -> i_dist res < i_dist (r l)).
  Proof.
    unfold find_next_levels. intros Hm.
    destruct (mol_spec n 1 r0 0 res lev ltac:(lia) Hm) as [Hcase [Hle [Hall Hstrict]]].
    split; [|split; [|split]].
    - destruct Hcase as [[-> ->]|[Hrange [Hres [Hh Hlt]]]]; [left; split; reflexivity|].
      right. repeat split; try assumption; lia.
    - exact Hle.
    - intros l Hl. apply Hall. lia.
    - intros l Hl. apply Hstrict. lia.
  Qed.

  (** the result as a function of the candidates: characterisation used below *)
  Definition is_min_result (n : nat) (r0 res : isectR) (lev : nat) : Prop :=
    ((lev = 0%nat /\ res = r0)
     \/ ((1 <= lev <= n)%nat /\ res = r lev /\ hit (r lev) /\ i_dist res < i_dist r0))
    /\ (forall l, (1 <= l <= n)%nat -> hit (r l) -> i_dist res <= i_dist (r l))
    /\ (forall l, (1 <= l <= n)%nat -> (l < lev)%nat -> hit (r l) -> i_dist res < i_dist (r l)).

  Lemma is_min_result_unique n r0 res1 lev1 res2 lev2 :
    is_min_result n r0 res1 lev1 -> is_min_result n r0 res2 lev2 -> res1 = res2 /\ lev1 = lev2.
  Proof.
    intros [C1 [A1 S1]] [C2 [A2 S2]].
    destruct C1 as [[-> ->]|[R1 [E1 [H1 L1]]]]; destruct C2 as [[-> ->]|[R2 [E2 [H2 L2]]]].
    - split; reflexivity.
    - exfalso. specialize (A1 lev2 ltac:(lia) H2). rewrite E2 in L2. lra.
    - exfalso. specialize (A2 lev1 ltac:(lia) H1). rewrite E1 in L1. lra.
    - assert (lev1 = lev2).
      { destruct (Nat.lt_trichotomy lev1 lev2) as [Hlt|[Heq|Hgt]]; [|exact Heq|].
        - exfalso. specialize (S2 lev1 ltac:(lia) Hlt H1). specialize (A1 lev2 ltac:(lia) H2).
          rewrite E1, E2 in *. lra.
        - exfalso. specialize (S1 lev2 ltac:(lia) Hgt H2). specialize (A2 lev1 ltac:(lia) H1).
          rewrite E1, E2 in *. lra. }
      subst. split; [congruence | reflexivity].
  Qed.

  (** *** limited_search_truncates (level form).  The search limited to [m]
      returns the unlimited answer truncated at [m] -- provided no deeper level
      has its intersection at distance exactly [m] (see
      [limited_search_tie_refuted]: at a tie the deeper level is NOT reported,
      whereas level 0 is). *)
  Theorem limited_search_truncates n r0 m res lev res' lev' :
    hit r0 ->
    (forall l, (1 <= l <= n)%nat -> hit (r l) -> i_dist (r l) <> m) ->
    find_next_levels r0 search n = (res, lev) ->
    find_next_levels (truncate r0 m) search n = (res', lev') ->
    res' = truncate res m /\ (hit res' -> lev' = lev).
  Proof.
    intros Hr0 Hne Hu Hl.
    pose proof (min_over_levels_correct n r0 res lev Hu) as [Cu [Lu [Au Su]]].
    pose proof (min_over_levels_correct n (truncate r0 m) res' lev' Hl) as [Cl [Ll [Al Sl]]].
    assert (Htr0 : (truncate r0 m = r0 /\ i_dist r0 <= m) \/ (truncate r0 m = Isect m None /\ m < i_dist r0)).
    { unfold truncate, hit in *. destruct (i_surf r0) as [sf|] eqn:Hs; [|congruence].
      change (@nleb R NumR (i_dist r0) m) with (Rleb (i_dist r0) m).
      destruct (Rleb_spec (i_dist r0) m); [left | right]; split; try reflexivity; lra. }
    assert (Hres_hit : hit res).
    { destruct Cu as [[_ ->]|[_ [-> [Hh _]]]]; assumption. }
    destruct Htr0 as [[Heq Hle0]|[Heq Hgt0]].
    - (* level 0 within the limit: both searches coincide *)
      rewrite Heq in *.
      destruct (is_min_result_unique n r0 res lev res' lev'
                  (conj Cu (conj Au Su)) (conj Cl (conj Al Sl))) as [-> ->].
      split; [|reflexivity].
      unfold truncate. unfold hit in Hres_hit. destruct (i_surf res') as [sf|]; [|congruence].
      change (@nleb R NumR (i_dist res') m) with (Rleb (i_dist res') m).
      replace (Rleb (i_dist res') m) with true by (symmetry; apply Rleb_true; lra). reflexivity.
    - (* level 0 cut at m *)
      rewrite Heq in *. cbn [i_dist] in *.
      destruct (Rlt_dec (i_dist res) m) as [Hlt|Hnlt].
      + (* the unlimited winner is a deeper level below m: same winner *)
        destruct Cu as [[-> ->]|[Ru [Eu [Hu' Ltu]]]]; [lra|].
        assert (Hmin : is_min_result n (Isect m None) res lev).
        { split; [|split; assumption]. right. split; [exact Ru|]. split; [exact Eu|]. split; [exact Hu'|].
          cbn. exact Hlt. }
        destruct (is_min_result_unique n (Isect m None) res lev res' lev' Hmin (conj Cl (conj Al Sl))) as [<- <-].
        split; [|reflexivity].
        unfold truncate. unfold hit in Hres_hit. destruct (i_surf res) as [sf|]; [|congruence].
        change (@nleb R NumR (i_dist res) m) with (Rleb (i_dist res) m).
        replace (Rleb (i_dist res) m) with true by (symmetry; apply Rleb_true; lra). reflexivity.
      + (* nothing below m: the limited search reports (m, no surface) *)
        assert (Hgt : m < i_dist res).
        { destruct Cu as [[-> ->]|[Ru [Eu [Hu' Ltu]]]]; [lra|].
          specialize (Hne lev ltac:(lia) Hu'). rewrite <- Eu in Hne. lra. }
        assert (Hres' : res' = Isect m None).
        { destruct Cl as [[_ ->]|[Rl [El [Hl' Ltl]]]]; [reflexivity|exfalso].
          cbn in Ltl. specialize (Au lev' ltac:(lia) Hl'). rewrite El in Ltl. lra. }
        split.
        * rewrite Hres'. unfold truncate. unfold hit in Hres_hit. destruct (i_surf res) as [sf|]; [|reflexivity].
          change (@nleb R NumR (i_dist res) m) with (Rleb (i_dist res) m).
          replace (Rleb (i_dist res) m) with false by (symmetry; apply Rleb_false; lra). reflexivity.
        * rewrite Hres'. unfold hit; cbn. congruence.
  Qed.
End Levels.

(** at a tie the law fails for deeper levels: level 0 has no intersection
    within m = 1, level 1 has one at exactly distance 1; the unlimited answer
    truncated at 1 is "boundary at 1", the limited search says "no boundary" *)
Theorem limited_search_tie_refuted :
  exists (r : nat -> isectR) (r0 : isectR) (m : R),
    hit r0 /\
    fst (find_next_levels (truncate r0 m) (fun l x => truncate (r l) x) 1)
    <> truncate (fst (find_next_levels r0 (fun l x => truncate (r l) x) 1)) m.
Proof.
  exists (fun _ => Isect 1 (Some (0%nat, true))), (Isect 2 (Some (0%nat, true))), 1.
  split; [unfold hit; cbn; congruence|].
  unfold find_next_levels, min_over_levels, truncate. cbn [i_surf i_dist fst].
  change (@nleb R NumR) with Rleb. change (@nltb R NumR) with Rltb.
  replace (Rleb 2 1) with false by (symmetry; apply Rleb_false; lra). cbn [i_surf i_dist].
  replace (Rleb 1 1) with true by (symmetry; apply Rleb_true; lra). cbn [i_surf i_dist].
  replace (Rltb 1 1) with false by (symmetry; apply Rltb_false; lra).
  replace (Rleb 1 2) with true by (symmetry; apply Rleb_true; lra). cbn [i_surf i_dist].
  replace (Rltb 1 2) with true by (symmetry; apply Rltb_true; lra). cbn [fst i_surf i_dist].
  replace (Rleb 1 1) with true by (symmetry; apply Rleb_true; lra).
  discriminate.
Qed.

Example min_over_levels_hyps_sat :
  exists (r : nat -> isectR) (search : nat -> R -> isectR), forall l m, search l m = truncate (r l) m.
Proof. exists (fun _ => Isect 1 None), (fun l m => truncate (Isect 1 None) m). reflexivity. Qed.

(** ** Refinement of point location along the ray (single volume, partial) *)
Lemma strictly_sorted_nth_lt (xs : list crossingR) :
  strictly_sorted xs ->
  forall j k fj dj fk dk, nth_error xs j = Some (fj, dj) -> nth_error xs k = Some (fk, dk) ->
  (j < k)%nat -> dj < dk.
Proof.
  induction 1 as [|a l Hs' IH Hall]; intros j k fj dj fk dk Hj Hk Hlt.
  - destruct j; discriminate.
  - destruct k as [|k]; [lia|]. destruct j as [|j].
    + cbn in Hj. inversion Hj; subst. cbn in Hk. apply nth_error_In in Hk.
      rewrite Forall_forall in Hall. apply (Hall _ Hk).
    + cbn in Hj, Hk. eapply IH; try eassumption. lia.
Qed.

Lemma upto_prefix (xs : list crossingR) t :
  sorted xs ->
  exists j, (j <= length xs)%nat /\ upto t xs = firstn j xs
    /\ (forall i f d, nth_error xs i = Some (f, d) -> (i < j)%nat -> d <= t)
    /\ (forall i f d, nth_error xs i = Some (f, d) -> (j <= i)%nat -> t < d).
Proof.
  induction 1 as [|[f0 d0] l Hs IH Hall].
  - exists 0%nat. cbn. repeat split; try lia; intros i f d Hn; destruct i; discriminate.
  - change (upto t ((f0, d0) :: l)) with (keep_upto t ((f0, d0) :: l)). rewrite keep_upto_cons.
    destruct (Rleb_spec d0 t) as [Hle|Hgt].
    + destruct IH as [j [Hj [Heq [Hbefore Hafter]]]]. exists (S j).
      split; [cbn; lia|]. split; [cbn [firstn]; change (keep_upto t l) with (upto t l); rewrite Heq; reflexivity|]. split.
      * intros i f d Hn Hi. destruct i as [|i]; [cbn in Hn; inversion Hn; subst; exact Hle|].
        cbn in Hn. eapply Hbefore; [exact Hn | lia].
      * intros i f d Hn Hi. destruct i as [|i]; [lia|]. cbn in Hn. eapply Hafter; [exact Hn | lia].
    + assert (Hfar : Forall (fun x : crossingR => t < snd x) l).
      { eapply Forall_impl; [|exact Hall]. cbn; intros; lra. }
      exists 0%nat. split; [lia|]. split; [rewrite (keep_upto_all_further t l Hfar); reflexivity|]. split.
      * intros; lia.
      * intros i f d Hn _. destruct i as [|i]; [cbn in Hn; inversion Hn; subst; lra|].
        cbn in Hn. apply nth_error_In in Hn. rewrite Forall_forall in Hfar. apply (Hfar _ Hn).
Qed.

Section Refine.
  Variable inside : list bool -> bool.   (* the logic of the current volume *)
  Variable s0 : list bool.               (* senses of its faces at the start point *)
  Variable xs : list crossingR.          (* the positive crossings of its faces, sorted *)
  Variable sense_at : R -> list bool.    (* TRUE senses of the faces at pos + t dir *)
  Hypothesis Hsorted : strictly_sorted xs.
  Hypothesis Hpos : forall f d, In (f, d) xs -> 0 < d.
  Hypothesis Hinside0 : inside s0 = true.
  (** non-tangency and completeness of the crossing list: away from the
      crossing parameters the true sense vector is the initial one with one
      flip per crossing already passed ([quadric_sign_between_roots]) *)
  Hypothesis Htrack : forall t, 0 <= t -> (forall f d, In (f, d) xs -> d <> t) ->
                      sense_at t = senses_upto t s0 xs.

  (** the reported step is exactly the maximal initial segment of the ray inside
      the volume: inside before the reported distance, outside just after it,
      and never outside if no intersection is reported *)
  Theorem nav_refines_locate_partial :
    (forall f b d, complex_walk inside s0 xs = Some (f, b, d) ->
       (forall t, 0 <= t < d -> (forall f' d', In (f', d') xs -> d' <> t) -> inside (sense_at t) = true)
       /\ (forall t, d < t -> (forall f' d', In (f', d') xs -> d < d' -> t < d') -> inside (sense_at t) = false))
    /\ (complex_walk inside s0 xs = None ->
        forall t, 0 <= t -> (forall f' d', In (f', d') xs -> d' <> t) -> inside (sense_at t) = true).
  Proof.
    pose proof (strictly_sorted_sorted xs Hsorted) as Hs.
    split.
    - intros f b d Hw. apply complex_walk_some in Hw. destruct Hw as [k [Hk [_ [Hf Hall]]]]. split.
      + intros t [Ht0 Htd] Hnc. rewrite (Htrack t Ht0 Hnc), senses_upto_flips.
        destruct (upto_prefix xs t Hs) as [j [Hj [Heq [Hbefore Hafter]]]]. rewrite Heq.
        assert (Hjk : (j <= k)%nat).
        { destruct (Nat.le_gt_cases j k) as [|Hgt]; [assumption|exfalso].
          pose proof (Hbefore k f d Hk Hgt). lra. }
        destruct j as [|j]; [exact Hinside0|]. apply Hall. lia.
      + intros t Htd Hnext.
        assert (Hnc : forall f' d', In (f', d') xs -> d' <> t).
        { intros f' d' Hin Heq. subst d'. destruct (In_nth_error _ _ Hin) as [i Hi].
          destruct (Nat.lt_trichotomy i k) as [Hlt|[Hik|Hgt]].
          - pose proof (strictly_sorted_nth_lt xs Hsorted i k f' t f d Hi Hk Hlt). lra.
          - assert (E : Some (f', t) = Some (f, d)).
            { transitivity (nth_error xs k); [symmetry; rewrite <- Hik; exact Hi | exact Hk]. }
            inversion E; subst. lra.
          - pose proof (Hnext f' t Hin Htd). lra. }
        assert (Ht0 : 0 <= t).
        { pose proof (Hpos f d (nth_error_In _ _ Hk)). lra. }
        rewrite (Htrack t Ht0 Hnc), senses_upto_flips.
        destruct (upto_prefix xs t Hs) as [j [Hj [Heq [Hbefore Hafter]]]]. rewrite Heq.
        assert (Hjk : j = S k).
        { destruct (Nat.lt_trichotomy j (S k)) as [Hlt|[->|Hgt]]; [exfalso|reflexivity|exfalso].
          - pose proof (Hafter k f d Hk ltac:(lia)). lra.
          - destruct (nth_error xs (S k)) as [[f1 d1]|] eqn:Hn1.
            + pose proof (Hbefore (S k) f1 d1 Hn1 Hgt).
              pose proof (strictly_sorted_nth_lt xs Hsorted k (S k) f d f1 d1 Hk Hn1 ltac:(lia)).
              pose proof (Hnext f1 d1 (nth_error_In _ _ Hn1) ltac:(lra)). lra.
            + apply nth_error_None in Hn1. lia. }
        subst j. exact Hf.
    - intros Hw t Ht0 Hnc. rewrite (Htrack t Ht0 Hnc), senses_upto_flips.
      destruct (upto_prefix xs t Hs) as [j [Hj [Heq _]]]. rewrite Heq.
      destruct j as [|j]; [exact Hinside0|]. rewrite complex_walk_none in Hw. apply Hw. lia.
  Qed.
End Refine.
