(** * C03: non-vacuity of the unit-level theorems: a concrete unit of THREE volumes
    (slabs x < 1 | 1 < x < 2 | 2 < x, two x-planes) and the ray from the origin along +x. *)
From Coq Require Import Reals List Bool Arith Lia Lra Sorting.Sorted.
From Celer Require Import Base.Num Base.NumR Base.Vec3 C12.Solver C12.Surfaces C12.Transforms
  C03.LogicWalk C03.LogicWalkProofs C03.NavModel C03.UnitWalk C03.UnitAbs C03.UnitWalkProofs C03.UnitBridge.
Import ListNotations.
Local Open Scope R_scope.

Ltac nodup := repeat (constructor; [cbn; intuition congruence|]); try constructor.

(** ** abstract form *)
Definition vols3 : list avol :=
  [ AVol [0%nat] (fun s => negb (nth 0 s false)) false;
    AVol [0%nat; 1%nat] (fun s => nth 0 s false && negb (nth 1 s false)) false;
    AVol [1%nat] (fun s => nth 0 s false) false ].
Definition S3 : list bool := [false; false].
Definition xs3 : list (nat * R) := [(0%nat, 1); (1%nat, 2)].

Lemma good3 S : In S [[false; false]; [true; false]; [true; true]] -> good vols3 S.
Proof.
  intros Hin. repeat split.
  - intros i j Hi Hj. cbn in Hi, Hj.
    destruct Hin as [<-|[<-|[<-|[]]]];
      destruct i as [|[|[|i]]]; try lia; destruct j as [|[|[|j]]]; try lia; cbn; congruence.
  - intros i Hi. cbn in Hi. destruct i as [|[|[|i]]]; try lia; cbn; discriminate.
  - destruct Hin as [<-|[<-|[<-|[]]]]; [exists 0%nat|exists 1%nat|exists 2%nat]; cbn; split; (lia || reflexivity).
Qed.

Lemma upto3 t : senses_upto t S3 xs3 =
  if Rleb 1 t then if Rleb 2 t then [true; true] else [true; false]
  else if Rleb 2 t then [false; true] else [false; false].
Proof.
  unfold S3, xs3. cbn [senses_upto]. change (@nleb R NumR) with Rleb.
  destruct (Rleb 1 t), (Rleb 2 t); reflexivity.
Qed.

Example nav_trace_hyps_sat :
  let oracle_at := true_sense S3 xs3 in
  strictly_sorted xs3
  /\ (forall s d, In (s, d) xs3 -> (s < length S3)%nat)
  /\ (forall i, NoDup (av_faces (a_vol vols3 i)))
  /\ (forall s d, In (s, d) xs3 -> forall x, x <> s -> oracle_at d x = true_sense S3 xs3 d x)
  /\ (forall s d, In (s, d) xs3 -> 0 < d)
  /\ (forall x, oracle_at 0 x = vecS S3 x)
  /\ spec_locate vols3 None S3 xs3 0 = Some 0%nat
  /\ all_good vols3 S3 xs3
  /\ nav_trace 3 vols3 None oracle_at xs3 0 0%nat None = [(Some 1%nat, 1); (Some 2%nat, 2)].
Proof.
  intros oracle_at.
  assert (E0 : senses_upto 0 S3 xs3 = [false; false]).
  { rewrite upto3. rewrite (proj2 (Rleb_false 1 0)), (proj2 (Rleb_false 2 0)) by lra. reflexivity. }
  assert (E1 : senses_upto 1 S3 xs3 = [true; false]).
  { rewrite upto3. rewrite (proj2 (Rleb_true 1 1)), (proj2 (Rleb_false 2 1)) by lra. reflexivity. }
  assert (E2 : senses_upto 2 S3 xs3 = [true; true]).
  { rewrite upto3. rewrite (proj2 (Rleb_true 1 2)), (proj2 (Rleb_true 2 2)) by lra. reflexivity. }
  assert (Hs : strictly_sorted xs3).
  { repeat constructor; cbn; lra. }
  assert (Hr : forall s d, In (s, d) xs3 -> (s < length S3)%nat).
  { intros s d [E|[E|[]]]; inversion E; subst; cbn; lia. }
  assert (Hn : forall i, NoDup (av_faces (a_vol vols3 i))).
  { intros [|[|[|i]]]; cbn; [nodup|nodup|nodup|destruct i; cbn; constructor]. }
  assert (Hp : forall s d, In (s, d) xs3 -> 0 < d).
  { intros s d [E|[E|[]]]; inversion E; subst; lra. }
  assert (Hl : spec_locate vols3 None S3 xs3 0 = Some 0%nat).
  { unfold spec_locate, true_sense. rewrite E0. reflexivity. }
  assert (Hg : all_good vols3 S3 xs3).
  { unfold xs3, S3. cbn [all_good flip_at negb].
    split; [apply (good3 [false; false]); left; reflexivity|].
    split; [apply (good3 [true; false]); right; left; reflexivity|].
    split; [apply (good3 [true; true]); right; right; left; reflexivity|exact I]. }
  assert (Ho : forall x, oracle_at 0 x = vecS S3 x).
  { intros x. unfold oracle_at, true_sense. rewrite E0. reflexivity. }
  split; [exact Hs|]. split; [exact Hr|]. split; [exact Hn|]. split; [intros; reflexivity|].
  split; [exact Hp|]. split; [exact Ho|]. split; [exact Hl|]. split; [exact Hg|].
  - change 3%nat with (S (length xs3)).
    rewrite (nav_trace_refines_locate vols3 None S3 xs3 oracle_at Hs Hr Hn (fun _ _ _ _ _ => eq_refl) 0 0%nat Hp Ho Hl Hg).
    cbn [map snd xs3 spec_trace]. unfold spec_locate, true_sense. rewrite E1, E2. reflexivity.
Qed.

(** ** concrete form (NavModel's unit over R): crossing the plane x = 1 out of the first slab *)
Definition unit3 : unit R :=
  Unit [SPlaneAligned AX 1; SPlaneAligned AX 2]
       [ Vol [0%nat] [LFace 0; LNot] false false None;
         Vol [0%nat; 1%nat] [LFace 0; LFace 1; LNot; LAnd] false false None;
         Vol [1%nat] [LFace 1] false false None ]
       None.

Lemma sense3 p x y z :
  surf_sense (SPlaneAligned AX p) (V3 x y z)
  = if Rltb (x - p) 0 then Inside else if Rleb (x - p) 0 then On else Outside.
Proof. reflexivity. Qed.

Ltac rdecide :=
  repeat first
    [ rewrite (proj2 (Rltb_true _ _)) by lra | rewrite (proj2 (Rltb_false _ _)) by lra
    | rewrite (proj2 (Rleb_true _ _)) by lra | rewrite (proj2 (Rleb_false _ _)) by lra ].

Lemma orc3_0 x y z : orc unit3 (V3 x y z) 0 = negb (Rltb (x - 1) 0).
Proof.
  unfold orc, unit3, get_surf. cbn [u_surfs nth]. rewrite sense3.
  destruct (Rltb (x - 1) 0); [reflexivity|]. destruct (Rleb (x - 1) 0); reflexivity.
Qed.
Lemma orc3_1 x y z : orc unit3 (V3 x y z) 1 = negb (Rltb (x - 2) 0).
Proof.
  unfold orc, unit3, get_surf. cbn [u_surfs nth]. rewrite sense3.
  destruct (Rltb (x - 2) 0); [reflexivity|]. destruct (Rleb (x - 2) 0); reflexivity.
Qed.

Lemma faces3 i x : In x (v_faces (get_vol unit3 i)) -> x = 0%nat \/ x = 1%nat.
Proof.
  destruct i as [|[|[|i]]]; cbn; try tauto; try (intros [<-|[<-|[]]]; tauto); try (intros [<-|[]]; tauto).
  destruct i; cbn; tauto.
Qed.

(** the track leaves slab 0 through the plane x = 1 (surface 0, pre-crossing sense inside =
    false) at (1,0,0); (3/2,0,0) is a point just past the crossing *)
Example unit_cross_hyps_sat :
  let u := unit3 in let pos := V3 1 0 0 in let pos' := V3 (3/2) 0 0 in
  let cur := 0%nat in let s := 0%nat in let b := false in
  wf_faces u
  /\ off_surfaces u pos'
  /\ (forall x, x <> s -> (exists i, In x (v_faces (get_vol u i))) -> orc u pos x = orc u pos' x)
  /\ orc u pos' s = negb b
  /\ (let vols := abs_unit u in
      let sprev := fun x => if Nat.eqb x s then b else orc u pos' x in
      (forall w, (w < length vols)%nat -> w <> cur -> contains vols w sprev = false)
      /\ contains vols cur (orc u pos') = false
      /\ at_most_one vols (orc u pos') /\ implicit_empty vols (orc u pos'))
  /\ unit_cross u pos cur (s, negb b) = Some 1%nat
  /\ unit_initialize u pos' = Some 1%nat.
Proof.
  intros u pos pos' cur s b.
  assert (O0 : orc u pos' 0 = true) by (unfold u, pos'; rewrite orc3_0; rdecide; reflexivity).
  assert (O1 : orc u pos' 1 = false) by (unfold u, pos'; rewrite orc3_1; rdecide; reflexivity).
  assert (P1 : orc u pos 1 = false) by (unfold u, pos; rewrite orc3_1; rdecide; reflexivity).
  assert (Hwf : wf_faces u).
  { intros [|[|[|i]]]; cbn; [nodup|nodup|nodup|destruct i; cbn; constructor]. }
  assert (Hoff : off_surfaces u pos').
  { intros v [<-|[<-|[<-|[]]]]; unfold vol_inside, calc_senses; cbn [v_faces calc_senses_from snd];
      unfold u, unit3, get_surf, pos'; cbn [u_surfs nth]; rewrite ?sense3; rdecide; reflexivity. }
  assert (Hsame : forall x, x <> s -> (exists i, In x (v_faces (get_vol u i))) -> orc u pos x = orc u pos' x).
  { intros x Hx [i Hi]. destruct (faces3 i x Hi) as [->| ->]; [contradiction|]. rewrite P1, O1. reflexivity. }
  assert (C : forall w (o : nat -> bool), o 0%nat = true -> o 1%nat = false ->
              contains (abs_unit u) w o = match w with 1%nat => true | _ => false end).
  { intros w o H0 H1. destruct w as [|[|[|w]]]; cbn; rewrite ?H0, ?H1; try reflexivity.
    destruct w; reflexivity. }
  assert (Cp : forall w (o : nat -> bool), o 0%nat = false -> o 1%nat = false ->
              contains (abs_unit u) w o = match w with 0%nat => true | _ => false end).
  { intros w o H0 H1. destruct w as [|[|[|w]]]; cbn; rewrite ?H0, ?H1; try reflexivity.
    destruct w; reflexivity. }
  assert (Hpart : let vols := abs_unit u in
      let sprev := fun x => if Nat.eqb x s then b else orc u pos' x in
      (forall w, (w < length vols)%nat -> w <> cur -> contains vols w sprev = false)
      /\ contains vols cur (orc u pos') = false
      /\ at_most_one vols (orc u pos') /\ implicit_empty vols (orc u pos')).
  { cbn zeta. repeat split.
    - intros w _ Hne. rewrite Cp by (cbn; auto). destruct w; [contradiction|reflexivity].
    - rewrite C by assumption. reflexivity.
    - intros i j _ _. rewrite !C by assumption. destruct i as [|[|i]], j as [|[|j]]; congruence.
    - intros i Hi Himp. exfalso. cbn in Hi. destruct i as [|[|[|i]]]; cbn in Himp; try discriminate. lia. }
  assert (Hinit : unit_initialize u pos' = Some 1%nat).
  { rewrite bridge_unit_initialize by exact Hoff. unfold a_locate. cbn [abs_unit u unit3 u_vols map a_find_volume].
    fold u. change (a_contains (absv ?v) ?o None) with (a_contains (absv v) o None).
    unfold a_contains; cbn [absv av_inside av_faces v_faces v_logic face_senses map forced_sense].
    rewrite O0, O1. reflexivity. }
  pose proof Hpart as [H1 [H2 [H3 H4]]].
  split; [exact Hwf|]. split; [exact Hoff|]. split; [exact Hsame|]. split; [exact O0|].
  split; [exact Hpart|]. split; [|exact Hinit].
  - rewrite (unit_cross_is_locate_past u pos pos' cur s b Hwf Hoff Hsame O0 H1 H2 H3 H4). exact Hinit.
Qed.
