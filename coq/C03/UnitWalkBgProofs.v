(** * C03 proofs: the unit-level trace theorem for units WITH a background volume. *)
From Coq Require Import Reals List Bool Arith Lia Lra Sorting.Sorted.
From Celer Require Import Base.Num Base.NumR C03.LogicWalk C03.LogicWalkProofs C03.UnitWalk
  C03.UnitWalkProofs C03.UnitWalkBg.
Import ListNotations.
Local Open Scope R_scope.

Section UnitBg.
  Variable vols : list avol.
  Variable bg : option nat.
  Notation xing := (nat * R)%type.
  Notation contains := (contains vols).

  (** the background volume is an implicit volume of the unit *)
  Hypothesis Hbg : forall b, bg = Some b -> (b < length vols)%nat /\ av_implicit (a_vol vols b) = true.

  Definition good' (S : list bool) : Prop := at_most_one vols (vecS S) /\ implicit_empty vols (vecS S).
  Fixpoint all_good' (S : list bool) (suf : list xing) : Prop :=
    good' S /\ match suf with [] => True | (s, _) :: r => all_good' (flip_at s S) r end.
  Lemma all_good'_head S suf : all_good' S suf -> good' S.
  Proof. destruct suf as [|[? ?] ?]; cbn; tauto. Qed.
  Lemma all_good'_app S mid r : all_good' S (mid ++ r) -> all_good' (flips mid S) r.
  Proof.
    revert S; induction mid as [|[s d] m IH]; intros S Hg; [exact Hg|].
    rewrite flips_cons. cbn [fst]. apply IH. cbn in Hg. tauto.
  Qed.

  Definition loc (S : list bool) : option nat := a_locate vols bg (vecS S).

  (** where the located volume can come from *)
  Lemma cur_cases S cur :
    good' S -> loc S = Some cur ->
    (contains cur (vecS S) = true /\ av_implicit (a_vol vols cur) = false)
    \/ (bg = Some cur /\ av_implicit (a_vol vols cur) = true /\ forall w, contains w (vecS S) = false).
  Proof.
    intros [Hu Hi] Hl. unfold loc, a_locate in Hl.
    destruct (a_find_volume vols (vecS S) 0) as [i|] eqn:Hf.
    - inversion Hl; subst. destruct (locate_some_contains vols _ _ Hf) as [Hlt Hc]. left. split; [exact Hc|].
      destruct (av_implicit (a_vol vols cur)) eqn:E; [|reflexivity]. rewrite (Hi cur Hlt E) in Hc. discriminate.
    - right. destruct (Hbg cur Hl) as [Hlt Himp]. repeat split; try assumption.
      intros w. destruct (contains w (vecS S)) eqn:Hc; [|reflexivity].
      pose proof (contains_range vols w _ Hc) as Hw.
      pose proof (find_volume_none vols _ _ Hf w Hw) as Hn. unfold UnitWalkProofs.contains, a_vol in Hc. congruence.
  Qed.

  Lemma loc_not_cur S cur : good' S -> contains cur (vecS S) = false ->
    av_implicit (a_vol vols cur) = false -> onat_eqb (Some cur) (loc S) = false.
  Proof.
    intros Hg Hc Hni. destruct (loc S) as [w|] eqn:Hl; [|reflexivity]. cbn.
    apply Nat.eqb_neq. intros ->. destruct (cur_cases S w Hg Hl) as [[H1 _]|[_ [H2 _]]]; congruence.
  Qed.

  (** the specification's walk: first crossing at which point location changes *)
  Fixpoint s_walk (S : list bool) (cur : nat) (suf : list xing)
    : option (nat * bool * R * list bool * list xing) :=
    match suf with
    | [] => None
    | (s, d) :: r =>
        let S' := flip_at s S in
        if onat_eqb (Some cur) (loc S') then s_walk S' cur r
        else Some (s, nth s S false, d, S', r)
    end.

  Lemma spec_struct_walk S cur suf :
    spec_struct vols bg S (Some cur) suf =
    match s_walk S cur suf with
    | None => []
    | Some (s, b, d, S', r) =>
        match loc S' with
        | None => [(None, d)]
        | Some v' => (Some v', d) :: spec_struct vols bg S' (Some v') r
        end
    end.
  Proof.
    revert S; induction suf as [|[s d] r IH]; intros S; [reflexivity|]. cbn [spec_struct s_walk].
    fold (loc (flip_at s S)). destruct (onat_eqb (Some cur) (loc (flip_at s S))); [apply IH|].
    destruct (loc (flip_at s S)); reflexivity.
  Qed.

  Lemma s_walk_some S cur suf s b d S' r :
    loc S = Some cur ->
    s_walk S cur suf = Some (s, b, d, S', r) ->
    exists mid, suf = mid ++ (s, d) :: r /\ S' = flip_at s (flips mid S)
      /\ b = vecS (flips mid S) s /\ loc (flips mid S) = Some cur /\ loc S' <> Some cur.
  Proof.
    revert S; induction suf as [|[s1 d1] r1 IH]; intros S Hl Hw; [discriminate|]. cbn [s_walk] in Hw.
    destruct (onat_eqb (Some cur) (loc (flip_at s1 S))) eqn:E.
    - assert (Hl' : loc (flip_at s1 S) = Some cur).
      { destruct (loc (flip_at s1 S)) as [w|]; [|discriminate]. cbn in E. apply Nat.eqb_eq in E. congruence. }
      destruct (IH _ Hl' Hw) as [mid [-> [-> [-> [H1 H2]]]]].
      exists ((s1, d1) :: mid). rewrite flips_cons. cbn [fst]. repeat split; assumption.
    - inversion Hw; subst. exists []. cbn [app flips fold_left]. repeat split; try assumption.
      intros Hx. rewrite Hx in E. cbn in E. rewrite Nat.eqb_refl in E. discriminate.
  Qed.

  (** an ordinary volume: the tracker's complex walk is the specification's walk *)
  Lemma g_walk_is_s_walk cur S suf :
    av_implicit (a_vol vols cur) = false -> contains cur (vecS S) = true -> all_good' S suf ->
    g_walk (a_vol vols cur) S suf = s_walk S cur suf.
  Proof.
    intros Hni. revert S; induction suf as [|[s d] r IH]; intros S Hc Hg; [reflexivity|].
    cbn [g_walk s_walk]. destruct Hg as [_ Hg]. pose proof (all_good'_head _ _ Hg) as Hg1.
    fold (contains cur (vecS (flip_at s S))).
    destruct (contains cur (vecS (flip_at s S))) eqn:Hc'.
    - unfold loc. destruct Hg1 as [Hu _]. rewrite (locate_unique vols bg _ _ Hu Hc'). cbn. rewrite Nat.eqb_refl.
      apply IH; assumption.
    - rewrite (loc_not_cur _ _ Hg1 Hc' Hni). reflexivity.
  Qed.

  Lemma neighbors_inv s vs k i :
    In i (a_neighbors_from s vs k) ->
    exists j, i = (k + j)%nat /\ (j < length vs)%nat /\ In s (av_faces (nth j vs no_avol)).
  Proof.
    revert k; induction vs as [|v r IH]; intros k Hin; [contradiction|]. cbn [a_neighbors_from] in Hin.
    destruct (negb (av_implicit v) && existsb (Nat.eqb s) (av_faces v)) eqn:E.
    - destruct Hin as [<-|Hin].
      + exists 0%nat. cbn. repeat split; [lia|lia|]. apply andb_true_iff in E. destruct E as [_ E].
        apply existsb_exists in E. destruct E as [x [Hx Hxs]]. apply Nat.eqb_eq in Hxs. subst. exact Hx.
      + destruct (IH _ Hin) as [j [-> [Hj Hs]]]. exists (S j). cbn. repeat split; [lia|lia|exact Hs].
    - destruct (IH _ Hin) as [j [-> [Hj Hs]]]. exists (S j). cbn. repeat split; [lia|lia|exact Hs].
  Qed.

  Lemma bg_search_none o s cands :
    a_bg_enter_search vols o s cands = None -> forall i, In i cands -> contains i o = false.
  Proof.
    induction cands as [|c r IH]; intros Hs i Hin; [contradiction|]. cbn [a_bg_enter_search] in Hs.
    fold (contains c o) in Hs. destruct (contains c o) eqn:Hc.
    - destruct (existsb _ _); discriminate.
    - destruct Hin as [<-|Hin]; [exact Hc|apply IH; assumption].
  Qed.
  Lemma bg_search_some o s cands b :
    (forall i, In i cands -> In s (av_faces (a_vol vols i))) ->
    a_bg_enter_search vols o s cands = Some b ->
    b = negb (o s) /\ exists i, In i cands /\ contains i o = true.
  Proof.
    induction cands as [|c r IH]; intros Hf Hs; [discriminate|]. cbn [a_bg_enter_search] in Hs.
    fold (contains c o) in Hs. destruct (contains c o) eqn:Hc.
    - replace (existsb (Nat.eqb s) (av_faces (a_vol vols c))) with true in Hs.
      + inversion Hs. split; [reflexivity|]. exists c. split; [left; reflexivity|exact Hc].
      + symmetry. apply existsb_exists. exists s. split; [apply Hf; left; reflexivity|apply Nat.eqb_refl].
    - destruct (IH (fun i Hi => Hf i (or_intror Hi)) Hs) as [Hb [i [Hi Hci]]].
      split; [exact Hb|]. exists i. split; [right; exact Hi|exact Hci].
  Qed.

  (** in the background: background_enter is the specification's walk *)
  Lemma bg_walk_is_s_walk cur (enter : nat -> R -> option bool) : forall suf S,
    bg = Some cur -> av_implicit (a_vol vols cur) = true ->
    (forall w, contains w (vecS S) = false) ->
    (forall s d, In (s, d) suf -> (s < length S)%nat) ->
    all_good' S suf ->
    (forall mid s d rest, suf = mid ++ (s, d) :: rest ->
       enter s d = a_bg_enter_search vols (vecS (flip_at s (flips mid S))) s (a_neighbors_from s vols 0)) ->
    background_enter enter suf =
    match s_walk S cur suf with Some (s, b, d, _, _) => Some (s, b, d) | None => None end.
  Proof.
    induction suf as [|[s d] r IH]; intros S Hb Himp Hnobody Hrange Hg Henter; [reflexivity|].
    cbn [background_enter s_walk]. destruct Hg as [_ Hg]. pose proof (all_good'_head _ _ Hg) as [Hu1 Hi1].
    assert (Hs : (s < length S)%nat) by (apply (Hrange s d); left; reflexivity).
    rewrite (Henter [] s d r eq_refl). cbn [flips fold_left].
    set (S' := flip_at s S) in *.
    assert (Hnb : forall i, In i (a_neighbors_from s vols 0) -> In s (av_faces (a_vol vols i))).
    { intros i Hi. destruct (neighbors_inv _ _ _ _ Hi) as [j [-> [_ Hj]]]. exact Hj. }
    destruct (a_bg_enter_search vols (vecS S') s (a_neighbors_from s vols 0)) as [b|] eqn:Es.
    - destruct (bg_search_some _ _ _ _ Hnb Es) as [Eb [i [_ Hci]]].
      assert (Hne : onat_eqb (Some cur) (loc S') = false).
      { destruct (loc S') as [w|] eqn:Hl; [|reflexivity]. cbn. apply Nat.eqb_neq. intros <-.
        destruct (cur_cases S' cur (conj Hu1 Hi1) Hl) as [[_ H2]|[_ [_ H3]]]; [congruence|].
        rewrite (H3 i) in Hci. discriminate. }
      rewrite Hne. f_equal. f_equal. f_equal. rewrite Eb. unfold S'. rewrite vecS_flip by exact Hs.
      rewrite Nat.eqb_refl, negb_involutive. reflexivity.
    - assert (Hnobody' : forall w, contains w (vecS S') = false).
      { intros w. destruct (contains w (vecS S')) eqn:Hc; [|reflexivity]. exfalso.
        pose proof (contains_range vols w _ Hc) as Hw.
        assert (Hwi : av_implicit (a_vol vols w) = false).
        { destruct (av_implicit (a_vol vols w)) eqn:E; [|reflexivity]. rewrite (Hi1 w Hw E) in Hc. discriminate. }
        destruct (in_dec Nat.eq_dec s (av_faces (a_vol vols w))) as [Hin|Hnot].
        - pose proof (neighbors_in s vols 0 w Hw Hwi Hin) as Hn. cbn [Nat.add] in Hn.
          rewrite (bg_search_none _ _ _ Es w Hn) in Hc. discriminate.
        - assert (E : contains w (vecS S) = true).
          { rewrite <- Hc. unfold UnitWalkProofs.contains, a_contains. f_equal. apply face_senses_ext.
            intros x Hx. cbn. unfold S'. rewrite vecS_flip by exact Hs.
            destruct (Nat.eqb_spec x s) as [->|]; [contradiction|reflexivity]. }
          rewrite (Hnobody w) in E. discriminate. }
      assert (Hl : loc S' = Some cur).
      { unfold loc, a_locate. destruct (a_find_volume vols (vecS S') 0) as [i|] eqn:Hf; [|exact Hb].
        destruct (locate_some_contains vols _ _ Hf) as [_ Hc]. rewrite (Hnobody' i) in Hc. discriminate. }
      rewrite Hl. cbn [onat_eqb]. rewrite Nat.eqb_refl.
      apply IH; try assumption.
      + intros s' d' Hi. unfold S'. rewrite flip_at_length. apply (Hrange s' d'). right. exact Hi.
      + intros mid s' d' rest E. rewrite (Henter ((s, d) :: mid) s' d' rest) by (rewrite E; reflexivity).
        rewrite flips_cons. reflexivity.
  Qed.

  Section Ray.
    Variable S0 : list bool.
    Variable xs : list xing.
    Variables oracle_at oracle_bump : R -> nat -> bool.
    Hypothesis Hsorted : strictly_sorted xs.
    Hypothesis Hrange : forall s d, In (s, d) xs -> (s < length S0)%nat.
    Hypothesis Hnodup : forall i, NoDup (av_faces (a_vol vols i)).
    Hypothesis Horacle : forall s d, In (s, d) xs ->
                         forall x, x <> s -> oracle_at d x = true_sense S0 xs d x.
    (** SenseCalculator at the bumped point just past a crossing sees the senses past it *)
    Hypothesis Hbump : forall s d, In (s, d) xs -> forall x, oracle_bump d x = true_sense S0 xs d x.

    Lemma nav_trace_bg_is_spec fuel : forall pre suf t cur on,
      xs = pre ++ suf ->
      ahead t xs = suf ->
      (forall x, forced_sense (oracle_at t) on x = vecS (flips pre S0) x) ->
      loc (flips pre S0) = Some cur ->
      all_good' (flips pre S0) suf ->
      (length suf < fuel)%nat ->
      nav_trace_bg fuel vols bg oracle_at oracle_bump xs t cur on
      = spec_struct vols bg (flips pre S0) (Some cur) suf.
    Proof.
      induction fuel as [|fuel IH]; intros pre suf t cur on E Ha Hon Hloc Hg Hfuel; [lia|].
      cbn [nav_trace_bg]. rewrite Ha. set (S := flips pre S0) in *.
      rewrite spec_struct_walk.
      assert (HrS : forall s d, In (s, d) suf -> (s < length S)%nat).
      { intros s d Hi. unfold S. rewrite flips_length. apply (Hrange s d). rewrite E. apply in_or_app. right. exact Hi. }
      assert (Hwalk : (if av_implicit (a_vol vols cur)
                       then a_bg_intersect vols oracle_bump suf
                       else a_intersect (a_vol vols cur) (face_senses (oracle_at t) on (av_faces (a_vol vols cur))) suf)
                      = match s_walk S cur suf with Some (s, b, d, _, _) => Some (s, b, d) | None => None end).
      { destruct (cur_cases S cur (all_good'_head _ _ Hg) Hloc) as [[Hc Hni]|[Hb [Himp Hnobody]]].
        - rewrite Hni.
          assert (Es : face_senses (oracle_at t) on (av_faces (a_vol vols cur))
                       = face_senses (vecS S) None (av_faces (a_vol vols cur))).
          { apply face_senses_ext. intros x _. apply Hon. }
          rewrite Es, (local_is_global (a_vol vols cur) S suf (Hnodup cur) HrS Hc).
          rewrite (g_walk_is_s_walk cur S suf Hni Hc Hg). reflexivity.
        - rewrite Himp. unfold a_bg_intersect.
          apply (bg_walk_is_s_walk cur _ suf S Hb Himp Hnobody HrS Hg).
          intros mid s d rest Esuf. f_equal.
          assert (Exs : xs = (pre ++ mid) ++ (s, d) :: rest) by (rewrite <- app_assoc, <- Esuf; exact E).
          assert (Hinx : In (s, d) xs) by (rewrite Exs; apply in_or_app; right; left; reflexivity).
          apply FunctionalExtensionality.functional_extensionality. intros x.
          rewrite (Hbump s d Hinx x). unfold true_sense.
          rewrite (senses_at_crossing S0 xs Hsorted _ _ _ _ Exs). unfold S. rewrite flips_app. reflexivity. }
      rewrite Hwalk. clear Hwalk.
      destruct (s_walk S cur suf) as [[[[[s b] d] S'] r]|] eqn:Hw; [|reflexivity].
      destruct (s_walk_some S cur suf s b d S' r Hloc Hw) as [mid [Esuf [ES' [Eb [Hlb Hexit]]]]].
      assert (Exs : xs = (pre ++ mid) ++ (s, d) :: r) by (rewrite <- app_assoc, <- Esuf; exact E).
      assert (Sb : flips (pre ++ mid) S0 = flips mid S) by (unfold S; apply flips_app).
      assert (HS' : senses_upto d S0 xs = S').
      { rewrite (senses_at_crossing S0 xs Hsorted _ _ _ _ Exs), Sb. symmetry. exact ES'. }
      assert (Hsl : (s < length (flips mid S))%nat).
      { rewrite flips_length. apply (HrS s d). rewrite Esuf. apply in_or_app. right. left. reflexivity. }
      assert (Hgb : good' (flips mid S)).
      { apply all_good'_head with (suf := (s, d) :: r). apply all_good'_app. rewrite <- Esuf. exact Hg. }
      assert (Hgr : all_good' S' r).
      { pose proof (all_good'_app S mid ((s, d) :: r)) as Hx. rewrite <- Esuf in Hx. specialize (Hx Hg).
        cbn in Hx. rewrite ES'. tauto. }
      pose proof (all_good'_head _ _ Hgr) as Hg'.
      assert (Hinx : In (s, d) xs) by (rewrite Exs; apply in_or_app; right; left; reflexivity).
      assert (Hcross : a_unit_cross vols bg (oracle_at d) cur (s, negb b) = loc S').
      { apply a_cross_correct with (sprev := vecS (flips mid S)).
        - intros x Hx _. rewrite ES', vecS_flip by exact Hsl.
          destruct (Nat.eqb_spec x s); [contradiction|reflexivity].
        - rewrite ES', vecS_flip by exact Hsl. rewrite Nat.eqb_refl, Eb. reflexivity.
        - intros x Hx _. rewrite (Horacle s d Hinx x Hx). unfold true_sense. rewrite HS'. reflexivity.
        - intros w Hw' Hne. destruct (cur_cases _ _ Hgb Hlb) as [[Hc _]|[_ [_ Hno]]]; [|apply Hno].
          destruct (contains w (vecS (flips mid S))) eqn:Hcw; [|reflexivity].
          exfalso. apply Hne. destruct Hgb as [Hu _]. apply Hu; try assumption.
          apply contains_range with (o := vecS (flips mid S)). exact Hc.
        - destruct (contains cur (vecS S')) eqn:Hc; [|reflexivity]. exfalso. apply Hexit.
          destruct Hg' as [Hu _]. apply (locate_unique vols bg _ _ Hu Hc).
        - destruct Hg' as [Hu _]. exact Hu.
        - destruct Hg' as [_ Hi]. exact Hi. }
      rewrite Hcross.
      destruct (loc S') as [v'|] eqn:Hl; [|reflexivity].
      f_equal.
      assert (Epre : S' = flips ((pre ++ mid) ++ [(s, d)]) S0).
      { rewrite flips_app, Sb. cbn. exact ES'. }
      rewrite Epre. apply IH.
      - rewrite <- app_assoc. exact Exs.
      - apply (ahead_at_crossing xs Hsorted (pre ++ mid) r s d Exs).
      - intros x. rewrite <- Epre. unfold forced_sense.
        destruct (Nat.eqb_spec s x) as [<-|Hne].
        + rewrite ES', vecS_flip by exact Hsl. rewrite Nat.eqb_refl, Eb. reflexivity.
        + rewrite (Horacle s d Hinx x) by congruence. unfold true_sense. rewrite HS'. reflexivity.
      - rewrite <- Epre. exact Hl.
      - rewrite <- Epre. exact Hgr.
      - rewrite Esuf, app_length in Hfuel. cbn [length] in Hfuel. lia.
    Qed.

    (** *** the unit-level trace theorem, background volume included: at every instant at most
        one volume contains the track (none = the track is in the background volume) *)
    Theorem nav_trace_bg_refines_locate t0 cur :
      (forall s d, In (s, d) xs -> t0 < d) ->
      (forall x, oracle_at t0 x = vecS S0 x) ->
      spec_locate vols bg S0 xs t0 = Some cur ->
      all_good' S0 xs ->
      nav_trace_bg (Datatypes.S (length xs)) vols bg oracle_at oracle_bump xs t0 cur None
      = spec_trace (spec_locate vols bg S0 xs) (Some cur) (map snd xs).
    Proof.
      intros Hstart Hor0 Hloc Hg.
      assert (Hup : senses_upto t0 S0 xs = S0).
      { rewrite senses_upto_flips.
        assert (Ex : upto t0 xs = []).
        { clear - Hstart. induction xs as [|[s d] l IH]; [reflexivity|]. cbn [upto filter snd].
          replace (Rleb d t0) with false.
          - apply IH. intros s' d' Hi. apply (Hstart s' d'). right. exact Hi.
          - symmetry. apply Rleb_false. specialize (Hstart s d (or_introl eq_refl)). lra. }
        rewrite Ex. reflexivity. }
      assert (Ha : ahead t0 xs = xs).
      { clear - Hstart. unfold ahead. induction xs as [|[s d] l IH]; [reflexivity|]. cbn [filter snd].
        change (@nleb R NumR) with Rleb.
        replace (Rleb d t0) with false.
        - cbn [negb]. f_equal. apply IH. intros s' d' Hi. apply (Hstart s' d'). right. exact Hi.
        - symmetry. apply Rleb_false. specialize (Hstart s d (or_introl eq_refl)). lra. }
      rewrite (nav_trace_bg_is_spec (Datatypes.S (length xs)) [] xs t0 cur None eq_refl Ha).
      - cbn [flips fold_left]. apply (spec_struct_is_trace vols bg S0 xs Hsorted [] xs (Some cur) eq_refl).
      - intros x. cbn. apply Hor0.
      - cbn [flips fold_left]. unfold loc. unfold spec_locate, true_sense in Hloc. rewrite Hup in Hloc. exact Hloc.
      - exact Hg.
      - lia.
    Qed.
  End Ray.
End UnitBg.
