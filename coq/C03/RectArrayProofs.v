(** * C03 proofs: RectArrayTracker over R. *)
From Coq Require Import Reals List Bool Arith Lia Lra.
From Celer Require Import Base.Num Base.NumR Base.Vec3 C03.Indexer C03.IndexerProofs C03.RectArray.
Import ListNotations.
Local Open Scope R_scope.

(** a grid: at least two planes, strictly increasing *)
Definition wf_grid (g : list R) : Prop :=
  (2 <= length g)%nat /\ forall i j, (i < j)%nat -> (j < length g)%nat -> nth i g 0 < nth j g 0.

Lemma wf_grid_le g i j : wf_grid g -> (i <= j)%nat -> (j < length g)%nat -> nth i g 0 <= nth j g 0.
Proof.
  intros [_ Hs] Hij Hj. destruct (Nat.eq_dec i j) as [->|Hne]; [lra|].
  apply Rlt_le. apply Hs; lia.
Qed.

Lemma lower_bound_spec g x :
  wf_grid g ->
  let k := lower_bound_T g x in
  (k <= length g)%nat
  /\ (forall i, (i < k)%nat -> nth i g 0 < x)
  /\ (forall i, (k <= i)%nat -> (i < length g)%nat -> x <= nth i g 0).
Proof.
  intros Hwf. unfold lower_bound_T.
  pose proof (bsearch_spec (fun m => @nltb R NumR (nth m g (@n0 R NumR)) x) (length g) 0 (length g) (le_n _)) as B.
  cbv zeta in B.
  assert (Hm : forall i j, (0 <= i)%nat -> (i <= j)%nat -> (j < 0 + length g)%nat ->
                           @nltb R NumR (nth j g (@n0 R NumR)) x = true -> @nltb R NumR (nth i g (@n0 R NumR)) x = true).
  { intros i j _ Hij Hj Hp. numR. apply Rltb_true in Hp. apply Rltb_true.
    pose proof (wf_grid_le g i j Hwf Hij ltac:(lia)). lra. }
  destruct (B Hm) as [Hr [Ht Hf]]. cbv zeta. repeat split.
  - lia.
  - intros i Hi. specialize (Ht i ltac:(lia) Hi). numR. apply Rltb_true in Ht. exact Ht.
  - intros i Hk Hi. specialize (Hf i Hk ltac:(lia)). numR. apply Rltb_false in Hf. exact Hf.
Qed.

(** *** initialize, one axis: [Some i] iff the point lies strictly between planes i and i+1 *)
Theorem ra_init_axis_spec g x i :
  wf_grid g ->
  (ra_init_axis g x = Some i <-> ((S i < length g)%nat /\ nth i g 0 < x < nth (S i) g 0)).
Proof.
  intros Hwf. pose proof Hwf as [Hlen Hs].
  destruct (lower_bound_spec g x Hwf) as [Hk [Hlo Hhi]].
  unfold ra_init_axis, grid_find. set (k := lower_bound_T g x) in *. numR.
  split.
  - intros Hinit.
    destruct (Rltb_spec x (nth 0 g 0)) as [|H0]; [discriminate|].
    destruct (Rltb_spec (nth (length g - 1) g 0) x) as [|Hn]; [discriminate|]. cbn [orb] in Hinit.
    assert (Hkn : (k <= length g - 1)%nat).
    { destruct (Nat.le_gt_cases k (length g - 1)); [assumption|].
      specialize (Hlo (length g - 1)%nat ltac:(lia)). lra. }
    destruct (Reqb x (nth k g 0)) eqn:Heq.
    + apply Reqb_true in Heq. rewrite <- Heq in Hinit.
      replace (Reqb x x) with true in Hinit by (symmetry; apply Reqb_true; reflexivity). discriminate.
    + apply Reqb_false in Heq.
      assert (Hk1 : (1 <= k)%nat).
      { destruct k as [|k']; [|lia]. exfalso. apply Heq.
        specialize (Hhi 0%nat ltac:(lia) ltac:(lia)). lra. }
      destruct (Reqb (nth (pred k) g 0) x) eqn:Heq2; [discriminate|]. inversion Hinit; subst i.
      replace (S (pred k)) with k by lia. split; [lia|]. split.
      * apply Hlo. lia.
      * specialize (Hhi k ltac:(lia) ltac:(lia)). lra.
  - intros [Hi [Hl Hu]].
    assert (H0 : nth 0 g 0 <= nth i g 0) by (apply wf_grid_le; [assumption|lia|lia]).
    assert (Hn : nth (S i) g 0 <= nth (length g - 1) g 0) by (apply wf_grid_le; [assumption|lia|lia]).
    replace (Rltb x (nth 0 g 0)) with false by (symmetry; apply Rltb_false; lra).
    replace (Rltb (nth (length g - 1) g 0) x) with false by (symmetry; apply Rltb_false; lra). cbn [orb].
    assert (Hki : k = S i).
    { destruct (Nat.lt_trichotomy k (S i)) as [Hlt|[Heq|Hgt]]; [|exact Heq|].
      - specialize (Hhi i ltac:(lia) ltac:(lia)). lra.
      - specialize (Hlo (S i) Hgt). lra. }
    rewrite Hki. replace (Reqb x (nth (S i) g 0)) with false by (symmetry; apply Reqb_false; lra).
    cbn [pred]. replace (Reqb (nth i g 0) x) with false by (symmetry; apply Reqb_false; lra). reflexivity.
Qed.

Definition wf_rect (r : rect R) : Prop := wf_grid (ra_gx r) /\ wf_grid (ra_gy r) /\ wf_grid (ra_gz r).

(** *** initialize: the located cell index is the one whose open interval contains the
    point on each axis; [None] iff there is no such cell (outside, or exactly on a plane) *)
Theorem ra_initialize_spec r pos v :
  wf_rect r ->
  (ra_initialize r pos = Some v <->
   exists c0 c1 c2, v = hs_index (ra_dims r) (c0, c1, c2)
     /\ (S c0 < length (ra_gx r))%nat /\ nth c0 (ra_gx r) 0 < vx pos < nth (S c0) (ra_gx r) 0
     /\ (S c1 < length (ra_gy r))%nat /\ nth c1 (ra_gy r) 0 < vy pos < nth (S c1) (ra_gy r) 0
     /\ (S c2 < length (ra_gz r))%nat /\ nth c2 (ra_gz r) 0 < vz pos < nth (S c2) (ra_gz r) 0).
Proof.
  intros [Hx [Hy Hz]]. unfold ra_initialize. split.
  - destruct (ra_init_axis (ra_gx r) (vx pos)) as [c0|] eqn:E0; [|discriminate].
    destruct (ra_init_axis (ra_gy r) (vy pos)) as [c1|] eqn:E1; [|discriminate].
    destruct (ra_init_axis (ra_gz r) (vz pos)) as [c2|] eqn:E2; [|discriminate].
    intros Hv. inversion Hv; subst v. exists c0, c1, c2.
    apply (ra_init_axis_spec _ _ _ Hx) in E0. apply (ra_init_axis_spec _ _ _ Hy) in E1.
    apply (ra_init_axis_spec _ _ _ Hz) in E2. tauto.
  - intros [c0 [c1 [c2 [-> [H0 [I0 [H1 [I1 [H2 I2]]]]]]]]].
    rewrite (proj2 (ra_init_axis_spec _ _ c0 Hx) (conj H0 I0)).
    rewrite (proj2 (ra_init_axis_spec _ _ c1 Hy) (conj H1 I1)).
    rewrite (proj2 (ra_init_axis_spec _ _ c2 Hz) (conj H2 I2)). reflexivity.
Qed.

(** *** cross_boundary moves to the adjacent cell along the axis of the crossed plane, and is
    the error value exactly when that would leave the array *)
Theorem ra_cross_adjacent (r : rect R) c0 c1 c2 ax k (sense : bool) :
  (c1 < snd (fst (ra_dims r)))%nat -> (c2 < snd (ra_dims r))%nat ->
  (ax < 3)%nat -> (k < length (ra_grid r ax))%nat ->
  let c := (c0, c1, c2) in
  let surf := rr_index (ra_offs r) ax k in
  let ca := coord c ax in
  ra_cross r (hs_index (ra_dims r) c) (surf, sense) =
  if (Nat.eqb ca 0 && negb sense) || (Nat.eqb ca (ra_dim r ax - 1) && sense) then None
  else Some (hs_index (ra_dims r) (set_coord c ax (if sense then S ca else pred ca)), (surf, sense)).
Proof.
  intros H1 H2 Hax Hk c surf ca. subst c surf ca. unfold ra_cross. cbn [fst snd].
  unfold ra_dims in *. cbn [fst snd] in H1, H2.
  rewrite hs_coords_of_index by assumption.
  unfold ra_offs. rewrite rr_coords_of_index.
  - cbn [fst]. reflexivity.
  - exact Hax.
  - destruct ax as [|[|[|ax]]]; try lia; cbn in Hk |- *; exact Hk.
Qed.

(** *** limited intersect = unlimited intersect truncated at max *)
Definition trunc_state (m : R) (u : risect (T:=R)) : risect (T:=R) :=
  match fst u with
  | Some d => if Rleb d m then u else (None, None)
  | None => (None, None)
  end.

Lemma ra_axis_step_trunc r c pos dir m u ax :
  (fst u = None -> snd u = None) ->
  ra_intersect_axis r c pos dir (fun d => d <=? m)%num (trunc_state m u) ax
  = trunc_state m (ra_intersect_axis r c pos dir (fun _ => true) u ax)
  /\ (fst (ra_intersect_axis r c pos dir (fun _ => true) u ax) = None ->
      snd (ra_intersect_axis r c pos dir (fun _ => true) u ax) = None).
Proof.
  intros Hinv. unfold ra_intersect_axis. numR.
  destruct (Reqb (vcomp dir ax) 0); [split; [reflexivity|exact Hinv]|].
  set (dist := (nth _ (ra_grid r ax) 0 - vcomp pos ax) / vcomp dir ax).
  destruct (Rltb_spec 0 dist) as [Hpos|Hneg]; cbn [andb]; [|split; [reflexivity|exact Hinv]].
  destruct u as [[ud|] us]; unfold trunc_state, closer; cbn [fst snd] in *; numR.
  - destruct (Rleb_spec ud m) as [Hum|Hum]; cbn [fst closer]; numR.
    + destruct (Rltb_spec dist ud) as [Hd|Hd].
      * replace (Rleb dist m) with true by (symmetry; apply Rleb_true; lra). cbn [andb fst].
        replace (Rleb dist m) with true by (symmetry; apply Rleb_true; lra). split; [reflexivity|discriminate].
      * rewrite andb_false_r. cbn [fst]. replace (Rleb ud m) with true by (symmetry; apply Rleb_true; lra).
        split; [reflexivity|discriminate].
    + destruct (Rltb_spec dist ud) as [Hd|Hd]; cbn [andb fst].
      * destruct (Rleb dist m); cbn [andb]; split; try reflexivity; discriminate.
      * replace (Rleb ud m) with false by (symmetry; apply Rleb_false; lra).
        destruct (Rleb_spec dist m) as [Hdm|Hdm]; [lra|]. cbn [andb]. split; [reflexivity|discriminate].
  - cbn [andb fst]. destruct (Rleb dist m); cbn [andb]; split; try reflexivity; discriminate.
Qed.

Theorem ra_limited_truncates r vol pos dir m :
  ra_intersect r vol pos dir (Some m) =
  match ra_intersect r vol pos dir None with
  | (Some d, Some s) => if Rleb d m then (Some d, Some s) else (Some m, None)
  | _ => (Some m, None)
  end.
Proof.
  unfold ra_intersect, ra_intersect_impl.
  set (c := hs_coords (ra_dims r) vol).
  assert (G : forall axes u, (fst u = None -> snd u = None) ->
            fold_left (ra_intersect_axis r c pos dir (fun d => d <=? m)%num) axes (trunc_state m u)
            = trunc_state m (fold_left (ra_intersect_axis r c pos dir (fun _ => true)) axes u)
            /\ (fst (fold_left (ra_intersect_axis r c pos dir (fun _ => true)) axes u) = None ->
                snd (fold_left (ra_intersect_axis r c pos dir (fun _ => true)) axes u) = None)).
  { induction axes as [|ax axes IH]; intros u Hinv; [split; [reflexivity|exact Hinv]|].
    cbn [fold_left]. destruct (ra_axis_step_trunc r c pos dir m u ax Hinv) as [E Hinv'].
    rewrite E. apply IH. exact Hinv'. }
  destruct (G [0; 1; 2]%nat (None, None) (fun _ => eq_refl)) as [E Hinv].
  change (trunc_state m (None, None)) with (@None R, @None (nat * bool)) in E.
  cbv zeta. rewrite E. clear E.
  destruct (fold_left (ra_intersect_axis r c pos dir (fun _ => true)) [0; 1; 2]%nat (None, None)) as [[d|] s];
    unfold trunc_state; cbn [fst snd] in *.
  - destruct s as [s|].
    + destruct (Rleb d m); reflexivity.
    + destruct (Rleb d m); reflexivity.
  - reflexivity.
Qed.

(** ** non-vacuity: the 2 x 3 x 2 array of the tie's first case *)
Definition rect232 : rect R := Rect [0; 1; 2] [0; 1; 3; 7] [-1; 0; 1].

Lemma wf_grid3 a b c : a < b -> b < c -> wf_grid [a; b; c].
Proof.
  intros H1 H2. split; [cbn; lia|]. intros i j Hij Hj. cbn in Hj.
  destruct j as [|[|[|j]]]; try lia; destruct i as [|[|[|i]]]; try lia; cbn; lra.
Qed.
Lemma wf_grid4 a b c d : a < b -> b < c -> c < d -> wf_grid [a; b; c; d].
Proof.
  intros H1 H2 H3. split; [cbn; lia|]. intros i j Hij Hj. cbn in Hj.
  destruct j as [|[|[|[|j]]]]; try lia; destruct i as [|[|[|[|i]]]]; try lia; cbn; lra.
Qed.

Example rect_hyps_sat :
  wf_rect rect232 /\ ra_initialize rect232 (V3 (1/2) 2 (1/2)) = Some 3%nat
  /\ ra_cross rect232 3%nat (rr_index (ra_offs rect232) 0%nat 1%nat, true) = Some (9%nat, (1%nat, true)).
Proof.
  assert (Hwf : wf_rect rect232).
  { split; [apply wf_grid3; lra|]. split; [apply wf_grid4; lra|apply wf_grid3; lra]. }
  split; [exact Hwf|]. split.
  - apply (ra_initialize_spec rect232 _ _ Hwf). exists 0%nat, 1%nat, 1%nat. cbn. repeat split; try lia; lra.
  - change 3%nat with (hs_index (ra_dims rect232) (0, 1, 1)%nat) at 1.
    rewrite (ra_cross_adjacent rect232 0%nat 1%nat 1%nat 0%nat 1%nat true); cbn; try lia. reflexivity.
Qed.
