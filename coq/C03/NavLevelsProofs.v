(** * C03 proofs: composition over nesting levels -- cross_boundary of the track view (new
    volume at the surface level, daughters re-initialised below, levels above untouched)
    yields the volume stack that the spec [locate] gives at a point just past the crossing. *)
From Coq Require Import Reals List Bool Arith Lia Lra.
From Celer Require Import Base.Num Base.NumR Base.Vec3 C12.Solver C12.Surfaces C12.Transforms
  C03.LogicWalk C03.LogicWalkProofs C03.NavModel C03.LevelsProofs.
Import ListNotations.
Local Open Scope R_scope.

Definition stk (l : lstate R) : nat * nat := (ls_univ l, ls_vol l).

(** [init_levels] without the directions: (volume stack, failed) *)
Fixpoint stackf (k : nat) (g : geometry R) (uid : nat) (pos : vec3 R) : list (nat * nat) * bool :=
  match k with
  | O => ([], true)
  | S k =>
      match unit_initialize (get_unit g uid) pos with
      | None => ([(uid, 0%nat)], true)
      | Some vol =>
          match v_daughter (get_vol (get_unit g uid) vol) with
          | None => ([(uid, vol)], false)
          | Some (duid, x) =>
              let '(rest, f) := stackf k g duid (x_down x pos) in ((uid, vol) :: rest, f)
          end
      end
  end.

Lemma init_levels_stackf g : forall k uid pos dir,
  (map stk (fst (init_levels k g uid pos dir)), snd (init_levels k g uid pos dir)) = stackf k g uid pos.
Proof.
  induction k as [|k IH]; intros uid pos dir; cbn [init_levels stackf]; [reflexivity|].
  destruct (unit_initialize (get_unit g uid) pos) as [vol|]; [|reflexivity].
  destruct (v_daughter (get_vol (get_unit g uid) vol)) as [[duid x]|]; [|reflexivity].
  specialize (IH duid (x_down x pos) (x_rot_down x dir)).
  destruct (init_levels k g duid (x_down x pos) (x_rot_down x dir)) as [rest f]. cbn [fst snd] in *.
  rewrite <- IH. reflexivity.
Qed.

Lemma locate_stackf g p :
  locate g p = let '(s, f) := stackf max_depth g 0 p in if f then None else Some s.
Proof.
  unfold locate. rewrite <- (init_levels_stackf g max_depth 0 p (V3 n0 n0 n1)).
  destruct (init_levels max_depth g 0 p (V3 n0 n0 n1)) as [levels failed]. reflexivity.
Qed.

(** daughter transform of the volume a level is in *)
Definition xform_of (g : geometry R) (a : lstate R) : xform R :=
  match v_daughter (get_vol (get_unit g (ls_univ a)) (ls_vol a)) with Some (_, x) => x | None => XNone end.
(** image of a global point below a stack prefix *)
Fixpoint img_after (g : geometry R) (pre : list (lstate R)) (q : vec3 R) : vec3 R :=
  match pre with [] => q | a :: r => img_after g r (x_down (xform_of g a) q) end.
(** the volumes of the prefix still contain (the images of) the point *)
Fixpoint tops_ok (g : geometry R) (pre : list (lstate R)) (q : vec3 R) : Prop :=
  match pre with
  | [] => True
  | a :: r => unit_initialize (get_unit g (ls_univ a)) q = Some (ls_vol a) /\ tops_ok g r (x_down (xform_of g a) q)
  end.

Definition prepend (l : list (nat * nat)) (r : list (nat * nat) * bool) := (l ++ fst r, snd r).

Lemma stackf_prefix g k : forall pre b q,
  chain g (pre ++ [b]) -> tops_ok g pre q ->
  stackf (length pre + k) g (ls_univ (hd b pre)) q
  = prepend (map stk pre) (stackf k g (ls_univ b) (img_after g pre q)).
Proof.
  induction pre as [|a r IH]; intros b q Hc Ht.
  - cbn. destruct (stackf k g (ls_univ b) q). reflexivity.
  - cbn [length Nat.add stackf hd app] in *. destruct Ht as [Hi Ht]. rewrite Hi.
    destruct Hc as [Hl Hc].
    assert (Hlink : link g a (hd b r)) by (destruct r; exact Hl).
    destruct Hlink as [duid [x [H1 [H2 [H3 H4]]]]]. rewrite H1.
    assert (Ex : xform_of g a = x) by (unfold xform_of; rewrite H1; reflexivity).
    rewrite Ex in Ht. specialize (IH b (x_down x q) Hc Ht). rewrite H2 in IH. rewrite IH.
    cbn [img_after map]. rewrite Ex. unfold prepend. cbn [fst snd].
    destruct (stackf k g (ls_univ b) (img_after g r (x_down x q))). reflexivity.
Qed.

Lemma firstn_S_nth {A} (d : A) : forall (l : list A) n, (n < length l)%nat ->
  firstn (S n) l = firstn n l ++ [nth n l d].
Proof.
  induction l as [|x l IH]; intros n Hn; [cbn in Hn; lia|]. destruct n as [|n]; [reflexivity|].
  cbn [firstn nth app]. f_equal. apply IH. cbn in Hn. lia.
Qed.

Lemma set_vol_at_map vol : forall (ls : list (lstate R)) l, length ls = S l ->
  map stk (set_vol_at l vol ls) = map stk (firstn l ls) ++ [(ls_univ (nth l ls dummy_ls), vol)].
Proof.
  induction ls as [|a r IH]; intros l Hl; [discriminate|]. destruct l as [|l].
  - destruct r; [|discriminate]. reflexivity.
  - cbn [set_vol_at map firstn nth app]. f_equal. apply IH. cbn in Hl. lia.
Qed.

(** *** one crossing at any nesting level.
    [p'] = a global point just past the crossing.  Hypotheses beyond the unit level:
    - [tops_ok]: the volumes above the surface level still contain it (daughters lie inside
      their parent volume, and the step was the minimum over levels);
    - [Hinit]: at the surface level point location at [p'] is what the unit-level
      cross_boundary found (this is C03_unit_cross_is_locate_past);
    - [Hbelow]: below the surface level, point location at the crossing point itself (where
      the navigator re-initialises the daughters) equals point location at [p'] and succeeds
      -- no boundary of a deeper unit coincides with the crossed one (no inter-level tie). *)
Theorem nav_cross_refines_locate (g : geometry R) st sl s sense p' vol :
  st_reentrant st = false -> st_surf st = Some (sl, s, sense) ->
  (sl < length (st_levels st))%nat -> (S sl <= max_depth)%nat ->
  chain g (st_levels st) -> ls_univ (get_level st 0) = 0%nat ->
  let pre := firstn sl (st_levels st) in
  let b := get_level st sl in
  let u := get_unit g (ls_univ b) in
  let q := img_after g pre p' in
  tops_ok g pre p' ->
  unit_cross u (ls_pos b) (ls_vol b) (s, negb sense) = Some vol ->
  forall (Hinit : unit_initialize u q = Some vol)
         (Hbelow : match v_daughter (get_vol u vol) with
                   | None => True
                   | Some (duid, x) =>
                       exists rest, stackf (max_depth - S sl) g duid (x_down x q) = (rest, false)
                                    /\ stackf max_depth g duid (x_down x (ls_pos b)) = (rest, false)
                   end),
  locate g p' = Some (map stk (st_levels (cross_boundary g st)))
  /\ st_failed (cross_boundary g st) = st_failed st
  /\ st_surf (cross_boundary g st) = Some (sl, s, negb sense).
Proof.
  intros Hre Hs Hsl Hdepth Hc H0 pre b u q Htop Hcross Hinit Hbelow.
  (* the specification side *)
  assert (Hpre : firstn (S sl) (st_levels st) = pre ++ [b]).
  { unfold pre, b, get_level. apply firstn_S_nth. exact Hsl. }
  assert (Hcp : chain g (pre ++ [b])) by (rewrite <- Hpre; apply chain_firstn; exact Hc).
  assert (Hlenpre : length pre = sl) by (unfold pre; rewrite firstn_length; lia).
  assert (Hhd : ls_univ (hd b pre) = 0%nat).
  { unfold pre, b, get_level in *. destruct (st_levels st) as [|a r]; [cbn in Hsl; lia|].
    destruct sl; cbn in *; exact H0. }
  rewrite locate_stackf.
  replace max_depth with (length pre + S (max_depth - S sl))%nat at 1 by lia.
  pose proof (stackf_prefix g (S (max_depth - S sl)) pre b p' Hcp Htop) as E. rewrite Hhd in E. rewrite E. clear E.
  fold q. cbn [stackf]. fold u. rewrite Hinit.
  (* the navigator side *)
  unfold cross_boundary. rewrite Hre, Hs. fold b. fold u. rewrite Hcross.
  assert (Hlen : length (firstn (S sl) (st_levels st)) = S sl) by (rewrite firstn_length; lia).
  pose proof (set_vol_at_map vol (firstn (S sl) (st_levels st)) sl Hlen) as Eup.
  assert (Hnth : nth sl (firstn (S sl) (st_levels st)) dummy_ls = b).
  { rewrite Hpre, app_nth2 by lia. rewrite Hlenpre, Nat.sub_diag. reflexivity. }
  assert (Hfirst : firstn sl (firstn (S sl) (st_levels st)) = pre).
  { rewrite Hpre, firstn_app, Hlenpre, Nat.sub_diag. cbn [firstn]. rewrite app_nil_r.
    rewrite <- Hlenpre. apply firstn_all. }
  rewrite Hnth, Hfirst in Eup.
  destruct (v_daughter (get_vol u vol)) as [[duid x]|] eqn:Hd.
  - destruct Hbelow as [rest [Hspec Hnav]].
    rewrite Hspec.
    pose proof (init_levels_stackf g max_depth duid (x_down x (ls_pos b)) (x_rot_down x (ls_dir b))) as En.
    rewrite Hnav in En.
    destruct (init_levels max_depth g duid (x_down x (ls_pos b)) (x_rot_down x (ls_dir b))) as [lower failed2].
    cbn [fst snd] in En. inversion En as [[El Ef]]. subst failed2.
    unfold prepend. cbn [fst snd st_levels st_failed st_surf].
    rewrite map_app, Eup, El, <- app_assoc. cbn [app].
    repeat split. rewrite !orb_false_r. reflexivity.
  - unfold prepend. cbn [fst snd st_levels st_failed st_surf]. rewrite app_nil_r, Eup.
    repeat split. rewrite !orb_false_r. reflexivity.
Qed.

(** ** the canonical loop  find_next_step ; move_to_boundary ; cross_boundary  *)
Definition nav_next tol (g : geometry R) (st : state R) : state R :=
  cross_boundary g (move_to_boundary (fst (find_next_step tol g st None))).

(** what must hold at one crossing (everything else is carried by the invariant):
    a boundary was found; and, for [p'] a point just past it, the hypotheses of
    [nav_cross_refines_locate] *)
Definition crossing_ok tol (g : geometry R) (st : state R) (p' : vec3 R) : Prop :=
  let st2 := move_to_boundary (fst (find_next_step tol g st None)) in
  exists sl s sense vol,
    st_surf st2 = Some (sl, s, sense) /\ (S sl <= max_depth)%nat
    /\ let pre := firstn sl (st_levels st2) in
       let b := get_level st2 sl in
       let u := get_unit g (ls_univ b) in
       let q := img_after g pre p' in
       tops_ok g pre p'
       /\ unit_cross u (ls_pos b) (ls_vol b) (s, negb sense) = Some vol
       /\ unit_initialize u q = Some vol
       /\ match v_daughter (get_vol u vol) with
          | None => True
          | Some (duid, x) =>
              exists rest, stackf (max_depth - S sl) g duid (x_down x q) = (rest, false)
                           /\ stackf max_depth g duid (x_down x (ls_pos b)) = (rest, false)
          end.

Fixpoint run_ok tol g (st : state R) (ps : list (vec3 R)) : Prop :=
  match ps with
  | [] => True
  | p :: r => crossing_ok tol g st p /\ run_ok tol g (nav_next tol g st) r
  end.
Fixpoint run_stacks tol g (st : state R) (n : nat) : list (list (nat * nat)) :=
  match n with
  | O => []
  | S k => let st' := nav_next tol g st in map stk (st_levels st') :: run_stacks tol g st' k
  end.

(** the invariant that carries itself through the loop *)
Definition nav_inv (g : geometry R) (st : state R) : Prop :=
  chain g (st_levels st) /\ st_levels st <> [] /\ ls_univ (get_level st 0) = 0%nat /\ st_reentrant st = false.

Lemma find_next_keeps tol (g : geometry R) st :
  st_levels (fst (find_next_step tol g st None)) = st_levels st
  /\ st_reentrant (fst (find_next_step tol g st None)) = st_reentrant st.
Proof.
  unfold find_next_step. destruct (st_reentrant st) eqn:E; [split; [reflexivity|exact E]|].
  destruct (find_next_levels _ _ _) as [res lev]. cbn. split; reflexivity.
Qed.

Lemma stackf_head (g : geometry R) k uid p :
  exists x r, fst (stackf (S k) g uid p) = x :: r /\ fst x = uid.
Proof.
  cbn [stackf].
  destruct (unit_initialize _ _); [destruct (v_daughter _) as [[? ?]|]; [destruct (stackf k _ _ _)|]|];
    cbn; eexists; eexists; split; reflexivity.
Qed.

Lemma locate_head (g : geometry R) p l :
  locate g p = Some l -> exists x r, l = x :: r /\ fst x = 0%nat.
Proof.
  rewrite locate_stackf. change max_depth with (S 7). intros Hl.
  destruct (stackf_head g 7 0 p) as [x [r [E Hx]]].
  destruct (stackf 8 g 0 p) as [s f]. cbn [fst] in E. destruct f; [discriminate|].
  inversion Hl; subst. exists x, r. split; [reflexivity|exact Hx].
Qed.

Lemma init_levels_nonempty (g : geometry R) k uid pos dir : fst (init_levels (S k) g uid pos dir) <> [].
Proof.
  cbn [init_levels].
  destruct (unit_initialize _ _); [destruct (v_daughter _) as [[? ?]|]; [destruct (init_levels k _ _ _ _)|]|];
    cbn; discriminate.
Qed.

Lemma nav_inv_initialize (g : geometry R) pos dir : nav_inv g (initialize g pos dir).
Proof.
  unfold initialize. pose proof (init_levels_chain g max_depth 0 pos dir) as [Hc Hh].
  assert (Hne : fst (init_levels max_depth g 0 pos dir) <> []) by apply init_levels_nonempty.
  destruct (init_levels max_depth g 0 pos dir) as [levels failed]. cbn [fst] in *.
  unfold nav_inv. cbn [st_levels st_reentrant]. split; [exact Hc|]. split; [exact Hne|]. split; [|reflexivity].
  unfold get_level. cbn [st_levels]. destruct levels as [|a r]; [congruence|]. cbn. apply (Hh a r eq_refl).
Qed.

Lemma nav_step tol (g : geometry R) st p' :
  nav_inv g st -> crossing_ok tol g st p' ->
  nav_inv g (nav_next tol g st)
  /\ locate g p' = Some (map stk (st_levels (nav_next tol g st)))
  /\ st_failed (nav_next tol g st) = st_failed st.
Proof.
  intros [Hc [Hne [H0 Hre]]] [sl [s [sense [vol [Hs [Hd [Htop [Hcross [Hinit Hbelow]]]]]]]]].
  destruct (find_next_keeps tol g st) as [El Er].
  set (st1 := fst (find_next_step tol g st None)) in *.
  set (st2 := move_to_boundary st1) in *.
  destruct (levels_positions_consistent g) as [_ [_ [_ [Hmb Hcb]]]].
  assert (Hc1 : chain g (st_levels st1)) by (rewrite El; exact Hc).
  assert (Hc2 : chain g (st_levels st2)) by (apply Hmb; exact Hc1).
  assert (Hlen2 : length (st_levels st2) = length (st_levels st)).
  { unfold st2, move_to_boundary, move_levels. cbn [st_levels]. rewrite map_length, El. reflexivity. }
  assert (Hre2 : st_reentrant st2 = false) by (unfold st2, move_to_boundary; cbn; rewrite Er; exact Hre).
  assert (Hsl : (sl < length (st_levels st2))%nat).
  { unfold st2, move_to_boundary in Hs. cbn [st_surf] in Hs.
    destruct (st_next_surf st1) as [[s' b']|] eqn:Hn; [|discriminate]. inversion Hs; subst.
    rewrite Hlen2, <- El. apply (find_next_level_valid tol g st None Hne Hre). fold st1. congruence. }
  assert (H02 : ls_univ (get_level st2 0) = 0%nat).
  { unfold st2, move_to_boundary, get_level, move_levels. cbn [st_levels]. rewrite El.
    unfold get_level in H0. destruct (st_levels st); [congruence|]. cbn in *. exact H0. }
  destruct (nav_cross_refines_locate g st2 sl s sense p' vol Hre2 Hs Hsl Hd Hc2 H02 Htop Hcross Hinit Hbelow)
    as [Hloc [Hf Hsurf]].
  fold (nav_next tol g st) in *. change (cross_boundary g st2) with (nav_next tol g st) in *.
  split; [|split; [exact Hloc|]].
  - unfold nav_inv. repeat split.
    + apply Hcb; [exact Hc2|]. intros sl' s' b' E. assert (E' : st_surf st2 = Some (sl', s', b')) by exact E.
      rewrite Hs in E'. inversion E'; subst. exact Hsl.
    + intros E. rewrite E in Hloc. destruct (locate_head g p' _ Hloc) as [x [r [Ex _]]]. discriminate.
    + destruct (locate_head g p' _ Hloc) as [x [r [Ex Hx]]]. unfold get_level.
      destruct (st_levels (nav_next tol g st)) as [|a r']; [discriminate|].
      cbn [map nth] in *. inversion Ex; subst. exact Hx.
    + unfold nav_next, cross_boundary. fold st1 st2. rewrite Hre2, Hs.
      destruct (match unit_cross _ _ _ _ with Some v => (v, false) | None => (0%nat, true) end).
      destruct (match v_daughter _ with Some (duid, x) => _ | None => _ end). reflexivity.
  - rewrite Hf. unfold st2, move_to_boundary. cbn [st_failed]. unfold st1, find_next_step.
    rewrite Hre. destruct (find_next_levels _ _ _). reflexivity.
Qed.

(** *** nav_refines_locate (partial): along a ray, for every number of crossings, the volume
    stacks reported after each cross_boundary of the multi-level loop are the stacks the
    spec [locate] gives just past each crossing; geometric consistency of the levels, the
    validity of the surface level, the level-0 universe and the exiting flag are INVARIANTS
    (proved), not hypotheses *)
Theorem nav_refines_locate_multilevel_partial tol (g : geometry R) : forall ps st,
  nav_inv g st -> run_ok tol g st ps ->
  map (locate g) ps = map Some (run_stacks tol g st (length ps)).
Proof.
  induction ps as [|p r IH]; intros st Hinv Hok; [reflexivity|].
  destruct Hok as [Hc Hr]. destruct (nav_step tol g st p Hinv Hc) as [Hinv' [Hloc _]].
  cbn [map length run_stacks]. rewrite Hloc. f_equal. apply IH; assumption.
Qed.
