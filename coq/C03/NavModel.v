(** * C03 model, layers L3 (track-view state machine) and L4 (executable whole).

    Model of
      src/orange/OrangeTrackView.hh            (initialise, find_next_step[(max)],
                                                move_to_boundary, move_internal,
                                                cross_boundary, set_dir)
      src/orange/univ/SimpleUnitTracker.hh     (initialize, cross_boundary, intersect, normal)
      src/orange/univ/detail/{SenseCalculator,LogicEvaluator,SurfaceFunctors,Utils}.hh
      src/orange/transform/*                   (via C12.Transforms)
    over [Num]; surfaces are C12's.  The BIH search is modelled as a linear
    scan over the volumes (for a valid geometry at most one volume matches).
    Also the *specification*: [locate] = point location by pure logic
    evaluation, deepest level last.  No proofs here. *)
From Coq Require Import List Bool Arith ZArith.
From Celer Require Import Base.Num Base.Vec3 C12.Solver C12.Surfaces C12.Transforms C03.LogicWalk.
Import ListNotations.
Local Open Scope num_scope.

(** logic tokens of orange/OrangeTypes.hh (logic::ltrue, lor, land, lnot) *)
Inductive ltok := LFace (f : nat) | LTrue | LOr | LAnd | LNot.

(** LogicEvaluator: postfix evaluation on a stack of booleans *)
Fixpoint eval_logic_stack (l : list ltok) (senses : list bool) (st : list bool) : list bool :=
  match l with
  | [] => st
  | LFace f :: r => eval_logic_stack r senses (nth f senses false :: st)
  | LTrue :: r => eval_logic_stack r senses (true :: st)
  | LNot :: r => match st with a :: s => eval_logic_stack r senses (negb a :: s) | _ => [] end
  | LAnd :: r => match st with b :: a :: s => eval_logic_stack r senses ((a && b) :: s) | _ => [] end
  | LOr :: r => match st with b :: a :: s => eval_logic_stack r senses ((a || b) :: s) | _ => [] end
  end.
Definition eval_logic (l : list ltok) (senses : list bool) : bool :=
  match eval_logic_stack l senses [] with [b] => b | _ => false end.

Section Nav.
  Context {T : Type} `{Num T}.
  Notation vec := (vec3 T).

  Definition ninf : T := n1 / n0.

  (** VariantTransform *)
  Inductive xform := XNone | XTrans (t : vec) | XForm (tf : transformation T).
  Definition x_down (x : xform) (p : vec) : vec :=
    match x with XNone => p | XTrans t => tr_down t p | XForm tf => tf_down tf p end.
  Definition x_rot_down (x : xform) (d : vec) : vec :=
    match x with XForm tf => tf_rotate_down tf d | _ => d end.
  Definition x_rot_up (x : xform) (d : vec) : vec :=
    match x with XForm tf => tf_rotate_up tf d | _ => d end.

  (** VolumeRecord (+ daughter) *)
  Record volume := Vol {
    v_faces : list nat;          (* local surface ids, ascending *)
    v_logic : list ltok;         (* over face indices *)
    v_internal : bool;           (* Flags::internal_surfaces *)
    v_implicit : bool;           (* Flags::implicit_vol *)
    v_daughter : option (nat * xform) }.

  Record unit := Unit {
    u_surfs : list (surface T);
    u_vols : list volume;
    u_background : option nat }.

  Definition geometry := list unit.
  Record tolerance := Tol { tol_rel : T; tol_abs : T }.

  Definition no_surf : surface T := SPlaneAligned AX ninf.
  Definition no_vol : volume := Vol [] [LTrue; LNot] false true None.
  Definition get_surf (u : unit) (s : nat) : surface T := nth s (u_surfs u) no_surf.
  Definition get_vol (u : unit) (v : nat) : volume := nth v (u_vols u) no_vol.
  Definition get_unit (g : geometry) (u : nat) : unit := nth u g (Unit [] [] None).

  (** VolumeView::find_face *)
  Fixpoint index_of (x : nat) (l : list nat) (i : nat) : option nat :=
    match l with [] => None | y :: r => if Nat.eqb x y then Some i else index_of x r (S i) end.
  Definition find_face (v : volume) (s : nat) : option nat := index_of s (v_faces v) 0.

  (** SenseCalculator: senses of all faces of a volume at [pos]; the face we
      are known to be on keeps its stored sense.  Also whether some other face
      evaluates to exactly "on". *)
  Fixpoint calc_senses_from (u : unit) (pos : vec) (on_face : option (nat * bool))
           (faces : list nat) (i : nat) : list bool * bool :=
    match faces with
    | [] => ([], false)
    | s :: r =>
        let '(rest, on_r) := calc_senses_from u pos on_face r (S i) in
        match on_face with
        | Some (f, sense) =>
            if Nat.eqb f i then (sense :: rest, on_r)
            else let ss := surf_sense (get_surf u s) pos in
                 (to_sense ss :: rest, on_r)
        | None =>
            let ss := surf_sense (get_surf u s) pos in
            (to_sense ss :: rest, ssense_eqb ss On || on_r)
        end
    end.
  Definition calc_senses (u : unit) (pos : vec) (v : volume) (on_face : option (nat * bool))
    : list bool * bool :=
    calc_senses_from u pos on_face (v_faces v) 0.

  Definition on_face_of (v : volume) (surf : option (nat * bool)) : option (nat * bool) :=
    match surf with
    | None => None
    | Some (s, sense) => match find_face v s with Some f => Some (f, sense) | None => None end
    end.

  Definition vol_inside (u : unit) (pos : vec) (v : volume) (on_face : option (nat * bool)) : bool * bool :=
    let '(senses, on) := calc_senses u pos v on_face in
    (eval_logic (v_logic v) senses, on).

  (** SimpleUnitTracker::initialize: linear scan instead of the BIH *)
  Fixpoint find_volume (u : unit) (pos : vec) (vs : list volume) (i : nat) : option (nat * bool) :=
    match vs with
    | [] => None
    | v :: r =>
        let '(ins, on) := vol_inside u pos v None in
        if ins then Some (i, on) else find_volume u pos r (S i)
    end.
  Definition unit_initialize (u : unit) (pos : vec) : option nat :=
    match find_volume u pos (u_vols u) 0 with
    | Some (i, on) => if on then None else Some i
    | None => u_background u
    end.

  (** connectivity: volumes (ascending) that have [s] as a face and are not implicit *)
  Fixpoint neighbors_from (s : nat) (vs : list volume) (i : nat) : list nat :=
    match vs with
    | [] => []
    | v :: r =>
        let rest := neighbors_from s r (S i) in
        if negb (v_implicit v) && existsb (Nat.eqb s) (v_faces v) then i :: rest else rest
    end.
  Definition neighbors (u : unit) (s : nat) : list nat := neighbors_from s (u_vols u) 0.

  (** SimpleUnitTracker::cross_boundary: (pos, current volume, surface with the
      post-crossing sense) -> new volume *)
  Fixpoint cross_search (u : unit) (pos : vec) (cur : nat) (surf : nat * bool) (cands : list nat)
    : option nat :=
    match cands with
    | [] => None
    | i :: r =>
        if Nat.eqb i cur then cross_search u pos cur surf r
        else
          let v := get_vol u i in
          let '(ins, _) := vol_inside u pos v (on_face_of v (Some surf)) in
          if ins then Some i else cross_search u pos cur surf r
    end.
  Definition unit_cross (u : unit) (pos : vec) (cur : nat) (surf : nat * bool) : option nat :=
    let nb := neighbors u (fst surf) in
    let cands := if Nat.ltb (length nb) 3 then nb else seq 0 (length (u_vols u)) in
    match cross_search u pos cur surf cands with
    | Some i => Some i
    | None => u_background u
    end.

  (** number of intersections of a surface type (S::Intersections{}.size()) *)
  Definition num_isect (s : surface T) : nat :=
    match s with SPlaneAligned _ _ | SPlane _ _ => 1 | _ => 2 end.

  (** CalcIntersections over the faces of the volume, in face order; [None]
      (= no_intersection) is never valid *)
  Fixpoint crossings_of_face (i : nat) (ds : list (option T)) (valid : T -> bool) : list (crossing (T:=T)) :=
    match ds with
    | [] => []
    | None :: r => crossings_of_face i r valid
    | Some d :: r => if valid d then (i, d) :: crossings_of_face i r valid
                     else crossings_of_face i r valid
    end.
  Fixpoint calc_crossings (u : unit) (pos dir : vec) (on_face : option nat) (valid : T -> bool)
           (faces : list nat) (i : nat) : list (crossing (T:=T)) :=
    match faces with
    | [] => []
    | s :: r =>
        let sf := get_surf u s in
        let on := match on_face with Some f => Nat.eqb f i | None => false end in
        let here :=
          if on && Nat.eqb (num_isect sf) 1 then []
          else crossings_of_face i (surf_intersect sf pos dir on) valid in
        here ++ calc_crossings u pos dir on_face valid r (S i)
    end.

  (** BumpCalculator *)
  Definition bump_dist (tol : tolerance) (pos : vec) : T :=
    nmax (nmax (nmax (tol_abs tol) (tol_rel tol * nabs (vx pos))) (tol_rel tol * nabs (vy pos)))
         (tol_rel tol * nabs (vz pos)).

  (** background_intersect's test of one crossing: first neighbour volume of
      the surface that contains the bumped point; result = flipped sense of
      that surface in the entered volume *)
  Fixpoint bg_enter_search (u : unit) (p : vec) (surf : nat) (cands : list nat) : option bool :=
    match cands with
    | [] => None
    | i :: r =>
        let v := get_vol u i in
        let '(senses, _) := calc_senses u p v None in
        if eval_logic (v_logic v) senses then
          match find_face v surf with
          | Some f => Some (negb (nth f senses false))
          | None => Some false
          end
        else bg_enter_search u p surf r
    end.

  (** the two predicates of CalcIntersections: IsFinite (maxd = None; a
      [no_intersection()] is already [None] in the model) and IsNotFurtherThan(m) *)
  Definition valid_of (maxd : option T) (d : T) : bool :=
    match maxd with None => true | Some m => d <=? m end.
  Definition is_finite (d : T) : bool := d <? ninf.

  (** SimpleUnitTracker::intersect_impl.  Result in terms of *local surface id* *)
  Definition unit_intersect (tol : tolerance) (u : unit) (pos dir : vec) (vol : nat)
             (surf : option (nat * bool)) (maxd : option T) : option (nat * bool * T) :=
    let v := get_vol u vol in
    let on_face := on_face_of v surf in
    let xs := calc_crossings u pos dir (option_map fst on_face) (valid_of maxd) (v_faces v) 0 in
    let to_surface (r : option (nat * bool * T)) :=
      match r with
      | Some (f, s, d) => Some (nth f (v_faces v) 0%nat, s, d)
      | None => None
      end in
    match xs with
    | [] => None
    | _ =>
        if negb (v_internal v) && negb (v_implicit v) then
          let '(senses, _) := calc_senses u pos v on_face in
          to_surface (simple_exit senses xs)
        else
          let sorted := sort_crossings xs in
          if v_internal v then
            let '(senses, _) := calc_senses u pos v on_face in
            to_surface (complex_walk (eval_logic (v_logic v)) senses sorted)
          else
            let bump := bump_dist tol pos in
            to_surface
              (background_enter
                 (fun f d => bg_enter_search u (axpy (d + bump) dir pos) (nth f (v_faces v) 0%nat)
                                             (neighbors u (nth f (v_faces v) 0%nat)))
                 sorted)
    end.


  Definition to_isect (r : option (nat * bool * T)) : isect T :=
    match r with
    | Some (s, sense, d) => Isect d (Some (s, sense))
    | None => Isect ninf None
    end.

  (** ** The track view *)
  Record lstate := LS { ls_pos : vec; ls_dir : vec; ls_vol : nat; ls_univ : nat }.

  Record state := St {
    st_levels : list lstate;                 (* level 0 first; length = level + 1 *)
    st_surf : option (nat * nat * bool);     (* surface_level, surf, sense *)
    st_reentrant : bool;                     (* boundary == reentrant *)
    st_next_step : T;
    st_next_surf : option (nat * bool);
    st_next_level : nat;
    st_failed : bool }.

  Definition level (st : state) : nat := pred (length (st_levels st)).
  Definition dummy_ls : lstate := LS vzero vzero 0 0.
  Definition get_level (st : state) (l : nat) : lstate := nth l (st_levels st) dummy_ls.
  Definition surface_level (st : state) : option nat :=
    match st_surf st with Some (l, _, _) => Some l | None => None end.
  Definition is_on_boundary (st : state) : bool :=
    match st_surf st with Some _ => true | None => false end.
  Definition is_outside (st : state) : bool := Nat.eqb (ls_vol (get_level st 0)) 0.
  Definition has_next_step (st : state) : bool := negb (st_next_step st =? n0).
  Definition has_next_surf (st : state) : bool :=
    match st_next_surf st with Some _ => true | None => false end.
  Definition local_surface (st : state) (l : nat) : option (nat * bool) :=
    match st_surf st with
    | Some (sl, s, sense) => if Nat.eqb sl l then Some (s, sense) else None
    | None => None
    end.

  (** descend from universe [uid] at local (pos, dir): initialise in each
      daughter; returns the level states and whether it failed *)
  Fixpoint init_levels (fuel : nat) (g : geometry) (uid : nat) (pos dir : vec) : list lstate * bool :=
    match fuel with
    | O => ([], true)
    | S k =>
        let u := get_unit g uid in
        match unit_initialize u pos with
        | None => ([LS pos dir 0 uid], true)
        | Some vol =>
            let here := LS pos dir vol uid in
            match v_daughter (get_vol u vol) with
            | None => ([here], false)
            | Some (duid, x) =>
                let '(rest, failed) := init_levels k g duid (x_down x pos) (x_rot_down x dir) in
                (here :: rest, failed)
            end
        end
    end.

  Definition max_depth : nat := 8.

  (** operator=(Initializer_t) *)
  Definition initialize (g : geometry) (pos dir : vec) : state :=
    let '(levels, failed) := init_levels max_depth g 0 pos dir in
    St levels None false n0 None 0 failed.

  (** the specification: point location by pure logic evaluation *)
  Definition locate (g : geometry) (pos : vec) : option (list (nat * nat)) :=
    let '(levels, failed) := init_levels max_depth g 0 pos (V3 n0 n0 n1) in
    if failed then None else Some (map (fun l => (ls_univ l, ls_vol l)) levels).

  (** intersection at one level *)
  Definition level_intersect (tol : tolerance) (g : geometry) (st : state) (l : nat)
             (maxd : option T) : isect T :=
    let ls := get_level st l in
    to_isect (unit_intersect tol (get_unit g (ls_univ ls)) (ls_pos ls) (ls_dir ls) (ls_vol ls)
                             (local_surface st l) maxd).

  (** find_next_step / find_next_step(max): [maxd = None] is the unlimited search *)
  Definition find_next_step (tol : tolerance) (g : geometry) (st : state) (maxd : option T)
    : state * (T * bool) :=
    if st_reentrant st then (st, (n0, true))
    else
      let top :=
        match maxd with
        | None => level_intersect tol g st 0 None
        | Some m => truncate (level_intersect tol g st 0 (Some m)) m
        end in
      let search l m := truncate (level_intersect tol g st l (Some m)) m in
      let '(res, lev) := find_next_levels top search (level st) in
      let st' := St (st_levels st) (st_surf st) (st_reentrant st) (i_dist res) (i_surf res)
                    (match i_surf res with Some _ => lev | None => st_next_level st end)
                    (st_failed st) in
      (st', (i_dist res, match i_surf res with Some _ => true | None => false end)).

  Definition move_levels (d : T) (ls : list lstate) : list lstate :=
    map (fun l => LS (axpy d (ls_dir l) (ls_pos l)) (ls_dir l) (ls_vol l) (ls_univ l)) ls.

  (** move_to_boundary *)
  Definition move_to_boundary (st : state) : state :=
    let surf := match st_next_surf st with
                | Some (s, sense) => Some (st_next_level st, s, sense)
                | None => None end in
    St (move_levels (st_next_step st) (st_levels st)) surf (st_reentrant st) n0 None
       (st_next_level st) (st_failed st).

  (** move_internal(dist) *)
  Definition move_internal (st : state) (d : T) : state :=
    St (move_levels d (st_levels st)) None (st_reentrant st) (st_next_step st - d)
       (st_next_surf st) (st_next_level st) (st_failed st).

  (** move_internal(pos): the new global position is transformed down through the daughter
      transforms of the current volumes; clear_surface(); clear_next() *)
  Fixpoint set_poss (xf : nat -> xform) (ls : list lstate) (l : nat) (pos : vec) : list lstate :=
    match ls with
    | [] => []
    | x :: r =>
        LS pos (ls_dir x) (ls_vol x) (ls_univ x) :: set_poss xf r (S l) (x_down (xf l) pos)
    end.

  Fixpoint set_vol_at (l : nat) (vol : nat) (ls : list lstate) : list lstate :=
    match ls, l with
    | [], _ => []
    | x :: r, O => LS (ls_pos x) (ls_dir x) vol (ls_univ x) :: r
    | x :: r, S k => x :: set_vol_at k vol r
    end.

  (** cross_boundary *)
  Definition cross_boundary (g : geometry) (st : state) : state :=
    if st_reentrant st then
      St (st_levels st) (st_surf st) false (st_next_step st) (st_next_surf st)
         (st_next_level st) (st_failed st)
    else
      match st_surf st with
      | None => st
      | Some (sl, s, sense) =>
          let sense' := negb sense in
          let ls := get_level st sl in
          let u := get_unit g (ls_univ ls) in
          let '(vol, failed1) :=
            match unit_cross u (ls_pos ls) (ls_vol ls) (s, sense') with
            | Some v => (v, false)
            | None => (0, true)
            end in
          let upper := set_vol_at sl vol (firstn (S sl) (st_levels st)) in
          let '(lower, failed2) :=
            match v_daughter (get_vol u vol) with
            | None => ([], false)
            | Some (duid, x) =>
                init_levels max_depth g duid (x_down x (ls_pos ls)) (x_rot_down x (ls_dir ls))
            end in
          St (upper ++ lower) (Some (sl, s, sense')) false (st_next_step st) (st_next_surf st)
             (st_next_level st) (st_failed st || failed1 || failed2)
      end.

  (** transform of the daughter of the volume the track is in at level [l] *)
  Definition level_xform (g : geometry) (st : state) (l : nat) : xform :=
    let ls := get_level st l in
    match v_daughter (get_vol (get_unit g (ls_univ ls)) (ls_vol ls)) with
    | Some (_, x) => x
    | None => XNone
    end.

  (** rotate a local vector up through the transforms of levels n-1 .. 0 *)
  Fixpoint rotate_up_from (g : geometry) (st : state) (n : nat) (v : vec) : vec :=
    match n with
    | O => v
    | S k => rotate_up_from g st k (x_rot_up (level_xform g st k) v)
    end.

  Definition move_internal_pos (g : geometry) (st : state) (pos : vec) : state :=
    St (set_poss (level_xform g st) (st_levels st) 0 pos) None (st_reentrant st) n0 None
       (st_next_level st) (st_failed st).

  Fixpoint set_dirs (g : geometry) (st : state) (ls : list lstate) (l : nat) (d : vec) : list lstate :=
    match ls with
    | [] => []
    | x :: r =>
        LS (ls_pos x) d (ls_vol x) (ls_univ x)
        :: set_dirs g st r (S l) (x_rot_down (level_xform g st l) d)
    end.

  (** the boundary normal in the global frame, rotated through [nrot] levels *)
  Definition global_normal (g : geometry) (st : state) (nrot : nat) : option vec :=
    match st_surf st with
    | None => None
    | Some (sl, s, _) =>
        let ls := get_level st sl in
        let n := surf_normal (get_surf (get_unit g (ls_univ ls)) s) (ls_pos ls) in
        Some (rotate_up_from g st nrot n)
    end.

  (** does the sign of normal . dir change? *)
  Definition sign_changes (n old new : vec) : bool :=
    negb (Bool.eqb (n0 <=? dot n new) (n0 <=? dot n old)).

  (** set_dir, parametrised by the number of levels the normal is rotated
      through (the code: surface_level; before the fix: level) *)
  Definition set_dir_gen (nrot : state -> nat) (g : geometry) (st : state) (newdir : vec) : state :=
    let flip :=
      match global_normal g st (nrot st) with
      | Some n => sign_changes n (ls_dir (get_level st 0)) newdir
      | None => false
      end in
    St (set_dirs g st (st_levels st) 0 newdir) (st_surf st) (xorb (st_reentrant st) flip)
       n0 None (st_next_level st) (st_failed st).

  Definition nrot_fixed (st : state) : nat :=
    match surface_level st with Some l => l | None => 0 end.
  Definition nrot_prefix (st : state) : nat := level st.

  Definition set_dir := set_dir_gen nrot_fixed.
  Definition set_dir_prefix := set_dir_gen nrot_prefix.

  (** ** L3: operations guarded by the documented call order (the guards are
      the CELER_EXPECTs, compiled out in this build, plus "on a boundary that
      has not been crossed yet only set_dir / cross_boundary") *)
  Inductive op :=
  | FindNext | FindNextMax (g : T)   (* max = g * unlimited distance *)
  | MoveInternal (f : T)            (* distance = f * next_step *)
  | MoveInternalPos (f : T)         (* move_internal(pos + f * next_step * dir) *)
  | MoveToBoundary | Cross | CrossIfReentrant | SetDir (u : vec) | Trace (n : nat).

  Record drv := Drv { d_st : state; d_crossed : bool }.

  (** observation after an op *)
  Record obs := Obs {
    o_ok : bool;
    o_stack : list (nat * nat);
    o_onb : bool;
    o_reentrant : bool;
    o_surf : option (nat * nat * bool);
    o_next_step : T;
    o_pos : vec;
    o_dir : vec;
    o_res : option (T * bool);
    o_failed : bool }.

  Definition observe (ok : bool) (st : state) (res : option (T * bool)) : obs :=
    Obs ok (map (fun l => (ls_univ l, ls_vol l)) (st_levels st)) (is_on_boundary st)
        (st_reentrant st) (st_surf st) (st_next_step st)
        (ls_pos (get_level st 0)) (ls_dir (get_level st 0)) res (st_failed st).

  Definition precross (d : drv) : bool := is_on_boundary (d_st d) && negb (d_crossed d).

  Definition can_cross (d : drv) (only_reentrant : bool) : bool :=
    is_on_boundary (d_st d) && negb (has_next_step (d_st d))
    && negb (d_crossed d && negb (st_reentrant (d_st d)))
    && (negb only_reentrant || st_reentrant (d_st d)).

  Fixpoint trace_loop (tol : tolerance) (g : geometry) (n : nat) (d : drv) (acc : list obs)
    : drv * list obs * nat :=
    match n with
    | O => (d, acc, 0%nat)
    | S k =>
        let st := d_st d in
        if is_outside st || st_failed st then (d, acc, 0%nat)
        else
          let '(st1, res) := find_next_step tol g st None in
          let acc1 := observe true st1 (Some res) :: acc in
          if negb (has_next_step st1 && has_next_surf st1) && negb (st_reentrant st1)
          then (Drv st1 (d_crossed d), acc1, 1%nat)
          else
            let '(st2, acc2) :=
              if st_reentrant st1 then (st1, acc1)
              else let s2 := move_to_boundary st1 in (s2, observe true s2 None :: acc1) in
            let st3 := cross_boundary g st2 in
            let '(d', acc', c) := trace_loop tol g k (Drv st3 true) (observe true st3 None :: acc2) in
            (d', acc', S c)
    end.

  Definition step (tol : tolerance) (g : geometry) (d : drv) (o : op) : drv * list obs :=
    let st := d_st d in
    match o with
    | FindNext =>
        if precross d && negb (st_reentrant st) then (d, [observe false st None])
        else let '(st', res) := find_next_step tol g st None in
             (Drv st' (d_crossed d), [observe true st' (Some res)])
    | FindNextMax gf =>
        if precross d || st_reentrant st then (d, [observe false st None])
        else
          let '(_, (du, _)) := find_next_step tol g st None in
          let mx := gf * du in
          if (n0 <? mx) && is_finite mx then
            let '(st', res) := find_next_step tol g st (Some mx) in
            (Drv st' (d_crossed d), [observe true st' (Some res)])
          else (d, [observe false st None])
    | MoveInternal f =>
        let ns := st_next_step st in
        let dist := f * ns in
        if has_next_step st && (n0 <? dist) && (dist <=? ns)
           && (negb (dist =? ns) || negb (has_next_surf st)) && is_finite dist
        then let st' := move_internal st dist in (Drv st' false, [observe true st' None])
        else (d, [observe false st None])
    | MoveInternalPos f =>
        let ns := st_next_step st in
        let dist := f * ns in
        if has_next_step st && (n0 <? dist) && (dist <? ns) && is_finite dist
        then
          let l0 := get_level st 0 in
          let p := ls_pos l0 in let u := ls_dir l0 in
          let st' := move_internal_pos g st (V3 (vx p + dist * vx u) (vy p + dist * vy u) (vz p + dist * vz u)) in
          (Drv st' false, [observe true st' None])
        else (d, [observe false st None])
    | MoveToBoundary =>
        if negb (st_reentrant st) && has_next_step st && has_next_surf st
        then let st' := move_to_boundary st in (Drv st' false, [observe true st' None])
        else (d, [observe false st None])
    | Cross =>
        if can_cross d false
        then let st' := cross_boundary g st in (Drv st' true, [observe true st' None])
        else (d, [observe false st None])
    | CrossIfReentrant =>
        if can_cross d true
        then let st' := cross_boundary g st in (Drv st' true, [observe true st' None])
        else (d, [observe false st None])
    | SetDir u =>
        let st' := set_dir g st u in (Drv st' (d_crossed d), [observe true st' None])
    | Trace n =>
        let '(d', acc, c) := trace_loop tol g n d [] in
        (d', rev acc ++ [observe (is_outside (d_st d')) (d_st d') None])
    end.

  Fixpoint run_ops (tol : tolerance) (g : geometry) (d : drv) (ops : list op) : list obs :=
    match ops with
    | [] => []
    | o :: r => let '(d', out) := step tol g d o in out ++ run_ops tol g d' r
    end.

  Definition run_ray (tol : tolerance) (g : geometry) (pos dir : vec) (ops : list op) : list obs :=
    let st := initialize g pos dir in
    observe true st None :: run_ops tol g (Drv st false) ops.
End Nav.
Arguments xform T : clear implicits.
Arguments volume T : clear implicits.
Arguments unit T : clear implicits.
Arguments geometry T : clear implicits.
Arguments tolerance T : clear implicits.
Arguments state T : clear implicits.
Arguments lstate T : clear implicits.
Arguments drv T : clear implicits.
Arguments obs T : clear implicits.
Arguments op T : clear implicits.
