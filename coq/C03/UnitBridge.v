(** * C03: NavModel's concrete unit-level routines ARE the abstract ones of UnitWalk.v
    (for every numeric instance), and the resulting statement
    "cross_boundary = point location just past the crossing point" for a concrete unit. *)
From Coq Require Import List Bool Arith Lia.
From Celer Require Import Base.Num Base.Vec3 C12.Solver C12.Surfaces C12.Transforms
  C03.LogicWalk C03.NavModel C03.UnitWalk C03.UnitAbs C03.UnitWalkProofs.
Import ListNotations.

Section Bridge.
  Context {T : Type} `{Num T}.

  Lemma calc_senses_none u pos faces i :
    fst (calc_senses_from u pos None faces i) = map (orc u pos) faces.
  Proof.
    revert i; induction faces as [|s r IH]; intros i; [reflexivity|].
    cbn [calc_senses_from]. specialize (IH (S i)).
    destruct (calc_senses_from u pos None r (S i)) as [rest on_r]. cbn [fst] in *.
    rewrite IH. reflexivity.
  Qed.

  Lemma calc_senses_far u pos f sense faces i :
    (f < i)%nat -> fst (calc_senses_from u pos (Some (f, sense)) faces i) = map (orc u pos) faces.
  Proof.
    revert i; induction faces as [|s r IH]; intros i Hlt; [reflexivity|].
    cbn [calc_senses_from]. specialize (IH (S i) ltac:(lia)).
    destruct (calc_senses_from u pos (Some (f, sense)) r (S i)) as [rest on_r]. cbn [fst] in *.
    destruct (Nat.eqb_spec f i); [lia|]. cbn [fst]. rewrite IH. reflexivity.
  Qed.

  Lemma calc_senses_forced u pos sense faces : forall i j s,
    NoDup faces -> nth_error faces j = Some s ->
    fst (calc_senses_from u pos (Some ((i + j)%nat, sense)) faces i)
    = face_senses (orc u pos) (Some (s, sense)) faces.
  Proof.
    induction faces as [|y r IH]; intros i j s Hnd Hj; [destruct j; discriminate|].
    inversion Hnd as [|? ? Hnotin Hnd']; subst.
    cbn [calc_senses_from]. destruct j as [|j].
    - cbn in Hj. inversion Hj; subst.
      pose proof (calc_senses_far u pos (i + 0)%nat sense r (S i) ltac:(lia)) as Hr.
      destruct (calc_senses_from u pos (Some ((i + 0)%nat, sense)) r (S i)) as [rest on_r]. cbn [fst] in *.
      replace (Nat.eqb (i + 0) i) with true by (symmetry; apply Nat.eqb_eq; lia). cbn [fst].
      cbn [face_senses map]. unfold forced_sense at 1. rewrite Nat.eqb_refl. f_equal.
      rewrite Hr. apply map_ext_in. intros x Hx. unfold forced_sense.
      destruct (Nat.eqb_spec s x) as [->|]; [contradiction|reflexivity].
    - cbn [nth_error] in Hj.
      specialize (IH (S i) j s Hnd' Hj). replace (S i + j)%nat with (i + S j)%nat in IH by lia.
      destruct (calc_senses_from u pos (Some ((i + S j)%nat, sense)) r (S i)) as [rest on_r]. cbn [fst] in *.
      destruct (Nat.eqb_spec (i + S j) i); [lia|]. cbn [fst].
      cbn [face_senses map]. fold (face_senses (orc u pos) (Some (s, sense)) r). rewrite <- IH.
      f_equal. unfold forced_sense. destruct (Nat.eqb_spec s y) as [->|]; [|reflexivity].
      exfalso. apply Hnotin. eapply nth_error_In; eassumption.
  Qed.

  Lemma index_of_spec x l i f : index_of x l i = Some f ->
    exists j, f = (i + j)%nat /\ nth_error l j = Some x.
  Proof.
    revert i; induction l as [|y r IH]; intros i Hf; [discriminate|]. cbn in Hf.
    destruct (Nat.eqb_spec x y) as [->|].
    - inversion Hf; subst. exists 0%nat. split; [lia|reflexivity].
    - destruct (IH _ Hf) as [j [-> Hj]]. exists (S j). split; [lia|exact Hj].
  Qed.
  Lemma index_of_none x l i : index_of x l i = None -> ~ In x l.
  Proof.
    revert i; induction l as [|y r IH]; intros i Hf Hin; [contradiction|]. cbn in Hf.
    destruct (Nat.eqb_spec x y) as [->|]; [discriminate|].
    destruct Hin as [->|Hin]; [congruence|]. eapply IH; eassumption.
  Qed.

  (** vol_inside with a forced surface = abstract containment *)
  Lemma vol_inside_forced u pos v surf :
    NoDup (v_faces v) ->
    fst (vol_inside u pos v (on_face_of v (Some surf))) = a_contains (absv v) (orc u pos) (Some surf).
  Proof.
    intros Hnd. destruct surf as [s sense]. unfold vol_inside, calc_senses, on_face_of, find_face, a_contains.
    cbn [absv av_inside av_faces].
    destruct (index_of s (v_faces v) 0) as [f|] eqn:Hf.
    - destruct (index_of_spec _ _ _ _ Hf) as [j [-> Hj]].
      pose proof (calc_senses_forced u pos sense (v_faces v) 0 j s Hnd Hj) as E.
      destruct (calc_senses_from u pos (Some ((0 + j)%nat, sense)) (v_faces v) 0) as [senses on].
      cbn [fst] in *. rewrite E. reflexivity.
    - pose proof (calc_senses_none u pos (v_faces v) 0) as E.
      destruct (calc_senses_from u pos None (v_faces v) 0) as [senses on]. cbn [fst] in *. rewrite E.
      f_equal. apply map_ext_in. intros x Hx. unfold forced_sense.
      destruct (Nat.eqb_spec s x) as [->|]; [|reflexivity].
      exfalso. exact (index_of_none _ _ _ Hf Hx).
  Qed.

  Lemma vol_inside_none u pos v :
    fst (vol_inside u pos v None) = a_contains (absv v) (orc u pos) None.
  Proof.
    unfold vol_inside, calc_senses, a_contains. cbn [absv av_inside av_faces].
    pose proof (calc_senses_none u pos (v_faces v) 0) as E.
    destruct (calc_senses_from u pos None (v_faces v) 0) as [senses on]. cbn [fst] in *. rewrite E. reflexivity.
  Qed.

  Lemma a_vol_abs (u : unit T) i o f :
    a_contains (a_vol (abs_unit u) i) o f = a_contains (absv (get_vol u i)) o f.
  Proof.
    unfold a_vol, abs_unit, get_vol.
    destruct (Nat.lt_ge_cases i (length (u_vols u))) as [Hlt|Hge].
    - rewrite (nth_indep _ no_avol (absv (no_vol (T:=T)))) by (rewrite map_length; exact Hlt).
      rewrite map_nth. reflexivity.
    - rewrite nth_overflow by (rewrite map_length; exact Hge).
      rewrite (nth_overflow (u_vols u)) by exact Hge. reflexivity.
  Qed.

  Lemma av_faces_abs (u : unit T) i : av_faces (a_vol (abs_unit u) i) = v_faces (get_vol u i).
  Proof.
    unfold a_vol, abs_unit, get_vol.
    destruct (Nat.lt_ge_cases i (length (u_vols u))) as [Hlt|Hge].
    - rewrite (nth_indep _ no_avol (absv (no_vol (T:=T)))) by (rewrite map_length; exact Hlt).
      rewrite map_nth. reflexivity.
    - rewrite nth_overflow by (rewrite map_length; exact Hge).
      rewrite (nth_overflow (u_vols u)) by exact Hge. reflexivity.
  Qed.

  Lemma neighbors_abs s (vs : list (volume T)) i : neighbors_from s vs i = a_neighbors_from s (map absv vs) i.
  Proof.
    revert i; induction vs as [|v r IH]; intros i; [reflexivity|].
    cbn [neighbors_from a_neighbors_from map]. rewrite IH. reflexivity.
  Qed.

  Definition wf_faces (u : unit T) : Prop := forall i, NoDup (v_faces (get_vol u i)).

  Lemma cross_search_abs u pos cur surf cands :
    wf_faces u ->
    cross_search u pos cur surf cands = a_cross_search (abs_unit u) (orc u pos) cur surf cands.
  Proof.
    intros Hwf. induction cands as [|c r IH]; [reflexivity|].
    cbn [cross_search a_cross_search]. destruct (Nat.eqb c cur); [exact IH|].
    pose proof (vol_inside_forced u pos (get_vol u c) surf (Hwf c)) as E.
    destruct (vol_inside u pos (get_vol u c) (on_face_of (get_vol u c) (Some surf))) as [ins on].
    cbn [fst] in E. rewrite a_vol_abs, <- E. destruct ins; [reflexivity|exact IH].
  Qed.

  (** *** SimpleUnitTracker::cross_boundary of the executable model = [a_unit_cross] *)
  Theorem bridge_unit_cross u pos cur surf :
    wf_faces u ->
    unit_cross u pos cur surf = a_unit_cross (abs_unit u) (u_background u) (orc u pos) cur surf.
  Proof.
    intros Hwf. unfold unit_cross, a_unit_cross, neighbors, abs_unit.
    rewrite neighbors_abs, map_length. fold (abs_unit u). rewrite cross_search_abs by exact Hwf. reflexivity.
  Qed.

  Definition off_surfaces (u : unit T) (pos : vec3 T) : Prop :=
    forall v, In v (u_vols u) -> snd (vol_inside u pos v None) = false.

  Lemma find_volume_abs u pos vs i :
    (forall v, In v vs -> snd (vol_inside u pos v None) = false) ->
    find_volume u pos vs i
    = match a_find_volume (map absv vs) (orc u pos) i with Some k => Some (k, false) | None => None end.
  Proof.
    revert i; induction vs as [|v r IH]; intros i Hoff; [reflexivity|].
    cbn [find_volume a_find_volume map].
    pose proof (vol_inside_none u pos v) as E. pose proof (Hoff v (or_introl eq_refl)) as Hs.
    destruct (vol_inside u pos v None) as [ins on]. cbn [fst snd] in *. subst on. rewrite <- E.
    destruct ins; [reflexivity|]. apply IH. intros v' Hv'. apply Hoff. right. exact Hv'.
  Qed.

  (** *** SimpleUnitTracker::initialize (the spec [locate] at one level) = [a_locate] away
      from surfaces *)
  Theorem bridge_unit_initialize u pos :
    off_surfaces u pos ->
    unit_initialize u pos = a_locate (abs_unit u) (u_background u) (orc u pos).
  Proof.
    intros Hoff. unfold unit_initialize, a_locate, abs_unit. rewrite (find_volume_abs u pos _ 0 Hoff).
    destruct (a_find_volume (map absv (u_vols u)) (orc u pos) 0); reflexivity.
  Qed.

  (** *** Goal statement for one unit: after crossing surface [s] (pre-crossing sense [b])
      out of volume [cur] at the point [pos], the volume found by cross_boundary is the one
      point location gives at any point [pos'] just past the crossing -- i.e. a point where
      every other surface still has the sense it has at [pos], [s] has its post-crossing
      sense, no surface is hit exactly, the unit's volumes are disjoint there, [cur] has
      been left, and just before the crossing (senses of [pos'] with [s] flipped back) only
      [cur] contained the track. *)
  Theorem unit_cross_is_locate_past u pos pos' cur s b :
    wf_faces u ->
    off_surfaces u pos' ->
    (forall x, x <> s -> (exists i, In x (v_faces (get_vol u i))) -> orc u pos x = orc u pos' x) ->
    orc u pos' s = negb b ->
    let vols := abs_unit u in
    let sprev := fun x => if Nat.eqb x s then b else orc u pos' x in
    (forall w, (w < length vols)%nat -> w <> cur -> contains vols w sprev = false) ->
    contains vols cur (orc u pos') = false ->
    at_most_one vols (orc u pos') -> implicit_empty vols (orc u pos') ->
    unit_cross u pos cur (s, negb b) = unit_initialize u pos'.
  Proof.
    intros Hwf Hoff Hsame Hs vols sprev Hprev Hexit Hu Hi.
    rewrite bridge_unit_cross by exact Hwf. rewrite bridge_unit_initialize by exact Hoff.
    apply a_cross_correct with (sprev := sprev); try assumption.
    - intros x Hx _. unfold sprev. destruct (Nat.eqb_spec x s); [contradiction|reflexivity].
    - intros x Hx [k Hk]. apply Hsame; [exact Hx|]. exists k. rewrite <- av_faces_abs. exact Hk.
  Qed.
End Bridge.
