(** * C03: non-vacuity of the unit-level trace theorem with a background volume:
    slabs x < 1 and x > 2, the gap between them is the background volume. *)
From Coq Require Import Reals List Bool Arith Lia Lra Sorting.Sorted.
From Celer Require Import Base.Num Base.NumR C03.LogicWalk C03.LogicWalkProofs C03.UnitWalk
  C03.UnitWalkProofs C03.UnitWalkBg C03.UnitWalkBgProofs.
Import ListNotations.
Local Open Scope R_scope.

Definition volsB : list avol :=
  [ AVol [0%nat] (fun s => negb (nth 0 s false)) false;
    AVol [1%nat] (fun s => nth 0 s false) false;
    AVol [0%nat; 1%nat] (fun _ => false) true ].
Definition SB : list bool := [false; false].
Definition xsB : list (nat * R) := [(0%nat, 1); (1%nat, 2)].

Lemma goodB S : In S [[false; false]; [true; false]; [true; true]] -> good' volsB S.
Proof.
  intros Hin. split.
  - intros i j Hi Hj. cbn in Hi, Hj.
    destruct Hin as [<-|[<-|[<-|[]]]];
      destruct i as [|[|[|i]]]; try lia; destruct j as [|[|[|j]]]; try lia; cbn; congruence.
  - intros i Hi. cbn in Hi. destruct i as [|[|[|i]]]; try lia; cbn; try discriminate. reflexivity.
Qed.

Lemma uptoB t : senses_upto t SB xsB =
  if Rleb 1 t then if Rleb 2 t then [true; true] else [true; false]
  else if Rleb 2 t then [false; true] else [false; false].
Proof.
  unfold SB, xsB. cbn [senses_upto]. change (@nleb R NumR) with Rleb.
  destruct (Rleb 1 t), (Rleb 2 t); reflexivity.
Qed.

Ltac nodup := repeat (constructor; [cbn; intuition congruence|]); try constructor.

Example nav_trace_bg_hyps_sat :
  let oracle := true_sense SB xsB in
  (forall b, Some 2%nat = Some b -> (b < length volsB)%nat /\ av_implicit (a_vol volsB b) = true)
  /\ strictly_sorted xsB /\ all_good' volsB SB xsB
  /\ spec_locate volsB (Some 2%nat) SB xsB 0 = Some 0%nat
  /\ nav_trace_bg 3 volsB (Some 2%nat) oracle oracle xsB 0 0%nat None = [(Some 2%nat, 1); (Some 1%nat, 2)].
Proof.
  intros oracle.
  assert (E0 : senses_upto 0 SB xsB = [false; false]).
  { rewrite uptoB. rewrite (proj2 (Rleb_false 1 0)), (proj2 (Rleb_false 2 0)) by lra. reflexivity. }
  assert (E1 : senses_upto 1 SB xsB = [true; false]).
  { rewrite uptoB. rewrite (proj2 (Rleb_true 1 1)), (proj2 (Rleb_false 2 1)) by lra. reflexivity. }
  assert (E2 : senses_upto 2 SB xsB = [true; true]).
  { rewrite uptoB. rewrite (proj2 (Rleb_true 1 2)), (proj2 (Rleb_true 2 2)) by lra. reflexivity. }
  assert (Hb : forall b, Some 2%nat = Some b -> (b < length volsB)%nat /\ av_implicit (a_vol volsB b) = true).
  { intros b E. inversion E; subst. cbn. split; [lia|reflexivity]. }
  assert (Hs : strictly_sorted xsB) by (repeat constructor; cbn; lra).
  assert (Hr : forall s d, In (s, d) xsB -> (s < length SB)%nat).
  { intros s d [E|[E|[]]]; inversion E; subst; cbn; lia. }
  assert (Hn : forall i, NoDup (av_faces (a_vol volsB i))).
  { intros [|[|[|i]]]; cbn; [nodup|nodup|nodup|destruct i; cbn; constructor]. }
  assert (Hp : forall s d, In (s, d) xsB -> 0 < d).
  { intros s d [E|[E|[]]]; inversion E; subst; lra. }
  assert (Hl : spec_locate volsB (Some 2%nat) SB xsB 0 = Some 0%nat).
  { unfold spec_locate, true_sense. rewrite E0. reflexivity. }
  assert (Hg : all_good' volsB SB xsB).
  { unfold xsB, SB. cbn [all_good' flip_at negb].
    split; [apply (goodB [false; false]); left; reflexivity|].
    split; [apply (goodB [true; false]); right; left; reflexivity|].
    split; [apply (goodB [true; true]); right; right; left; reflexivity|exact I]. }
  assert (Ho : forall x, oracle 0 x = vecS SB x).
  { intros x. unfold oracle, true_sense. rewrite E0. reflexivity. }
  split; [exact Hb|]. split; [exact Hs|]. split; [exact Hg|]. split; [exact Hl|].
  change 3%nat with (S (length xsB)).
  rewrite (nav_trace_bg_refines_locate volsB (Some 2%nat) Hb SB xsB oracle oracle Hs Hr Hn
             (fun _ _ _ _ _ => eq_refl) (fun _ _ _ _ => eq_refl) 0 0%nat Hp Ho Hl Hg).
  cbn [map snd xsB spec_trace]. unfold spec_locate, true_sense. rewrite E1, E2. reflexivity.
Qed.
