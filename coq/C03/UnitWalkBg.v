(** * C03 model, layer L1.5 continued: units WITH a background volume.
    SimpleUnitTracker::background_intersect seen abstractly ([a_bg_enter_search] = the test of
    one crossing: first neighbour of the surface that contains the bumped point;
    [a_bg_intersect] = background_enter over all crossings ahead -- the faces of the
    background volume are ALL surfaces of the unit) and the loop [nav_trace_bg] that uses it
    when the current volume is implicit.  No proofs here. *)
From Coq Require Import List Bool Arith.
From Celer Require Import Base.Num C03.LogicWalk C03.UnitWalk.
Import ListNotations.
Local Open Scope num_scope.

Section Bg.
  Context {T : Type} `{Num T}.

  Fixpoint a_bg_enter_search (vols : list avol) (oracle : nat -> bool) (surf : nat) (cands : list nat)
    : option bool :=
    match cands with
    | [] => None
    | i :: r =>
        let v := a_vol vols i in
        if a_contains v oracle None then
          (if existsb (Nat.eqb surf) (av_faces v) then Some (negb (oracle surf)) else Some false)
        else a_bg_enter_search vols oracle surf r
    end.

  Definition a_bg_intersect (vols : list avol) (oracle_bump : T -> nat -> bool) (xs : list (nat * T))
    : option (nat * bool * T) :=
    background_enter (fun s d => a_bg_enter_search vols (oracle_bump d) s (a_neighbors_from s vols 0)) xs.

  Fixpoint nav_trace_bg (fuel : nat) (vols : list avol) (bg : option nat)
           (oracle_at oracle_bump : T -> nat -> bool)
           (xs : list (nat * T)) (t : T) (cur : nat) (on : option (nat * bool))
    : list (option nat * T) :=
    match fuel with
    | O => []
    | S k =>
        let v := a_vol vols cur in
        match (if av_implicit v then a_bg_intersect vols oracle_bump (ahead t xs)
               else a_intersect v (face_senses (oracle_at t) on (av_faces v)) (ahead t xs)) with
        | None => []
        | Some (s, b, d) =>
            match a_unit_cross vols bg (oracle_at d) cur (s, negb b) with
            | None => [(None, d)]
            | Some v' => (Some v', d) :: nav_trace_bg k vols bg oracle_at oracle_bump xs d v' (Some (s, negb b))
            end
        end
    end.
End Bg.
