(** * C03 model: index arithmetic used by ORANGE navigation (discrete; no proofs here).

      src/corecel/math/detail/AlgorithmsImpl.hh   lower_bound_impl / upper_bound_impl  -> [bsearch]
      src/orange/detail/UniverseIndexer.hh        global_* / local_* / find_local      -> [global_id], [local_id]
      src/corecel/data/HyperslabIndexer.hh        HyperslabIndexer<3> and its inverse   -> [hs_index], [hs_coords]
      src/orange/univ/detail/RaggedRightIndexer.hh  RaggedRightIndexer<3> and inverse   -> [rr_index], [rr_coords] *)
From Coq Require Import List Arith Bool.
Import ListNotations.

(** the binary search loop shared by lower_bound_impl and upper_bound_impl:
    [p m] = "the answer is to the right of m" (lower: comp(m[*], v); upper: !comp(v, m[*]));
    half_positive(len) = len / 2; fuel = initial len suffices *)
Fixpoint bsearch (p : nat -> bool) (fuel first len : nat) : nat :=
  match fuel with
  | O => first
  | S k =>
      if Nat.eqb len 0 then first
      else
        let half := Nat.div len 2 in
        let m := first + half in
        if p m then bsearch p k (S m) (len - (half + 1))
        else bsearch p k first half
  end.

(** celeritas::upper_bound(begin, end, id) on a list of size_type *)
Definition upper_bound_nat (l : list nat) (v : nat) : nat :=
  bsearch (fun m => negb (v <? nth m l 0)) (length l) 0 (length l).

(** ** UniverseIndexer; [offsets] = data_.surfaces or data_.volumes *)
Definition num_universes (offsets : list nat) : nat := length offsets - 1.
Definition local_size (offsets : list nat) (uni : nat) : nat :=
  nth (S uni) offsets 0 - nth uni offsets 0.
Definition global_id (offsets : list nat) (uni loc : nat) : nat := nth uni offsets 0 + loc.
(** find_local: upper_bound, then --iter *)
Definition find_local (offsets : list nat) (id : nat) : nat := pred (upper_bound_nat offsets id).
Definition local_id (offsets : list nat) (id : nat) : nat * nat :=
  let u := find_local offsets id in (u, id - nth u offsets 0).

(** ** HyperslabIndexer<3>: last axis fastest *)
Definition hs_index (dims c : nat * nat * nat) : nat :=
  let '(_, d1, d2) := dims in let '(c0, c1, c2) := c in
  d2 * (d1 * c0 + c1) + c2.
Definition hs_coords (dims : nat * nat * nat) (index : nat) : nat * nat * nat :=
  let '(_, d1, d2) := dims in
  let c2 := index mod d2 in
  let i1 := (index - c2) / d2 in
  let c1 := i1 mod d1 in
  let i0 := (i1 - c1) / d1 in
  (i0, c1, c2).

(** ** RaggedRightIndexer<3>; offsets = [0; s0; s0+s1; s0+s1+s2] *)
Definition rr_from_sizes (s0 s1 s2 : nat) : list nat := [0; s0; s0 + s1; s0 + s1 + s2].
Definition rr_index (offs : list nat) (ax k : nat) : nat := nth ax offs 0 + k.
(** while (index >= offsets[i + 1]) ++i;   fuel = number of offsets: reading past the end
    (index >= offsets.back(), excluded by a compiled-out CELER_EXPECT) ends at i >= 3 *)
Fixpoint rr_axis_loop (offs : list nat) (index i fuel : nat) : nat :=
  match fuel with
  | O => i
  | S f => if nth (S i) offs 0 <=? index then rr_axis_loop offs index (S i) f else i
  end.
Definition rr_coords (offs : list nat) (index : nat) : nat * nat :=
  let i := rr_axis_loop offs index 0 (length offs) in (i, index - nth i offs 0).
