(** * C03 proofs: the level stack of the track view stays geometrically consistent --
    each level's local position / direction is the daughter transform of the level above
    applied to that level's position / direction, and its universe is that daughter's
    universe ([chain]).  Established by initialisation, preserved by every operation. *)
From Coq Require Import Reals List Bool Arith Lia Lra.
From Celer Require Import Base.Num Base.NumR Base.Vec3 C12.Solver C12.Surfaces C12.Transforms
  C03.LogicWalk C03.LogicWalkProofs C03.NavModel.
Import ListNotations.
Local Open Scope R_scope.

Definition link (g : geometry R) (a b : lstate R) : Prop :=
  exists duid x,
    v_daughter (get_vol (get_unit g (ls_univ a)) (ls_vol a)) = Some (duid, x)
    /\ ls_univ b = duid /\ ls_pos b = x_down x (ls_pos a) /\ ls_dir b = x_rot_down x (ls_dir a).

Fixpoint chain (g : geometry R) (ls : list (lstate R)) : Prop :=
  match ls with
  | a :: r => match r with b :: _ => link g a b | [] => True end /\ chain g r
  | [] => True
  end.

(** the daughter transforms are affine: moving along the ray commutes with them *)
Lemma x_down_axpy (x : xform R) d (u p : vec3 R) :
  x_down x (axpy d u p) = axpy d (x_rot_down x u) (x_down x p).
Proof.
  destruct x as [|t|[[[a0 a1 a2] [b0 b1 b2] [c0 c1 c2]] [t0 t1 t2]]]; destruct u as [u0 u1 u2], p as [p0 p1 p2].
  - reflexivity.
  - destruct t as [t0 t1 t2]. unfold x_down, x_rot_down, tr_down, vsub, axpy. cbn. numR. f_equal; ring.
  - unfold x_down, x_rot_down, tf_down, tf_rotate_down, gemv_t, vsub, axpy, mget, mrow. cbn. numR. f_equal; ring.
Qed.

Lemma chain_head_irrelevant g a a' r :
  ls_univ a = ls_univ a' -> ls_vol a = ls_vol a' -> ls_pos a = ls_pos a' -> ls_dir a = ls_dir a' ->
  chain g (a :: r) -> chain g (a' :: r).
Proof.
  intros Hu Hv Hp Hd [Hl Hc]. split; [|exact Hc]. destruct r as [|b r']; [exact I|].
  destruct Hl as [duid [x [H1 [H2 [H3 H4]]]]]. exists duid, x. rewrite <- Hu, <- Hv, <- Hp, <- Hd. tauto.
Qed.

Lemma move_levels_chain g d ls : chain g ls -> chain g (move_levels d ls).
Proof.
  induction ls as [|a r IH]; [intros; exact I|]. intros [Hl Hc]. cbn [move_levels map chain].
  split; [|apply IH; exact Hc]. destruct r as [|b r']; [exact I|]. cbn [map].
  destruct Hl as [duid [x [H1 [H2 [H3 H4]]]]]. exists duid, x. cbn [ls_univ ls_vol ls_pos ls_dir].
  repeat split; try assumption. rewrite H3, H4. symmetry. apply x_down_axpy.
Qed.

Lemma init_levels_chain g : forall k uid pos dir,
  chain g (fst (init_levels k g uid pos dir))
  /\ (forall a r, fst (init_levels k g uid pos dir) = a :: r ->
        ls_pos a = pos /\ ls_dir a = dir /\ ls_univ a = uid).
Proof.
  induction k as [|k IH]; intros uid pos dir; cbn [init_levels].
  - split; [exact I|]. cbn. discriminate.
  - destruct (unit_initialize (get_unit g uid) pos) as [vol|].
    + destruct (v_daughter (get_vol (get_unit g uid) vol)) as [[duid x]|] eqn:Hd.
      * specialize (IH duid (x_down x pos) (x_rot_down x dir)).
        destruct (init_levels k g duid (x_down x pos) (x_rot_down x dir)) as [rest failed]. cbn [fst] in *.
        destruct IH as [Hc Hh]. split.
        -- cbn [chain]. split; [|exact Hc]. destruct rest as [|b r']; [exact I|].
           destruct (Hh b r' eq_refl) as [Hp [Hdi Hu]]. exists duid, x. cbn. tauto.
        -- intros a r E. inversion E; subst. cbn. tauto.
      * cbn. split; [tauto|]. intros a r E. inversion E; subst. cbn. tauto.
    + cbn. split; [tauto|]. intros a r E. inversion E; subst. cbn. tauto.
Qed.

Lemma chain_firstn g n ls : chain g ls -> chain g (firstn n ls).
Proof.
  revert n; induction ls as [|a r IH]; intros n Hc; [destruct n; exact I|].
  destruct n as [|n]; [exact I|]. cbn [firstn]. destruct Hc as [Hl Hc]. split; [|apply IH; exact Hc].
  destruct r as [|b r']; [destruct n; exact I|]. destruct n as [|n]; [exact I|]. exact Hl.
Qed.

Lemma chain_app g u l :
  chain g u -> chain g l ->
  (forall a b l', l = b :: l' -> u <> [] -> a = last u (dummy_ls (T:=R)) -> link g a b) ->
  chain g (u ++ l).
Proof.
  induction u as [|a r IH]; intros Hu Hl Hlink; [exact Hl|]. cbn [app chain]. destruct Hu as [Ha Hr]. split.
  - destruct r as [|b r'].
    + cbn [app]. destruct l as [|b l']; [exact I|]. apply (Hlink a b l' eq_refl); [discriminate|reflexivity].
    + exact Ha.
  - apply IH; try assumption. intros a' b l' E Hne Hlast. apply (Hlink a' b l' E); [discriminate|].
    rewrite Hlast. destruct r; [congruence|reflexivity].
Qed.

Lemma set_vol_at_head l vol (a : lstate R) r :
  exists a', set_vol_at l vol (a :: r) = a' :: match l with O => r | S k => set_vol_at k vol r end
             /\ ls_univ a' = ls_univ a /\ ls_pos a' = ls_pos a /\ ls_dir a' = ls_dir a
             /\ (l <> 0%nat -> a' = a).
Proof.
  destruct l as [|k]; cbn [set_vol_at].
  - eexists. split; [reflexivity|]. cbn. repeat split; congruence.
  - exists a. repeat split.
Qed.

(** changing the volume of the LAST level (cross_boundary) keeps the links above it *)
Lemma set_vol_at_last_chain g vol : forall ls l,
  (length ls <= S l)%nat -> chain g ls -> chain g (set_vol_at l vol ls).
Proof.
  induction ls as [|a r IH]; intros l Hlen Hc; [destruct l; exact I|].
  destruct l as [|k].
  - destruct r; [|cbn in Hlen; lia]. cbn. tauto.
  - cbn [set_vol_at chain]. destruct Hc as [Hl Hc]. split; [|apply IH; [cbn in Hlen; lia|exact Hc]].
    destruct r as [|b r']; [destruct k; exact I|].
    destruct (set_vol_at_head k vol b r') as [b' [E [Hu [Hp [Hd _]]]]]. rewrite E.
    destruct Hl as [duid [x [H1 [H2 [H3 H4]]]]]. exists duid, x. rewrite Hu, Hp, Hd. tauto.
Qed.

Lemma set_vol_at_last (g : geometry R) vol : forall (ls : list (lstate R)) l,
  length ls = S l ->
  let e := last (set_vol_at l vol ls) dummy_ls in
  ls_vol e = vol /\ ls_univ e = ls_univ (nth l ls dummy_ls) /\ ls_pos e = ls_pos (nth l ls dummy_ls)
  /\ ls_dir e = ls_dir (nth l ls dummy_ls).
Proof.
  induction ls as [|a r IH]; intros l Hlen; [discriminate|]. destruct l as [|k].
  - destruct r; [|discriminate]. cbn. tauto.
  - cbn [set_vol_at nth]. destruct r as [|b r']; [discriminate|].
    assert (Hl : length (b :: r') = S k) by (cbn in *; lia). specialize (IH k Hl). cbv zeta in IH.
    destruct (set_vol_at_head k vol b r') as [b' [E _]]. rewrite E in *. exact IH.
Qed.

(** *** levels_positions_consistent, operation by operation *)
Theorem levels_positions_consistent (g : geometry R) :
  (forall pos dir, chain g (st_levels (initialize g pos dir)))
  /\ (forall tol st maxd, chain g (st_levels st) -> chain g (st_levels (fst (find_next_step tol g st maxd))))
  /\ (forall st d, chain g (st_levels st) -> chain g (st_levels (move_internal st d)))
  /\ (forall st, chain g (st_levels st) -> chain g (st_levels (move_to_boundary st)))
  /\ (forall st, chain g (st_levels st) ->
        (forall sl s b, st_surf st = Some (sl, s, b) -> (sl < length (st_levels st))%nat) ->
        chain g (st_levels (cross_boundary g st))).
Proof.
  split; [|split; [|split; [|split]]].
  - intros pos dir. unfold initialize. pose proof (init_levels_chain g max_depth 0 pos dir) as [Hc _].
    destruct (init_levels max_depth g 0 pos dir) as [levels failed]. exact Hc.
  - intros tol st maxd Hc. unfold find_next_step. destruct (st_reentrant st); [exact Hc|].
    destruct (find_next_levels _ _ _) as [res lev]. exact Hc.
  - intros st d Hc. unfold move_internal. cbn [st_levels]. apply move_levels_chain. exact Hc.
  - intros st Hc. unfold move_to_boundary. cbn [st_levels]. apply move_levels_chain. exact Hc.
  - intros st Hc Hsl. unfold cross_boundary. destruct (st_reentrant st); [exact Hc|].
    destruct (st_surf st) as [[[sl s] sense]|] eqn:Hs; [|exact Hc].
    specialize (Hsl sl s sense eq_refl).
    set (ls := get_level st sl). set (u := get_unit g (ls_univ ls)).
    destruct (match unit_cross u (ls_pos ls) (ls_vol ls) (s, negb sense) with
              | Some v => (v, false) | None => (0%nat, true) end) as [vol failed1].
    assert (Hlen : length (firstn (S sl) (st_levels st)) = S sl) by (rewrite firstn_length; lia).
    assert (Hup : chain g (set_vol_at sl vol (firstn (S sl) (st_levels st)))).
    { apply set_vol_at_last_chain; [lia|]. apply chain_firstn. exact Hc. }
    destruct (set_vol_at_last g vol (firstn (S sl) (st_levels st)) sl Hlen) as [Lv [Lu [Lp Ld]]].
    assert (Hnth : nth sl (firstn (S sl) (st_levels st)) dummy_ls = ls).
    { unfold ls, get_level. rewrite <- (firstn_skipn (S sl) (st_levels st)) at 2.
      rewrite app_nth1 by lia. reflexivity. }
    rewrite Hnth in Lu, Lp, Ld.
    destruct (v_daughter (get_vol u vol)) as [[duid x]|] eqn:Hd.
    + pose proof (init_levels_chain g max_depth duid (x_down x (ls_pos ls)) (x_rot_down x (ls_dir ls))) as [Hlc Hlh].
      destruct (init_levels max_depth g duid (x_down x (ls_pos ls)) (x_rot_down x (ls_dir ls))) as [lower failed2].
      cbn [st_levels fst] in *. apply chain_app; try assumption.
      intros a b l' E _ Ha. destruct (Hlh b l' E) as [Hp [Hdi Hu]]. subst a.
      exists duid, x. rewrite Lv, Lu, Lp, Ld. fold u. tauto.
    + cbn [st_levels]. rewrite app_nil_r. exact Hup.
Qed.

(** the canonical loop keeps the side condition of cross_boundary: the surface level set by
    move_to_boundary after a search is a valid level *)
Lemma find_next_level_valid tol (g : geometry R) st maxd :
  st_levels st <> [] ->
  let st1 := fst (find_next_step tol g st maxd) in
  st_reentrant st = false ->
  st_next_surf st1 <> None -> (st_next_level st1 < length (st_levels st1))%nat.
Proof.
  intros Hne st1 Hre. subst st1. unfold find_next_step. rewrite Hre.
  set (search := fun l m => truncate (level_intersect tol g st l (Some m)) m).
  destruct (find_next_levels _ search (level st)) as [res lev] eqn:Hf. cbn [fst st_next_surf st_next_level st_levels].
  intros Hs. destruct (i_surf res) eqn:Hi; [|congruence].
  unfold find_next_levels in Hf.
  assert (G : forall n l best bl r lv, min_over_levels search l n best bl = (r, lv) -> (bl < l + n)%nat -> (lv < l + n)%nat).
  { induction n as [|n IH]; intros l best bl r lv Hm Hb; cbn [min_over_levels] in Hm.
    - inversion Hm; subst. exact Hb.
    - destruct (i_dist (search l (i_dist best)) <? i_dist best)%num.
      + specialize (IH (S l) _ _ _ _ Hm). lia.
      + specialize (IH (S l) _ _ _ _ Hm). lia. }
  specialize (G (level st) 1%nat _ 0%nat res lev Hf ltac:(lia)). unfold level in G.
  destruct (st_levels st); [congruence|]. cbn in *. lia.
Qed.

(** set_dir and move_internal(pos) re-derive every level from level 0 through the same
    daughter transforms *)
Lemma set_dirs_chain (g : geometry R) st : forall ls l d,
  (forall k, (k < length ls)%nat -> nth k ls dummy_ls = get_level st (l + k)) ->
  chain g ls -> chain g (set_dirs g st ls l d).
Proof.
  induction ls as [|a r IH]; intros l d Hn Hc; [exact I|]. cbn [set_dirs chain]. destruct Hc as [Hl Hc]. split.
  - destruct r as [|b r']; [exact I|]. cbn [set_dirs].
    destruct Hl as [duid [x [H1 [H2 [H3 H4]]]]]. exists duid, x. cbn [ls_univ ls_vol ls_pos ls_dir].
    repeat split; try assumption. unfold level_xform.
    assert (E : get_level st l = a).
    { rewrite <- (Nat.add_0_r l). symmetry. apply (Hn 0%nat). cbn; lia. }
    rewrite E, H1. reflexivity.
  - apply IH; [|exact Hc]. intros k Hk. specialize (Hn (S k) ltac:(cbn; lia)). cbn [nth] in Hn.
    rewrite Hn. f_equal. lia.
Qed.

Lemma set_poss_chain (g : geometry R) st : forall ls l p,
  (forall k, (k < length ls)%nat -> nth k ls dummy_ls = get_level st (l + k)) ->
  chain g ls -> chain g (set_poss (level_xform g st) ls l p).
Proof.
  induction ls as [|a r IH]; intros l p Hn Hc; [exact I|]. cbn [set_poss chain]. destruct Hc as [Hl Hc]. split.
  - destruct r as [|b r']; [exact I|]. cbn [set_poss].
    destruct Hl as [duid [x [H1 [H2 [H3 H4]]]]]. exists duid, x. cbn [ls_univ ls_vol ls_pos ls_dir].
    repeat split; try assumption. unfold level_xform.
    assert (E : get_level st l = a).
    { rewrite <- (Nat.add_0_r l). symmetry. apply (Hn 0%nat). cbn; lia. }
    rewrite E, H1. reflexivity.
  - apply IH; [|exact Hc]. intros k Hk. specialize (Hn (S k) ltac:(cbn; lia)). cbn [nth] in Hn.
    rewrite Hn. f_equal. lia.
Qed.

Theorem levels_positions_consistent_redirect (g : geometry R) st :
  chain g (st_levels st) ->
  (forall u, chain g (st_levels (set_dir g st u)))
  /\ (forall p, chain g (st_levels (move_internal_pos g st p))).
Proof.
  intros Hc. split; intros v; unfold set_dir, set_dir_gen, move_internal_pos; cbn [st_levels];
    [apply set_dirs_chain|apply set_poss_chain]; try exact Hc; intros k _; reflexivity.
Qed.
