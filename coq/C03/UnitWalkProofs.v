(** * C03 proofs for layer L1.5: a unit partitioned by several volumes, along a ray (over R). *)
From Coq Require Import Reals List Bool Arith Lia Lra Sorting.Sorted.
From Celer Require Import Base.Num Base.NumR C03.LogicWalk C03.LogicWalkProofs C03.UnitWalk.
Import ListNotations.
Local Open Scope R_scope.

(** a sense vector indexed by surface id, as an oracle *)
Definition vecS (S : list bool) : nat -> bool := fun s => nth s S false.

Lemma vecS_flip s S x :
  (s < length S)%nat -> vecS (flip_at s S) x = if Nat.eqb x s then negb (vecS S x) else vecS S x.
Proof.
  unfold vecS. revert s x; induction S as [|b S IH]; intros s x Hs; [cbn in Hs; lia|].
  destruct s as [|s]; destruct x as [|x]; cbn; try reflexivity.
  apply IH. cbn in Hs. lia.
Qed.

Lemma flips_length xs S : length (flips xs S) = length S.
Proof.
  revert S; induction xs as [|[f d] xs IH]; intros S; [reflexivity|].
  rewrite flips_cons, IH. apply flip_at_length.
Qed.

Lemma face_senses_ext o1 f1 o2 f2 faces :
  (forall x, In x faces -> forced_sense o1 f1 x = forced_sense o2 f2 x) ->
  face_senses o1 f1 faces = face_senses o2 f2 faces.
Proof. intros Hx. apply map_ext_in. exact Hx. Qed.

Lemma map_flip (g0 : nat -> bool) s faces f :
  NoDup faces -> nth_error faces f = Some s ->
  map (fun x => if Nat.eqb x s then negb (g0 x) else g0 x) faces = flip_at f (map g0 faces).
Proof.
  revert f; induction faces as [|y r IH]; intros f Hnd Hf; [destruct f; discriminate|].
  inversion Hnd as [|? ? Hnotin Hnd']; subst. destruct f as [|f].
  - cbn in Hf. inversion Hf; subst. cbn [map flip_at]. rewrite Nat.eqb_refl. f_equal.
    apply map_ext_in. intros x Hin. destruct (Nat.eqb_spec x s); [subst; contradiction|reflexivity].
  - cbn [nth_error] in Hf. cbn [map flip_at].
    destruct (Nat.eqb_spec y s) as [->|Hne].
    + exfalso. apply Hnotin. eapply nth_error_In; eassumption.
    + f_equal. apply IH; assumption.
Qed.

Lemma face_index_spec s faces k f :
  face_index s faces k = Some f ->
  exists j, f = (k + j)%nat /\ nth_error faces j = Some s.
Proof.
  revert k; induction faces as [|y r IH]; intros k Hf; [discriminate|].
  cbn in Hf. destruct (Nat.eqb_spec s y) as [->|Hne].
  - inversion Hf; subst. exists 0%nat. split; [lia|reflexivity].
  - destruct (IH _ Hf) as [j [-> Hj]]. exists (S j). split; [lia|exact Hj].
Qed.

Lemma face_index_none s faces k : face_index s faces k = None -> ~ In s faces.
Proof.
  revert k; induction faces as [|y r IH]; intros k Hf Hin; [contradiction|].
  cbn in Hf. destruct (Nat.eqb_spec s y) as [->|Hne]; [discriminate|].
  destruct Hin as [->|Hin]; [congruence|]. eapply IH; eassumption.
Qed.

Section Unit.
  Variable vols : list avol.
  Variable bg : option nat.

  Definition contains (i : nat) (o : nat -> bool) : bool := a_contains (a_vol vols i) o None.

  (** the hypotheses "the volumes of the unit partition space", at one sense region *)
  Definition at_most_one (o : nat -> bool) : Prop :=
    forall i j, (i < length vols)%nat -> (j < length vols)%nat ->
                contains i o = true -> contains j o = true -> i = j.
  Definition implicit_empty (o : nat -> bool) : Prop :=
    forall i, (i < length vols)%nat -> av_implicit (a_vol vols i) = true -> contains i o = false.
  Definition some_contains (o : nat -> bool) : Prop :=
    exists i, (i < length vols)%nat /\ contains i o = true.

  Lemma contains_range i o : contains i o = true -> (i < length vols)%nat.
  Proof.
    intros Hc. destruct (Nat.lt_ge_cases i (length vols)) as [|Hge]; [assumption|].
    unfold contains, a_vol in Hc. rewrite nth_overflow in Hc by assumption. discriminate.
  Qed.

  Lemma find_volume_some vs o k i :
    a_find_volume vs o k = Some i ->
    exists j, i = (k + j)%nat /\ (j < length vs)%nat /\ a_contains (nth j vs no_avol) o None = true.
  Proof.
    revert k; induction vs as [|v r IH]; intros k Hf; [discriminate|].
    cbn in Hf. destruct (a_contains v o None) eqn:Hc.
    - inversion Hf; subst. exists 0%nat. cbn. repeat split; [lia|lia|exact Hc].
    - destruct (IH _ Hf) as [j [-> [Hj Hcj]]]. exists (S j). cbn. repeat split; [lia|lia|exact Hcj].
  Qed.

  Lemma find_volume_none vs o k :
    a_find_volume vs o k = None ->
    forall j, (j < length vs)%nat -> a_contains (nth j vs no_avol) o None = false.
  Proof.
    revert k; induction vs as [|v r IH]; intros k Hf j Hj; [cbn in Hj; lia|].
    cbn in Hf. destruct (a_contains v o None) eqn:Hc; [discriminate|].
    destruct j as [|j]; [exact Hc|]. cbn. eapply IH; [eassumption|cbn in Hj; lia].
  Qed.

  Lemma locate_some_contains o w :
    a_find_volume vols o 0 = Some w -> (w < length vols)%nat /\ contains w o = true.
  Proof.
    intros Hf. destruct (find_volume_some _ _ _ _ Hf) as [j [-> [Hj Hc]]]. split; [lia|exact Hc].
  Qed.

  (** under the partition hypothesis point location is THE containing volume *)
  Lemma locate_unique o i :
    at_most_one o -> contains i o = true -> a_locate vols bg o = Some i.
  Proof.
    intros Hu Hc. pose proof (contains_range _ _ Hc) as Hi. unfold a_locate.
    destruct (a_find_volume vols o 0) as [w|] eqn:Hf.
    - destruct (locate_some_contains _ _ Hf) as [Hw Hcw]. f_equal. apply Hu; assumption.
    - pose proof (find_volume_none _ _ _ Hf i Hi) as Hn. unfold contains, a_vol in Hc. congruence.
  Qed.

  Lemma cross_search_some o cur surf cands i :
    a_cross_search vols o cur surf cands = Some i ->
    In i cands /\ i <> cur /\ a_contains (a_vol vols i) o (Some surf) = true.
  Proof.
    induction cands as [|c r IH]; intros Hs; [discriminate|]. cbn in Hs.
    destruct (Nat.eqb_spec c cur) as [->|Hne].
    - destruct (IH Hs) as [? [? ?]]. repeat split; [right|..]; assumption.
    - destruct (a_contains (a_vol vols c) o (Some surf)) eqn:Hc.
      + inversion Hs; subst. repeat split; [left; reflexivity|assumption|assumption].
      + destruct (IH Hs) as [? [? ?]]. repeat split; [right|..]; assumption.
  Qed.

  Lemma cross_search_none o cur surf cands :
    a_cross_search vols o cur surf cands = None ->
    forall i, In i cands -> i <> cur -> a_contains (a_vol vols i) o (Some surf) = false.
  Proof.
    induction cands as [|c r IH]; intros Hs i Hin Hne; [contradiction|]. cbn in Hs.
    destruct (Nat.eqb_spec c cur) as [->|Hc].
    - destruct Hin as [->|Hin]; [congruence|]. apply IH; assumption.
    - destruct (a_contains (a_vol vols c) o (Some surf)) eqn:Hcc; [discriminate|].
      destruct Hin as [->|Hin]; [exact Hcc|]. apply IH; assumption.
  Qed.

  Lemma neighbors_in s vs k j :
    (j < length vs)%nat -> av_implicit (nth j vs no_avol) = false -> In s (av_faces (nth j vs no_avol)) ->
    In (k + j)%nat (a_neighbors_from s vs k).
  Proof.
    revert k j; induction vs as [|v r IH]; intros k j Hj Him Hin; [cbn in Hj; lia|].
    cbn [a_neighbors_from]. destruct j as [|j].
    - cbn in Him, Hin. rewrite Him. cbn [negb andb].
      replace (existsb (Nat.eqb s) (av_faces v)) with true.
      + left. lia.
      + symmetry. apply existsb_exists. exists s. split; [assumption|apply Nat.eqb_refl].
    - cbn in Him, Hin, Hj. assert (Hr : In (S k + j)%nat (a_neighbors_from s r (S k))) by (apply IH; [lia|assumption|assumption]).
      replace (k + S j)%nat with (S k + j)%nat by lia.
      destruct (negb (av_implicit v) && existsb (Nat.eqb s) (av_faces v)); [right|]; exact Hr.
  Qed.

  (** *** cross_boundary is point location just past the crossing.
      [sprev]/[snew]: TRUE senses of the unit's surfaces just before / just after the crossing
      of surface [s] (only [s] changes: non-tangent, no coincident crossing); [oracle]: what
      SenseCalculator computes AT the crossing point (arbitrary on [s] itself, where the
      stored post-crossing sense [negb b] is used instead). *)
  Definition is_face (x : nat) : Prop := exists i, In x (av_faces (a_vol vols i)).

  Theorem a_cross_correct (sprev snew oracle : nat -> bool) cur s b :
    (forall x, x <> s -> is_face x -> snew x = sprev x) ->
    snew s = negb b ->
    (forall x, x <> s -> is_face x -> oracle x = snew x) ->
    (forall w, (w < length vols)%nat -> w <> cur -> contains w sprev = false) ->
    contains cur snew = false ->
    at_most_one snew -> implicit_empty snew ->
    a_unit_cross vols bg oracle cur (s, negb b) = a_locate vols bg snew.
  Proof.
    intros Honly Hs Hor Hprev Hexit Huniq Himpl.
    assert (F : forall i, a_contains (a_vol vols i) oracle (Some (s, negb b)) = a_contains (a_vol vols i) snew None).
    { intros i. unfold a_contains. f_equal. apply face_senses_ext. intros x Hx.
      unfold forced_sense. destruct (Nat.eqb_spec s x) as [<-|Hne]; [symmetry; exact Hs|].
      apply Hor; [congruence|exists i; exact Hx]. }
    unfold a_unit_cross, a_locate. cbn [fst].
    set (nb := a_neighbors_from s vols 0).
    set (cands := if Nat.ltb (length nb) 3 then nb else seq 0 (length vols)).
    destruct (a_find_volume vols snew 0) as [w|] eqn:Hf.
    - destruct (locate_some_contains _ _ Hf) as [Hw Hcw].
      assert (Hwc : w <> cur) by (intros ->; congruence).
      assert (Hwi : av_implicit (a_vol vols w) = false).
      { destruct (av_implicit (a_vol vols w)) eqn:E; [|reflexivity].
        rewrite (Himpl w Hw E) in Hcw. discriminate. }
      assert (Hws : In s (av_faces (a_vol vols w))).
      { destruct (in_dec Nat.eq_dec s (av_faces (a_vol vols w))) as [|Hnot]; [assumption|exfalso].
        assert (E : contains w sprev = true).
        { rewrite <- Hcw. unfold contains, a_contains. f_equal. apply face_senses_ext.
          intros x Hx. cbn. symmetry. apply Honly; [intros ->; contradiction|exists w; exact Hx]. }
        rewrite (Hprev w Hw Hwc) in E. discriminate. }
      assert (Hin : In w cands).
      { unfold cands. destruct (Nat.ltb (length nb) 3).
        - unfold nb. change w with (0 + w)%nat. apply neighbors_in; assumption.
        - apply in_seq. lia. }
      destruct (a_cross_search vols oracle cur (s, negb b) cands) as [i|] eqn:Hcs.
      + destruct (cross_search_some _ _ _ _ _ Hcs) as [_ [_ Hci]]. rewrite F in Hci.
        f_equal. apply Huniq; try assumption. apply contains_range with (o := snew). exact Hci.
      + pose proof (cross_search_none _ _ _ _ Hcs w Hin Hwc) as Hn. rewrite F in Hn.
        unfold contains in Hcw. congruence.
    - destruct (a_cross_search vols oracle cur (s, negb b) cands) as [i|] eqn:Hcs; [|reflexivity].
      destruct (cross_search_some _ _ _ _ _ Hcs) as [_ [_ Hci]]. rewrite F in Hci.
      pose proof (contains_range i snew Hci) as Hi.
      pose proof (find_volume_none _ _ _ Hf i Hi) as Hn. unfold a_vol in Hci. congruence.
  Qed.

  (** ** the walk seen globally *)
  Notation xing := (nat * R)%type.

  Fixpoint g_walk (v : avol) (S : list bool) (xs : list xing)
    : option (nat * bool * R * list bool * list xing) :=
    match xs with
    | [] => None
    | (s, d) :: r =>
        let S' := flip_at s S in
        if a_contains v (vecS S') None then g_walk v S' r
        else Some (s, nth s S false, d, S', r)
    end.

  (** the tracker's local view (its own faces, its own crossing list, complex_walk) is the
      global walk *)
  Lemma local_is_global v S (xs : list xing) :
    NoDup (av_faces v) ->
    (forall s d, In (s, d) xs -> (s < length S)%nat) ->
    a_contains v (vecS S) None = true ->
    a_intersect v (face_senses (vecS S) None (av_faces v)) xs =
    match g_walk v S xs with Some (s, b, d, _, _) => Some (s, b, d) | None => None end.
  Proof.
    intros Hnd. revert S; induction xs as [|[s d] r IH]; intros S Hrange Hin; [reflexivity|].
    assert (Hs : (s < length S)%nat) by (apply (Hrange s d); left; reflexivity).
    assert (Hrange' : forall s' d', In (s', d') r -> (s' < length (flip_at s S))%nat).
    { intros s' d' Hi. rewrite flip_at_length. apply (Hrange s' d'). right. exact Hi. }
    unfold a_intersect. cbn [local_crossings g_walk].
    destruct (face_index s (av_faces v) 0) as [f|] eqn:Hfi.
    - destruct (face_index_spec _ _ _ _ Hfi) as [j [-> Hj]]. cbn [Nat.add].
      cbn [complex_walk].
      assert (E : flip_at j (face_senses (vecS S) None (av_faces v))
                  = face_senses (vecS (flip_at s S)) None (av_faces v)).
      { unfold face_senses.
        change (map (forced_sense (vecS S) None)) with (map (vecS S)).
        change (map (forced_sense (vecS (flip_at s S)) None)) with (map (vecS (flip_at s S))).
        rewrite <- (map_flip (vecS S) s (av_faces v) j Hnd Hj).
        apply map_ext. intros x. symmetry. apply vecS_flip. exact Hs. }
      rewrite E. fold (a_contains v (vecS (flip_at s S)) None).
      destruct (a_contains v (vecS (flip_at s S)) None) eqn:Hc.
      + specialize (IH (flip_at s S) Hrange' Hc). unfold a_intersect in IH. exact IH.
      + assert (N1 : nth j (av_faces v) 0%nat = s) by (apply nth_error_nth; exact Hj).
        assert (N2 : nth j (face_senses (vecS S) None (av_faces v)) false = nth s S false).
        { unfold face_senses. apply nth_error_nth. rewrite nth_error_map, Hj. reflexivity. }
        rewrite N1, N2. reflexivity.
    - pose proof (face_index_none _ _ _ Hfi) as Hnot.
      assert (E : face_senses (vecS (flip_at s S)) None (av_faces v)
                  = face_senses (vecS S) None (av_faces v)).
      { apply face_senses_ext. intros x Hx. cbn. rewrite vecS_flip by exact Hs.
        destruct (Nat.eqb_spec x s) as [->|]; [contradiction|reflexivity]. }
      assert (Hc : a_contains v (vecS (flip_at s S)) None = true).
      { unfold a_contains. rewrite E. exact Hin. }
      rewrite Hc. specialize (IH (flip_at s S) Hrange' Hc). unfold a_intersect in IH.
      rewrite E in IH. exact IH.
  Qed.

  (** one crossing at a time: the navigator *)
  Fixpoint nav1 (S : list bool) (cur : nat) (suf : list xing) : list (option nat * R) :=
    match suf with
    | [] => []
    | (s, d) :: r =>
        let S' := flip_at s S in
        if contains cur (vecS S') then nav1 S' cur r
        else match a_locate vols bg (vecS S') with
             | None => [(None, d)]
             | Some v' => (Some v', d) :: nav1 S' v' r
             end
    end.

  (** one crossing at a time: the specification *)
  Fixpoint spec_struct (S : list bool) (cur : option nat) (suf : list xing) : list (option nat * R) :=
    match suf with
    | [] => []
    | (s, d) :: r =>
        let S' := flip_at s S in
        let v' := a_locate vols bg (vecS S') in
        if onat_eqb cur v' then spec_struct S' cur r
        else match v' with
             | Some _ => (v', d) :: spec_struct S' v' r
             | None => [(None, d)]
             end
    end.

  Definition good (S : list bool) : Prop :=
    at_most_one (vecS S) /\ implicit_empty (vecS S) /\ some_contains (vecS S).

  (** the partition hypothesis in every sense region the ray passes through *)
  Fixpoint all_good (S : list bool) (suf : list xing) : Prop :=
    good S /\ match suf with [] => True | (s, _) :: r => all_good (flip_at s S) r end.

  Lemma all_good_head S suf : all_good S suf -> good S.
  Proof. destruct suf as [|[? ?] ?]; cbn; tauto. Qed.

  Lemma all_good_app S mid r : all_good S (mid ++ r) -> all_good (flips mid S) r.
  Proof.
    revert S; induction mid as [|[s d] m IH]; intros S Hg; [exact Hg|].
    rewrite flips_cons. cbn [fst]. apply IH. cbn in Hg. tauto.
  Qed.

  Lemma locate_total S w : good S -> a_locate vols bg (vecS S) = Some w -> contains w (vecS S) = true.
  Proof.
    intros [Hu [_ [i [Hi Hc]]]] Hl. rewrite (locate_unique _ _ Hu Hc) in Hl. congruence.
  Qed.

  Lemma nav1_is_spec S cur suf :
    all_good S suf -> nav1 S cur suf = spec_struct S (Some cur) suf.
  Proof.
    revert S cur; induction suf as [|[s d] r IH]; intros S cur Hg; [reflexivity|].
    cbn [nav1 spec_struct]. destruct Hg as [_ Hg]. pose proof (all_good_head _ _ Hg) as Hg1.
    destruct (contains cur (vecS (flip_at s S))) eqn:Hc.
    - destruct Hg1 as [Hu _]. rewrite (locate_unique _ _ Hu Hc). cbn [onat_eqb]. rewrite Nat.eqb_refl.
      apply IH. exact Hg.
    - destruct (a_locate vols bg (vecS (flip_at s S))) as [w|] eqn:Hl; cbn [onat_eqb]; [|reflexivity].
      destruct (Nat.eqb_spec cur w) as [->|Hne].
      + rewrite (locate_total _ _ Hg1 Hl) in Hc. discriminate.
      + f_equal. apply IH. exact Hg.
  Qed.

  Lemma g_walk_none cur S suf :
    g_walk (a_vol vols cur) S suf = None -> nav1 S cur suf = [].
  Proof.
    revert S; induction suf as [|[s d] r IH]; intros S Hw; [reflexivity|]. cbn [g_walk nav1] in *.
    fold (contains cur (vecS (flip_at s S))) in Hw.
    destruct (contains cur (vecS (flip_at s S))); [apply IH; exact Hw|discriminate].
  Qed.

  Lemma g_walk_some cur S suf s b d S' r :
    contains cur (vecS S) = true ->
    g_walk (a_vol vols cur) S suf = Some (s, b, d, S', r) ->
    exists mid, suf = mid ++ (s, d) :: r /\ S' = flip_at s (flips mid S)
      /\ b = vecS (flips mid S) s
      /\ contains cur (vecS (flips mid S)) = true /\ contains cur (vecS S') = false
      /\ nav1 S cur suf = match a_locate vols bg (vecS S') with
                          | None => [(None, d)]
                          | Some v' => (Some v', d) :: nav1 S' v' r
                          end.
  Proof.
    revert S; induction suf as [|[s1 d1] r1 IH]; intros S Hin Hw; [discriminate|].
    cbn [g_walk nav1] in *. fold (contains cur (vecS (flip_at s1 S))) in Hw.
    destruct (contains cur (vecS (flip_at s1 S))) eqn:Hc.
    - destruct (IH _ Hc Hw) as [mid [-> [-> [-> [H1 [H2 H3]]]]]].
      exists ((s1, d1) :: mid). rewrite flips_cons. cbn [fst]. repeat split; assumption.
    - inversion Hw; subst. exists []. cbn [app flips fold_left]. repeat split; try assumption.
  Qed.

  (** ** the navigation loop = the sequence of maximal segments *)
  Section Ray.
    Variable S0 : list bool.            (* TRUE senses of all surfaces at the start point *)
    Variable xs : list xing.            (* all crossings of the unit's surfaces along the ray *)
    Variable oracle_at : R -> nat -> bool.
    Hypothesis Hsorted : strictly_sorted xs.   (* non-tangent ray, no two surfaces crossed at once *)
    Hypothesis Hrange : forall s d, In (s, d) xs -> (s < length S0)%nat.
    Hypothesis Hnodup : forall i, NoDup (av_faces (a_vol vols i)).
    (** SenseCalculator at a crossing point is right on every OTHER surface *)
    Hypothesis Horacle : forall s d, In (s, d) xs ->
                         forall x, x <> s -> oracle_at d x = true_sense S0 xs d x.

    Lemma sorted_split (pre suf : list xing) s d :
      strictly_sorted (pre ++ (s, d) :: suf) ->
      Forall (fun x => snd x < d) pre /\ Forall (fun x => d < snd x) suf.
    Proof.
      induction pre as [|a pre IH]; cbn [app]; intros Hs; inversion Hs as [|? ? Hs' Hall]; subst.
      - split; [constructor|exact Hall].
      - destruct (IH Hs') as [H1 H2]. split; [|exact H2]. constructor; [|exact H1].
        rewrite Forall_forall in Hall. apply (Hall (s, d)). apply in_or_app. right. left. reflexivity.
    Qed.

    Lemma senses_at_crossing pre suf s d :
      xs = pre ++ (s, d) :: suf -> senses_upto d S0 xs = flip_at s (flips pre S0).
    Proof.
      intros E. rewrite senses_upto_flips.
      assert (Hk : nth_error xs (length pre) = Some (s, d)).
      { rewrite E, nth_error_app2 by lia. rewrite Nat.sub_diag. reflexivity. }
      rewrite (upto_firstn xs (length pre) s d Hsorted Hk).
      rewrite E. replace (S (length pre)) with (length pre + 1)%nat by lia.
      rewrite firstn_app_2. cbn [firstn]. rewrite flips_app. reflexivity.
    Qed.

    Lemma ahead_at_crossing pre suf s d :
      xs = pre ++ (s, d) :: suf -> ahead d xs = suf.
    Proof.
      intros E. pose proof Hsorted as Hs. rewrite E in Hs. destruct (sorted_split _ _ _ _ Hs) as [H1 H2].
      rewrite E. unfold ahead. rewrite filter_app. cbn [filter snd].
      change (@nleb R NumR) with Rleb.
      replace (Rleb d d) with true by (symmetry; apply Rleb_true; lra). cbn [negb].
      assert (Ea : filter (fun x : xing => negb (Rleb (snd x) d)) pre = []).
      { clear - H1. induction H1 as [|a l Ha _ IH]; [reflexivity|]. cbn [filter].
        replace (Rleb (snd a) d) with true by (symmetry; apply Rleb_true; lra). exact IH. }
      assert (Eb : filter (fun x : xing => negb (Rleb (snd x) d)) suf = suf).
      { clear - H2. induction H2 as [|a l Ha _ IH]; [reflexivity|]. cbn [filter].
        replace (Rleb (snd a) d) with false by (symmetry; apply Rleb_false; lra). cbn [negb]. f_equal. exact IH. }
      rewrite Ea, Eb. reflexivity.
    Qed.

    Lemma spec_struct_is_trace pre suf cur :
      xs = pre ++ suf ->
      spec_struct (flips pre S0) cur suf
      = spec_trace (spec_locate vols bg S0 xs) cur (map snd suf).
    Proof.
      revert pre cur; induction suf as [|[s d] r IH]; intros pre cur E; [reflexivity|].
      cbn [spec_struct map snd spec_trace].
      assert (El : spec_locate vols bg S0 xs d = a_locate vols bg (vecS (flip_at s (flips pre S0)))).
      { unfold spec_locate. f_equal. unfold true_sense.
        rewrite (senses_at_crossing pre r s d E). reflexivity. }
      rewrite El.
      assert (E' : xs = (pre ++ [(s, d)]) ++ r) by (rewrite <- app_assoc; exact E).
      assert (Ef : flip_at s (flips pre S0) = flips (pre ++ [(s, d)]) S0) by (rewrite flips_app; reflexivity).
      rewrite Ef.
      destruct (onat_eqb cur (a_locate vols bg (vecS (flips (pre ++ [(s, d)]) S0)))).
      - apply IH. exact E'.
      - destruct (a_locate vols bg (vecS (flips (pre ++ [(s, d)]) S0))); [|reflexivity].
        f_equal. apply IH. exact E'.
    Qed.

    (** generalised over the position along the ray *)
    Lemma nav_trace_is_nav1 fuel : forall pre suf t cur on,
      xs = pre ++ suf ->
      ahead t xs = suf ->
      (forall x, forced_sense (oracle_at t) on x = vecS (flips pre S0) x) ->
      contains cur (vecS (flips pre S0)) = true ->
      all_good (flips pre S0) suf ->
      (length suf < fuel)%nat ->
      nav_trace fuel vols bg oracle_at xs t cur on = nav1 (flips pre S0) cur suf.
    Proof.
      induction fuel as [|fuel IH]; intros pre suf t cur on E Ha Hon Hin Hg Hfuel; [lia|].
      cbn [nav_trace]. rewrite Ha.
      set (S := flips pre S0) in *.
      assert (Es : face_senses (oracle_at t) on (av_faces (a_vol vols cur))
                   = face_senses (vecS S) None (av_faces (a_vol vols cur))).
      { apply face_senses_ext. intros x _. apply Hon. }
      rewrite Es.
      assert (HrS : forall s d, In (s, d) suf -> (s < length S)%nat).
      { intros s d Hi. unfold S. rewrite flips_length. apply (Hrange s d). rewrite E. apply in_or_app. right. exact Hi. }
      rewrite (local_is_global (a_vol vols cur) S suf (Hnodup cur) HrS Hin).
      destruct (g_walk (a_vol vols cur) S suf) as [[[[[s b] d] S'] r]|] eqn:Hw.
      - destruct (g_walk_some cur S suf s b d S' r Hin Hw) as [mid [Esuf [ES' [Eb [Hcb [Hexit Hnav]]]]]].
        rewrite Hnav.
        assert (Exs : xs = (pre ++ mid) ++ (s, d) :: r) by (rewrite <- app_assoc, <- Esuf; exact E).
        assert (Sb : flips (pre ++ mid) S0 = flips mid S) by (unfold S; apply flips_app).
        assert (HS' : senses_upto d S0 xs = S').
        { rewrite (senses_at_crossing _ _ _ _ Exs), Sb. symmetry. exact ES'. }
        assert (Hsl : (s < length (flips mid S))%nat).
        { rewrite flips_length. apply (HrS s d). rewrite Esuf. apply in_or_app. right. left. reflexivity. }
        assert (Hgb : good (flips mid S)).
        { apply all_good_head with (suf := (s, d) :: r). apply all_good_app. rewrite <- Esuf. exact Hg. }
        assert (Hgr : all_good S' r).
        { pose proof (all_good_app S mid ((s, d) :: r)) as Hx. rewrite <- Esuf in Hx. specialize (Hx Hg).
          cbn in Hx. rewrite ES'. tauto. }
        pose proof (all_good_head _ _ Hgr) as Hg'.
        assert (Hinx : In (s, d) xs) by (rewrite Exs; apply in_or_app; right; left; reflexivity).
        assert (Hcross : a_unit_cross vols bg (oracle_at d) cur (s, negb b) = a_locate vols bg (vecS S')).
        { apply a_cross_correct with (sprev := vecS (flips mid S)).
          - intros x Hx _. rewrite ES', vecS_flip by exact Hsl.
            destruct (Nat.eqb_spec x s); [contradiction|reflexivity].
          - rewrite ES', vecS_flip by exact Hsl. rewrite Nat.eqb_refl, Eb. reflexivity.
          - intros x Hx _. rewrite (Horacle s d Hinx x Hx). unfold true_sense. rewrite HS'. reflexivity.
          - intros w Hw' Hne. destruct (contains w (vecS (flips mid S))) eqn:Hcw; [|reflexivity].
            exfalso. apply Hne. destruct Hgb as [Hu _]. apply Hu; try assumption.
            apply contains_range with (o := vecS (flips mid S)). exact Hcb.
          - exact Hexit.
          - destruct Hg' as [Hu _]. exact Hu.
          - destruct Hg' as [_ [Hi _]]. exact Hi. }
        rewrite Hcross.
        destruct (a_locate vols bg (vecS S')) as [v'|] eqn:Hl; [|reflexivity].
        f_equal.
        assert (Epre : S' = flips ((pre ++ mid) ++ [(s, d)]) S0).
        { rewrite flips_app, Sb. cbn. exact ES'. }
        rewrite Epre.
        apply IH.
        + rewrite <- app_assoc. exact Exs.
        + apply (ahead_at_crossing (pre ++ mid) r s d Exs).
        + intros x. rewrite <- Epre. unfold forced_sense.
          destruct (Nat.eqb_spec s x) as [<-|Hne].
          * rewrite ES', vecS_flip by exact Hsl. rewrite Nat.eqb_refl, Eb. reflexivity.
          * rewrite (Horacle s d Hinx x) by congruence. unfold true_sense. rewrite HS'. reflexivity.
        + rewrite <- Epre. apply (locate_total _ _ Hg' Hl).
        + rewrite <- Epre. exact Hgr.
        + rewrite Esuf, app_length in Hfuel. cbn [length] in Hfuel. lia.
      - symmetry. apply g_walk_none. exact Hw.
    Qed.

    (** *** Headline: in a unit whose volumes partition space, along a non-tangent ray, the
        sequence of (volume entered, crossing parameter) pairs produced by the loop
        find_next_step ; move_to_boundary ; cross_boundary  equals the specification's
        sequence of maximal segments obtained by point location between the crossings. *)
    Theorem nav_trace_refines_locate t0 cur :
      (forall s d, In (s, d) xs -> t0 < d) ->                 (* start before every crossing *)
      (forall x, oracle_at t0 x = vecS S0 x) ->              (* start point not on a surface *)
      spec_locate vols bg S0 xs t0 = Some cur ->             (* initialised by point location *)
      all_good S0 xs ->                                      (* valid partition along the ray *)
      nav_trace (S (length xs)) vols bg oracle_at xs t0 cur None
      = spec_trace (spec_locate vols bg S0 xs) (Some cur) (map snd xs).
    Proof.
      intros Hstart Hor0 Hloc Hg.
      assert (Hup : senses_upto t0 S0 xs = S0).
      { rewrite senses_upto_flips.
        assert (Ex : upto t0 xs = []).
        { clear - Hstart. induction xs as [|[s d] l IH]; [reflexivity|]. cbn [upto filter snd].
          replace (Rleb d t0) with false.
          - apply IH. intros s' d' Hi. apply (Hstart s' d'). right. exact Hi.
          - symmetry. apply Rleb_false. specialize (Hstart s d (or_introl eq_refl)). lra. }
        rewrite Ex. reflexivity. }
      assert (Ha : ahead t0 xs = xs).
      { clear - Hstart. unfold ahead. induction xs as [|[s d] l IH]; [reflexivity|]. cbn [filter snd].
        change (@nleb R NumR) with Rleb.
        replace (Rleb d t0) with false.
        - cbn [negb]. f_equal. apply IH. intros s' d' Hi. apply (Hstart s' d'). right. exact Hi.
        - symmetry. apply Rleb_false. specialize (Hstart s d (or_introl eq_refl)). lra. }
      assert (Hc : contains cur (vecS S0) = true).
      { apply locate_total; [exact (all_good_head _ _ Hg)|].
        unfold spec_locate, true_sense in Hloc. rewrite Hup in Hloc. exact Hloc. }
      rewrite (nav_trace_is_nav1 (S (length xs)) [] xs t0 cur None eq_refl Ha).
      - cbn [flips fold_left]. rewrite (nav1_is_spec S0 cur xs Hg).
        apply (spec_struct_is_trace [] xs (Some cur) eq_refl).
      - intros x. cbn. apply Hor0.
      - exact Hc.
      - exact Hg.
      - lia.
    Qed.
  End Ray.
End Unit.
