(** * C03 proofs for layer L3 (track-view state machine), over R. *)
From Coq Require Import Reals List Bool Arith Lia Lra.
From Celer Require Import Base.Num Base.NumR Base.Vec3 C12.Solver C12.Surfaces C12.Transforms
  C03.LogicWalk C03.NavModel C03.LogicWalkProofs.
Import ListNotations.
Local Open Scope R_scope.

(** the global normal used by the current code: the local normal of the surface
    the track is on, evaluated at the position of [surface_level] and rotated
    up through the transforms of levels surface_level-1 .. 0 *)
Lemma global_normal_from_surface_level (g : geometry R) st sl s sense :
  st_surf st = Some (sl, s, sense) ->
  global_normal g st (nrot_fixed st) =
  Some (rotate_up_from g st sl
          (surf_normal (get_surf (get_unit g (ls_univ (get_level st sl))) s) (ls_pos (get_level st sl)))).
Proof.
  intros Hs. unfold global_normal, nrot_fixed, surface_level. rewrite Hs. reflexivity.
Qed.

(** *** set_dir_reentrant_iff: on a boundary the exiting/re-entrant flag flips
    iff the sign of (normal . direction) changes, the normal being expressed in
    the global frame from [surface_level] (">= 0" counts as positive, as in the code) *)
Theorem set_dir_reentrant_iff (g : geometry R) st u n :
  global_normal g st (nrot_fixed st) = Some n ->
  let d0 := ls_dir (get_level st 0) in
  (st_reentrant (set_dir g st u) = negb (st_reentrant st))
  <-> ((0 <= dot n u /\ dot n d0 < 0) \/ (dot n u < 0 /\ 0 <= dot n d0)).
Proof.
  intros Hn d0. unfold set_dir, set_dir_gen. rewrite Hn. cbn [st_reentrant].
  assert (Hx : forall b f, xorb b f = negb b <-> f = true) by (intros [] []; cbn; split; congruence).
  rewrite Hx. unfold sign_changes. fold d0.
  change (@nleb R NumR) with Rleb. change (@n0 R NumR) with 0.
  destruct (Rleb_spec 0 (dot n u)) as [Hu|Hu]; destruct (Rleb_spec 0 (dot n d0)) as [Hd|Hd]; cbn [negb Bool.eqb]; split; intros Hy;
    first [ discriminate | reflexivity | (destruct Hy as [[? ?]|[? ?]]; lra)
          | (left; split; lra) | (right; split; lra) ].
Qed.

(** off a boundary the flag never changes *)
Theorem set_dir_off_boundary (g : geometry R) st u :
  st_surf st = None -> st_reentrant (set_dir g st u) = st_reentrant st.
Proof.
  intros Hs. unfold set_dir, set_dir_gen, global_normal. rewrite Hs. cbn. apply xorb_false_r.
Qed.

(** set_dir never changes the logical state (volumes, surface) nor the position *)
Theorem set_dir_keeps_volumes (g : geometry R) st u :
  map (fun l => (ls_univ l, ls_vol l, ls_pos l)) (st_levels (set_dir g st u))
  = map (fun l => (ls_univ l, ls_vol l, ls_pos l)) (st_levels st)
  /\ st_surf (set_dir g st u) = st_surf st.
Proof.
  split; [|reflexivity]. unfold set_dir, set_dir_gen. cbn [st_levels].
  generalize 0%nat at 1. generalize u. induction (st_levels st) as [|x r IH]; intros d k; cbn.
  - reflexivity.
  - f_equal. apply IH.
Qed.

(** move_internal / move_to_boundary never change the volume stack *)
Theorem moves_keep_volumes (st : state R) d :
  map (fun l => (ls_univ l, ls_vol l)) (st_levels (move_internal st d))
  = map (fun l => (ls_univ l, ls_vol l)) (st_levels st)
  /\ map (fun l => (ls_univ l, ls_vol l)) (st_levels (move_to_boundary st))
  = map (fun l => (ls_univ l, ls_vol l)) (st_levels st).
Proof.
  unfold move_internal, move_to_boundary, move_levels. cbn [st_levels].
  split; rewrite map_map; reflexivity.
Qed.

(** move_internal(pos): the volume stack is unchanged, the level-0 position is [pos], every
    deeper position is the parent's position transformed down through the daughter
    transform of the parent's volume, the surface and the cached step are cleared *)
Lemma set_poss_spec (xf : nat -> xform R) ls : forall l pos,
  map (fun x => (ls_univ x, ls_vol x, ls_dir x)) (set_poss xf ls l pos)
  = map (fun x => (ls_univ x, ls_vol x, ls_dir x)) ls
  /\ (forall k, (S k < length ls)%nat ->
       ls_pos (nth (S k) (set_poss xf ls l pos) dummy_ls)
       = x_down (xf (l + k)%nat) (ls_pos (nth k (set_poss xf ls l pos) dummy_ls)))
  /\ (ls <> [] -> ls_pos (nth 0 (set_poss xf ls l pos) dummy_ls) = pos).
Proof.
  induction ls as [|x r IH]; intros l pos; cbn [set_poss map length].
  - repeat split; [intros k Hk; cbn in Hk; lia|congruence].
  - destruct (IH (S l) (x_down (xf l) pos)) as [Hm [Hc H0]]. repeat split.
    + cbn. f_equal. exact Hm.
    + intros k Hk. destruct k as [|k].
      * cbn [nth ls_pos]. rewrite Nat.add_0_r. destruct r as [|y r']; [cbn in Hk; lia|].
        apply H0. congruence.
      * cbn [nth]. replace (l + S k)%nat with (S l + k)%nat by lia. apply Hc. cbn in Hk. lia.
Qed.

Theorem move_internal_pos_spec (g : geometry R) st pos :
  st_levels st <> [] ->
  let st' := move_internal_pos g st pos in
  map (fun l => (ls_univ l, ls_vol l, ls_dir l)) (st_levels st')
  = map (fun l => (ls_univ l, ls_vol l, ls_dir l)) (st_levels st)
  /\ ls_pos (get_level st' 0) = pos
  /\ (forall k, (S k <= level st)%nat ->
       ls_pos (get_level st' (S k)) = x_down (level_xform g st k) (ls_pos (get_level st' k)))
  /\ st_surf st' = None /\ st_next_step st' = 0 /\ st_next_surf st' = None
  /\ st_reentrant st' = st_reentrant st.
Proof.
  intros Hne st'. unfold st', move_internal_pos, get_level, level. cbn [st_levels st_surf st_next_step st_next_surf st_reentrant].
  destruct (set_poss_spec (level_xform g st) (st_levels st) 0 pos) as [Hm [Hc H0]].
  repeat split; try reflexivity; try assumption.
  - apply H0. exact Hne.
  - intros k Hk. apply (Hc k). destruct (st_levels st); [congruence|]. cbn in *. lia.
Qed.

(** a re-entrant flag makes find_next_step return {0, boundary} without side effect
    and cross_boundary a no-op that only resets the flag *)
Theorem reentrant_protocol tol (g : geometry R) st maxd :
  st_reentrant st = true ->
  find_next_step tol g st maxd = (st, (0, true))
  /\ st_levels (cross_boundary g st) = st_levels st
  /\ st_surf (cross_boundary g st) = st_surf st
  /\ st_reentrant (cross_boundary g st) = false.
Proof.
  intros Hr. unfold find_next_step, cross_boundary. rewrite Hr. repeat split.
Qed.

(** *** limited_search_truncates for the track view: find_next_step(max) is the
    unlimited answer cut at max ("boundary" only if the unlimited boundary is
    not further than max), whenever no deeper level has its nearest
    intersection at distance exactly max.  [Hlaw] is the per-level law
    "intersect(state, m) finds what intersect(state) finds, if within m"
    (it is [complex_walk_truncates] / [min_crossing_spec] at L1). *)
Theorem limited_search_truncates tol (g : geometry R) st m :
  st_reentrant st = false ->
  let r l := level_intersect tol g st l None in
  (forall l m', truncate (level_intersect tol g st l (Some m')) m' = truncate (r l) m') ->
  hit (r 0%nat) ->
  (forall l, (1 <= l <= level st)%nat -> hit (r l) -> i_dist (r l) <> m) ->
  let unl := snd (find_next_step tol g st None) in
  let lim := snd (find_next_step tol g st (Some m)) in
  lim = if snd unl && Rleb (fst unl) m then (fst unl, true) else (m, false).
Proof.
  intros Hre r Hlaw Hhit0 Hne unl lim. subst unl lim.
  unfold find_next_step. rewrite Hre.
  set (search := fun l m' => truncate (level_intersect tol g st l (Some m')) m').
  destruct (find_next_levels (level_intersect tol g st 0 None) search (level st)) as [res lev] eqn:Hu.
  destruct (find_next_levels (truncate (level_intersect tol g st 0 (Some m)) m) search (level st))
    as [res' lev'] eqn:Hl.
  cbn [snd fst].
  assert (Hs : forall l m', search l m' = truncate (r l) m') by (intros; apply Hlaw).
  rewrite (Hlaw 0%nat m) in Hl. fold (r 0%nat) in Hu, Hl.
  destruct (limited_search_truncates r search Hs (level st) (r 0%nat) m res lev res' lev' Hhit0 Hne Hu Hl)
    as [Hres _].
  pose proof (min_over_levels_correct r search Hs (level st) (r 0%nat) res lev Hu) as [Cu _].
  assert (Hres_hit : i_surf res <> None).
  { destruct Cu as [[_ ->]|[_ [-> [Hh _]]]]; assumption. }
  rewrite Hres. unfold truncate. destruct (i_surf res) as [sf|] eqn:Hsf; [|congruence].
  cbn [andb]. change (@nleb R NumR) with Rleb.
  destruct (Rleb (i_dist res) m); cbn; [rewrite Hsf|]; reflexivity.
Qed.

Example set_dir_hyps_sat :
  exists (g : geometry R) st n, global_normal g st (nrot_fixed st) = Some n.
Proof.
  exists [Unit [SPlaneAligned AX 0] [] None],
         (St [LS (V3 0 0 0) (V3 1 0 0) 0 0] (Some (0%nat, 0%nat, true)) false 0 None 0 false),
         (V3 1 0 0).
  reflexivity.
Qed.
