(** * C03 model, layers L1 (logic walk) and L2 (minimum over levels).

    Model of the discrete part of
      src/orange/univ/SimpleUnitTracker.hh  (simple_intersect, complex_intersect,
                                             background_intersect)
      src/orange/OrangeTrackView.hh         (find_next_step_impl)
    over abstract crossing lists and sense vectors.  Executable over any [Num];
    no proofs here (see LogicWalkProofs.v). *)
From Coq Require Import List Bool Arith.
From Celer Require Import Base.Num.
Import ListNotations.
Local Open Scope num_scope.

Section Walk.
  Context {T : Type} `{Num T}.

  (** A crossing is (face index in the volume, distance along the ray). *)
  Definition crossing := (nat * T)%type.

  (** flip the sense of face [f] *)
  Fixpoint flip_at (f : nat) (s : list bool) : list bool :=
    match s, f with
    | [], _ => []
    | b :: r, O => negb b :: r
    | b :: r, S k => b :: flip_at k r
    end.

  (** celeritas::sort by distance (modelled by a stable insertion sort; the
      order of *equal* distances is unspecified in the code: knife-edge) *)
  Fixpoint insert_crossing (x : crossing) (l : list crossing) : list crossing :=
    match l with
    | [] => [x]
    | y :: r => if snd x <? snd y then x :: l else y :: insert_crossing x r
    end.
  Fixpoint sort_crossings (l : list crossing) : list crossing :=
    match l with [] => [] | x :: r => insert_crossing x (sort_crossings r) end.

  (** complex_intersect: flip senses one by one, in order of distance, until
      the logic turns false.  Result: (face, sense *before* crossing, distance) *)
  Fixpoint complex_walk (inside : list bool -> bool) (senses : list bool)
           (xs : list crossing) : option (nat * bool * T) :=
    match xs with
    | [] => None
    | (f, d) :: r =>
        let s' := flip_at f senses in
        if inside s' then complex_walk inside s' r
        else Some (f, nth f senses false, d)
    end.

  (** sense vector after crossing every face of [xs] whose distance is <= t *)
  Fixpoint senses_upto (t : T) (senses : list bool) (xs : list crossing) : list bool :=
    match xs with
    | [] => senses
    | (f, d) :: r => if d <=? t then senses_upto t (flip_at f senses) r else senses_upto t senses r
    end.

  (** std::min_element with Less: first smallest distance *)
  Definition min_crossing (xs : list crossing) : option crossing :=
    match xs with
    | [] => None
    | x :: r => Some (fold_left (fun best y => if snd y <? snd best then y else best) r x)
    end.

  (** simple_intersect: nearest crossing; sense is the current one *)
  Definition simple_exit (senses : list bool) (xs : list crossing) : option (nat * bool * T) :=
    match min_crossing xs with
    | None => None
    | Some (f, d) => Some (f, nth f senses false, d)
    end.

  (** background_intersect: first crossing (in sorted order) at which the
      bumped point lies in some neighbouring volume; [enter f d] returns the
      sense to store (pre-crossing sense of the face in the entered volume) *)
  Fixpoint background_enter (enter : nat -> T -> option bool) (xs : list crossing)
    : option (nat * bool * T) :=
    match xs with
    | [] => None
    | (f, d) :: r =>
        match enter f d with
        | Some s => Some (f, s, d)
        | None => background_enter enter r
        end
    end.

  (** IsNotFurtherThan / IsFinite filters of CalcIntersections *)
  Definition keep_upto (m : T) (xs : list crossing) : list crossing :=
    filter (fun x => snd x <=? m) xs.

  (** "volume is a conjunction of literals": inside s <-> s agrees with [want]
      on every face *)
  Definition conj_literals (want : list bool) (s : list bool) : bool :=
    (length s =? length want)%nat && forallb (fun p => eqb (fst p) (snd p)) (combine s want).
End Walk.

Section Levels.
  Context {T : Type} `{Num T}.

  (** detail::Intersection: distance + optional (surface, sense) *)
  Record isect := Isect { i_dist : T; i_surf : option (nat * bool) }.

  (** intersect(state, max_dist): `if (!result) result.distance = max_dist` *)
  Definition truncate (r : isect) (m : T) : isect :=
    match i_surf r with
    | Some _ => if i_dist r <=? m then r else Isect m None
    | None => Isect m None
    end.

  (** find_next_step_impl: levels 1..n searched with the current best distance
      as limit; replaced only on strict < (shallowest level wins ties) *)
  Fixpoint min_over_levels (search : nat -> T -> isect) (lev : nat) (n : nat)
           (best : isect) (best_lev : nat) : isect * nat :=
    match n with
    | O => (best, best_lev)
    | S k =>
        let r := search lev (i_dist best) in
        if i_dist r <? i_dist best
        then min_over_levels search (S lev) k r lev
        else min_over_levels search (S lev) k best best_lev
    end.

  (** find_next_step / find_next_step(max): level 0 searched unlimited / with
      [max]; then the other [nlev] levels *)
  Definition find_next_levels (search0 : isect) (search : nat -> T -> isect) (nlev : nat)
    : isect * nat :=
    min_over_levels search 1 nlev search0 0.
End Levels.
Arguments isect T : clear implicits.
