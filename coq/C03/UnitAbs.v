(** * C03 model: the abstraction map from NavModel's concrete units to UnitWalk's abstract
    ones, and the unit-level navigation loop [nav_trace] instantiated on a concrete unit
    (run against the real navigator by props/C03/run.py).  No proofs here. *)
From Coq Require Import List Bool Arith.
From Celer Require Import Base.Num Base.Vec3 C12.Solver C12.Surfaces C12.Transforms
  C03.LogicWalk C03.NavModel C03.UnitWalk C03.UnitWalkBg.
Import ListNotations.
Local Open Scope num_scope.

Section Abs.
  Context {T : Type} `{Num T}.

  Definition absv (v : volume T) : avol :=
    AVol (v_faces v) (eval_logic (v_logic v)) (v_implicit v).
  Definition abs_unit (u : unit T) : list avol := map absv (u_vols u).
  (** what SenseCalculator computes for local surface [s] at [pos] *)
  Definition orc (u : unit T) (pos : vec3 T) (s : nat) : bool :=
    to_sense (surf_sense (get_surf u s) pos).

  (** all crossings (surface id, distance) of the unit's surfaces along the ray, sorted:
      CalcIntersections over every surface of the unit *)
  Definition unit_crossings (u : unit T) (pos dir : vec3 T) : list (nat * T) :=
    sort_crossings (calc_crossings u pos dir None (fun _ => true) (seq 0 (length (u_surfs u))) 0).

  (** find_next_step ; move_to_boundary ; cross_boundary  repeated inside unit 0, from a
      fresh initialisation: (volume entered, distance from the start); background volumes
      through [nav_trace_bg] (bumped sense oracle) *)
  Definition unit_trace (tol : tolerance T) (g : geometry T) (pos dir : vec3 T)
    : list (option nat * T) * list T :=
    let u := get_unit g 0 in
    let xs := unit_crossings u pos dir in
    (match unit_initialize u pos with
     | Some cur =>
         nav_trace_bg (S (length xs)) (abs_unit u) (u_background u)
                      (fun t => orc u (axpy t dir pos))
                      (fun t => orc u (axpy (t + bump_dist tol pos) dir pos)) xs n0 cur None
     | None => []
     end, map snd xs).
End Abs.
