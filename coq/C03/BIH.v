(** * C03 model: src/orange/detail/BIHTraverser.hh over the flat arrays of BIHData.hh
    (BIHTree / BIHTreeData), plus the recursive reading of the same traversal on an
    inductive tree ([rec_traverse]) that the theorems are stated on (BIHProofs.v proves the
    flat state machine refines it).  Node ids: inner nodes first, then leaves; an invalid
    OpaqueId is [None].  No proofs here. *)
From Coq Require Import List Bool Arith.
From Celer Require Import Base.Num Base.Vec3.
Import ListNotations.
Local Open Scope num_scope.

Section BIH.
  Context {T : Type} `{Num T}.

  Record bih_inner := Inner {
    in_parent : option nat; in_axis : nat;
    in_lpos : T; in_lchild : nat;       (* bounding_planes[Edge::left]  *)
    in_rpos : T; in_rchild : nat }.     (* bounding_planes[Edge::right] *)
  Record bih_leaf := Leaf { lf_parent : option nat; lf_vols : list nat }.
  Record bih_tree := Tree {
    t_inner : list bih_inner;
    t_leaves : list bih_leaf;
    t_inf : list nat;                            (* inf_volids *)
    t_bboxes : list (vec3 T * vec3 T) }.        (* per LocalVolumeId: (lower, upper) *)

  Definition pcomp (v : vec3 T) (ax : nat) : T :=
    match ax with O => vx v | S O => vy v | _ => vz v end.

  (** is_inside(bbox, point): closed comparisons *)
  Definition bbox_contains (b : vec3 T * vec3 T) (p : vec3 T) : bool :=
    let '(lo, hi) := b in
    (vx lo <=? vx p) && (vx p <=? vx hi) && (vy lo <=? vy p) && (vy p <=? vy hi)
    && (vz lo <=? vz p) && (vz p <=? vz hi).
  Definition null_bbox : vec3 T * vec3 T := (V3 n1 n1 n1, V3 n0 n0 n0).
  Definition visit_bbox (t : bih_tree) (id : nat) (p : vec3 T) : bool :=
    bbox_contains (nth id (t_bboxes t) null_bbox) p.

  (** visit_leaf / visit_inf_vols: first volume that passes *)
  Fixpoint first_vol (test : nat -> bool) (vols : list nat) : option nat :=
    match vols with [] => None | v :: r => if test v then Some v else first_vol test r end.
  Definition visit_leaf (t : bih_tree) (vols : list nat) (p : vec3 T) (is_inside : nat -> bool) : option nat :=
    first_vol (fun v => visit_bbox t v p && is_inside v) vols.
  Definition visit_inf_vols (t : bih_tree) (is_inside : nat -> bool) : option nat :=
    first_vol is_inside (t_inf t).

  Definition is_inner (t : bih_tree) (id : nat) : bool := Nat.ltb id (length (t_inner t)).
  Definition dummy_inner : bih_inner := Inner None 0 n0 0 n0 0.
  Definition get_inner (t : bih_tree) (id : nat) : bih_inner := nth id (t_inner t) dummy_inner.
  Definition get_leaf (t : bih_tree) (id : nat) : bih_leaf :=
    nth (id - length (t_inner t)) (t_leaves t) (Leaf None []).

  (** visit_edge: strict comparisons *)
  Definition visit_left (n : bih_inner) (p : vec3 T) : bool := pcomp p (in_axis n) <? in_lpos n.
  Definition visit_right (n : bih_inner) (p : vec3 T) : bool := in_rpos n <? pcomp p (in_axis n).

  Definition oid_eqb (a b : option nat) : bool :=
    match a, b with Some x, Some y => Nat.eqb x y | None, None => true | _, _ => false end.

  (** next_node *)
  Definition next_node (t : bih_tree) (cur : nat) (prev : option nat) (p : vec3 T) : option nat :=
    if is_inner t cur then
      let n := get_inner t cur in
      if oid_eqb prev (in_parent n) then
        if visit_left n p then Some (in_lchild n) else Some (in_rchild n)
      else if oid_eqb prev (Some (in_lchild n)) then
        if visit_right n p then Some (in_rchild n) else in_parent n
      else in_parent n
    else prev.

  (** the do/while loop of operator(): [None] = out of fuel, [Some r] = value of `id` when
      the loop ends *)
  Fixpoint bih_loop (fuel : nat) (t : bih_tree) (p : vec3 T) (is_inside : nat -> bool)
           (cur : nat) (prev : option nat) : option (option nat) :=
    match fuel with
    | O => None
    | S k =>
        let found := if is_inner t cur then None
                     else visit_leaf t (lf_vols (get_leaf t cur)) p is_inside in
        match found with
        | Some v => Some (Some v)
        | None =>
            match next_node t cur prev p with
            | None => Some None
            | Some nxt => bih_loop k t p is_inside nxt (Some cur)
            end
        end
    end.

  Definition bih_fuel (t : bih_tree) : nat := 3 * (length (t_inner t) + length (t_leaves t)) + 1.

  (** operator() *)
  Definition bih_traverse (t : bih_tree) (p : vec3 T) (is_inside : nat -> bool) : option (option nat) :=
    match bih_loop (bih_fuel t) t p is_inside 0 None with
    | None => None
    | Some (Some v) => Some (Some v)
    | Some None => Some (visit_inf_vols t is_inside)
    end.

  (** ** the same traversal read recursively *)
  Inductive btree :=
  | BLeaf (vols : list nat)
  | BNode (axis : nat) (lpos rpos : T) (l r : btree).

  Fixpoint rec_traverse (test : nat -> bool) (p : vec3 T) (b : btree) : option nat :=
    match b with
    | BLeaf vols => first_vol test vols
    | BNode ax lpos rpos l r =>
        if pcomp p ax <? lpos then
          match rec_traverse test p l with
          | Some v => Some v
          | None => if rpos <? pcomp p ax then rec_traverse test p r else None
          end
        else rec_traverse test p r       (* the right edge is NOT tested on the first visit *)
    end.

  (** linear search over all volumes: the reference *)
  Definition linear_search (test : nat -> bool) (nvol : nat) : option nat :=
    first_vol test (seq 0 nvol).
End BIH.
Arguments bih_tree T : clear implicits.
Arguments bih_inner T : clear implicits.
Arguments btree T : clear implicits.
