(** * C03 model: src/orange/univ/RectArrayTracker.hh (initialize, intersect[(max)],
    cross_boundary, normal) with corecel/grid/NonuniformGrid.hh::find, over [Num].
    Axes are 0,1,2; a sense is [true] = outside (as in NavModel).  The distance of an
    Intersection is an [option]: [None] = no_intersection() = +infinity.  No proofs here. *)
From Coq Require Import List Bool Arith.
From Celer Require Import Base.Num Base.Vec3 C03.Indexer.
Import ListNotations.
Local Open Scope num_scope.

Section RectArray.
  Context {T : Type} `{Num T}.

  (** RectArrayRecord: the three grids (dims = sizes - 1) *)
  Record rect := Rect { ra_gx : list T; ra_gy : list T; ra_gz : list T }.
  Definition ra_grid (r : rect) (ax : nat) : list T :=
    match ax with O => ra_gx r | S O => ra_gy r | _ => ra_gz r end.
  Definition ra_dims (r : rect) : nat * nat * nat :=
    (length (ra_gx r) - 1, length (ra_gy r) - 1, length (ra_gz r) - 1)%nat.
  Definition ra_dim (r : rect) (ax : nat) : nat := (length (ra_grid r ax) - 1)%nat.
  (** surface_indexer_data = from_sizes(grid sizes) *)
  Definition ra_offs (r : rect) : list nat :=
    rr_from_sizes (length (ra_gx r)) (length (ra_gy r)) (length (ra_gz r)).

  Definition vcomp (v : vec3 T) (ax : nat) : T :=
    match ax with O => vx v | S O => vy v | _ => vz v end.
  Definition coord (c : nat * nat * nat) (ax : nat) : nat :=
    let '(c0, c1, c2) := c in match ax with O => c0 | S O => c1 | _ => c2 end.
  Definition set_coord (c : nat * nat * nat) (ax x : nat) : nat * nat * nat :=
    let '(c0, c1, c2) := c in match ax with O => (x, c1, c2) | S O => (c0, x, c2) | _ => (c0, c1, x) end.

  (** celeritas::lower_bound with comp(i, value) = v[i] < value *)
  Definition lower_bound_T (g : list T) (v : T) : nat :=
    bsearch (fun m => nth m g n0 <? v) (length g) 0 (length g).
  (** NonuniformGrid::find: `if (value != storage[*iter]) --iter` *)
  Definition grid_find (g : list T) (v : T) : nat :=
    let it := lower_bound_T g v in
    if v =? nth it g n0 then it else pred it.

  (** initialize, one axis: outside -> none; exactly on a grid plane -> none *)
  Definition ra_init_axis (g : list T) (pos : T) : option nat :=
    if (pos <? nth 0 g n0) || (nth (length g - 1) g n0 <? pos) then None
    else
      let i := grid_find g pos in
      if nth i g n0 =? pos then None else Some i.
  Definition ra_initialize (r : rect) (pos : vec3 T) : option nat :=
    match ra_init_axis (ra_gx r) (vx pos) with
    | None => None
    | Some cx =>
        match ra_init_axis (ra_gy r) (vy pos) with
        | None => None
        | Some cy =>
            match ra_init_axis (ra_gz r) (vz pos) with
            | None => None
            | Some cz => Some (hs_index (ra_dims r) (cx, cy, cz))
            end
        end
    end.

  (** Intersection: (distance, surface) *)
  Definition risect := (option T * option (nat * bool))%type.
  Definition closer (d : T) (best : option T) : bool :=
    match best with None => true | Some b => d <? b end.

  (** intersect_impl, body of the loop over axes *)
  Definition ra_intersect_axis (r : rect) (c : nat * nat * nat) (pos dir : vec3 T)
             (valid : T -> bool) (best : risect) (ax : nat) : risect :=
    let d := vcomp dir ax in
    if d =? n0 then best
    else
      let up := n0 <? d in
      let tc := (coord c ax + (if up then 1 else 0))%nat in
      let tv := nth tc (ra_grid r ax) n0 in
      let dist := (tv - vcomp pos ax) / d in
      if (n0 <? dist) && valid dist && closer dist (fst best)
      then (Some dist, Some (rr_index (ra_offs r) ax tc, negb up))
      else best.
  Definition ra_intersect_impl (r : rect) (vol : nat) (pos dir : vec3 T) (valid : T -> bool) : risect :=
    let c := hs_coords (ra_dims r) vol in
    fold_left (ra_intersect_axis r c pos dir valid) [0; 1; 2]%nat (None, None).
  (** intersect(state) [IsFinite: a finite distance always passes `dist < inf`] and
      intersect(state, max) [IsNotFurtherThan; `if (!result) distance = max`] *)
  Definition ra_intersect (r : rect) (vol : nat) (pos dir : vec3 T) (maxd : option T) : risect :=
    match maxd with
    | None => ra_intersect_impl r vol pos dir (fun _ => true)
    | Some m =>
        let res := ra_intersect_impl r vol pos dir (fun d => d <=? m) in
        match snd res with Some _ => res | None => (Some m, None) end
    end.

  (** cross_boundary; [surf] carries the POST-crossing sense.  The CELER_ASSERT "crossing out
      of a rect array is not possible" is compiled out: it is the error value [None] here
      (the code would wrap an unsigned coordinate / index past the array) *)
  Definition ra_cross (r : rect) (vol : nat) (surf : nat * bool) : option (nat * (nat * bool)) :=
    let dims := ra_dims r in
    let c := hs_coords dims vol in
    let ax := fst (rr_coords (ra_offs r) (fst surf)) in
    let ca := coord c ax in
    if (Nat.eqb ca 0 && negb (snd surf)) || (Nat.eqb ca (ra_dim r ax - 1) && snd surf) then None
    else Some (hs_index dims (set_coord c ax (if snd surf then S ca else pred ca)), surf).

  (** normal *)
  Definition ra_normal (r : rect) (surf : nat) : vec3 T :=
    match fst (rr_coords (ra_offs r) surf) with
    | O => V3 n1 n0 n0 | S O => V3 n0 n1 n0 | _ => V3 n0 n0 n1
    end.
End RectArray.
Arguments rect T : clear implicits.
