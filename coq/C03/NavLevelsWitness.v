(** * C03: non-vacuity of the multi-level crossing theorem: a 2-level geometry.
    World: plane x = 0; the half space x < 0 holds a daughter universe (no transform) that is
    split by the plane y = 0.  The track comes from (1,1,0) along -x and sits on x = 0. *)
From Coq Require Import Reals List Bool Arith Lia Lra.
From Celer Require Import Base.Num Base.NumR Base.Vec3 C12.Solver C12.Surfaces C12.Transforms
  C03.LogicWalk C03.NavModel C03.LevelsProofs C03.NavLevelsProofs.
Import ListNotations.
Local Open Scope R_scope.

Definition g2 : geometry R :=
  [ Unit [SPlaneAligned AX 0]
         [Vol [0%nat] [LFace 0; LNot] false false (Some (1%nat, XNone));
          Vol [0%nat] [LFace 0] false false None] None;
    Unit [SPlaneAligned AY 0]
         [Vol [0%nat] [LFace 0; LNot] false false None;
          Vol [0%nat] [LFace 0] false false None] None ].

Definition st2w : state R :=
  St [LS (V3 0 1 0) (V3 (-1) 0 0) 1 0] (Some (0%nat, 0%nat, true)) false 0 None 0 false.

Lemma sense_x p x y z : surf_sense (SPlaneAligned AX p) (V3 x y z)
  = if Rltb (x - p) 0 then Inside else if Rleb (x - p) 0 then On else Outside.
Proof. reflexivity. Qed.
Lemma sense_y p x y z : surf_sense (SPlaneAligned AY p) (V3 x y z)
  = if Rltb (y - p) 0 then Inside else if Rleb (y - p) 0 then On else Outside.
Proof. reflexivity. Qed.

Ltac rdecide :=
  repeat first
    [ rewrite (proj2 (Rltb_true _ _)) by lra | rewrite (proj2 (Rltb_false _ _)) by lra
    | rewrite (proj2 (Rleb_true _ _)) by lra | rewrite (proj2 (Rleb_false _ _)) by lra ].

Lemma init_world_left : unit_initialize (get_unit g2 0) (V3 (-1/2) 1 0) = Some 0%nat.
Proof.
  unfold unit_initialize, g2, get_unit. cbn [nth u_vols find_volume].
  unfold vol_inside, calc_senses. cbn [v_faces calc_senses_from get_surf u_surfs nth].
  rewrite !sense_x. rdecide. reflexivity.
Qed.
Lemma init_daughter y0 x0 : 0 < y0 -> unit_initialize (get_unit g2 1) (V3 x0 y0 0) = Some 1%nat.
Proof.
  intros Hy. unfold unit_initialize, g2, get_unit. cbn [nth u_vols find_volume].
  unfold vol_inside, calc_senses. cbn [v_faces calc_senses_from get_surf u_surfs nth].
  rewrite !sense_y. rdecide. reflexivity.
Qed.

Lemma stack_daughter k x0 y0 : 0 < y0 -> stackf (S k) g2 1 (V3 x0 y0 0) = ([(1, 1)]%nat, false).
Proof.
  intros Hy. cbn [stackf]. rewrite (init_daughter y0 x0 Hy). reflexivity.
Qed.
Lemma stack_world k : stackf (S (S k)) g2 0 (V3 (-1/2) 1 0) = ([(0, 0); (1, 1)]%nat, false).
Proof.
  cbn [stackf]. rewrite init_world_left.
  change (v_daughter (get_vol (get_unit g2 0) 0)) with (Some (1%nat, XNone (T:=R))).
  cbn [x_down]. pose proof (stack_daughter k (-1/2) 1 ltac:(lra)) as E. cbn [stackf] in E. rewrite E. reflexivity.
Qed.

Example nav_cross_hyps_sat :
  let p' := V3 (-1/2) 1 0 in
  nav_inv g2 st2w
  /\ locate g2 p' = Some (map stk (st_levels (cross_boundary g2 st2w)))
  /\ map stk (st_levels (cross_boundary g2 st2w)) = [(0, 0); (1, 1)]%nat.
Proof.
  intros p'.
  assert (Hinv : nav_inv g2 st2w).
  { unfold nav_inv, st2w. cbn. repeat split; congruence. }
  assert (Hcross : unit_cross (get_unit g2 0) (V3 0 1 0) 1 (0%nat, negb true) = Some 0%nat) by reflexivity.
  assert (Hd : v_daughter (get_vol (get_unit g2 0) 0) = Some (1%nat, XNone)) by reflexivity.
  assert (S7 : stackf 7 g2 1 (V3 (-1/2) 1 0) = ([(1, 1)]%nat, false)).
  { cbn [stackf]. rewrite (init_daughter 1 (-1/2)) by lra. reflexivity. }
  assert (S8 : stackf 8 g2 1 (V3 0 1 0) = ([(1, 1)]%nat, false)).
  { cbn [stackf]. rewrite (init_daughter 1 0) by lra. reflexivity. }
  destruct Hinv as [Hc [Hne [H0 Hre]]].
  destruct (nav_cross_refines_locate g2 st2w 0%nat 0%nat true p' 0%nat Hre eq_refl ltac:(cbn; lia) ltac:(unfold max_depth; lia) Hc H0 I
              Hcross init_world_left) as [Hloc [_ _]].
  { cbn [firstn img_after]. fold (get_unit g2 0). change (get_level st2w 0) with (LS (V3 0 1 0) (V3 (-1) 0 0) 1 0).
    cbn [ls_univ ls_pos]. rewrite Hd. exists [(1, 1)]%nat. split; [exact S7|exact S8]. }
  split; [unfold nav_inv; tauto|]. split; [exact Hloc|].
  rewrite locate_stackf in Hloc. change max_depth with (S (S 6)) in Hloc. rewrite stack_world in Hloc.
  injection Hloc as E. symmetry. exact E.
Qed.
