(** * C03 proofs: binary search, UniverseIndexer, Hyperslab / RaggedRight indexers. *)
From Coq Require Import List Arith Bool Lia ZArith ZifyBool.
From Celer Require Import C03.Indexer.
Import ListNotations.
Ltac Zify.zify_post_hook ::= Z.div_mod_to_equations.

(** ** the binary search returns THE partition point of a monotone predicate *)
Lemma bsearch_spec p : forall fuel first len,
  (len <= fuel) ->
  (forall i j, first <= i -> i <= j -> j < first + len -> p j = true -> p i = true) ->
  let k := bsearch p fuel first len in
  first <= k <= first + len
  /\ (forall i, first <= i -> i < k -> p i = true)
  /\ (forall i, k <= i -> i < first + len -> p i = false).
Proof.
  induction fuel as [|fuel IH]; intros first len Hf Hmono.
  - assert (len = 0) by lia. subst. cbv zeta. cbn [bsearch]. repeat split; intros; try lia; exfalso; lia.
  - cbv zeta. cbn [bsearch]. destruct (Nat.eqb_spec len 0) as [->|Hne].
    + repeat split; intros; try lia; exfalso; lia.
    + set (half := len / 2). assert (Hh : half < len) by (unfold half; apply Nat.div_lt; lia).
      destruct (p (first + half)) eqn:Hp.
      * assert (Hm' : forall i j, S (first + half) <= i -> i <= j -> j < S (first + half) + (len - (half + 1)) ->
                                  p j = true -> p i = true).
        { intros i j H1 H2 H3 H4. apply (Hmono i j); try lia. exact H4. }
        specialize (IH (S (first + half)) (len - (half + 1)) ltac:(lia) Hm').
        cbv zeta in IH. destruct IH as [Hr [Ht Hfl]]. repeat split; try lia.
        -- intros i H1 H2. destruct (Nat.lt_ge_cases i (S (first + half))) as [Hlt|Hge].
           ++ apply (Hmono i (first + half)); try lia. exact Hp.
           ++ apply Ht; lia.
        -- intros i H1 H2. apply Hfl; lia.
      * assert (Hm' : forall i j, first <= i -> i <= j -> j < first + half -> p j = true -> p i = true).
        { intros i j H1 H2 H3 H4. apply (Hmono i j); try lia. exact H4. }
        specialize (IH first half ltac:(lia) Hm'). cbv zeta in IH. destruct IH as [Hr [Ht Hfl]].
        repeat split; try lia.
        -- exact Ht.
        -- intros i H1 H2. destruct (Nat.lt_ge_cases i (first + half)) as [Hlt|Hge].
           ++ apply Hfl; lia.
           ++ destruct (p i) eqn:Hpi; [|reflexivity].
              rewrite (Hmono (first + half) i) in Hp; try lia. exact Hpi.
Qed.

(** ** UniverseIndexer *)
Definition wf_offsets (offs : list nat) : Prop :=
  2 <= length offs /\ nth 0 offs 0 = 0
  /\ forall i j, i <= j -> j < length offs -> nth i offs 0 <= nth j offs 0.

Lemma upper_bound_spec offs id :
  wf_offsets offs ->
  let k := upper_bound_nat offs id in
  k <= length offs
  /\ (forall i, i < k -> nth i offs 0 <= id)
  /\ (forall i, k <= i -> i < length offs -> id < nth i offs 0).
Proof.
  intros [Hlen [H0 Hs]]. unfold upper_bound_nat.
  pose proof (bsearch_spec (fun m => negb (id <? nth m offs 0)) (length offs) 0 (length offs) (le_n _)) as B.
  cbv zeta in B.
  assert (Hm : forall i j, 0 <= i -> i <= j -> j < 0 + length offs ->
                           negb (id <? nth j offs 0) = true -> negb (id <? nth i offs 0) = true).
  { intros i j _ Hij Hj Hpj. specialize (Hs i j Hij ltac:(lia)). lia. }
  destruct (B Hm) as [Hr [Ht Hf]]. cbv zeta. repeat split.
  - lia.
  - intros i Hi. specialize (Ht i ltac:(lia) Hi). lia.
  - intros i Hk Hi. specialize (Hf i Hk ltac:(lia)). lia.
Qed.

(** local(global(uni, loc)) = (uni, loc), for every offsets vector, also with empty universes *)
Theorem indexer_local_of_global offs uni loc :
  wf_offsets offs -> uni < num_universes offs -> loc < local_size offs uni ->
  local_id offs (global_id offs uni loc) = (uni, loc).
Proof.
  intros Hwf Hu Hl. pose proof Hwf as [Hlen [H0 Hs]].
  unfold num_universes in Hu. unfold local_size in Hl.
  unfold local_id, find_local, global_id.
  destruct (upper_bound_spec offs (nth uni offs 0 + loc) Hwf) as [Hk [Hlo Hhi]].
  set (k := upper_bound_nat offs (nth uni offs 0 + loc)) in *.
  assert (Hk1 : k = S uni).
  { destruct (Nat.lt_trichotomy k (S uni)) as [Hlt|[Heq|Hgt]]; [|exact Heq|].
    - specialize (Hhi uni ltac:(lia) ltac:(lia)). lia.
    - specialize (Hlo (S uni) Hgt). lia. }
  rewrite Hk1. cbn [pred]. f_equal. lia.
Qed.

(** global(local(id)) = id with the documented postconditions *)
Theorem indexer_global_of_local offs id :
  wf_offsets offs -> id < nth (length offs - 1) offs 0 ->
  let '(uni, loc) := local_id offs id in
  global_id offs uni loc = id /\ uni < num_universes offs
  /\ nth uni offs 0 <= id < nth (S uni) offs 0 /\ loc < local_size offs uni.
Proof.
  intros Hwf Hid. pose proof Hwf as [Hlen [H0 Hs]].
  unfold local_id, find_local, global_id, num_universes, local_size.
  destruct (upper_bound_spec offs id Hwf) as [Hk [Hlo Hhi]].
  set (k := upper_bound_nat offs id) in *.
  assert (Hk0 : 1 <= k).
  { destruct k; [|lia]. specialize (Hhi 0 ltac:(lia) ltac:(lia)). lia. }
  assert (Hkn : k <= length offs - 1).
  { destruct (Nat.le_gt_cases k (length offs - 1)); [assumption|].
    specialize (Hlo (length offs - 1) ltac:(lia)). lia. }
  assert (Hl : nth (pred k) offs 0 <= id) by (apply Hlo; lia).
  assert (Hh : id < nth (S (pred k)) offs 0).
  { replace (S (pred k)) with k by lia. apply Hhi; lia. }
  repeat split; lia.
Qed.

Example indexer_hyps_sat : wf_offsets [0; 3; 3; 7]
  /\ local_id [0; 3; 3; 7] 3 = (2, 0) /\ local_id [0; 3; 3; 7] 2 = (0, 2)
  /\ global_id [0; 3; 3; 7] 2 0 = 3.
Proof.
  repeat split; try reflexivity; try (cbn; lia).
  intros i j Hij Hj. cbn in Hj.
  destruct j as [|[|[|[|j]]]]; try lia; destruct i as [|[|[|[|i]]]]; cbn; lia.
Qed.

(** ** HyperslabIndexer<3> and its inverse *)
Theorem hs_coords_of_index d0 d1 d2 c0 c1 c2 :
  c1 < d1 -> c2 < d2 ->
  hs_coords (d0, d1, d2) (hs_index (d0, d1, d2) (c0, c1, c2)) = (c0, c1, c2).
Proof.
  intros H1 H2. unfold hs_coords, hs_index.
  assert (E2 : (d2 * (d1 * c0 + c1) + c2) mod d2 = c2).
  { rewrite Nat.add_comm, Nat.mul_comm, Nat.mod_add by lia. apply Nat.mod_small. exact H2. }
  rewrite E2.
  assert (E1 : (d2 * (d1 * c0 + c1) + c2 - c2) / d2 = d1 * c0 + c1).
  { rewrite Nat.add_sub, Nat.mul_comm. apply Nat.div_mul. lia. }
  rewrite E1.
  assert (E3 : (d1 * c0 + c1) mod d1 = c1).
  { rewrite Nat.add_comm, Nat.mul_comm, Nat.mod_add by lia. apply Nat.mod_small. exact H1. }
  rewrite E3. rewrite Nat.add_sub, (Nat.mul_comm d1 c0), Nat.div_mul by lia. reflexivity.
Qed.

Theorem hs_index_of_coords d0 d1 d2 index :
  0 < d1 -> 0 < d2 -> index < d0 * d1 * d2 ->
  let '(c0, c1, c2) := hs_coords (d0, d1, d2) index in
  hs_index (d0, d1, d2) (c0, c1, c2) = index /\ c0 < d0 /\ c1 < d1 /\ c2 < d2.
Proof.
  intros H1 H2 Hi. unfold hs_coords, hs_index.
  set (c2 := index mod d2). set (i1 := (index - c2) / d2). set (c1 := i1 mod d1).
  assert (Hc2 : c2 < d2) by (apply Nat.mod_upper_bound; lia).
  assert (Hc1 : c1 < d1) by (apply Nat.mod_upper_bound; lia).
  assert (Ei : index = d2 * (index / d2) + c2) by (apply Nat.div_mod_eq).
  assert (Ei1 : i1 = index / d2).
  { unfold i1. rewrite Ei at 1. rewrite Nat.add_sub, Nat.mul_comm. apply Nat.div_mul. lia. }
  assert (Ej : i1 = d1 * (i1 / d1) + c1) by (apply Nat.div_mod_eq).
  assert (E0 : (i1 - c1) / d1 = i1 / d1).
  { rewrite Ej at 1. rewrite Nat.add_sub, Nat.mul_comm. apply Nat.div_mul. lia. }
  rewrite E0. repeat split; try assumption.
  - rewrite <- Ej, Ei1. symmetry. exact Ei.
  - apply Nat.div_lt_upper_bound; [lia|]. rewrite Ei1. apply Nat.div_lt_upper_bound; [lia|]. nia.
Qed.

(** ** RaggedRightIndexer<3> and its inverse *)
Theorem rr_coords_of_index s0 s1 s2 ax k :
  ax < 3 -> k < nth ax [s0; s1; s2] 0 ->
  rr_coords (rr_from_sizes s0 s1 s2) (rr_index (rr_from_sizes s0 s1 s2) ax k) = (ax, k).
Proof.
  intros Hax Hk. unfold rr_coords, rr_index, rr_from_sizes.
  destruct ax as [|[|[|ax]]]; try lia; cbn in Hk; cbn [nth length rr_axis_loop].
  - replace (s0 <=? 0 + k) with false by (symmetry; apply Nat.leb_gt; lia). cbn. f_equal; lia.
  - replace (s0 <=? s0 + k) with true by (symmetry; apply Nat.leb_le; lia).
    replace (s0 + s1 <=? s0 + k) with false by (symmetry; apply Nat.leb_gt; lia). cbn. f_equal; lia.
  - replace (s0 <=? s0 + s1 + k) with true by (symmetry; apply Nat.leb_le; lia).
    replace (s0 + s1 <=? s0 + s1 + k) with true by (symmetry; apply Nat.leb_le; lia).
    replace (s0 + s1 + s2 <=? s0 + s1 + k) with false by (symmetry; apply Nat.leb_gt; lia). cbn. f_equal; lia.
Qed.

Theorem rr_index_of_coords s0 s1 s2 index :
  index < s0 + s1 + s2 ->
  let '(ax, k) := rr_coords (rr_from_sizes s0 s1 s2) index in
  rr_index (rr_from_sizes s0 s1 s2) ax k = index /\ ax < 3 /\ k < nth ax [s0; s1; s2] 0.
Proof.
  intros Hi. unfold rr_coords, rr_index, rr_from_sizes. cbn [nth length rr_axis_loop].
  destruct (Nat.leb_spec s0 index) as [H0|H0]; [|cbn; repeat split; lia].
  destruct (Nat.leb_spec (s0 + s1) index) as [H1|H1]; [|cbn; repeat split; lia].
  destruct (Nat.leb_spec (s0 + s1 + s2) index) as [H2|H2]; [lia|]. cbn. repeat split; lia.
Qed.
