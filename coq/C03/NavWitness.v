(** * C03 witnesses on the float instance (the instance that is run against the code).

    - [set_dir_prefix_refuted]: the pre-fix variant of set_dir (normal rotated
      through level() levels instead of surface_level()) takes the opposite
      re-entrant decision on the F1 witness (DESIGN.md section 6).
    - [post_cross_reversal_refuted]: the CURRENT code desynchronises when
      set_dir reverses the track after cross_boundary (finding, NOTES.md):
      every op is admissible, yet the reported volume stack differs from the
      point location of the final position. *)
From Coq Require Import ZArith List Bool Floats.
From Celer Require Import Base.Num Base.NumF Base.Vec3 C12.Solver C12.Surfaces C12.Transforms
  C03.LogicWalk C03.NavModel.
Import ListNotations.
Open Scope float_scope.

(** world box +-10; daughter box +-2 (inner sphere r 0.5) rotated 1/8 turn about z *)
Definition f1_geo : geometry float :=
  [(Unit [SPlaneAligned AX (-0x1.4000000000000p+3); SPlaneAligned AX 0x1.4000000000000p+3; SPlaneAligned AY (-0x1.4000000000000p+3); SPlaneAligned AY 0x1.4000000000000p+3; SPlaneAligned AZ (-0x1.4000000000000p+3); SPlaneAligned AZ 0x1.4000000000000p+3; SPlane (V3 0x1.6a09e667f3bcdp-1 0x1.6a09e667f3bccp-1 0) (-0x1.0000000000000p+1); SPlane (V3 0x1.6a09e667f3bcdp-1 0x1.6a09e667f3bccp-1 0) 0x1.0000000000000p+1; SPlane (V3 (-0x1.6a09e667f3bccp-1) 0x1.6a09e667f3bcdp-1 0) (-0x1.0000000000000p+1); SPlane (V3 (-0x1.6a09e667f3bccp-1) 0x1.6a09e667f3bcdp-1 0) 0x1.0000000000000p+1; SPlane (V3 0 0 0x1.0000000000000p+0) (-0x1.0000000000000p+1); SPlane (V3 0 0 0x1.0000000000000p+0) 0x1.0000000000000p+1] [Vol [0%nat; 1%nat; 2%nat; 3%nat; 4%nat; 5%nat] [LFace 0; LFace 1; LNot; LAnd; LFace 2; LAnd; LFace 3; LNot; LAnd; LFace 4; LAnd; LFace 5; LNot; LAnd; LNot] true false None; Vol [6%nat; 7%nat; 8%nat; 9%nat; 10%nat; 11%nat] [LFace 0; LFace 1; LNot; LAnd; LFace 2; LAnd; LFace 3; LNot; LAnd; LFace 4; LAnd; LFace 5; LNot; LAnd] false false (Some (1%nat, (XForm (TF (M3 (V3 0x1.6a09e667f3bcdp-1 (-0x1.6a09e667f3bccp-1) 0) (V3 0x1.6a09e667f3bccp-1 0x1.6a09e667f3bcdp-1 0) (V3 0 0 0x1.0000000000000p+0)) (V3 0 0 0))))); Vol [0%nat; 1%nat; 2%nat; 3%nat; 4%nat; 5%nat; 6%nat; 7%nat; 8%nat; 9%nat; 10%nat; 11%nat] [LFace 0; LFace 1; LNot; LAnd; LFace 2; LAnd; LFace 3; LNot; LAnd; LFace 4; LAnd; LFace 5; LNot; LAnd; LFace 6; LFace 7; LNot; LAnd; LFace 8; LAnd; LFace 9; LNot; LAnd; LFace 10; LAnd; LFace 11; LNot; LAnd; LNot; LAnd] true false None] None); (Unit [SSphereCentered 0x1.0000000000000p-2] [Vol [] [LTrue; LNot] false true None; Vol [0%nat] [LFace 0; LNot] false false None; Vol [0%nat] [LFace 0] false false None] None)].

Definition f1_tol : tolerance float := Tol 0x1.5798ee2308c3ap-27 0x1.5798ee2308c3ap-27.
Definition f1_start : vec3 float := V3 (-5) 0.5 0.
Definition f1_dir : vec3 float := V3 1 0 0.
Definition f1_u : vec3 float := V3 0x1.3333333333333p-1 0x1.999999999999ap-1 0.

(** execute ops with the call-order guards, returning the final driver state *)
Fixpoint exec (tol : tolerance float) (g : geometry float) (d : drv float) (ops : list (op float)) : drv float :=
  match ops with [] => d | o :: r => exec tol g (fst (step tol g d o)) r end.

(** state after find_next_step; move_to_boundary; cross_boundary: level 1, surface level 0 *)
Definition f1_state : state float :=
  d_st (exec f1_tol f1_geo (Drv (initialize f1_geo f1_start f1_dir) false)
             [FindNext; MoveToBoundary; Cross]).

Lemma f1_state_levels : level f1_state = 1%nat /\ surface_level f1_state = Some 0%nat.
Proof. vm_compute. split; reflexivity. Qed.

Theorem set_dir_prefix_refuted :
  exists (g : geometry float) (st : state float) (u : vec3 float),
    is_on_boundary st = true /\
    st_reentrant (set_dir g st u) <> st_reentrant (set_dir_prefix g st u).
Proof.
  exists f1_geo, f1_state, f1_u. split.
  - vm_compute. reflexivity.
  - vm_compute. discriminate.
Qed.

(** the finding on the current code *)
Definition f1_ops : list (op float) :=
  [FindNext; MoveToBoundary; Cross; SetDir f1_u; FindNext; CrossIfReentrant; FindNext;
   MoveInternal 0x1.eb851eb851eb8p-6].

Definition last_obs (l : list (obs float)) : option (obs float) := last (map Some l) None.

Theorem post_cross_reversal_refuted :
  exists (tol : tolerance float) (g : geometry float) (p d : vec3 float) (ops : list (op float)) (o : obs float),
    let trace := run_ray tol g p d ops in
    forallb (fun x => o_ok x) trace = true          (* every op admissible and executed *)
    /\ last_obs trace = Some o
    /\ o_onb o = false /\ o_failed o = false
    /\ locate g (o_pos o) <> None
    /\ locate g (o_pos o) <> Some (o_stack o).   (* navigator's volume stack <> true location *)
Proof.
  exists f1_tol, f1_geo, f1_start, f1_dir, f1_ops.
  eexists. cbv zeta. split; [vm_compute; reflexivity|]. split; [vm_compute; reflexivity|].
  split; [vm_compute; reflexivity|]. split; [vm_compute; reflexivity|].
  split; vm_compute; discriminate.
Qed.

(** ** order of the rotations in set_dir (seeded change C03-m2): three nested units
    placed with Rz(90) and Rx(90); the plane x = 0.5 of the innermost unit has the
    global normal +y = R0 (R1 n); composing in ascending level order gives +z *)
Definition nest3_geo : geometry float :=
  [(Unit [SSphereCentered 0x1.3880000000000p+11] [Vol [0%nat] [LFace 0] false false None; Vol [0%nat] [LFace 0; LNot] false false (Some (1%nat, (XForm (TF (M3 (V3 0 (-0x1.0000000000000p+0) 0) (V3 0x1.0000000000000p+0 0 0) (V3 0 0 0x1.0000000000000p+0)) (V3 0x1.0000000000000p+0 0x1.0000000000000p+1 0x1.8000000000000p+1)))))] None); (Unit [SSphere (V3 (-0x1.0000000000000p+1) 0 0x1.0000000000000p+0) 0x1.2000000000000p+5] [Vol [] [LTrue; LNot] false true None; Vol [0%nat] [LFace 0; LNot] false false (Some (2%nat, (XForm (TF (M3 (V3 0x1.0000000000000p+0 0 0) (V3 0 0 (-0x1.0000000000000p+0)) (V3 0 0x1.0000000000000p+0 0)) (V3 (-0x1.0000000000000p+1) 0 0x1.0000000000000p+0))))); Vol [0%nat] [LFace 0] false false None] None); (Unit [SPlaneAligned AX 0x1.0000000000000p-1] [Vol [] [LTrue; LNot] false true None; Vol [0%nat] [LFace 0; LNot] false false None; Vol [0%nat] [LFace 0] false false None] None)].
Definition nest3_state : state float :=
  d_st (exec f1_tol nest3_geo (Drv (initialize nest3_geo (V3 0x1.3333333333333p+0 (-0x1.6666666666668p-1) 0x1.1333333333333p+2) (V3 0 0x1.999999999999ap-1 (-0x1.3333333333333p-1))) false)
             [FindNext; MoveToBoundary]).

Fixpoint rotate_up_ascending (g : geometry float) (st : state float) (k n : nat) (v : vec3 float) : vec3 float :=
  match n with
  | O => v
  | S m => rotate_up_ascending g st (S k) m (x_rot_up (level_xform g st k) v)
  end.

Definition local_normal (g : geometry float) (st : state float) : option (nat * vec3 float) :=
  match st_surf st with
  | None => None
  | Some (sl, s, _) =>
      let ls := get_level st sl in
      Some (sl, surf_normal (get_surf (get_unit g (ls_univ ls)) s) (ls_pos ls))
  end.

Theorem set_dir_ascending_refuted :
  exists (g : geometry float) (st : state float) (u : vec3 float) (sl : nat) (n : vec3 float),
    local_normal g st = Some (sl, n) /\ sl = 2%nat
    /\ global_normal g st (nrot_fixed st) = Some (rotate_up_from g st sl n)
    /\ sign_changes (rotate_up_from g st sl n) (ls_dir (get_level st 0)) u
       <> sign_changes (rotate_up_ascending g st 0 sl n) (ls_dir (get_level st 0)) u.
Proof.
  exists nest3_geo, nest3_state, (V3 0 (-0x1.999999999999ap-1) (-0x1.3333333333333p-1)). eexists. eexists.
  split; [vm_compute; reflexivity|]. split; [reflexivity|].
  split; [vm_compute; reflexivity|]. vm_compute. discriminate.
Qed.
