
(** val negb : bool -> bool **)

let negb = function
| true -> false
| false -> true

type nat =
| O
| S of nat

(** val fst : ('a1 * 'a2) -> 'a1 **)

let fst = function
| (x, _) -> x

(** val snd : ('a1 * 'a2) -> 'a2 **)

let snd = function
| (_, y) -> y

(** val length : 'a1 list -> nat **)

let rec length = function
| [] -> O
| _ :: l' -> S (length l')

(** val app : 'a1 list -> 'a1 list -> 'a1 list **)

let rec app l m =
  match l with
  | [] -> m
  | a :: l1 -> a :: (app l1 m)

(** val add : nat -> nat -> nat **)

let rec add n m =
  match n with
  | O -> m
  | S p -> S (add p m)

(** val sub : nat -> nat -> nat **)

let rec sub n m =
  match n with
  | O -> n
  | S k -> (match m with
            | O -> n
            | S l -> sub k l)

module Nat =
 struct
  (** val eqb : nat -> nat -> bool **)

  let rec eqb n m =
    match n with
    | O -> (match m with
            | O -> true
            | S _ -> false)
    | S n' -> (match m with
               | O -> false
               | S m' -> eqb n' m')

  (** val leb : nat -> nat -> bool **)

  let rec leb n m =
    match n with
    | O -> true
    | S n' -> (match m with
               | O -> false
               | S m' -> leb n' m')

  (** val ltb : nat -> nat -> bool **)

  let ltb n m =
    leb (S n) m

  (** val min : nat -> nat -> nat **)

  let rec min n m =
    match n with
    | O -> O
    | S n' -> (match m with
               | O -> O
               | S m' -> S (min n' m'))
 end

(** val hd : 'a1 -> 'a1 list -> 'a1 **)

let hd default = function
| [] -> default
| x :: _ -> x

(** val tl : 'a1 list -> 'a1 list **)

let tl = function
| [] -> []
| _ :: m -> m

(** val nth : nat -> 'a1 list -> 'a1 -> 'a1 **)

let rec nth n l default =
  match n with
  | O -> (match l with
          | [] -> default
          | x :: _ -> x)
  | S m -> (match l with
            | [] -> default
            | _ :: t -> nth m t default)

(** val concat : 'a1 list list -> 'a1 list **)

let rec concat = function
| [] -> []
| x :: l0 -> app x (concat l0)

(** val map : ('a1 -> 'a2) -> 'a1 list -> 'a2 list **)

let rec map f = function
| [] -> []
| a :: t -> (f a) :: (map f t)

(** val fold_left : ('a1 -> 'a2 -> 'a1) -> 'a2 list -> 'a1 -> 'a1 **)

let rec fold_left f l a0 =
  match l with
  | [] -> a0
  | b :: t -> fold_left f t (f a0 b)

(** val forallb : ('a1 -> bool) -> 'a1 list -> bool **)

let rec forallb f = function
| [] -> true
| a :: l0 -> (&&) (f a) (forallb f l0)

(** val filter : ('a1 -> bool) -> 'a1 list -> 'a1 list **)

let rec filter f = function
| [] -> []
| x :: l0 -> if f x then x :: (filter f l0) else filter f l0

(** val combine : 'a1 list -> 'a2 list -> ('a1 * 'a2) list **)

let rec combine l l' =
  match l with
  | [] -> []
  | x :: tl0 ->
    (match l' with
     | [] -> []
     | y :: tl' -> (x, y) :: (combine tl0 tl'))

(** val firstn : nat -> 'a1 list -> 'a1 list **)

let rec firstn n l =
  match n with
  | O -> []
  | S n0 -> (match l with
             | [] -> []
             | a :: l0 -> a :: (firstn n0 l0))

(** val seq : nat -> nat -> nat list **)

let rec seq start = function
| O -> []
| S len0 -> start :: (seq (S start) len0)

(** val repeat : 'a1 -> nat -> 'a1 list **)

let rec repeat x = function
| O -> []
| S k -> x :: (repeat x k)

type status =
| Inactive
| Initializing
| Alive
| Errored
| Killed

(** val status_eqb : status -> status -> bool **)

let status_eqb a b =
  match a with
  | Inactive -> (match b with
                 | Inactive -> true
                 | _ -> false)
  | Initializing -> (match b with
                     | Initializing -> true
                     | _ -> false)
  | Alive -> (match b with
              | Alive -> true
              | _ -> false)
  | Errored -> (match b with
                | Errored -> true
                | _ -> false)
  | Killed -> (match b with
               | Killed -> true
               | _ -> false)

type trk = { tid : nat; tpar : nat option; tev : nat; tpid : nat; tbad : bool }

(** val dflt_trk : trk **)

let dflt_trk =
  { tid = O; tpar = None; tev = O; tpid = O; tbad = false }

type slot = { sst : status; str : trk; ssecs : nat list; sused : bool }

(** val dflt_slot : slot **)

let dflt_slot =
  { sst = Inactive; str = dflt_trk; ssecs = []; sused = false }

type counters = { c_gen : nat; c_init : nat; c_vac : nat; c_active : 
                  nat; c_sec : nat; c_alive : nat }

type phase =
| Ready
| Inited
| Interacted
| Failed

(** val phase_eqb : phase -> phase -> bool **)

let phase_eqb a b =
  match a with
  | Ready -> (match b with
              | Ready -> true
              | _ -> false)
  | Inited -> (match b with
               | Inited -> true
               | _ -> false)
  | Interacted -> (match b with
                   | Interacted -> true
                   | _ -> false)
  | Failed -> (match b with
               | Failed -> true
               | _ -> false)

type config = { n_slots : nat; capacity : nat; charge_order : bool;
                n_events : nat }

type state = { slots : slot list; stack : trk list;
               parents : nat option list; vac : nat list; cnt : counters;
               next_id : nat list; ph : phase }

type primary = { p_ev : nat; p_pid : nat; p_bad : bool }

type outcome = { o_dies : bool; o_secs : nat list }

(** val dflt_outcome : outcome **)

let dflt_outcome =
  { o_dies = false; o_secs = [] }

type op =
| InsertPrimaries of primary list
| ExtendFromPrimaries
| InitializeTracks
| PhysicsOutcome of outcome list
| ExtendFromSecondaries
| Reset
| Reseed

type result =
| Ok of state
| Err of state
| Misuse

(** val upd : nat -> 'a1 -> 'a1 list -> 'a1 list **)

let rec upd i x = function
| [] -> []
| y :: r -> (match i with
             | O -> x :: r
             | S j -> y :: (upd j x r))

(** val is_some : 'a1 option -> bool **)

let is_some = function
| Some _ -> true
| None -> false

(** val index_before : nat -> nat -> nat **)

let index_before size tid0 =
  sub (sub size tid0) (S O)

(** val index_after : nat -> nat -> nat **)

let index_after =
  add

(** val index_partitioned : nat -> nat -> bool -> nat -> nat **)

let index_partitioned num_new num_vac from_front tid0 =
  if from_front then index_before num_new tid0 else index_before num_vac tid0

(** val make_track_id : nat -> nat list -> nat * nat list **)

let make_track_id ev nx =
  let v = nth ev nx O in (v, (upd ev (S v) nx))

(** val is_neutral : trk -> bool **)

let is_neutral t =
  Nat.eqb t.tpid O

(** val remove_if_alive : nat option list -> nat list **)

let rec remove_if_alive = function
| [] -> []
| o :: r ->
  (match o with
   | Some i -> i :: (remove_if_alive r)
   | None -> remove_if_alive r)

(** val exclusive_scan : nat -> nat list -> nat list * nat **)

let rec exclusive_scan acc = function
| [] -> ([], acc)
| x :: r -> let (s, t) = exclusive_scan (add acc x) r in ((acc :: s), t)

(** val stable_partition : ('a1 -> bool) -> 'a1 list -> 'a1 list **)

let stable_partition f l =
  app (filter f l) (filter (fun x -> negb (f x)) l)

(** val partition_initializers : trk list -> nat -> nat -> nat list **)

let partition_initializers stk num_init count =
  stable_partition (fun i ->
    is_neutral (nth (add (sub num_init count) i) stk dflt_trk)) (seq O count)

(** val clear_parents : nat -> nat option list **)

let clear_parents n =
  repeat None n

(** val process_primary :
    nat -> nat -> (trk list * nat list) -> (nat * primary) -> trk list * nat
    list **)

let process_primary cinit nprim acc tp =
  let (arr, nx) = acc in
  let (t, p) = tp in
  let (id, nx') = make_track_id p.p_ev nx in
  ((upd (index_after (sub cinit nprim) t) { tid = id; tpar = None; tev =
     p.p_ev; tpid = p.p_pid; tbad = p.p_bad } arr), nx')

(** val process_primaries :
    nat -> primary list -> trk list -> nat list -> trk list * nat list **)

let process_primaries cinit ps arr nx =
  fold_left (process_primary cinit (length ps))
    (combine (seq O (length ps)) ps) (arr, nx)

(** val set_ph : phase -> state -> state **)

let set_ph p s =
  { slots = s.slots; stack = s.stack; parents = s.parents; vac = s.vac; cnt =
    s.cnt; next_id = s.next_id; ph = p }

(** val insert_primaries : config -> state -> primary list -> result **)

let insert_primaries cfg s ps =
  if negb (phase_eqb s.ph Ready)
  then Misuse
  else if negb (forallb (fun p -> Nat.ltb p.p_ev cfg.n_events) ps)
       then Misuse
       else let c = s.cnt in
            if Nat.ltb cfg.capacity (add (length ps) c.c_init)
            then Err (set_ph Failed s)
            else let cinit = add c.c_init (length ps) in
                 let (arr, nx) =
                   process_primaries cinit ps
                     (app s.stack (repeat dflt_trk (length ps))) s.next_id
                 in
                 Ok { slots = s.slots; stack = arr; parents =
                 (clear_parents cfg.n_slots); vac = s.vac; cnt = { c_gen =
                 (add c.c_gen (length ps)); c_init = cinit; c_vac = c.c_vac;
                 c_active = c.c_active; c_sec = c.c_sec; c_alive =
                 c.c_alive }; next_id = nx; ph = Ready }

(** val extend_from_primaries : config -> state -> result **)

let extend_from_primaries cfg s =
  if negb (phase_eqb s.ph Ready)
  then Misuse
  else Ok { slots = s.slots; stack = s.stack; parents =
         (clear_parents cfg.n_slots); vac = s.vac; cnt = s.cnt; next_id =
         s.next_id; ph = Ready }

(** val get_idx : bool -> nat list -> nat -> nat -> nat -> nat **)

let get_idx charge indices num_new size tid0 =
  if charge
  then sub (add (nth (index_before num_new tid0) indices O) size) num_new
  else index_before size tid0

(** val init_thread :
    config -> state -> nat list -> nat -> nat -> (nat * trk) * nat option **)

let init_thread cfg s indices num_new tid0 =
  let c = s.cnt in
  let ini =
    nth (get_idx cfg.charge_order indices num_new c.c_init tid0) s.stack
      dflt_trk
  in
  let vidx =
    if cfg.charge_order
    then index_partitioned num_new c.c_vac (is_neutral ini) tid0
    else index_before c.c_vac tid0
  in
  let sid = nth vidx s.vac O in
  let par =
    if Nat.ltb tid0 c.c_sec
    then nth (get_idx cfg.charge_order indices num_new cfg.n_slots tid0)
           s.parents None
    else None
  in
  ((sid, ini), par)

(** val init_write : slot list -> ((nat * trk) * nat option) -> slot list **)

let init_write sl = function
| (p, par) ->
  let (sid, ini) = p in
  let st' =
    if is_some par
    then Initializing
    else if ini.tbad then Errored else Initializing
  in
  upd sid { sst = st'; str = ini; ssecs = (nth sid sl dflt_slot).ssecs;
    sused = true } sl

(** val initialize_tracks : config -> state -> result **)

let initialize_tracks cfg s =
  if negb (phase_eqb s.ph Ready)
  then Misuse
  else let c = s.cnt in
       let num_new = Nat.min c.c_vac c.c_init in
       if Nat.eqb num_new O
       then Ok { slots = s.slots; stack = s.stack; parents = s.parents; vac =
              s.vac; cnt = { c_gen = c.c_gen; c_init = c.c_init; c_vac =
              c.c_vac; c_active = (sub cfg.n_slots c.c_vac); c_sec = c.c_sec;
              c_alive = c.c_alive }; next_id = s.next_id; ph = Inited }
       else let indices =
              if cfg.charge_order
              then partition_initializers s.stack c.c_init num_new
              else []
            in
            let writes =
              map (init_thread cfg s indices num_new) (seq O num_new)
            in
            let slots' = fold_left init_write writes s.slots in
            let cv = sub c.c_vac num_new in
            let ci = sub c.c_init num_new in
            Ok { slots = slots'; stack = (firstn ci s.stack); parents =
            (if cfg.charge_order then clear_parents cfg.n_slots else s.parents);
            vac = (firstn cv s.vac); cnt = { c_gen = c.c_gen; c_init = ci;
            c_vac = cv; c_active = (sub cfg.n_slots cv); c_sec = c.c_sec;
            c_alive = c.c_alive }; next_id = s.next_id; ph = Inited }

(** val physics_slot : slot -> outcome -> slot **)

let physics_slot sl o =
  match sl.sst with
  | Inactive -> sl
  | Errored -> { sst = Killed; str = sl.str; ssecs = []; sused = sl.sused }
  | _ ->
    { sst = (if o.o_dies then Killed else Alive); str = sl.str; ssecs =
      o.o_secs; sused = sl.sused }

(** val physics_slots : slot list -> outcome list -> slot list **)

let rec physics_slots sl f =
  match sl with
  | [] -> []
  | x :: r -> (physics_slot x (hd dflt_outcome f)) :: (physics_slots r (tl f))

(** val physics_outcome : config -> state -> outcome list -> result **)

let physics_outcome _ s f =
  if negb (phase_eqb s.ph Inited)
  then Misuse
  else Ok { slots = (physics_slots s.slots f); stack = s.stack; parents =
         s.parents; vac = s.vac; cnt = s.cnt; next_id = s.next_id; ph =
         Interacted }

(** val live_secs : slot -> nat list **)

let live_secs sl =
  filter (fun k -> negb (Nat.eqb k O)) sl.ssecs

(** val locate_alive : bool -> nat -> slot -> nat option * nat **)

let locate_alive charge i sl =
  let ns = if status_eqb sl.sst Inactive then O else length (live_secs sl) in
  if status_eqb sl.sst Alive
  then (None, ns)
  else if (&&) (Nat.ltb O ns) (negb charge)
       then (None, (sub ns (S O)))
       else ((Some i), ns)

(** val locate_all : bool -> nat -> slot list -> (nat option * nat) list **)

let rec locate_all charge i = function
| [] -> []
| x :: r -> (locate_alive charge i x) :: (locate_all charge (S i) r)

type pstate = { p_arr : trk list; p_par : nat option list; p_nx : nat list }

(** val mk_secondary : nat -> nat -> nat -> nat -> trk **)

let mk_secondary parent_id ev id k =
  { tid = id; tpar = (Some parent_id); tev = ev; tpid = (sub k (S O)); tbad =
    false }

(** val make_secondaries :
    nat -> nat -> nat list -> nat list -> trk list * nat list **)

let rec make_secondaries parent_id ev ks nx =
  match ks with
  | [] -> ([], nx)
  | k :: r ->
    let (id, nx1) = make_track_id ev nx in
    let (ts, nx2) = make_secondaries parent_id ev r nx1 in
    (((mk_secondary parent_id ev id k) :: ts), nx2)

(** val push_secondaries :
    bool -> nat -> nat -> nat -> bool -> nat -> trk list -> trk list -> nat
    option list -> trk list * nat option list **)

let rec push_secondaries charge nslots cinit i alive offset ts arr par =
  match ts with
  | [] -> (arr, par)
  | t :: r ->
    let arr' = upd (sub cinit offset) t arr in
    let par' =
      if (&&) (Nat.leb offset nslots) ((||) (negb charge) alive)
      then upd (sub nslots offset) (Some i) par
      else par
    in
    push_secondaries charge nslots cinit i alive (sub offset (S O)) r arr'
      par'

(** val proc_slot :
    bool -> nat -> nat -> nat -> pstate -> ((nat * slot) * nat) ->
    slot * pstate **)

let proc_slot charge nslots cinit total ps = function
| (p, scan_i) ->
  let (i, sl) = p in
  if status_eqb sl.sst Inactive
  then (sl, ps)
  else let (ts, nx') =
         make_secondaries sl.str.tid sl.str.tev (live_secs sl) ps.p_nx
       in
       let alive = status_eqb sl.sst Alive in
       let offset = sub total scan_i in
       (match ts with
        | [] ->
          let (arr, par) =
            push_secondaries charge nslots cinit i alive offset ts ps.p_arr
              ps.p_par
          in
          ((if status_eqb sl.sst Killed
            then { sst = Inactive; str = sl.str; ssecs = sl.ssecs; sused =
                   sl.sused }
            else sl), { p_arr = arr; p_par = par; p_nx = nx' })
        | t0 :: rest ->
          if (&&) (negb alive) (negb charge)
          then let (arr, par) =
                 push_secondaries charge nslots cinit i alive offset rest
                   ps.p_arr ps.p_par
               in
               ({ sst = Initializing; str = t0; ssecs = sl.ssecs; sused =
               true }, { p_arr = arr; p_par = par; p_nx = nx' })
          else let (arr, par) =
                 push_secondaries charge nslots cinit i alive offset ts
                   ps.p_arr ps.p_par
               in
               ((if status_eqb sl.sst Killed
                 then { sst = Inactive; str = sl.str; ssecs = sl.ssecs;
                        sused = sl.sused }
                 else sl), { p_arr = arr; p_par = par; p_nx = nx' }))

(** val proc_all :
    bool -> nat -> nat -> nat -> pstate -> nat -> slot list -> nat list ->
    slot list * pstate **)

let rec proc_all charge nslots cinit total ps i sls scan =
  match sls with
  | [] -> ([], ps)
  | sl :: r ->
    (match scan with
     | [] -> ([], ps)
     | sc :: rs ->
       let (sl', ps') = proc_slot charge nslots cinit total ps ((i, sl), sc)
       in
       let (sls', ps'') = proc_all charge nslots cinit total ps' (S i) r rs in
       ((sl' :: sls'), ps''))

(** val extend_from_secondaries : config -> state -> result **)

let extend_from_secondaries cfg s =
  if negb (phase_eqb s.ph Interacted)
  then Misuse
  else let c = s.cnt in
       let n = cfg.n_slots in
       let la = locate_all cfg.charge_order O s.slots in
       let vac' = remove_if_alive (map fst la) in
       let nvac = length vac' in
       let (scan, total) = exclusive_scan O (map snd la) in
       let cinit = add c.c_init total in
       if Nat.ltb cfg.capacity cinit
       then Err { slots = s.slots; stack = s.stack; parents = s.parents;
              vac = vac'; cnt = { c_gen = c.c_gen; c_init = cinit; c_vac =
              nvac; c_active = c.c_active; c_sec = total; c_alive =
              c.c_alive }; next_id = s.next_id; ph = Failed }
       else let (slots', ps) =
              proc_all cfg.charge_order n cinit total { p_arr =
                (app s.stack (repeat dflt_trk total)); p_par = s.parents;
                p_nx = s.next_id } O s.slots scan
            in
            Ok { slots = slots'; stack = ps.p_arr; parents = ps.p_par; vac =
            vac'; cnt = { c_gen = c.c_gen; c_init = cinit; c_vac = nvac;
            c_active = c.c_active; c_sec = total; c_alive = (sub n nvac) };
            next_id = ps.p_nx; ph = Ready }

(** val reset : config -> state -> result **)

let reset cfg s =
  Ok { slots =
    (map (fun sl -> { sst = Inactive; str = sl.str; ssecs = sl.ssecs; sused =
      sl.sused }) s.slots); stack = []; parents = s.parents; vac =
    (seq O cfg.n_slots); cnt = { c_gen = O; c_init = O; c_vac = cfg.n_slots;
    c_active = O; c_sec = O; c_alive = O }; next_id = s.next_id; ph = Ready }

(** val drained : state -> bool **)

let drained s =
  (&&) (forallb (fun sl -> status_eqb sl.sst Inactive) s.slots)
    (Nat.eqb s.cnt.c_init O)

(** val reseed : config -> state -> result **)

let reseed cfg s =
  if negb (phase_eqb s.ph Ready)
  then Misuse
  else if negb (drained s)
       then Misuse
       else Ok { slots = s.slots; stack = s.stack; parents = s.parents; vac =
              s.vac; cnt = s.cnt; next_id = (repeat O cfg.n_events); ph =
              Ready }

(** val step : config -> state -> op -> result **)

let step cfg s o = match o with
| Reset -> reset cfg s
| _ ->
  if phase_eqb s.ph Failed
  then Misuse
  else (match o with
        | InsertPrimaries ps -> insert_primaries cfg s ps
        | ExtendFromPrimaries -> extend_from_primaries cfg s
        | InitializeTracks -> initialize_tracks cfg s
        | PhysicsOutcome f -> physics_outcome cfg s f
        | ExtendFromSecondaries -> extend_from_secondaries cfg s
        | Reset -> reset cfg s
        | Reseed -> reseed cfg s)

(** val init_state : config -> state **)

let init_state cfg =
  { slots = (repeat dflt_slot cfg.n_slots); stack = []; parents =
    (clear_parents cfg.n_slots); vac = (seq O cfg.n_slots); cnt = { c_gen =
    O; c_init = O; c_vac = cfg.n_slots; c_active = O; c_sec = O; c_alive =
    O }; next_id = (repeat O cfg.n_events); ph = Ready }

(** val res_state : result -> state -> state **)

let res_state r s =
  match r with
  | Ok s' -> s'
  | Err s' -> s'
  | Misuse -> s

(** val run : config -> state -> op list -> result list **)

let rec run cfg s = function
| [] -> []
| o :: r ->
  (match step cfg s o with
   | Misuse -> Misuse :: []
   | x -> x :: (run cfg (res_state x s) r))

type init_data = { d_parents : nat option list; d_indices : nat list;
                   d_secondary_counts : nat list; d_vacancies : nat list;
                   d_track_counters : nat list; d_initializers : nat }

(** val resize_init_data : config -> init_data **)

let resize_init_data cfg =
  let size = cfg.n_slots in
  { d_parents = (repeat None size); d_indices =
  (if cfg.charge_order then repeat O size else []); d_secondary_counts =
  (repeat O (add size (S O))); d_vacancies = (seq O size); d_track_counters =
  (repeat O cfg.n_events); d_initializers = cfg.capacity }

(** val data_assigned : init_data -> bool **)

let data_assigned d =
  (&&)
    ((&&)
      ((&&)
        ((&&) (Nat.eqb (length d.d_parents) (length d.d_vacancies))
          ((||) (Nat.eqb (length d.d_indices) (length d.d_vacancies))
            (Nat.eqb (length d.d_indices) O)))
        (Nat.eqb (length d.d_secondary_counts)
          (add (length d.d_vacancies) (S O))))
      (negb (Nat.eqb (length d.d_track_counters) O)))
    (negb (Nat.eqb d.d_initializers O))

(** val construct_state : config -> (state * init_data) option **)

let construct_state cfg =
  if Nat.eqb cfg.n_slots O
  then None
  else let d = resize_init_data cfg in
       Some ({ slots = (repeat dflt_slot cfg.n_slots); stack = []; parents =
       d.d_parents; vac = d.d_vacancies; cnt = { c_gen = O; c_init = O;
       c_vac = cfg.n_slots; c_active = O; c_sec = O; c_alive = O }; next_id =
       d.d_track_counters; ph = Ready }, d)

(** val enc_opt : nat option -> nat **)

let enc_opt = function
| Some k -> S k
| None -> O

(** val status_code : status -> nat **)

let status_code = function
| Inactive -> O
| Initializing -> S O
| Alive -> S (S O)
| Errored -> S (S (S O))
| Killed -> S (S (S (S O)))

(** val enc_slot : slot -> nat list **)

let enc_slot sl =
  if sl.sused
  then (status_code sl.sst) :: ((S
         sl.str.tid) :: ((enc_opt sl.str.tpar) :: ((S sl.str.tev) :: ((S
         sl.str.tpid) :: []))))
  else (status_code sl.sst) :: (O :: (O :: (O :: (O :: []))))

(** val enc_trk : trk -> nat list **)

let enc_trk t =
  (S t.tid) :: ((enc_opt t.tpar) :: ((S t.tev) :: ((S t.tpid) :: [])))

(** val enc_state : nat -> state -> nat list **)

let enc_state kind s =
  let c = s.cnt in
  app
    (kind :: (c.c_gen :: (c.c_init :: (c.c_vac :: (c.c_active :: (c.c_sec :: (c.c_alive :: [])))))))
    (app (concat (map enc_slot s.slots))
      (app ((length s.vac) :: [])
        (app (map (fun x -> S x) s.vac)
          (app (map enc_opt s.parents)
            (app ((length s.stack) :: [])
              (app (concat (map enc_trk s.stack)) s.next_id))))))

(** val enc_result : result -> nat list **)

let enc_result = function
| Ok s -> enc_state O s
| Err s -> enc_state (S O) s
| Misuse -> (S (S (S (S (S (S (S (S (S O))))))))) :: []

(** val run_case : nat -> nat -> bool -> nat -> op list -> nat list list **)

let run_case n cap charge nev ops =
  let cfg = { n_slots = n; capacity = cap; charge_order = charge; n_events =
    nev }
  in
  map enc_result (run cfg (init_state cfg) ops)

(** val b2n : bool -> nat **)

let b2n = function
| true -> S O
| false -> O

(** val fresh_case : nat -> nat -> bool -> nat -> nat list **)

let fresh_case n cap charge nev =
  let cfg = { n_slots = n; capacity = cap; charge_order = charge; n_events =
    nev }
  in
  (match construct_state cfg with
   | Some p ->
     let (s, d) = p in
     let c = s.cnt in
     app ((S
       O) :: ((length d.d_parents) :: ((length d.d_indices) :: ((length
                                                                  d.d_secondary_counts) :: (
       (length d.d_vacancies) :: ((length d.d_track_counters) :: (d.d_initializers :: (
       (b2n (data_assigned d)) :: []))))))))
       (app
         (c.c_gen :: (c.c_init :: (c.c_vac :: (c.c_active :: (c.c_sec :: (c.c_alive :: []))))))
         (app (map (fun sl -> status_code sl.sst) s.slots)
           (app (map enc_opt d.d_parents)
             (app (map (fun x -> S x) d.d_vacancies) d.d_track_counters))))
   | None -> O :: [])
