(** * C07 — generated obligations on the shared-cell inventory *)
From Coq Require Import String List Bool.
From Celer Require Import Generated.C07_cells C07.Cells.
Import ListNotations.
Local Open Scope string_scope.

Lemma all_cells_guarded : all_cells_guarded_b = true.
Proof. vm_compute. reflexivity. Qed.

Lemma unguarded_cells_nil : unguarded_cells = [].
Proof. vm_compute. reflexivity. Qed.

Lemma guard_table_current : guard_table_current_b = true.
Proof. vm_compute. reflexivity. Qed.

Lemma debug_unguarded_is : debug_unguarded = [("celeritas/track/StatusChecker.cc", "StatusChecker::data_")].
Proof. vm_compute. reflexivity. Qed.

Lemma racy_reported_is : racy_reported = [].
Proof. vm_compute. reflexivity. Qed.

Lemma unsync_cells_not_used_per_stream : unsync_cells_not_used_per_stream_b = true.
Proof. vm_compute. reflexivity. Qed.

Lemma unsync_use_rows_current : unsync_use_rows_current_b = true.
Proof. vm_compute. reflexivity. Qed.
