(** * C07 — proofs about [Streams.v] *)
From Coq Require Import List Arith Permutation Lia.
From Celer Require Import C07.Streams.
Import ListNotations.

Section Proofs.
  Variables P S stream : Type.
  Variable sdec : forall a b : stream, {a = b} + {a <> b}.
  Variable stepf : P -> S -> S.
  Local Notation upd := (upd sdec).
  Local Notation run := (run sdec stepf).
  Local Notation count := (count sdec).
  Local Notation serial := (serial sdec).

  Lemma iter_succ_r : forall n (f : S -> S) s, iter (Datatypes.S n) f s = f (iter n f s).
  Proof. induction n as [|n IH]; intros f s; cbn; auto. rewrite <- IH. reflexivity. Qed.

  (** the final state of a stream depends only on how many steps IT took *)
  Theorem run_per_stream : forall p sched sigma j,
    run p sched sigma j = iter (count j sched) (stepf p) (sigma j).
  Proof.
    intros p sched. induction sched as [|i r IH]; intros sigma j; cbn; auto.
    unfold Streams.run in *. cbn. rewrite IH. unfold Streams.count. cbn.
    unfold step_stream, Streams.upd.
    destruct (sdec i j) as [->|Hne].
    - destruct (sdec j j); [|tauto]. reflexivity.
    - destruct (sdec j i); [congruence|]. reflexivity.
  Qed.

  Theorem interleaving_irrelevant : forall p s1 s2 sigma,
    (forall j, count j s1 = count j s2) -> forall j, run p s1 sigma j = run p s2 sigma j.
  Proof. intros p s1 s2 sigma H j. rewrite !run_per_stream, H. reflexivity. Qed.

  Lemma count_serial : forall streams sched j, NoDup streams -> In j streams ->
    count j (serial streams sched) = count j sched.
  Proof.
    intros streams sched j. unfold Streams.serial, Streams.count.
    induction streams as [|i r IH]; intros Hnd Hin; [destruct Hin|].
    inversion Hnd as [|? ? Hni Hnd']; subst. cbn. rewrite count_occ_app.
    destruct (sdec i j) as [->|Hne].
    - rewrite count_occ_repeat_eq by reflexivity.
      assert (Hz : count_occ sdec (flat_map (fun i => repeat i (count_occ sdec sched i)) r) j = 0).
      { apply count_occ_not_In. intro Hf. apply in_flat_map in Hf. destruct Hf as [x [Hx Hr]].
        apply repeat_spec in Hr. subst. tauto. }
      fold (Streams.count sdec) in *. unfold Streams.count in *. rewrite Hz. lia.
    - rewrite count_occ_repeat_neq by congruence. destruct Hin as [Heq|Hin]; [congruence|].
      cbn. apply IH; auto.
  Qed.

  (** every interleaving gives, for every stream, the state of the serial execution *)
  Theorem interleaving_equals_serial : forall p streams sched sigma,
    NoDup streams -> (forall i, In i sched -> In i streams) ->
    forall j, run p sched sigma j = run p (serial streams sched) sigma j.
  Proof.
    intros p streams sched sigma Hnd Hall j. rewrite !run_per_stream.
    destruct (in_dec sdec j streams) as [Hin|Hnin].
    - rewrite count_serial; auto.
    - assert (H1 : count j sched = 0).
      { apply count_occ_not_In. intro Hf. apply Hnin, Hall, Hf. }
      assert (H2 : count j (serial streams sched) = 0).
      { apply count_occ_not_In. intro Hf. unfold Streams.serial in Hf. apply in_flat_map in Hf.
        destruct Hf as [x [Hx Hr]]. apply repeat_spec in Hr. subst. tauto. }
      rewrite H1, H2. reflexivity.
  Qed.

  Corollary permuted_schedules_agree : forall p s1 s2 sigma,
    Permutation s1 s2 -> forall j, run p s1 sigma j = run p s2 sigma j.
  Proof.
    intros p s1 s2 sigma Hp. apply interleaving_irrelevant. intro j.
    unfold Streams.count. apply Permutation_count_occ; auto.
  Qed.

  (** ** events *)
  Variables Ev Out : Type.
  Variable transport : P -> Ev -> S -> Out * S.
  Local Notation run_events := (run_events sdec transport).

  Lemma exec_outs : forall p sched st e o,
    In (e, o) (snd (fold_left (exec sdec transport p) sched st)) ->
    In (e, o) (snd st) \/ exists s, o = fst (transport p e s).
  Proof.
    intros p sched. induction sched as [|[i e'] r IH]; intros st e o Hin; cbn in *; auto.
    apply IH in Hin. destruct Hin as [Hin|Hex]; auto.
    cbn in Hin. destruct Hin as [Heq|Hin]; auto.
    inversion Heq; subst. right. eauto.
  Qed.

  (** with C06's history independence, an event's result does not depend on
      the stream it was assigned to, on what that stream did before, or on
      the interleaving *)
  Theorem assignment_independence : forall p,
    (forall e s s', fst (transport p e s) = fst (transport p e s')) ->
    forall sched sigma e o s0,
      In (e, o) (snd (run_events p sched sigma)) -> o = fst (transport p e s0).
  Proof.
    intros p Hhist sched sigma e o s0 Hin. unfold Streams.run_events in Hin.
    apply exec_outs in Hin. destruct Hin as [[]|[s ->]]. apply Hhist.
  Qed.

  (** every scheduled event is reported exactly once *)
  Theorem events_reported : forall p sched sigma,
    map fst (snd (run_events p sched sigma)) = rev (map snd sched).
  Proof.
    intros p sched sigma. unfold Streams.run_events.
    assert (H : forall st, map fst (snd (fold_left (exec sdec transport p) sched st))
                           = rev (map snd sched) ++ map fst (snd st)).
    { induction sched as [|[i e] r IH]; intros st; cbn; auto.
      rewrite IH. cbn. rewrite <- app_assoc. reflexivity. }
    rewrite H. cbn. apply app_nil_r.
  Qed.
End Proofs.

(** the hypotheses are satisfiable: two streams adding a shared constant *)
Example two_streams_example :
  run Nat.eq_dec (fun p s => p + s) 3 [0; 1; 1; 0; 1] (fun _ => 0) 1 = 9
  /\ run Nat.eq_dec (fun p s => p + s) 3 (serial Nat.eq_dec [0; 1] [0; 1; 1; 0; 1]) (fun _ => 0) 1 = 9.
Proof. split; reflexivity. Qed.
