(** * C07 — proofs about the per-stream stores: stream i never aliases stream j *)
From Coq Require Import List Arith Lia.
From Celer Require Import C07.Streams C07.StreamsProofs C07.Stores.
Import ListNotations.

Section StoresProofs.
  Variable C : Type.

  Lemma set_nth_length : forall i (v : C) l, length (set_nth C i v l) = length l.
  Proof. intros i v l. revert i. induction l as [|x r IH]; intros [|i]; cbn; auto. Qed.
  Lemma set_nth_same : forall i (v : C) l d, i < length l -> nth i (set_nth C i v l) d = v.
  Proof. intros i v l d. revert i. induction l as [|x r IH]; intros [|i] H; cbn in *; try lia; auto. apply IH; lia. Qed.
  Lemma set_nth_other : forall i j (v : C) l d, i <> j -> nth i (set_nth C j v l) d = nth i l d.
  Proof. intros i j v l d. revert i j. induction l as [|x r IH]; intros [|i] [|j] H; cbn; auto; try lia. Qed.

  (** a step of stream [i] on the shared vector succeeds exactly when the
      CELER_EXPECT holds, and then it is the function update of Streams.v:
      every other stream's entry is untouched (no aliasing) *)
  Theorem ss_step_refines : forall (f : C -> C) (d : C) mem i,
    i < length mem ->
    exists mem', ss_step C f mem i = Some mem'
      /\ length mem' = length mem
      /\ forall j, ss_abs C d mem' j = upd Nat.eq_dec (ss_abs C d mem) i (f (ss_abs C d mem i)) j.
  Proof.
    intros f d mem i Hi. unfold ss_step, ss_index.
    assert (Hlt : (i <? length mem) = true) by (apply Nat.ltb_lt; auto). rewrite Hlt.
    destruct (nth_error mem i) as [c|] eqn:E; [|apply nth_error_None in E; lia].
    eexists. split; [reflexivity|]. split; [apply set_nth_length|].
    intro j. unfold ss_abs, upd. destruct (Nat.eq_dec j i) as [->|Hne].
    - rewrite set_nth_same by auto. f_equal. symmetry. apply nth_error_nth with (d := d) in E. exact E.
    - apply set_nth_other; auto.
  Qed.

  Theorem ss_step_error : forall (f : C -> C) mem i, length mem <= i -> ss_step C f mem i = None.
  Proof.
    intros f mem i Hi. unfold ss_step, ss_index.
    assert (Hlt : (i <? length mem) = false) by (apply Nat.ltb_ge; auto). rewrite Hlt. reflexivity.
  Qed.

  (** a whole interleaving on the shared vector refines [run] of Streams.v;
      the only hypothesis is the range obligation of every access *)
  Theorem ss_run_refines : forall (f : C -> C) (d : C) sched mem,
    (forall i, In i sched -> i < length mem) ->
    exists mem', ss_run C f sched mem = Some mem'
      /\ length mem' = length mem
      /\ forall j, ss_abs C d mem' j = run Nat.eq_dec (fun (_ : unit) => f) tt sched (ss_abs C d mem) j.
  Proof.
    intros f d sched. induction sched as [|i r IH]; intros mem H.
    - exists mem. repeat split; auto.
    - destruct (ss_step_refines f d mem i (H i (or_introl eq_refl))) as [m1 [E1 [L1 A1]]].
      destruct (IH m1) as [m2 [E2 [L2 A2]]].
      { intros k Hk. rewrite L1. apply H. right; auto. }
      exists m2. cbn [ss_run]. rewrite E1. split; [exact E2|]. split; [lia|].
      intro j. rewrite A2. unfold run. cbn [fold_left]. unfold step_stream at 2.
      assert (Hext : forall sg sg' : nat -> C, (forall k, sg k = sg' k) ->
                forall sch k, fold_left (step_stream Nat.eq_dec (fun _ : unit => f) tt) sch sg k
                              = fold_left (step_stream Nat.eq_dec (fun _ : unit => f) tt) sch sg' k).
      { clear. intros sg sg' Hs sch. revert sg sg' Hs. induction sch as [|a sch IHs]; intros sg sg' Hs k; cbn; [auto|].
        apply IHs. intro k'. unfold step_stream, upd. destruct (Nat.eq_dec k' a); [rewrite Hs; auto|auto]. }
      apply Hext. exact A1.
  Qed.

  (** hence: every interleaving on the shared StreamStore vector equals the
      serial execution, with the disjointness of the streams' cells DERIVED
      from the index model instead of assumed *)
  Theorem ss_interleaving_equals_serial : forall (f : C -> C) (d : C) streams sched mem,
    NoDup streams -> (forall i, In i sched -> In i streams) -> (forall i, In i streams -> i < length mem) ->
    exists m1 m2, ss_run C f sched mem = Some m1
      /\ ss_run C f (serial Nat.eq_dec streams sched) mem = Some m2
      /\ forall j, ss_abs C d m1 j = ss_abs C d m2 j.
  Proof.
    intros f d streams sched mem Hnd Hin Hlen.
    destruct (ss_run_refines f d sched mem) as [m1 [E1 [_ A1]]]; [intros; auto|].
    destruct (ss_run_refines f d (serial Nat.eq_dec streams sched) mem) as [m2 [E2 [_ A2]]].
    { intros i Hi. unfold serial in Hi. apply in_flat_map in Hi. destruct Hi as [x [Hx Hr]].
      apply repeat_spec in Hr. subst. auto. }
    exists m1, m2. split; [exact E1|]. split; [exact E2|].
    intro j. rewrite A1, A2. apply interleaving_equals_serial; auto.
  Qed.
End StoresProofs.

Section AuxProofs.
  Variable A : Type.

  (** AuxStateVec: a write to (stream i, aux a) is seen at (i, a) and nowhere else *)
  Theorem aux_set_get : forall (mem : aux_mem A) i a v mem',
    aux_set A mem i a v = Some mem' ->
    forall j b, aux_get A mem' j b = if (Nat.eqb j i && Nat.eqb b a)%bool then Some v else aux_get A mem j b.
  Proof.
    intros mem i a v mem' H j b. unfold aux_set in H.
    destruct (nth_error mem i) as [vec|] eqn:Ei; [|discriminate].
    destruct (a <? length vec) eqn:Ea; [|discriminate]. inversion H; subst mem'; clear H.
    apply Nat.ltb_lt in Ea.
    assert (Hi : i < length mem) by (apply nth_error_Some; congruence).
    unfold aux_get. destruct (Nat.eqb j i) eqn:Eji; cbn [andb].
    - apply Nat.eqb_eq in Eji. subst j.
      assert (E1 : nth_error (set_nth (list A) i (set_nth A a v vec) mem) i = Some (set_nth A a v vec)).
      { rewrite (nth_error_nth' _ (set_nth A a v vec)) by (rewrite set_nth_length; auto).
        rewrite set_nth_same by auto. reflexivity. }
      rewrite E1, Ei, set_nth_length.
      destruct (b <? length vec) eqn:Eb; [|destruct (Nat.eqb b a) eqn:Eba; [apply Nat.eqb_eq in Eba; subst; apply Nat.ltb_ge in Eb; lia|reflexivity]].
      apply Nat.ltb_lt in Eb.
      destruct (Nat.eqb b a) eqn:Eba.
      + apply Nat.eqb_eq in Eba. subst b.
        rewrite (nth_error_nth' _ v) by (rewrite set_nth_length; auto). rewrite set_nth_same by auto. reflexivity.
      + apply Nat.eqb_neq in Eba.
        rewrite (nth_error_nth' _ v) by (rewrite set_nth_length; auto).
        rewrite (nth_error_nth' vec v) by auto. rewrite set_nth_other by auto. reflexivity.
    - apply Nat.eqb_neq in Eji.
      destruct (Nat.lt_ge_cases j (length mem)) as [Hj|Hj].
      + rewrite (nth_error_nth' _ vec) by (rewrite set_nth_length; auto).
        rewrite (nth_error_nth' mem vec) by auto. rewrite set_nth_other by auto. reflexivity.
      + assert (E1 : nth_error (set_nth (list A) i (set_nth A a v vec) mem) j = None)
          by (apply nth_error_None; rewrite set_nth_length; auto).
        assert (E2 : nth_error mem j = None) by (apply nth_error_None; auto).
        rewrite E1, E2. reflexivity.
  Qed.

  (** in particular stream [j <> i] sees none of stream [i]'s writes *)
  Corollary aux_streams_disjoint : forall (mem : aux_mem A) i a v mem' j b,
    aux_set A mem i a v = Some mem' -> j <> i -> aux_get A mem' j b = aux_get A mem j b.
  Proof.
    intros mem i a v mem' j b H Hne. rewrite (aux_set_get mem i a v mem' H).
    apply Nat.eqb_neq in Hne. rewrite Hne. reflexivity.
  Qed.

  (** the constructor gives every aux id of the registry an entry *)
  Theorem aux_construct_complete : forall (create : nat -> nat -> A) stream naux a,
    a < naux -> nth_error (aux_construct A create stream naux) a = Some (create stream a).
  Proof.
    intros create stream naux a Ha. unfold aux_construct.
    rewrite nth_error_map, nth_error_nth' with (d := 0) by (rewrite seq_length; auto).
    rewrite seq_nth by auto. reflexivity.
  Qed.

  (** flat addresses: distinct (stream, aux) pairs have distinct addresses *)
  Theorem flat_index_inj : forall naux i a j b,
    a < naux -> b < naux -> flat_index naux i a = flat_index naux j b -> i = j /\ a = b.
  Proof. unfold flat_index. intros naux i a j b Ha Hb H. assert (i = j) by nia. subst. split; [reflexivity|lia]. Qed.
End AuxProofs.

(** ** non-vacuity *)
Example ex_ss_run :
  ss_run nat S [1; 0; 1; 2; 1] [10; 20; 30] = Some [11; 23; 31]
  /\ ss_run nat S (serial Nat.eq_dec [0; 1; 2] [1; 0; 1; 2; 1]) [10; 20; 30] = Some [11; 23; 31]
  /\ ss_run nat S [3] [10; 20; 30] = None.
Proof. repeat split. Qed.

Example ex_aux :
  aux_set nat [[1; 2]; [3; 4]] 1 0 9 = Some [[1; 2]; [9; 4]]
  /\ aux_get nat [[1; 2]; [9; 4]] 0 0 = Some 1
  /\ aux_set nat [[1; 2]; [3; 4]] 1 2 9 = None.
Proof. repeat split. Qed.
