(** * C07 — index model of the per-stream stores (definitions only)

    - [StreamStore<P,S>] (src/corecel/data/StreamStore.hh): a vector of per-stream
      state stores, [state_vec[stream_id.unchecked_get()]]; the guard
      [CELER_EXPECT(stream_id < num_streams_)] is compiled out (CELERITAS_DEBUG=0),
      so an out-of-range stream id is an explicit error value here.
    - [AuxStateVec] (src/corecel/data/AuxStateVec.{hh,cc}): one vector per
      CoreState (= per stream), [*states_[id.unchecked_get()]] indexed by AuxId,
      built with one entry for EVERY aux id of the registry.
    - the memory of all streams is a vector of vectors; [flat_index] is the
      equivalent flat address stream * naux + aux. *)
From Coq Require Import List Arith.
Import ListNotations.

Section Stores.
  Variable C : Type.          (* contents of one cell (a state store / aux state) *)

  Fixpoint set_nth (i : nat) (v : C) (l : list C) : list C :=
    match l, i with
    | [], _ => []
    | _ :: r, 0 => v :: r
    | x :: r, S i' => x :: set_nth i' v r
    end.

  (** ** StreamStore: vector indexed by StreamId *)
  Definition ss_index (nstreams stream : nat) : option nat :=
    if stream <? nstreams then Some stream else None.
  (** read / update of stream [i]'s entry; [None] = the CELER_EXPECT site *)
  Definition ss_get (mem : list C) (i : nat) : option C :=
    match ss_index (length mem) i with Some k => nth_error mem k | None => None end.
  Definition ss_step (f : C -> C) (mem : list C) (i : nat) : option (list C) :=
    match ss_index (length mem) i with
    | Some k => match nth_error mem k with Some c => Some (set_nth k (f c) mem) | None => None end
    | None => None
    end.
  (** an interleaving of per-stream steps on the shared vector *)
  Fixpoint ss_run (f : C -> C) (sched : list nat) (mem : list C) : option (list C) :=
    match sched with
    | [] => Some mem
    | i :: r => match ss_step f mem i with Some m' => ss_run f r m' | None => None end
    end.
  (** the abstraction to the [stream -> S] function of Streams.v *)
  Definition ss_abs (d : C) (mem : list C) : nat -> C := fun j => nth j mem d.
End Stores.

Section Aux.
  Variable A : Type.          (* one auxiliary state *)
  (** memory of all streams: outer index = stream (each CoreState owns its
      AuxStateVec), inner index = AuxId *)
  Definition aux_mem := list (list A).
  (** AuxStateVec::at(id) of the CoreState of [stream] *)
  Definition aux_get (mem : aux_mem) (stream aux : nat) : option A :=
    match nth_error mem stream with
    | Some vec => if aux <? length vec then nth_error vec aux else None     (* CELER_EXPECT(id < states_.size()) *)
    | None => None
    end.
  Definition aux_set (mem : aux_mem) (stream aux : nat) (v : A) : option aux_mem :=
    match nth_error mem stream with
    | Some vec => if aux <? length vec then Some (set_nth (list A) stream (set_nth A aux v vec) mem) else None
    | None => None
    end.
  (** the AuxStateVec constructor: one state per aux id of the registry *)
  Definition aux_construct (create : nat -> nat -> A) (stream naux : nat) : list A :=
    map (create stream) (seq 0 naux).
  (** flat address of (stream, aux) when every stream has [naux] entries *)
  Definition flat_index (naux stream aux : nat) : nat := stream * naux + aux.
End Aux.
