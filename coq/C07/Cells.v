(** * C07 — hand-reviewed guard table for the shared-mutable-cell inventory

    [Generated/C07_cells.v] (translators/shared_mutable.py, regenerated from
    /repo's current sources on every run) lists every `mutable` member, every
    non-const function-local / class / namespace-scope static, every member
    assigned in an action's begin_run, and every const_cast in
    src/{corecel,celeritas,orange,geocel}.  This table says, for each
    (file, identifier), why concurrent streams cannot race on it.  It is a
    REVIEW RECORD, not a proof: the obligation only checks that nothing is
    missing from it ([all_cells_guarded]) and that it has no stale rows
    ([guard_table_current]).  The dynamic side is the ThreadSanitizer run. *)
From Coq Require Import String List Bool.
From Celer Require Import Generated.C07_cells.
Import ListNotations.
Local Open Scope string_scope.

Inductive guard :=
| GMutex          (* every access under a std::mutex (or it is the mutex) *)
| GPerStream      (* indexed by StreamId; a stream touches only its own element *)
| GAtomic         (* std::atomic / sig_atomic_t / atomic_add *)
| GInitOnce       (* function-local static with C++11 thread-safe initialisation, not written afterwards *)
| GSetupOnly      (* written only while the problem is set up, before any stream exists *)
| GReadOnlyUse    (* non-const by declaration but never written after initialisation *)
| GNotInBuild     (* device / Geant4 / ROOT / VecGeom code that this build does not compile or cannot reach *)
| GConstruction   (* const_cast used to build a reference/copy of per-stream data while it is constructed *)
| GDebugUnguarded (* NOT guarded; test/debug-only tool that production front ends never attach *)
| GRacyReported   (* NOT properly guarded: reported finding awaiting repair (none at present) *).

Definition row := (string * string * guard * string)%type.

Definition guard_table : list row :=
  [ ("corecel/data/CollectionStateStore.hh", "const_cast<S<W2, M2>&>", GConstruction,
     "copy-construction of a state store from another memspace; the source is the caller's own per-stream store");
    ("corecel/data/Ref.hh", "const_cast<CG<W, M>&>", GConstruction,
     "make_ref/make_const_ref build reference structs by assignment; nothing is written through the cast");
    ("corecel/data/DeviceAllocation.cc", "warn_count", GNotInBuild,
     "counter in the failure path of a device free; no device in this build");
    ("corecel/io/Logger.cc", "log_mutex", GMutex, "the mutex of default_global_handler");
    ("corecel/io/Logger.cc", "logger", GInitOnce,
     "world_logger()/self_logger() function-local statics; level and handler are only changed during setup");
    ("corecel/sys/Device.cc", "device", GInitOnce, "global_device() function-local static; activate_device() only during setup");
    ("corecel/sys/Device.cc", "m", GMutex, "mutex serialising activate_device");
    ("corecel/sys/Environment.cc", "mu", GMutex, "getenv_mutex(): every celeritas::getenv goes through it");
    ("corecel/sys/Environment.cc", "result", GMutex, "environment() map, accessed under getenv_mutex by celeritas::getenv");
    ("corecel/sys/KernelRegistry.cc", "kr", GInitOnce, "kernel_registry() function-local static; insert() locks kernels_mutex_");
    ("corecel/sys/KernelRegistry.hh", "kernels_mutex_", GMutex, "the registry's mutex (mutable so that const accessors can lock)");
    ("corecel/sys/MemRegistry.cc", "mr", GSetupOnly, "mem_registry(): ScopedMem is used only in *Params constructors");
    ("corecel/sys/MpiCommunicator.cc", "comm", GInitOnce, "comm_world() function-local static, never assigned afterwards");
    ("corecel/sys/ScopedMpiInit.cc", "status_", GSetupOnly,
     "set by the first ScopedMpiInit::status() call, which happens on the main thread when the first message is logged / params are built");
    ("corecel/sys/ScopedMpiInit.hh", "status_", GSetupOnly, "declaration of the above");
    ("corecel/sys/ScopedProfiling.cuda.cc", "registry", GNotInBuild, "CUDA only");
    ("corecel/sys/ScopedProfiling.cuda.cc", "mutex", GNotInBuild, "CUDA only");
    ("corecel/sys/ScopedProfiling.cuda.cc", "num_warnings", GNotInBuild, "CUDA only");
    ("corecel/sys/ScopedSignalHandler.cc", "g_celer_signal_bits_", GAtomic, "volatile sig_atomic_t signal flags");
    ("corecel/sys/Stream.cc", "warn_count", GNotInBuild, "failure path of the device async memory resource");
    ("corecel/sys/detail/MpiType.hh", "value", GReadOnlyUse, "MPI datatype constants (static inline, never assigned)");
    ("celeritas/TypesIO.json.cc", "old_names", GReadOnlyUse, "lookup table for deprecated TrackOrder names; JSON input parsing at setup");
    ("celeritas/ext/GeantImporter.cc", "const_cast<G4GammaGeneralProcess*>", GNotInBuild, "Geant4 disabled");
    ("celeritas/ext/GeantSetup.cc", "geant_launch_count", GNotInBuild, "Geant4 disabled");
    ("celeritas/ext/RootExporter.cc", "const_cast<ImportData*>", GNotInBuild, "ROOT disabled");
    ("celeritas/ext/ScopedRootErrorHandler.cc", "g_has_root_errored_", GNotInBuild, "ROOT disabled");
    ("celeritas/ext/detail/GeantMaterialPropertyGetter.hh", "const_cast<MPT&>", GNotInBuild, "Geant4 disabled");
    ("celeritas/ext/detail/GeantMicroXsCalculator.cc", "const_cast<G4VEmModel&>", GNotInBuild, "Geant4 disabled");
    ("celeritas/ext/detail/GeantModelImporter.cc", "const_cast<G4VEmModel&>", GNotInBuild, "Geant4 disabled");
    ("celeritas/phys/PrimaryGeneratorOptionsIO.json.cc", "from_string", GReadOnlyUse, "string->enum mapper built once, only called afterwards; input parsing at setup");
    ("celeritas/track/StatusChecker.cc", "StatusChecker::data_", GDebugUnguarded,
     "begin_run_impl re-assigns data_ for EVERY Stepper that is constructed, without a lock, while other streams' step() read ref(); the checker is only inserted by the unit-test harness (GlobalTestBase), never by celer-sim/accel, and is not attached in the concurrent harness");
    ("celeritas/user/ActionDiagnostic.cc", "initialize_mutex", GMutex, "guards the lazy construction of store_ in begin_run_impl");
    ("celeritas/user/ActionDiagnostic.cc", "ActionDiagnostic::action_reg_", GMutex, "assigned under initialize_mutex, once");
    ("celeritas/user/ActionDiagnostic.cc", "ActionDiagnostic::particle_", GMutex, "assigned under initialize_mutex, once");
    ("celeritas/user/ActionDiagnostic.cc", "ActionDiagnostic::store_", GMutex,
     "tested and assigned under initialize_mutex, once (since repair 63841d1 the lock is taken BEFORE the first test; the former double-checked locking was finding F-C07-1)");
    ("celeritas/user/ActionDiagnostic.hh", "store_", GPerStream,
     "StreamStore: step() creates/accesses only the element of its own StreamId");
    ("celeritas/user/StepDiagnostic.hh", "store_", GPerStream,
     "StreamStore constructed in the constructor; step() creates/accesses only the element of its own StreamId");
    ("orange/g4org/PhysicalVolumeConverter.cc", "const_cast<G4VPhysicalVolume*>", GNotInBuild, "Geant4 disabled");
    ("orange/g4org/SolidConverter.cc", "const_cast<G4VSolid&>", GNotInBuild, "Geant4 disabled");
    ("orange/orangeinp/IntersectRegion.cc", "names", GReadOnlyUse, "array of two string literals used to build labels during geometry construction");
    ("geocel/GeantGeoUtils.cc", "temp_writer", GNotInBuild, "Geant4 disabled");
    ("geocel/GeantGeoUtils.cc", "const_cast<GeantTouchableBase&>", GNotInBuild, "Geant4 disabled");
    ("geocel/GeantGeoUtils.cc", "const_cast<std::vector<G4Isotope*>*>", GNotInBuild, "Geant4 disabled");
    ("geocel/GeantGeoUtils.cc", "const_cast<G4LogicalVolume*>", GNotInBuild, "Geant4 disabled");
    ("geocel/ScopedGeantLogger.cc", "g_adapter_active_", GNotInBuild, "Geant4 disabled");
    ("geocel/g4/GeantGeoParams.cc", "const_cast<G4VPhysicalVolume*>", GNotInBuild, "Geant4 disabled");
    ("geocel/g4vg/Converter.cc", "const_cast<G4LogicalVolume*>", GNotInBuild, "Geant4/VecGeom disabled");
    ("geocel/g4vg/SolidConverter.cc", "const_cast<G4VSolid&>", GNotInBuild, "Geant4/VecGeom disabled");
    ("geocel/rasterize/ImageWriter.libpng.cc", "software_key", GReadOnlyUse, "char arrays handed to libpng's text chunk (its API wants non-const); image output only");
    ("geocel/rasterize/ImageWriter.libpng.cc", "software_str", GReadOnlyUse, "as software_key");
    ("geocel/vg/detail/VecgeomNavCollection.hh", "const_cast<NavState*>", GNotInBuild, "VecGeom disabled")
  ].

Definition cell_key (c : string * string * string) : string * string := (fst (fst c), snd (fst c)).
Definition row_key (r : row) : string * string := (fst (fst (fst r)), snd (fst (fst r))).
Definition key_eqb (a b : string * string) : bool := String.eqb (fst a) (fst b) && String.eqb (snd a) (snd b).

Definition lookup (k : string * string) : option guard :=
  match find (fun r => key_eqb (row_key r) k) guard_table with
  | Some r => Some (snd (fst r))
  | None => None
  end.

Definition unguarded_cells : list (string * string * string) :=
  filter (fun c => match lookup (cell_key c) with Some _ => false | None => true end) cells.
Definition all_cells_guarded_b : bool :=
  forallb (fun c => match lookup (cell_key c) with Some _ => true | None => false end) cells.
Definition stale_rows : list (string * string) :=
  map row_key (filter (fun r => negb (existsb (fun c => key_eqb (cell_key c) (row_key r)) cells)) guard_table).
Definition guard_table_current_b : bool :=
  forallb (fun r => existsb (fun c => key_eqb (cell_key c) (row_key r)) cells) guard_table.
Definition racy_reported : list (string * string) :=
  map row_key (filter (fun r => match snd (fst r) with GRacyReported => true | _ => false end) guard_table).
(** the only cells accepted as NOT guarded are debug-only tools *)
Definition debug_unguarded : list (string * string) :=
  map row_key (filter (fun r => match snd (fst r) with GDebugUnguarded => true | _ => false end) guard_table).

(** ** use sites of the writers of UNSYNCHRONISED global cells

    The cells of class [GSetupOnly] (MemRegistry, ScopedMpiInit status, logger
    handles, device activation) and the Environment map when it is accessed
    directly are safe only because nothing on a per-stream path touches them.
    [unsync_uses] (translator) lists every call site in src/ of the accessor
    functions / RAII classes that write them, with its enclosing function and
    a flag "the enclosing function is on a per-stream path" (CoreState /
    Stepper / AuxStateVec / StreamStore / state-store construction, resize of
    state data, step / begin_run / create_state / process_steps / executors).
    Every site must be reviewed here, keyed by (file, function, api), and NO
    site may carry the per-stream flag: a new use on a per-stream path (or
    anywhere else) breaks [unsync_cells_not_used_per_stream]. *)
Definition unsync_use_reviewed : list (string * string * string * string) :=
  [
    ("corecel/sys/Device.cc", "activate_device", "activate_device",
     "activate_device overloads delegating to each other; device activation happens once at start-up, serialised by a mutex");
    ("corecel/sys/Environment.cc", "getenv", "environment()",
     "holds getenv_mutex (std::scoped_lock) around the access");
    ("corecel/sys/Environment.cc", "getenv_flag", "environment()",
     "holds getenv_mutex (std::scoped_lock) around the access");
    ("corecel/sys/KernelParamCalculator.device.cc", "KernelParamCalculator::register_kernel", "kernel_registry()",
     "device only; KernelRegistry::insert locks kernels_mutex_");
    ("corecel/sys/ScopedMem.hh", "(class scope) ScopedMem", "ScopedMem",
     "the RAII class itself (default registry argument / delegating constructor)");
    ("corecel/sys/ScopedMem.hh", "ScopedMem::ScopedMem", "mem_registry()",
     "the RAII class itself (default registry argument / delegating constructor)");
    ("celeritas/em/model/SeltzerBergerModel.cc", "SeltzerBergerModel::SeltzerBergerModel", "ScopedMem",
     "constructor / builder of shared problem data: runs once on the setup thread before any stream exists");
    ("celeritas/em/params/AtomicRelaxationParams.cc", "AtomicRelaxationParams::AtomicRelaxationParams", "ScopedMem",
     "constructor / builder of shared problem data: runs once on the setup thread before any stream exists");
    ("celeritas/em/params/UrbanMscParams.cc", "UrbanMscParams::UrbanMscParams", "ScopedMem",
     "constructor / builder of shared problem data: runs once on the setup thread before any stream exists");
    ("celeritas/em/params/WentzelOKVIParams.cc", "WentzelOKVIParams::WentzelOKVIParams", "ScopedMem",
     "constructor / builder of shared problem data: runs once on the setup thread before any stream exists");
    ("celeritas/em/params/WentzelVIMscParams.cc", "WentzelVIMscParams::WentzelVIMscParams", "ScopedMem",
     "constructor / builder of shared problem data: runs once on the setup thread before any stream exists");
    ("celeritas/ext/GeantImporter.cc", "GeantImporter::operator()", "ScopedMem",
     "Geant4 / ROOT / VecGeom code, not compiled in this build; import / geometry conversion at setup");
    ("celeritas/ext/GeantSetup.cc", "GeantSetup::GeantSetup", "ScopedMem",
     "Geant4 / ROOT / VecGeom code, not compiled in this build; import / geometry conversion at setup");
    ("celeritas/ext/RootExporter.cc", "RootExporter::RootExporter", "ScopedMem",
     "Geant4 / ROOT / VecGeom code, not compiled in this build; import / geometry conversion at setup");
    ("celeritas/ext/RootExporter.cc", "RootExporter::operator()", "ScopedMem",
     "Geant4 / ROOT / VecGeom code, not compiled in this build; import / geometry conversion at setup");
    ("celeritas/ext/RootFileManager.cc", "RootFileManager::RootFileManager", "ScopedMem",
     "Geant4 / ROOT / VecGeom code, not compiled in this build; import / geometry conversion at setup");
    ("celeritas/ext/RootImporter.cc", "RootImporter::RootImporter", "ScopedMem",
     "Geant4 / ROOT / VecGeom code, not compiled in this build; import / geometry conversion at setup");
    ("celeritas/ext/RootImporter.cc", "RootImporter::operator()", "ScopedMem",
     "Geant4 / ROOT / VecGeom code, not compiled in this build; import / geometry conversion at setup");
    ("celeritas/geo/GeoMaterialParams.cc", "GeoMaterialParams::GeoMaterialParams", "ScopedMem",
     "constructor / builder of shared problem data: runs once on the setup thread before any stream exists");
    ("celeritas/global/CoreParams.cc", "CoreParams::CoreParams", "ScopedMem",
     "CoreParams constructor: once, before any stream exists");
    ("celeritas/global/CoreParams.cc", "CoreParams::CoreParams", "kernel_registry()",
     "CoreParams constructor registers the registry as an OUTPUT interface by const reference (read at output time, after the run)");
    ("celeritas/global/CoreParams.cc", "CoreParams::CoreParams", "mem_registry()",
     "CoreParams constructor registers the registry as an OUTPUT interface by const reference (read at output time, after the run)");
    ("celeritas/global/CoreParams.cc", "CoreParams::CoreParams", "environment()",
     "CoreParams constructor registers the registry as an OUTPUT interface by const reference (read at output time, after the run)");
    ("celeritas/mat/MaterialParams.cc", "MaterialParams::MaterialParams", "ScopedMem",
     "constructor / builder of shared problem data: runs once on the setup thread before any stream exists");
    ("celeritas/optical/CoreParams.cc", "CoreParams::CoreParams", "ScopedMem",
     "constructor / builder of shared problem data: runs once on the setup thread before any stream exists");
    ("celeritas/phys/CutoffParams.cc", "CutoffParams::CutoffParams", "ScopedMem",
     "constructor / builder of shared problem data: runs once on the setup thread before any stream exists");
    ("celeritas/phys/ParticleParams.cc", "ParticleParams::ParticleParams", "ScopedMem",
     "constructor / builder of shared problem data: runs once on the setup thread before any stream exists");
    ("celeritas/phys/PhysicsParams.cc", "PhysicsParams::PhysicsParams", "ScopedMem",
     "constructor / builder of shared problem data: runs once on the setup thread before any stream exists");
    ("orange/OrangeParams.cc", "OrangeParams::OrangeParams", "ScopedMem",
     "constructor / builder of shared problem data: runs once on the setup thread before any stream exists");
    ("orange/g4org/PhysicalVolumeConverter.cc", "PhysicalVolumeConverter::operator()", "ScopedMem",
     "Geant4 / ROOT / VecGeom code, not compiled in this build; import / geometry conversion at setup");
    ("orange/orangeinp/InputBuilder.cc", "InputBuilder::operator()", "ScopedMem",
     "constructor / builder of shared problem data: runs once on the setup thread before any stream exists");
    ("geocel/GeantGeoUtils.cc", "load_geant_geometry_impl", "ScopedMem",
     "Geant4 / ROOT / VecGeom code, not compiled in this build; import / geometry conversion at setup");
    ("geocel/GeantGeoUtils.cc", "write_geant_geometry", "ScopedMem",
     "Geant4 / ROOT / VecGeom code, not compiled in this build; import / geometry conversion at setup");
    ("geocel/g4/GeantGeoParams.cc", "GeantGeoParams::GeantGeoParams", "ScopedMem",
     "Geant4 / ROOT / VecGeom code, not compiled in this build; import / geometry conversion at setup");
    ("geocel/g4/GeantGeoParams.cc", "GeantGeoParams::build_metadata", "ScopedMem",
     "Geant4 / ROOT / VecGeom code, not compiled in this build; import / geometry conversion at setup");
    ("geocel/g4vg/Converter.cc", "Converter::operator()", "ScopedMem",
     "Geant4 / ROOT / VecGeom code, not compiled in this build; import / geometry conversion at setup");
    ("geocel/vg/VecgeomParams.cc", "VecgeomParams::VecgeomParams", "ScopedMem",
     "Geant4 / ROOT / VecGeom code, not compiled in this build; import / geometry conversion at setup");
    ("geocel/vg/VecgeomParams.cc", "VecgeomParams::build_volumes_vgdml", "ScopedMem",
     "Geant4 / ROOT / VecGeom code, not compiled in this build; import / geometry conversion at setup");
    ("geocel/vg/VecgeomParams.cc", "VecgeomParams::build_tracking", "ScopedMem",
     "Geant4 / ROOT / VecGeom code, not compiled in this build; import / geometry conversion at setup");
    ("geocel/vg/VecgeomParams.cc", "VecgeomParams::build_data", "ScopedMem",
     "Geant4 / ROOT / VecGeom code, not compiled in this build; import / geometry conversion at setup");
    ("geocel/vg/VecgeomParams.cc", "VecgeomParams::build_metadata", "ScopedMem",
     "Geant4 / ROOT / VecGeom code, not compiled in this build; import / geometry conversion at setup")
  ].
Definition use_key (u : string * string * string * bool) : string * string * string := fst u.
Definition key3_eqb (a b : string * string * string) : bool :=
  String.eqb (fst (fst a)) (fst (fst b)) && String.eqb (snd (fst a)) (snd (fst b)) && String.eqb (snd a) (snd b).
Definition use_reviewed (u : string * string * string * bool) : bool :=
  existsb (fun r => key3_eqb (fst r) (use_key u)) unsync_use_reviewed.
Definition unsync_cells_not_used_per_stream_b : bool :=
  forallb (fun u => use_reviewed u && negb (snd u)) unsync_uses.
Definition unsync_uses_offending : list (string * string * string * bool) :=
  filter (fun u => negb (use_reviewed u && negb (snd u))) unsync_uses.
Definition unsync_use_rows_current_b : bool :=
  forallb (fun r => existsb (fun u => key3_eqb (fst r) (use_key u)) unsync_uses) unsync_use_reviewed.
