(** * C07 — streams sharing immutable parameters (model; proofs in StreamsProofs.v)

    A system is [params x (stream -> state)].  One step of stream [i] reads the
    shared parameters and stream [i]'s own state and replaces stream [i]'s
    state: [step_stream].  An interleaving is the list of stream ids in the
    order in which their steps happen to be executed.

    What this model cannot express is a data race: that a step of stream [i]
    touches only index [i] and that the parameters are never written is the
    SHAPE of [step_stream]; it is tied to the code by the shared-mutable-cell
    inventory (translators/shared_mutable.py, obligation [all_cells_guarded])
    and by the ThreadSanitizer runs, not proved. *)
From Coq Require Import List Arith.
Import ListNotations.
Set Implicit Arguments.

Section Streams.
  Variables P S stream : Type.
  Variable sdec : forall a b : stream, {a = b} + {a <> b}.

  Definition upd (sigma : stream -> S) (i : stream) (s : S) : stream -> S :=
    fun j => if sdec j i then s else sigma j.

  (** ** step granularity *)
  Variable stepf : P -> S -> S.
  Definition step_stream (p : P) (sigma : stream -> S) (i : stream) : stream -> S :=
    upd sigma i (stepf p (sigma i)).
  Definition run (p : P) (sched : list stream) (sigma : stream -> S) : stream -> S :=
    fold_left (step_stream p) sched sigma.
  Fixpoint iter (n : nat) (f : S -> S) (s : S) : S :=
    match n with O => s | Datatypes.S k => iter k f (f s) end.
  Definition count (j : stream) (sched : list stream) : nat := count_occ sdec sched j.
  (** the serial schedule: every stream of [streams] runs all its steps, one stream after the other *)
  Definition serial (streams : list stream) (sched : list stream) : list stream :=
    flat_map (fun i => repeat i (count i sched)) streams.

  (** ** event granularity: schedule entries (stream, event) *)
  Variables Ev Out : Type.
  Variable transport : P -> Ev -> S -> Out * S.      (* reseed + all steps of the event *)
  Definition exec (p : P) (st : (stream -> S) * list (Ev * Out)) (ie : stream * Ev)
    : (stream -> S) * list (Ev * Out) :=
    let r := transport p (snd ie) (fst st (fst ie)) in
    (upd (fst st) (fst ie) (snd r), (snd ie, fst r) :: snd st).
  Definition run_events (p : P) (sched : list (stream * Ev)) (sigma : stream -> S) :=
    fold_left (exec p) sched (sigma, []).
End Streams.
