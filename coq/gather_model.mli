
val negb : bool -> bool

type nat =
| O
| S of nat

val fst : ('a1 * 'a2) -> 'a1

val snd : ('a1 * 'a2) -> 'a2

val length : 'a1 list -> nat

type comparison =
| Eq
| Lt
| Gt

val compOpp : comparison -> comparison

val add : nat -> nat -> nat

module Nat :
 sig
  val eqb : nat -> nat -> bool
 end

val nth_error : 'a1 list -> nat -> 'a1 option

val map : ('a1 -> 'a2) -> 'a1 list -> 'a2 list

val fold_left : ('a1 -> 'a2 -> 'a1) -> 'a2 list -> 'a1 -> 'a1

val fold_right : ('a2 -> 'a1 -> 'a1) -> 'a1 -> 'a2 list -> 'a1

val filter : ('a1 -> bool) -> 'a1 list -> 'a1 list

val combine : 'a1 list -> 'a2 list -> ('a1 * 'a2) list

val seq : nat -> nat -> nat list

type positive =
| XI of positive
| XO of positive
| XH

type z =
| Z0
| Zpos of positive
| Zneg of positive

module Pos :
 sig
  val succ : positive -> positive

  val add : positive -> positive -> positive

  val add_carry : positive -> positive -> positive

  val pred_double : positive -> positive

  val compare_cont : comparison -> positive -> positive -> comparison

  val compare : positive -> positive -> comparison

  val eqb : positive -> positive -> bool

  val iter_op : ('a1 -> 'a1 -> 'a1) -> positive -> 'a1 -> 'a1

  val to_nat : positive -> nat

  val of_succ_nat : nat -> positive
 end

module Z :
 sig
  val double : z -> z

  val succ_double : z -> z

  val pred_double : z -> z

  val pos_sub : positive -> positive -> z

  val add : z -> z -> z

  val opp : z -> z

  val sub : z -> z -> z

  val compare : z -> z -> comparison

  val ltb : z -> z -> bool

  val eqb : z -> z -> bool

  val min : z -> z -> z

  val to_nat : z -> nat

  val of_nat : nat -> z
 end

type status =
| Inactive
| Initializing
| Alive
| Errored
| Killed

val is_inactive : status -> bool

val is_track_valid : status -> bool

val is_killed : status -> bool

val is_some : 'a1 option -> bool

type 'f vec = ('f * 'f) * 'f

val vzero : 'a1 -> 'a1 vec

type 'f slot_pre = { a_status : status; a_time : 'f; a_pos : 'f vec;
                     a_dir : 'f vec; a_outside : bool; a_vol : z;
                     a_energy : 'f }

type 'f slot_post = { b_status : status; b_track : z; b_event : z;
                      b_parent : z; b_nsteps : z; b_action : z;
                      b_steplen : 'f; b_time : 'f; b_pos : 'f vec;
                      b_dir : 'f vec; b_outside : bool; b_vol : z;
                      b_particle : z; b_energy : 'f; b_edep : 'f }

type psel = { s_time : bool; s_pos : bool; s_dir : bool; s_vol : bool;
              s_energy : bool }

type selection = { s_pre : psel; s_post : psel; s_event : bool;
                   s_parent : bool; s_nsteps : bool; s_action : bool;
                   s_steplen : bool; s_particle : bool; s_edep : bool }

type params = { p_sel : selection; p_detector : z option list;
                p_nonzero : bool }

val has_det : params -> bool

val det_lookup : params -> z -> z option

type 'f point = { t_time : 'f; t_pos : 'f vec; t_dir : 'f vec; t_vol : 
                  z; t_energy : 'f }

type 'f row = { r_track : z option; r_det : z option; r_event : z;
                r_parent : z; r_nsteps : z; r_action : z; r_steplen : 
                'f; r_particle : z; r_edep : 'f; r_pre : 'f point;
                r_post : 'f point }

val point0 : 'a1 -> 'a1 point

val row0 : 'a1 -> 'a1 row

val set_det : z option -> 'a1 row -> 'a1 row

val set_track : z option -> 'a1 row -> 'a1 row

val pick : bool -> 'a1 -> 'a1 -> 'a1

val write_point :
  psel -> 'a1 -> 'a1 vec -> 'a1 vec -> z -> 'a1 -> 'a1 point -> 'a1 point

val write_pre : selection -> 'a1 slot_pre -> 'a1 row -> 'a1 row

val write_post : selection -> 'a1 slot_post -> 'a1 row -> 'a1 row

val gather_pre : params -> 'a1 slot_pre -> 'a1 row -> 'a1 row

val gather_post :
  ('a1 -> bool) -> params -> 'a1 slot_post -> 'a1 row -> 'a1 row

val map2 : ('a1 -> 'a2 -> 'a3) -> 'a1 list -> 'a2 list -> 'a3 list

val gather_pre_all :
  params -> 'a1 slot_pre list -> 'a1 row list -> 'a1 row list

val gather_post_all :
  ('a1 -> bool) -> params -> 'a1 slot_post list -> 'a1 row list -> 'a1 row
  list

val psel_any : psel -> bool

val has_pre_action : params -> bool

val collector_step :
  ('a1 -> bool) -> params -> 'a1 slot_pre list -> 'a1 slot_post list -> 'a1
  row list -> 'a1 row list

val row_valid : params -> 'a1 row -> bool

val indexed_from : nat -> 'a1 list -> (nat * 'a1) list

val indexed : 'a1 list -> (nat * 'a1) list

val delivered : params -> 'a1 row list -> (nat * 'a1 row) list

val keep_det : params -> 'a1 slot_pre -> bool

val keep_nonzero : ('a1 -> bool) -> params -> 'a1 slot_post -> bool

val keep : ('a1 -> bool) -> params -> ('a1 slot_pre * 'a1 slot_post) -> bool

val step_active : ('a1 slot_pre * 'a1 slot_post) -> bool

val ideal : params -> ('a1 slot_pre * 'a1 slot_post) -> 'a1 row

val mask_point : 'a1 -> psel -> 'a1 point -> 'a1 point

val mask : 'a1 -> params -> 'a1 row -> 'a1 row

val expected :
  'a1 -> ('a1 -> bool) -> params -> 'a1 slot_pre list -> 'a1 slot_post list
  -> (nat * 'a1 row) list

val det_valid : 'a1 row -> bool

val assign_field : bool -> ('a1 row -> 'a2) -> 'a1 row list -> 'a2 list

type 'f det_point_output = { o_time : 'f list; o_pos : 'f vec list;
                             o_dir : 'f vec list; o_energy : 'f list }

type 'f det_output = { o_detector : z option list; o_track : z option list;
                       o_pre : 'f det_point_output;
                       o_post : 'f det_point_output; o_event : z list;
                       o_parent : z list; o_nsteps : z list;
                       o_steplen : 'f list; o_particle : z list;
                       o_edep : 'f list }

val copy_point :
  psel -> ('a1 row -> 'a1 point) -> 'a1 row list -> 'a1 det_point_output

val copy_steps : params -> 'a1 row list -> 'a1 det_output

type 'f tally = z -> 'f

val tally0 : 'a1 -> 'a1 tally

val tally_add : ('a1 -> 'a1 -> 'a1) -> 'a1 tally -> z -> 'a1 -> 'a1 tally

val calo_slot : ('a1 -> 'a1 -> 'a1) -> 'a1 tally -> 'a1 row -> 'a1 tally

val calo_accum : ('a1 -> 'a1 -> 'a1) -> 'a1 row list -> 'a1 tally -> 'a1 tally

val tally_list : nat -> 'a1 tally -> 'a1 list

type counts = z -> z -> z

val counts0 : counts

val counts_incr : counts -> z -> z -> counts

val action_slot : counts -> 'a1 slot_post -> counts

val action_accum : 'a1 slot_post list -> counts -> counts

val action_step : bool -> 'a1 slot_post list -> counts -> counts

val stepdiag_bin : z -> 'a1 slot_post -> z

val stepdiag_slot : z -> counts -> 'a1 slot_post -> counts

val stepdiag_accum : z -> 'a1 slot_post list -> counts -> counts

val counts_table : nat -> nat -> counts -> z list list
