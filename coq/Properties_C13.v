(** * C13 property theorems -- statements only; proofs live in C13/*.v.

    [next], [draw], [apply_poly] (= jump(JumpPoly)), [jump], [discard],
    [discard_subsequence], [init], [reseed], [canon_int], [float_of_u32] are
    the executable model (C13/Xorwow.v) whose constants and tables are
    regenerated from the source on every run; [draws n] is [n] sequential
    [operator()] calls; [wf_rng]/[wfx] say that the words are 32-bit. *)
From Coq Require Import NArith List.
From Celer Require Import Generated.C13_tables C13.Xorwow C13.Gf2 C13.XorwowProofs
  C13.Period C13.PeriodProofs C13.InitProofs C13.CommuteProofs.
Import ListNotations.
Local Open Scope N_scope.

Theorem C13_next_linear : forall a b, next (xxor a b) = xxor (next a) (next b).
Proof. exact next_linear. Qed.
Print Assumptions C13_next_linear.
Example C13_next_linear_ex : next (xxor (X 1 2 3 4 5) (X 5 4 3 2 1)) = xxor (next (X 1 2 3 4 5)) (next (X 5 4 3 2 1)).
Proof. reflexivity. Qed.

(** jump(JumpPoly g) computes g(T) x (Horner form of the C++ loop) *)
Theorem C13_apply_poly_spec : forall row x, apply_poly row x = peval XL (poly_of_row row) x.
Proof. exact apply_poly_spec. Qed.
Print Assumptions C13_apply_poly_spec.

(** the degree-160 polynomial found by the translator annihilates the transition matrix *)
Theorem C13_charpoly_annihilates :
  length (poly_of_N cert_p) = 161%nat /\ forall x, wfx x -> peval XL (poly_of_N cert_p) x = xzero.
Proof. exact (conj the_p_degree charpoly_annihilates). Qed.
Print Assumptions C13_charpoly_annihilates.
Example C13_wfx_ex : wfx (X 1 2 3 4 5).
Proof. cbv. repeat split. Qed.

(** every entry of both tables of the current source: jump[i](T) = T^(4^i), jump_subsequence[i](T) = T^(2^67 4^i) *)
Theorem C13_jump_table_correct : forall i x, (i < 32)%nat -> wfx x ->
  apply_poly (nth i src_jump []) x = N.iter (4 ^ N.of_nat i) next x
  /\ apply_poly (nth i src_jump_sub []) x = N.iter (2 ^ 67 * 4 ^ N.of_nat i) next x.
Proof. intros i x Hi Hx. exact (conj (jump_entry_correct i x Hi Hx) (sub_entry_correct i x Hi Hx)). Qed.
Print Assumptions C13_jump_table_correct.

(** skip-ahead == sequential generation: all six state words, every state, every 64-bit n *)
Theorem C13_discard_eq_iterate : forall r n, wf_rng r -> n < 2 ^ 64 -> discard n r = draws n r.
Proof. exact discard_eq_iterate. Qed.
Print Assumptions C13_discard_eq_iterate.
Example C13_wf_rng_ex : wf_rng (Rng (X 1 2 3 4 5) 6) /\ 0xffffffffffffffff < 2 ^ 64.
Proof. cbv. repeat split. Qed.

Theorem C13_discard_subsequence_eq : forall r k, wf_rng r -> k < 2 ^ 64 ->
  discard_subsequence k r = draws (k * 2 ^ 67) r.
Proof. exact discard_subsequence_eq. Qed.
Print Assumptions C13_discard_subsequence_eq.

(** operator=(Initializer): SplitMix64 state advanced subsequence*2^67 + offset draws *)
Theorem C13_init_eq_iterate : forall seed sub off, sub < 2 ^ 64 -> off < 2 ^ 64 ->
  init seed sub off = draws (sub * 2 ^ 67 + off) (seed_state seed).
Proof. exact init_eq_iterate. Qed.
Print Assumptions C13_init_eq_iterate.
Example C13_init_hyp_ex : 0xffffffffffffffff < 2 ^ 64.
Proof. reflexivity. Qed.

(** the SplitMix64 seeding never yields the all-zero state (the fixed point of next) *)
Theorem C13_init_state_nonzero : forall seed, seed < two32 -> xs (seed_state seed) <> xzero.
Proof. exact init_state_nonzero. Qed.
Print Assumptions C13_init_state_nonzero.
Example C13_seed_ex : 12345 < two32.
Proof. reflexivity. Qed.

(** every non-zero 160-bit state has period exactly 2^160 - 1 under next
    (primitivity certificates + trial-division primality of the 12 prime factors) *)
Theorem C13_period_full : forall x, wfx x -> x <> xzero ->
  N.iter (2 ^ 160 - 1) next x = x /\ forall d, 0 < d < 2 ^ 160 - 1 -> N.iter d next x <> x.
Proof. exact period_full. Qed.
Print Assumptions C13_period_full.
Example C13_period_hyp_ex : wfx (X 1 0 0 0 0) /\ X 1 0 0 0 0 <> xzero.
Proof. split; [cbv; repeat split|discriminate]. Qed.

(** reseed_rng: distinct (event, slot) pairs of any slot count S (no 64-bit wrap of
    event*S+slot) get streams whose first 2^67 states are pairwise different:
    the streams are disjoint segments of one orbit of length 2^160 - 1 *)
Theorem C13_streams_disjoint : forall seed S e1 s1 e2 s2 a b,
  seed < two32 -> s1 < S -> s2 < S ->
  e1 * S + s1 < 2 ^ 64 -> e2 * S + s2 < 2 ^ 64 ->
  (e1 <> e2 \/ s1 <> s2) ->
  a < 2 ^ 67 -> b < 2 ^ 67 ->
  xs (draws a (reseed seed e1 S s1)) <> xs (draws b (reseed seed e2 S s2)).
Proof. exact streams_disjoint. Qed.
Print Assumptions C13_streams_disjoint.
Example C13_streams_hyp_ex : 12345 < two32 /\ 1 < 4 /\ 2 < 4 /\ 7 * 4 + 1 < 2 ^ 64 /\ (7 <> 8 \/ 1 <> 2).
Proof. repeat split; try reflexivity. left; discriminate. Qed.

Theorem C13_reseed_eq_iterate : forall seed event S slot,
  event * S + slot < 2 ^ 64 ->
  reseed seed event S slot = draws ((event * S + slot) * 2 ^ 67) (seed_state seed).
Proof. exact reseed_eq_iterate. Qed.
Print Assumptions C13_reseed_eq_iterate.

(** canonical double: the integer scaled by 2^-53 is below 2^53, so the result is in [0,1) *)
Theorem C13_canonical_double_lt_one : forall r,
  snd (canonical_double r) < 2 ^ src_norm_d_log2 /\ src_norm_d_log2 = 53.
Proof. exact canonical_double_lt. Qed.
Print Assumptions C13_canonical_double_lt_one.

(** canonical float: the faithful single-precision model returns exactly 1.0 (finding F2) *)
Theorem C13_canonical_float_refuted :
  exists u, u < two32 /\ float_of_u32 u = 2 ^ src_norm_f_log2.
Proof. exact canonical_float_refuted. Qed.
Print Assumptions C13_canonical_float_refuted.

(** skipping n draws and skipping k subsequences commute, for all 64-bit n, k *)
Theorem C13_discard_commute : forall r n k, wf_rng r -> n < 2 ^ 64 -> k < 2 ^ 64 ->
  discard n (discard_subsequence k r) = discard_subsequence k (discard n r).
Proof. exact discard_commute. Qed.
Print Assumptions C13_discard_commute.

(** streams stay disjoint under arbitrary histories of discards (each 64-bit)
    whose total per stream is below 2^67 *)
Theorem C13_streams_disjoint_advanced : forall seed S e1 s1 e2 s2 la lb,
  seed < two32 -> s1 < S -> s2 < S ->
  e1 * S + s1 < 2 ^ 64 -> e2 * S + s2 < 2 ^ 64 ->
  (e1 <> e2 \/ s1 <> s2) ->
  Forall (fun n => n < 2 ^ 64) la -> Forall (fun n => n < 2 ^ 64) lb ->
  total la < 2 ^ 67 -> total lb < 2 ^ 67 ->
  xs (advance la (reseed seed e1 S s1)) <> xs (advance lb (reseed seed e2 S s2)).
Proof. exact streams_disjoint_advanced. Qed.
Print Assumptions C13_streams_disjoint_advanced.
