(** * C12 property theorems — statements only; proofs live in C12/*Proofs.v. *)
From Coq Require Import Reals ZArith List.
From Celer Require Import Base.Num Base.NumR Base.Vec3
  C12.Solver C12.Surfaces C12.Transforms C12.SolverProofs C12.SurfacesProofs C12.TransformsProofs C12.Simplify C12.SimplifyProofs.
Import ListNotations.
Local Open Scope R_scope.

(** ** QuadraticSolver *)
(** general variant: the returned distances are exactly the positive roots of a t^2 + 2 hb t + c *)
Theorem C12_solve_c_exact : forall a hb c t, a <> 0 ->
  (In (Some t) (isect2_list (solve_c (T:=R) (mk_solver a hb) c)) <-> 0 < t /\ qpoly a hb c t = 0).
Proof. exact solve_c_spec. Qed.
Print Assumptions C12_solve_c_exact.

(** on-surface variant (c = 0): the other root -2 hb / a when positive *)
Theorem C12_solve_on_exact : forall a hb t, a <> 0 ->
  (In (Some t) (isect2_list (solve_on (T:=R) (mk_solver a hb))) <-> 0 < t /\ qpoly a hb 0 t = 0).
Proof. exact solve_on_spec. Qed.
Print Assumptions C12_solve_on_exact.

Theorem C12_solve_sound : forall a hb c t,
  (min_a_R <= Rabs a \/ a = 0) ->
  In (Some t) (isect2_list (solve_general (T:=R) a hb c false)) -> 0 < t /\ qpoly a hb c t = 0.
Proof. exact solve_sound. Qed.
Print Assumptions C12_solve_sound.

Theorem C12_solve_sound_on : forall a hb t,
  In (Some t) (isect2_list (solve_general (T:=R) a hb 0 true)) -> 0 < t /\ qpoly a hb 0 t = 0.
Proof. exact solve_sound_on. Qed.
Print Assumptions C12_solve_sound_on.

Theorem C12_solve_complete : forall a hb c t,
  (min_a_R <= Rabs a \/ (a = 0 /\ min_a_R < Rabs hb)) ->
  0 < t -> qpoly a hb c t = 0 ->
  exists t0, first_isect (solve_general (T:=R) a hb c false) = Some t0 /\ t0 <= t.
Proof. exact solve_complete. Qed.
Print Assumptions C12_solve_complete.

Theorem C12_solve_complete_on : forall a hb t,
  min_a_R <= Rabs a -> 0 < t -> qpoly a hb 0 t = 0 ->
  exists t0, first_isect (solve_general (T:=R) a hb 0 true) = Some t0 /\ t0 <= t.
Proof. exact solve_complete_on. Qed.
Print Assumptions C12_solve_complete_on.

Theorem C12_solve_ordered : forall a hb c on t0 t1,
  solve_general (T:=R) a hb c on = (Some t0, Some t1) -> t0 < t1.
Proof. exact solve_general_ordered. Qed.
Print Assumptions C12_solve_ordered.

(** the documented tolerance window 0 < |a| < min_a (ray treated as parallel);
    [strict] selects the along-surface comparison (false: as coded `< 0`, true: repaired `<= 0`) *)
Theorem C12_solve_window_partial : forall strict a hb c,
  0 < Rabs a < min_a_R ->
  (forall t, In (Some t) (isect2_list (solve_general_gen (T:=R) strict a hb c false)) ->
             0 <= t /\ 2 * hb * t + c = 0 /\ qpoly a hb c t = a * t * t) /\
  (forall t1 t2, qpoly a hb c t1 = 0 -> qpoly a hb c t2 = 0 -> t1 <> t2 ->
                 Rabs hb / Rabs a <= Rmax (Rabs t1) (Rabs t2)).
Proof. exact solve_window_partial. Qed.
Print Assumptions C12_solve_window_partial.

(** solve_along_surface before the repair cd06731 (`result[0] < 0`) kept t = 0
    (start point exactly on the surface with state "off"), unlike every other
    branch: positivity was refuted there (finding, fixed) ... *)
Theorem C12_solve_along_zero_refuted :
  exists hb c, In (Some 0) (isect2_list (solve_along_gen (T:=R) false hb c)).
Proof. exact solve_along_zero_refuted. Qed.
Print Assumptions C12_solve_along_zero_refuted.

(** ... and the code as it stands (`<= 0`, [solve_along = solve_along_gen true])
    returns only strictly positive distances *)
Theorem C12_solve_along_positive : forall hb c t,
  In (Some t) (isect2_list (solve_along (T:=R) hb c)) -> 0 < t /\ 2 * hb * t + c = 0.
Proof. exact solve_along_positive_repaired. Qed.
Print Assumptions C12_solve_along_positive.

(** what held before the repair: positivity only for a start point off the surface *)
Theorem C12_solve_sound_before_repair_partial : forall a hb c t,
  (min_a_R <= Rabs a \/ (a = 0 /\ c <> 0)) ->
  In (Some t) (isect2_list (solve_general_gen (T:=R) false a hb c false)) -> 0 < t /\ qpoly a hb c t = 0.
Proof. exact solve_sound_before_repair. Qed.
Print Assumptions C12_solve_sound_before_repair_partial.

(** ** Every surface type (PlaneAligned, Plane, SphereCentered, Sphere, CylCentered,
    CylAligned, ConeAligned, SimpleQuadric, GeneralQuadric) *)
Theorem C12_surf_sense_is_sign : forall s p, sense_matches (surf_sense s p) (surf_f s p).
Proof. exact surf_sense_is_sign. Qed.
Print Assumptions C12_surf_sense_is_sign.

Theorem C12_surf_intersections_on_surface : forall s p d on t,
  vdot d d = 1 ->
  (on = true -> surf_f s p = 0) ->
  sound_regime s p d ->
  In (Some t) (surf_intersect s p d on) -> 0 < t /\ surf_f s (ray p d t) = 0.
Proof. exact surf_intersections_on_surface. Qed.
Print Assumptions C12_surf_intersections_on_surface.

Theorem C12_surf_nearest : forall s p d on t',
  vdot d d = 1 ->
  (on = true -> surf_f s p = 0) -> (on = false -> surf_f s p <> 0) ->
  complete_regime s p d on ->
  0 < t' -> surf_f s (ray p d t') = 0 ->
  exists t0, min_isect (surf_intersect s p d on) = Some t0 /\ t0 <= t'.
Proof. exact surf_nearest. Qed.
Print Assumptions C12_surf_nearest.

Theorem C12_surf_sense_flips_at_simple_root : forall s p d t0,
  surf_f s (ray p d t0) = 0 ->
  2 * surf_A s d * t0 + 2 * surf_B s p d <> 0 ->
  exists eps, 0 < eps /\ forall dl, 0 < dl < eps ->
    surf_sense s (ray p d (t0 - dl)) <> On /\
    surf_sense s (ray p d (t0 + dl)) = flip_ssense (surf_sense s (ray p d (t0 - dl))).
Proof. exact surf_sense_flips_at_simple_root. Qed.
Print Assumptions C12_surf_sense_flips_at_simple_root.

(** [surf_grad] is the gradient of [surf_f] (exact second-order expansion) ... *)
Theorem C12_surf_grad_is_gradient : forall s p d t,
  surf_f s (ray p d t) = surf_f s p + t * vdot (surf_grad s p) d + t * t * surf_f2 s d.
Proof. exact surf_taylor. Qed.
Print Assumptions C12_surf_grad_is_gradient.

(** ... and calc_normal is the unit vector along it *)
Theorem C12_surf_normal_is_unit_gradient : forall s p,
  surf_wf s -> vdot (surf_grad s p) (surf_grad s p) <> 0 ->
  let n := surf_normal s p in vdot n n = 1 /\ exists k, 0 < k /\ surf_grad s p = vscale k n.
Proof. exact surf_normal_is_unit_gradient. Qed.
Print Assumptions C12_surf_normal_is_unit_gradient.

(** ** Transforms *)
(** SurfaceTranslator as coded (since the repair 564387d), every surface type *)
Theorem C12_translate_sense : forall tra s p,
  surf_sense (translate_surface tra s) (tr_up tra p) = surf_sense s p.
Proof. exact translate_sense. Qed.
Print Assumptions C12_translate_sense.

(** before the repair: every type but SimpleQuadric; SimpleQuadric iff first . t = 0 ... *)
Theorem C12_translate_sense_before_repair_partial : forall tra s p,
  (match s with SSimpleQuadric _ def _ => vdot def tra = 0 | _ => True end) ->
  surf_sense (translate_surface_gen false tra s) (tr_up tra p) = surf_sense s p.
Proof. exact translate_sense_before_repair. Qed.
Print Assumptions C12_translate_sense_before_repair_partial.

(** ... and its SimpleQuadric translation did NOT preserve the point set (finding, fixed) *)
Theorem C12_translate_sq_refuted :
  exists tra s p, surf_sense s p = Inside /\
                  surf_sense (translate_surface_gen false tra s) (tr_up tra p) = Outside.
Proof. exact translate_sq_refuted. Qed.
Print Assumptions C12_translate_sq_refuted.

(** SurfaceTransformer, R orthogonal (rotations and reflections), all types via the promotion chain *)
Theorem C12_transform_sense : forall tf s p, orthogonal (tf_rot tf) -> surf_wf s ->
  surf_sense (transform_surface tf s) (tf_up tf p) = surf_sense s p.
Proof. exact transform_sense. Qed.
Print Assumptions C12_transform_sense.

(** the quadric conjugation is the substitution x = R^T (x' - t) *)
Theorem C12_transform_gq_is_substitution : forall tf abc def ghi j x,
  surf_f (transform_gq tf abc def ghi j) x = surf_f (SGeneralQuadric abc def ghi j) (tf_down tf x).
Proof. exact transform_gq_value. Qed.
Print Assumptions C12_transform_gq_is_substitution.

Theorem C12_down_up_id : forall tf p, orthogonal (tf_rot tf) -> tf_down tf (tf_up tf p) = p.
Proof. exact down_up_id. Qed.
Print Assumptions C12_down_up_id.

Theorem C12_up_down_id : forall tf p, orthogonal (tf_rot tf) -> tf_up tf (tf_down tf p) = p.
Proof. exact up_down_id. Qed.
Print Assumptions C12_up_down_id.

Theorem C12_translation_down_up : forall tra p,
  tr_down tra (tr_up tra p) = p /\ tr_up tra (tr_down tra p) = p.
Proof. exact translation_down_up. Qed.
Print Assumptions C12_translation_down_up.

Theorem C12_signed_perm_orthogonal : forall (p : sperm) (d : vec), sp_valid p = true ->
  sp_rotate_down p (sp_rotate_up p d) = d /\ sp_rotate_up p (sp_rotate_down p d) = d /\
  vdot (sp_rotate_up p d) (sp_rotate_up p d) = vdot d d.
Proof. exact signed_perm_orthogonal. Qed.
Print Assumptions C12_signed_perm_orthogonal.

Theorem C12_signed_perm_encoding : forall p : sperm, sp_decode (sp_encode p) = p.
Proof. exact signed_perm_encoding. Qed.
Print Assumptions C12_signed_perm_encoding.

(** ** SurfaceSimplifier (+ Quadric{Plane,Sphere,Cyl,Cone}Converter)
    whenever every quantity it snaps is exactly zero / equal ([snap_exact]),
    the result is a positive multiple of the surface function, negated exactly
    when the simplifier reports a sense flip *)
Theorem C12_simplify_scaled : forall tol s s' flip, 0 < tol < 1 ->
  snap_exact tol s -> simplify tol s = Some (s', flip) ->
  exists k, 0 < k /\ forall p, surf_f s' p = (if flip then - k else k) * surf_f s p.
Proof. exact simplify_scaled. Qed.
Print Assumptions C12_simplify_scaled.

Theorem C12_simplify_sense : forall tol s s' flip p, 0 < tol < 1 ->
  snap_exact tol s -> simplify tol s = Some (s', flip) ->
  surf_sense s' p = if flip then flip_ssense (surf_sense s p) else surf_sense s p.
Proof. exact simplify_sense. Qed.
Print Assumptions C12_simplify_sense.
