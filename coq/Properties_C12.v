(** * C12 property theorems — statements only; proofs live in C12/*Proofs.v. *)
From Coq Require Import Reals ZArith List.
From Celer Require Import Base.Num Base.NumR Base.Vec3
  C12.Solver C12.Surfaces C12.Transforms C12.SolverProofs C12.SurfacesProofs C12.TransformsProofs C12.Simplify C12.SimplifyProofs C12.TransformSimplify C12.TransformSimplifyProofs C12.Involute C12.InvoluteProofs C12.SimplifyConvProofs.
Import ListNotations.
Local Open Scope R_scope.

(** ** QuadraticSolver *)
(** general variant: the returned distances are exactly the positive roots of a t^2 + 2 hb t + c *)
Theorem C12_solve_c_exact : forall a hb c t, a <> 0 ->
  (In (Some t) (isect2_list (solve_c (T:=R) (mk_solver a hb) c)) <-> 0 < t /\ qpoly a hb c t = 0).
Proof. exact solve_c_spec. Qed.
Print Assumptions C12_solve_c_exact.

(** on-surface variant (c = 0): the other root -2 hb / a when positive *)
Theorem C12_solve_on_exact : forall a hb t, a <> 0 ->
  (In (Some t) (isect2_list (solve_on (T:=R) (mk_solver a hb))) <-> 0 < t /\ qpoly a hb 0 t = 0).
Proof. exact solve_on_spec. Qed.
Print Assumptions C12_solve_on_exact.

Theorem C12_solve_sound : forall a hb c t,
  (min_a_R <= Rabs a \/ a = 0) ->
  In (Some t) (isect2_list (solve_general (T:=R) a hb c false)) -> 0 < t /\ qpoly a hb c t = 0.
Proof. exact solve_sound. Qed.
Print Assumptions C12_solve_sound.

Theorem C12_solve_sound_on : forall a hb t,
  In (Some t) (isect2_list (solve_general (T:=R) a hb 0 true)) -> 0 < t /\ qpoly a hb 0 t = 0.
Proof. exact solve_sound_on. Qed.
Print Assumptions C12_solve_sound_on.

Theorem C12_solve_complete : forall a hb c t,
  (min_a_R <= Rabs a \/ (a = 0 /\ min_a_R < Rabs hb)) ->
  0 < t -> qpoly a hb c t = 0 ->
  exists t0, first_isect (solve_general (T:=R) a hb c false) = Some t0 /\ t0 <= t.
Proof. exact solve_complete. Qed.
Print Assumptions C12_solve_complete.

Theorem C12_solve_complete_on : forall a hb t,
  min_a_R <= Rabs a -> 0 < t -> qpoly a hb 0 t = 0 ->
  exists t0, first_isect (solve_general (T:=R) a hb 0 true) = Some t0 /\ t0 <= t.
Proof. exact solve_complete_on. Qed.
Print Assumptions C12_solve_complete_on.

Theorem C12_solve_ordered : forall a hb c on t0 t1,
  solve_general (T:=R) a hb c on = (Some t0, Some t1) -> t0 < t1.
Proof. exact solve_general_ordered. Qed.
Print Assumptions C12_solve_ordered.

(** the documented tolerance window 0 < |a| < min_a (ray treated as parallel);
    [strict] selects the along-surface comparison (false: as coded `< 0`, true: repaired `<= 0`) *)
Theorem C12_solve_window_partial : forall strict a hb c,
  0 < Rabs a < min_a_R ->
  (forall t, In (Some t) (isect2_list (solve_general_gen (T:=R) strict a hb c false)) ->
             0 <= t /\ 2 * hb * t + c = 0 /\ qpoly a hb c t = a * t * t) /\
  (forall t1 t2, qpoly a hb c t1 = 0 -> qpoly a hb c t2 = 0 -> t1 <> t2 ->
                 Rabs hb / Rabs a <= Rmax (Rabs t1) (Rabs t2)).
Proof. exact solve_window_partial. Qed.
Print Assumptions C12_solve_window_partial.

(** solve_along_surface before the repair cd06731 (`result[0] < 0`) kept t = 0
    (start point exactly on the surface with state "off"), unlike every other
    branch: positivity was refuted there (finding, fixed) ... *)
Theorem C12_solve_along_zero_refuted :
  exists hb c, In (Some 0) (isect2_list (solve_along_gen (T:=R) false hb c)).
Proof. exact solve_along_zero_refuted. Qed.
Print Assumptions C12_solve_along_zero_refuted.

(** ... and the code as it stands (`<= 0`, [solve_along = solve_along_gen true])
    returns only strictly positive distances *)
Theorem C12_solve_along_positive : forall hb c t,
  In (Some t) (isect2_list (solve_along (T:=R) hb c)) -> 0 < t /\ 2 * hb * t + c = 0.
Proof. exact solve_along_positive_repaired. Qed.
Print Assumptions C12_solve_along_positive.

(** what held before the repair: positivity only for a start point off the surface *)
Theorem C12_solve_sound_before_repair_partial : forall a hb c t,
  (min_a_R <= Rabs a \/ (a = 0 /\ c <> 0)) ->
  In (Some t) (isect2_list (solve_general_gen (T:=R) false a hb c false)) -> 0 < t /\ qpoly a hb c t = 0.
Proof. exact solve_sound_before_repair. Qed.
Print Assumptions C12_solve_sound_before_repair_partial.

(** ** Every surface type (PlaneAligned, Plane, SphereCentered, Sphere, CylCentered,
    CylAligned, ConeAligned, SimpleQuadric, GeneralQuadric) *)
Theorem C12_surf_sense_is_sign : forall s p, sense_matches (surf_sense s p) (surf_f s p).
Proof. exact surf_sense_is_sign. Qed.
Print Assumptions C12_surf_sense_is_sign.

Theorem C12_surf_intersections_on_surface : forall s p d on t,
  vdot d d = 1 ->
  (on = true -> surf_f s p = 0) ->
  sound_regime s p d ->
  In (Some t) (surf_intersect s p d on) -> 0 < t /\ surf_f s (ray p d t) = 0.
Proof. exact surf_intersections_on_surface. Qed.
Print Assumptions C12_surf_intersections_on_surface.

Theorem C12_surf_nearest : forall s p d on t',
  vdot d d = 1 ->
  (on = true -> surf_f s p = 0) -> (on = false -> surf_f s p <> 0) ->
  complete_regime s p d on ->
  0 < t' -> surf_f s (ray p d t') = 0 ->
  exists t0, min_isect (surf_intersect s p d on) = Some t0 /\ t0 <= t'.
Proof. exact surf_nearest. Qed.
Print Assumptions C12_surf_nearest.

Theorem C12_surf_sense_flips_at_simple_root : forall s p d t0,
  surf_f s (ray p d t0) = 0 ->
  2 * surf_A s d * t0 + 2 * surf_B s p d <> 0 ->
  exists eps, 0 < eps /\ forall dl, 0 < dl < eps ->
    surf_sense s (ray p d (t0 - dl)) <> On /\
    surf_sense s (ray p d (t0 + dl)) = flip_ssense (surf_sense s (ray p d (t0 - dl))).
Proof. exact surf_sense_flips_at_simple_root. Qed.
Print Assumptions C12_surf_sense_flips_at_simple_root.

(** [surf_grad] is the gradient of [surf_f] (exact second-order expansion) ... *)
Theorem C12_surf_grad_is_gradient : forall s p d t,
  surf_f s (ray p d t) = surf_f s p + t * vdot (surf_grad s p) d + t * t * surf_f2 s d.
Proof. exact surf_taylor. Qed.
Print Assumptions C12_surf_grad_is_gradient.

(** ... and calc_normal is the unit vector along it *)
Theorem C12_surf_normal_is_unit_gradient : forall s p,
  surf_wf s -> vdot (surf_grad s p) (surf_grad s p) <> 0 ->
  let n := surf_normal s p in vdot n n = 1 /\ exists k, 0 < k /\ surf_grad s p = vscale k n.
Proof. exact surf_normal_is_unit_gradient. Qed.
Print Assumptions C12_surf_normal_is_unit_gradient.

(** ** Transforms *)
(** SurfaceTranslator as coded (since the repair 564387d), every surface type *)
Theorem C12_translate_sense : forall tra s p,
  surf_sense (translate_surface tra s) (tr_up tra p) = surf_sense s p.
Proof. exact translate_sense. Qed.
Print Assumptions C12_translate_sense.

(** before the repair: every type but SimpleQuadric; SimpleQuadric iff first . t = 0 ... *)
Theorem C12_translate_sense_before_repair_partial : forall tra s p,
  (match s with SSimpleQuadric _ def _ => vdot def tra = 0 | _ => True end) ->
  surf_sense (translate_surface_gen false tra s) (tr_up tra p) = surf_sense s p.
Proof. exact translate_sense_before_repair. Qed.
Print Assumptions C12_translate_sense_before_repair_partial.

(** ... and its SimpleQuadric translation did NOT preserve the point set (finding, fixed) *)
Theorem C12_translate_sq_refuted :
  exists tra s p, surf_sense s p = Inside /\
                  surf_sense (translate_surface_gen false tra s) (tr_up tra p) = Outside.
Proof. exact translate_sq_refuted. Qed.
Print Assumptions C12_translate_sq_refuted.

(** SurfaceTransformer, R orthogonal (rotations and reflections), all types via the promotion chain *)
Theorem C12_transform_sense : forall tf s p, orthogonal (tf_rot tf) -> surf_wf s ->
  surf_sense (transform_surface tf s) (tf_up tf p) = surf_sense s p.
Proof. exact transform_sense. Qed.
Print Assumptions C12_transform_sense.

(** the quadric conjugation is the substitution x = R^T (x' - t) *)
Theorem C12_transform_gq_is_substitution : forall tf abc def ghi j x,
  surf_f (transform_gq tf abc def ghi j) x = surf_f (SGeneralQuadric abc def ghi j) (tf_down tf x).
Proof. exact transform_gq_value. Qed.
Print Assumptions C12_transform_gq_is_substitution.

Theorem C12_down_up_id : forall tf p, orthogonal (tf_rot tf) -> tf_down tf (tf_up tf p) = p.
Proof. exact down_up_id. Qed.
Print Assumptions C12_down_up_id.

Theorem C12_up_down_id : forall tf p, orthogonal (tf_rot tf) -> tf_up tf (tf_down tf p) = p.
Proof. exact up_down_id. Qed.
Print Assumptions C12_up_down_id.

Theorem C12_translation_down_up : forall tra p,
  tr_down tra (tr_up tra p) = p /\ tr_up tra (tr_down tra p) = p.
Proof. exact translation_down_up. Qed.
Print Assumptions C12_translation_down_up.

Theorem C12_signed_perm_orthogonal : forall (p : sperm) (d : vec), sp_valid p = true ->
  sp_rotate_down p (sp_rotate_up p d) = d /\ sp_rotate_up p (sp_rotate_down p d) = d /\
  vdot (sp_rotate_up p d) (sp_rotate_up p d) = vdot d d.
Proof. exact signed_perm_orthogonal. Qed.
Print Assumptions C12_signed_perm_orthogonal.

Theorem C12_signed_perm_encoding : forall p : sperm, sp_decode (sp_encode p) = p.
Proof. exact signed_perm_encoding. Qed.
Print Assumptions C12_signed_perm_encoding.

(** ** SurfaceSimplifier (+ Quadric{Plane,Sphere,Cyl,Cone}Converter)
    whenever every quantity it snaps is exactly zero / equal ([snap_exact]),
    the result is a positive multiple of the surface function, negated exactly
    when the simplifier reports a sense flip *)
Theorem C12_simplify_scaled : forall tol s s' flip, 0 < tol < 1 ->
  snap_exact tol s -> simplify tol s = Some (s', flip) ->
  exists k, 0 < k /\ forall p, surf_f s' p = (if flip then - k else k) * surf_f s p.
Proof. exact simplify_scaled. Qed.
Print Assumptions C12_simplify_scaled.

Theorem C12_simplify_sense : forall tol s s' flip p, 0 < tol < 1 ->
  snap_exact tol s -> simplify tol s = Some (s', flip) ->
  surf_sense s' p = if flip then flip_ssense (surf_sense s p) else surf_sense s p.
Proof. exact simplify_sense. Qed.
Print Assumptions C12_simplify_sense.

(** ** TransformSimplifier (transform/TransformSimplifier.cc): Transformation -> Translation ->
    NoTransformation.  [vt_wf]: the rotation matrix is orthogonal (rotation or reflection);
    a valid Tolerance has 0 < rel < 1.  Whatever variant is returned, applied to any point it
    differs from the original by at most eps |p| (iff the rotation was dropped) + eps (iff the
    translation was dropped); an unchanged variant gives exactly the same point. *)
Theorem C12_simplify_transform_pointwise : forall eps v p, 0 <= eps -> eps * eps < 2 -> vt_wf v ->
  let v' := simplify_transform eps v in
  vdist (vt_up v' p) (vt_up v p)
    <= (if rot_dropped v v' then eps * vnorm p else 0) + (if tra_dropped v v' then eps else 0).
Proof. exact simplify_transform_pointwise. Qed.
Print Assumptions C12_simplify_transform_pointwise.

(** the soft-identity test itself: tr R >= 3 - eps^2 bounds the displacement of every point
    (a reflection never passes it) *)
Theorem C12_soft_identity_rotation : forall eps m p, orthogonal m -> 0 <= eps -> eps * eps < 2 ->
  3 - eps * eps <= mtrace m -> vnorm (vsub (rot_only m p) p) <= eps * vnorm p.
Proof. exact soft_identity_rotation. Qed.
Print Assumptions C12_soft_identity_rotation.

(** exact when the rotation IS the identity / the translation IS zero *)
Theorem C12_simplify_identity_exact : forall eps tra p, 0 <= eps ->
  simplify_transformation eps (TF mat3_id tra) = simplify_translation eps tra /\
  tf_up (TF mat3_id tra) p = tr_up tra p /\
  simplify_translation eps (V3 0 0 0) = VNoTransformation /\ tr_up (V3 0 0 0) p = p.
Proof. exact simplify_identity_exact. Qed.
Print Assumptions C12_simplify_identity_exact.

(** ** Involute (surf/Involute.hh, detail/InvolutePoint.hh, detail/InvoluteSolver.hh,
    corecel/math/IllinoisRootFinder.hh); constants::pi := PI.
    [inv_local_xy]: position relative to the origin, x mirrored for the right-handed chirality;
    [inv_tsq] = |xy|^2 / r_b^2 - 1 = t^2; [inv_a1] = lifted tangent angle - t. *)
(** the point lies on the involute of the same base circle with displacement angle a1, at parameter t *)
Theorem C12_involute_point_on_own_involute : forall (s : involute R) (x y : R),
  inv_rbs s <> 0 -> 0 <= inv_tsq s x y ->
  involute_point (inv_rb s) (inv_a1 s x y) (sqrt (inv_tsq s x y)) = (x, y).
Proof. exact inv_point_on_own_involute. Qed.
Print Assumptions C12_involute_point_on_own_involute.

(** calc_sense is the sign of a - a1 (inside = the point's own involute is displaced further) *)
Theorem C12_involute_sense_is_sign : forall (s : involute R) (pos : vec3 R),
  let '(x, y) := inv_local_xy s pos in
  inv_in_bounds s x y -> ~ inv_on_check s x y ->
  inv_theta_of s x y < inv_tmax s + inv_a s -> inv_a1 s x y <> inv_a s ->
  sense_matches (inv_calc_sense PI s pos) (inv_a s - inv_a1 s x y).
Proof. exact inv_sense_is_sign. Qed.
Print Assumptions C12_involute_sense_is_sign.

(** the exact "on" test uses InvolutePoint(t^2) instead of InvolutePoint(t): On is answered
    only at t^2 = 0 or 1, and a point exactly on the surface is in general not On *)
Theorem C12_involute_sense_on_only_at : forall (s : involute R) (pos : vec3 R),
  inv_rbs s <> 0 -> inv_calc_sense PI s pos = On ->
  let '(x, y) := inv_local_xy s pos in inv_tsq s x y = 0 \/ inv_tsq s x y = 1.
Proof. exact inv_sense_on_only_at. Qed.
Print Assumptions C12_involute_sense_on_only_at.

Theorem C12_involute_sense_on_surface_refuted :
  exists (s : involute R) (pos : vec3 R) (t : R),
    inv_tmin s <= t <= inv_tmax s /\
    inv_local_xy s pos = involute_point (inv_rb s) (inv_a s) t /\
    inv_calc_sense PI s pos <> On.
Proof. exact inv_sense_on_surface_refuted. Qed.
Print Assumptions C12_involute_sense_on_surface_refuted.

(** calc_normal: unit, in the x-y plane, orthogonal to the curve's tangent direction at the position's parameter *)
Theorem C12_involute_normal_unit_orthogonal : forall (s : involute R) (pos : vec3 R),
  let n := inv_calc_normal s pos in
  let x := vx pos - inv_ox s in let y := vy pos - inv_oy s in
  let ang := sqrt (clamp_to_nonneg (inv_tsq s x y)) + inv_a s in
  vdot n n = 1 /\ vz n = 0 /\
  vx n * (if inv_right s then - cos ang else cos ang) + vy n * sin ang = 0.
Proof. exact inv_normal_unit_orthogonal. Qed.
Print Assumptions C12_involute_normal_unit_orthogonal.

(** IllinoisRootFinder: a call that ends with iterations to spare returns |f(root)| <= tol *)
Theorem C12_illinois_converged : forall (func : R -> R) (tol l r root : R),
  illinois func tol l r = (root, true) -> Rabs (func root) <= tol.
Proof. exact illinois_converged. Qed.
Print Assumptions C12_illinois_converged.

(** InvoluteSolver: every returned distance is positive and its hit point is within sqrt 2 * err of
    InvolutePoint(tg), tmin <= tg <= tmax, err <= r_b * 1e-8 when all root finder calls converged *)
Theorem C12_involute_intersections_on_surface :
  forall rb a (right : bool) tmin tmax (pos dir : vec3 R) (on : bool) ds conv fin,
  0 <= rb -> 0 <= tmin ->
  inv_solve PI rb a right tmin tmax pos dir on = (ds, conv, fin) ->
  forall d, In d ds ->
    let x := if right then - vx pos else vx pos in let y := vy pos in
    let u0 := if right then - vx dir else vx dir in let v0 := vy dir in
    exists tg err, tmin <= tg <= tmax /\ 0 < d /\ 0 <= err /\
      (let '(qx, qy) := involute_point rb a tg in
       (x + d * u0 - qx) * (x + d * u0 - qx) + (y + d * v0 - qy) * (y + d * v0 - qy) <= 2 * (err * err)) /\
      (conv = true -> err <= rb * / 100000000).
Proof. exact inv_intersections_on_surface. Qed.
Print Assumptions C12_involute_intersections_on_surface.

(** ** the converters' early exits on their own: QuadricCylConverter(axis t) answers only when BOTH the
    second- and the first-order coefficient along t are soft zeros (paraboloids are not cylinders);
    QuadricSphereConverter only when ALL three second-order coefficients are softly equal *)
Theorem C12_sq_to_cyl_some_only : forall tol t (abc def : vec3 R) g s',
  sq_to_cyl tol t abc def g = Some s' ->
  soft_equal tol 0 (vget t abc) = true /\ soft_equal tol 0 (vget t def) = true /\
  soft_equal tol (vget (u_axis t) abc) (vget (v_axis t) abc) = true /\
  exists ou ov rsq, s' = SCylAligned t ou ov rsq /\ 0 < rsq.
Proof. exact sq_to_cyl_some_only. Qed.
Print Assumptions C12_sq_to_cyl_some_only.

Theorem C12_sq_to_cyl_none_axis_terms : forall tol t (abc def : vec3 R) g,
  soft_equal tol 0 (vget t abc) = false \/ soft_equal tol 0 (vget t def) = false ->
  sq_to_cyl tol t abc def g = None.
Proof. exact sq_to_cyl_none_axis_terms. Qed.
Print Assumptions C12_sq_to_cyl_none_axis_terms.

Theorem C12_sq_to_sphere_some_only : forall tol (abc def : vec3 R) g s',
  sq_to_sphere tol abc def g = Some s' ->
  soft_equal tol (vx abc) (vy abc) = true /\ soft_equal tol (vx abc) (vz abc) = true /\
  exists o rsq, s' = SSphere o rsq /\ 0 < rsq.
Proof. exact sq_to_sphere_some_only. Qed.
Print Assumptions C12_sq_to_sphere_some_only.
