
(** val negb : bool -> bool **)

let negb = function
| true -> false
| false -> true

type nat =
| O
| S of nat

(** val fst : ('a1 * 'a2) -> 'a1 **)

let fst = function
| (x, _) -> x

(** val snd : ('a1 * 'a2) -> 'a2 **)

let snd = function
| (_, y) -> y

(** val length : 'a1 list -> nat **)

let rec length = function
| [] -> O
| _ :: l' -> S (length l')

(** val app : 'a1 list -> 'a1 list -> 'a1 list **)

let rec app l m =
  match l with
  | [] -> m
  | a :: l1 -> a :: (app l1 m)

type comparison =
| Eq
| Lt
| Gt

(** val compOpp : comparison -> comparison **)

let compOpp = function
| Eq -> Eq
| Lt -> Gt
| Gt -> Lt

module Coq__1 = struct
 (** val add : nat -> nat -> nat **)
 let rec add n m =
   match n with
   | O -> m
   | S p -> S (add p m)
end
include Coq__1

(** val mul : nat -> nat -> nat **)

let rec mul n m =
  match n with
  | O -> O
  | S p -> add m (mul p m)

(** val sub : nat -> nat -> nat **)

let rec sub n m =
  match n with
  | O -> n
  | S k -> (match m with
            | O -> n
            | S l -> sub k l)

module Nat =
 struct
  (** val sub : nat -> nat -> nat **)

  let rec sub n m =
    match n with
    | O -> n
    | S k -> (match m with
              | O -> n
              | S l -> sub k l)

  (** val eqb : nat -> nat -> bool **)

  let rec eqb n m =
    match n with
    | O -> (match m with
            | O -> true
            | S _ -> false)
    | S n' -> (match m with
               | O -> false
               | S m' -> eqb n' m')

  (** val leb : nat -> nat -> bool **)

  let rec leb n m =
    match n with
    | O -> true
    | S n' -> (match m with
               | O -> false
               | S m' -> leb n' m')

  (** val ltb : nat -> nat -> bool **)

  let ltb n m =
    leb (S n) m

  (** val even : nat -> bool **)

  let rec even = function
  | O -> true
  | S n0 -> (match n0 with
             | O -> false
             | S n' -> even n')

  (** val divmod : nat -> nat -> nat -> nat -> nat * nat **)

  let rec divmod x y q u =
    match x with
    | O -> (q, u)
    | S x' ->
      (match u with
       | O -> divmod x' y (S q) y
       | S u' -> divmod x' y q u')

  (** val div : nat -> nat -> nat **)

  let div x y = match y with
  | O -> y
  | S y' -> fst (divmod x y' O y')

  (** val modulo : nat -> nat -> nat **)

  let modulo x = function
  | O -> x
  | S y' -> sub y' (snd (divmod x y' O y'))
 end

(** val nth : nat -> 'a1 list -> 'a1 -> 'a1 **)

let rec nth n l default =
  match n with
  | O -> (match l with
          | [] -> default
          | x :: _ -> x)
  | S m -> (match l with
            | [] -> default
            | _ :: t -> nth m t default)

(** val rev : 'a1 list -> 'a1 list **)

let rec rev = function
| [] -> []
| x :: l' -> app (rev l') (x :: [])

(** val firstn : nat -> 'a1 list -> 'a1 list **)

let rec firstn n l =
  match n with
  | O -> []
  | S n0 -> (match l with
             | [] -> []
             | a :: l0 -> a :: (firstn n0 l0))

(** val skipn : nat -> 'a1 list -> 'a1 list **)

let rec skipn n l =
  match n with
  | O -> l
  | S n0 -> (match l with
             | [] -> []
             | _ :: l0 -> skipn n0 l0)

type positive =
| XI of positive
| XO of positive
| XH

type z =
| Z0
| Zpos of positive
| Zneg of positive

module Pos =
 struct
  (** val succ : positive -> positive **)

  let rec succ = function
  | XI p -> XO (succ p)
  | XO p -> XI p
  | XH -> XO XH

  (** val add : positive -> positive -> positive **)

  let rec add x y =
    match x with
    | XI p ->
      (match y with
       | XI q -> XO (add_carry p q)
       | XO q -> XI (add p q)
       | XH -> XO (succ p))
    | XO p ->
      (match y with
       | XI q -> XI (add p q)
       | XO q -> XO (add p q)
       | XH -> XI p)
    | XH -> (match y with
             | XI q -> XO (succ q)
             | XO q -> XI q
             | XH -> XO XH)

  (** val add_carry : positive -> positive -> positive **)

  and add_carry x y =
    match x with
    | XI p ->
      (match y with
       | XI q -> XI (add_carry p q)
       | XO q -> XO (add_carry p q)
       | XH -> XI (succ p))
    | XO p ->
      (match y with
       | XI q -> XO (add_carry p q)
       | XO q -> XI (add p q)
       | XH -> XO (succ p))
    | XH ->
      (match y with
       | XI q -> XI (succ q)
       | XO q -> XO (succ q)
       | XH -> XI XH)

  (** val pred_double : positive -> positive **)

  let rec pred_double = function
  | XI p -> XI (XO p)
  | XO p -> XI (pred_double p)
  | XH -> XH

  (** val mul : positive -> positive -> positive **)

  let rec mul x y =
    match x with
    | XI p -> add y (XO (mul p y))
    | XO p -> XO (mul p y)
    | XH -> y

  (** val compare_cont : comparison -> positive -> positive -> comparison **)

  let rec compare_cont r x y =
    match x with
    | XI p ->
      (match y with
       | XI q -> compare_cont r p q
       | XO q -> compare_cont Gt p q
       | XH -> Gt)
    | XO p ->
      (match y with
       | XI q -> compare_cont Lt p q
       | XO q -> compare_cont r p q
       | XH -> Gt)
    | XH -> (match y with
             | XH -> r
             | _ -> Lt)

  (** val compare : positive -> positive -> comparison **)

  let compare =
    compare_cont Eq

  (** val eqb : positive -> positive -> bool **)

  let rec eqb p q =
    match p with
    | XI p0 -> (match q with
                | XI q0 -> eqb p0 q0
                | _ -> false)
    | XO p0 -> (match q with
                | XO q0 -> eqb p0 q0
                | _ -> false)
    | XH -> (match q with
             | XH -> true
             | _ -> false)

  (** val iter_op : ('a1 -> 'a1 -> 'a1) -> positive -> 'a1 -> 'a1 **)

  let rec iter_op op p a =
    match p with
    | XI p0 -> op a (iter_op op p0 (op a a))
    | XO p0 -> iter_op op p0 (op a a)
    | XH -> a

  (** val to_nat : positive -> nat **)

  let to_nat x =
    iter_op Coq__1.add x (S O)
 end

module Z =
 struct
  (** val double : z -> z **)

  let double = function
  | Z0 -> Z0
  | Zpos p -> Zpos (XO p)
  | Zneg p -> Zneg (XO p)

  (** val succ_double : z -> z **)

  let succ_double = function
  | Z0 -> Zpos XH
  | Zpos p -> Zpos (XI p)
  | Zneg p -> Zneg (Pos.pred_double p)

  (** val pred_double : z -> z **)

  let pred_double = function
  | Z0 -> Zneg XH
  | Zpos p -> Zpos (Pos.pred_double p)
  | Zneg p -> Zneg (XI p)

  (** val pos_sub : positive -> positive -> z **)

  let rec pos_sub x y =
    match x with
    | XI p ->
      (match y with
       | XI q -> double (pos_sub p q)
       | XO q -> succ_double (pos_sub p q)
       | XH -> Zpos (XO p))
    | XO p ->
      (match y with
       | XI q -> pred_double (pos_sub p q)
       | XO q -> double (pos_sub p q)
       | XH -> Zpos (Pos.pred_double p))
    | XH ->
      (match y with
       | XI q -> Zneg (XO q)
       | XO q -> Zneg (Pos.pred_double q)
       | XH -> Z0)

  (** val add : z -> z -> z **)

  let add x y =
    match x with
    | Z0 -> y
    | Zpos x' ->
      (match y with
       | Z0 -> x
       | Zpos y' -> Zpos (Pos.add x' y')
       | Zneg y' -> pos_sub x' y')
    | Zneg x' ->
      (match y with
       | Z0 -> x
       | Zpos y' -> pos_sub y' x'
       | Zneg y' -> Zneg (Pos.add x' y'))

  (** val opp : z -> z **)

  let opp = function
  | Z0 -> Z0
  | Zpos x0 -> Zneg x0
  | Zneg x0 -> Zpos x0

  (** val sub : z -> z -> z **)

  let sub m n =
    add m (opp n)

  (** val mul : z -> z -> z **)

  let mul x y =
    match x with
    | Z0 -> Z0
    | Zpos x' ->
      (match y with
       | Z0 -> Z0
       | Zpos y' -> Zpos (Pos.mul x' y')
       | Zneg y' -> Zneg (Pos.mul x' y'))
    | Zneg x' ->
      (match y with
       | Z0 -> Z0
       | Zpos y' -> Zneg (Pos.mul x' y')
       | Zneg y' -> Zpos (Pos.mul x' y'))

  (** val compare : z -> z -> comparison **)

  let compare x y =
    match x with
    | Z0 -> (match y with
             | Z0 -> Eq
             | Zpos _ -> Lt
             | Zneg _ -> Gt)
    | Zpos x' -> (match y with
                  | Zpos y' -> Pos.compare x' y'
                  | _ -> Gt)
    | Zneg x' ->
      (match y with
       | Zneg y' -> compOpp (Pos.compare x' y')
       | _ -> Lt)

  (** val leb : z -> z -> bool **)

  let leb x y =
    match compare x y with
    | Gt -> false
    | _ -> true

  (** val ltb : z -> z -> bool **)

  let ltb x y =
    match compare x y with
    | Lt -> true
    | _ -> false

  (** val eqb : z -> z -> bool **)

  let eqb x y =
    match x with
    | Z0 -> (match y with
             | Z0 -> true
             | _ -> false)
    | Zpos p -> (match y with
                 | Zpos q -> Pos.eqb p q
                 | _ -> false)
    | Zneg p -> (match y with
                 | Zneg q -> Pos.eqb p q
                 | _ -> false)

  (** val to_nat : z -> nat **)

  let to_nat = function
  | Zpos p -> Pos.to_nat p
  | _ -> O

  (** val even : z -> bool **)

  let even = function
  | Z0 -> true
  | Zpos p -> (match p with
               | XO _ -> true
               | _ -> false)
  | Zneg p -> (match p with
               | XO _ -> true
               | _ -> false)
 end

(** val get : 'a1 -> 'a1 list -> nat -> 'a1 **)

let get d l i =
  nth i l d

(** val upd : 'a1 list -> nat -> 'a1 -> 'a1 list **)

let rec upd l i x =
  match l with
  | [] -> []
  | y :: r -> (match i with
               | O -> x :: r
               | S k -> y :: (upd r k x))

(** val swap : 'a1 -> 'a1 list -> nat -> nat -> 'a1 list **)

let swap d l i j =
  upd (upd l i (get d l j)) j (get d l i)

(** val bound_loop :
    'a1 -> ('a1 -> bool) -> nat -> 'a1 list -> nat -> nat -> nat **)

let rec bound_loop d p fuel l first len =
  match fuel with
  | O -> first
  | S f ->
    if Nat.eqb len O
    then first
    else let half_len = Nat.div len (S (S O)) in
         let m = add first half_len in
         if p (get d l m)
         then bound_loop d p f l (S m) (sub len (add half_len (S O)))
         else bound_loop d p f l first half_len

(** val lower_bound_p : 'a1 -> ('a1 -> bool) -> 'a1 list -> nat **)

let lower_bound_p d p l =
  bound_loop d p (length l) l O (length l)

(** val linear_loop : ('a1 -> bool) -> 'a1 list -> nat -> nat **)

let rec linear_loop p l it =
  match l with
  | [] -> it
  | x :: r -> if negb (p x) then it else linear_loop p r (S it)

(** val lower_bound_linear_p : ('a1 -> bool) -> 'a1 list -> nat **)

let lower_bound_linear_p p l =
  linear_loop p l O

(** val scan_true :
    'a1 -> ('a1 -> bool) -> nat -> 'a1 list -> nat -> nat -> nat **)

let rec scan_true d p fuel l first last =
  match fuel with
  | O -> first
  | S f ->
    if Nat.eqb first last
    then first
    else if negb (p (get d l first))
         then first
         else scan_true d p f l (S first) last

(** val scan_false :
    'a1 -> ('a1 -> bool) -> nat -> 'a1 list -> nat -> nat -> nat **)

let rec scan_false d p fuel l first last =
  match fuel with
  | O -> first
  | S f ->
    let last' = sub last (S O) in
    if Nat.eqb first last'
    then last'
    else if p (get d l last') then last' else scan_false d p f l first last'

(** val partition_loop :
    'a1 -> ('a1 -> bool) -> nat -> 'a1 list -> nat -> nat -> 'a1 list * nat **)

let rec partition_loop d p fuel l first last =
  match fuel with
  | O -> (l, first)
  | S f ->
    let first1 = scan_true d p (length l) l first last in
    if Nat.eqb first1 last
    then (l, first1)
    else let last1 = scan_false d p (length l) l first1 last in
         if Nat.eqb first1 last1
         then (l, first1)
         else partition_loop d p f (swap d l first1 last1) (S first1) last1

(** val partition : 'a1 -> ('a1 -> bool) -> 'a1 list -> 'a1 list * nat **)

let partition d p l =
  partition_loop d p (S (length l)) l O (length l)

(** val all_of : ('a1 -> bool) -> 'a1 list -> bool **)

let rec all_of p = function
| [] -> true
| x :: r -> if negb (p x) then false else all_of p r

(** val any_of : ('a1 -> bool) -> 'a1 list -> bool **)

let rec any_of p = function
| [] -> false
| x :: r -> if p x then true else any_of p r

(** val all_adjacent_loop :
    ('a1 -> 'a1 -> bool) -> 'a1 -> 'a1 list -> bool **)

let rec all_adjacent_loop p prev = function
| [] -> true
| x :: r -> if negb (p prev x) then false else all_adjacent_loop p x r

(** val all_adjacent : ('a1 -> 'a1 -> bool) -> 'a1 list -> bool **)

let all_adjacent p = function
| [] -> true
| x :: r -> all_adjacent_loop p x r

(** val lower_bound :
    'a1 -> ('a1 -> 'a1 -> bool) -> 'a1 list -> 'a1 -> nat **)

let lower_bound d cmp l v =
  lower_bound_p d (fun a -> cmp a v) l

(** val upper_bound :
    'a1 -> ('a1 -> 'a1 -> bool) -> 'a1 list -> 'a1 -> nat **)

let upper_bound d cmp l v =
  lower_bound_p d (fun a -> negb (cmp v a)) l

(** val lower_bound_linear :
    ('a1 -> 'a1 -> bool) -> 'a1 list -> 'a1 -> nat **)

let lower_bound_linear cmp l v =
  lower_bound_linear_p (fun a -> cmp a v) l

(** val find_sorted :
    'a1 -> ('a1 -> 'a1 -> bool) -> 'a1 list -> 'a1 -> nat **)

let find_sorted d cmp l v =
  let it = lower_bound d cmp l v in
  if (||) ((||) (Nat.eqb it (length l)) (cmp (get d l it) v))
       (cmp v (get d l it))
  then length l
  else it

(** val min_loop :
    ('a1 -> 'a1 -> bool) -> 'a1 list -> nat -> nat -> 'a1 -> nat **)

let rec min_loop cmp rest it result rv =
  match rest with
  | [] -> result
  | x :: r ->
    if cmp x rv
    then min_loop cmp r (S it) it x
    else min_loop cmp r (S it) result rv

(** val min_element : ('a1 -> 'a1 -> bool) -> 'a1 list -> nat **)

let min_element cmp = function
| [] -> O
| x :: r -> min_loop cmp r (S O) O x

(** val pick_child :
    'a1 -> ('a1 -> 'a1 -> bool) -> 'a1 list -> nat -> nat -> nat **)

let pick_child d cmp l len child =
  if (&&) (Nat.ltb (add child (S O)) len)
       (cmp (get d l child) (get d l (add child (S O))))
  then add child (S O)
  else child

(** val sift_loop :
    'a1 -> ('a1 -> 'a1 -> bool) -> nat -> 'a1 list -> nat -> nat -> nat ->
    'a1 -> 'a1 list **)

let rec sift_loop d cmp fuel l len start child top =
  match fuel with
  | O -> upd l start top
  | S f ->
    let l1 = upd l start (get d l child) in
    if Nat.ltb (Nat.div (sub len (S (S O))) (S (S O))) child
    then upd l1 child top
    else let child1 =
           pick_child d cmp l1 len (add (mul (S (S O)) child) (S O))
         in
         if cmp (get d l1 child1) top
         then upd l1 child top
         else sift_loop d cmp f l1 len child child1 top

(** val sift_down :
    'a1 -> ('a1 -> 'a1 -> bool) -> 'a1 list -> nat -> nat -> 'a1 list **)

let sift_down d cmp l len start =
  if (||) (Nat.ltb len (S (S O)))
       (Nat.ltb (Nat.div (sub len (S (S O))) (S (S O))) start)
  then l
  else let child = pick_child d cmp l len (add (mul (S (S O)) start) (S O)) in
       if cmp (get d l child) (get d l start)
       then l
       else sift_loop d cmp len l len start child (get d l start)

(** val pop_heap :
    'a1 -> ('a1 -> 'a1 -> bool) -> 'a1 list -> nat -> 'a1 list **)

let pop_heap d cmp l len =
  if Nat.ltb (S O) len
  then sift_down d cmp (swap d l O (sub len (S O))) (sub len (S O)) O
  else l

(** val make_heap_loop :
    'a1 -> ('a1 -> 'a1 -> bool) -> nat -> 'a1 list -> nat -> 'a1 list **)

let rec make_heap_loop d cmp k l n =
  match k with
  | O -> l
  | S start -> make_heap_loop d cmp start (sift_down d cmp l n start) n

(** val make_heap : 'a1 -> ('a1 -> 'a1 -> bool) -> 'a1 list -> 'a1 list **)

let make_heap d cmp l =
  let n = length l in
  if Nat.ltb (S O) n
  then make_heap_loop d cmp (add (Nat.div (sub n (S (S O))) (S (S O))) (S O))
         l n
  else l

(** val sort_heap_loop :
    'a1 -> ('a1 -> 'a1 -> bool) -> nat -> 'a1 list -> 'a1 list **)

let rec sort_heap_loop d cmp n l =
  match n with
  | O -> l
  | S n' ->
    if Nat.ltb (S O) n
    then sort_heap_loop d cmp n' (pop_heap d cmp l n)
    else l

(** val sort_heap : 'a1 -> ('a1 -> 'a1 -> bool) -> 'a1 list -> 'a1 list **)

let sort_heap d cmp l =
  sort_heap_loop d cmp (length l) l

(** val partial_scan :
    'a1 -> ('a1 -> 'a1 -> bool) -> nat -> 'a1 list -> nat -> nat -> 'a1 list **)

let rec partial_scan d cmp k l mid i =
  match k with
  | O -> l
  | S k' ->
    let l' =
      if cmp (get d l i) (get d l O)
      then sift_down d cmp (swap d l i O) mid O
      else l
    in
    partial_scan d cmp k' l' mid (S i)

(** val partial_sort :
    'a1 -> ('a1 -> 'a1 -> bool) -> 'a1 list -> nat -> 'a1 list **)

let partial_sort d cmp l mid =
  let h = app (make_heap d cmp (firstn mid l)) (skipn mid l) in
  let s = partial_scan d cmp (sub (length l) mid) h mid mid in
  app (sort_heap d cmp (firstn mid s)) (skipn mid s)

(** val sort : 'a1 -> ('a1 -> 'a1 -> bool) -> 'a1 list -> 'a1 list **)

let sort d cmp l =
  sort_heap d cmp (make_heap d cmp l)

(** val step_iter_eq : z -> z -> z -> bool **)

let step_iter_eq v e s =
  if Z.leb Z0 s then negb (Z.ltb v e) else Z.ltb v e

(** val step_iter : nat -> z -> z -> z -> z list **)

let rec step_iter fuel v e s =
  match fuel with
  | O -> []
  | S f ->
    if step_iter_eq v e s then [] else v :: (step_iter f (Z.add v s) e s)

(** val step_range : z -> z -> z -> z list **)

let step_range a b s =
  let fuel = S (Z.to_nat (Z.sub b a)) in
  if Z.ltb s Z0 then step_iter fuel (Z.add b s) a s else step_iter fuel a b s

(** val range_iter : nat -> z -> z -> z list **)

let rec range_iter fuel v e =
  match fuel with
  | O -> []
  | S f -> if Z.eqb v e then [] else v :: (range_iter f (Z.add v (Zpos XH)) e)

(** val range : z -> z -> z list **)

let range a b =
  range_iter (Z.to_nat (Z.sub b a)) a b

(** val hs_index_loop : nat list -> nat list -> nat -> nat **)

let rec hs_index_loop dims coords result =
  match dims with
  | [] -> result
  | dm :: ds ->
    (match coords with
     | [] -> result
     | c :: cs -> hs_index_loop ds cs (add (mul dm result) c))

(** val hyperslab_index : nat list -> nat list -> nat **)

let hyperslab_index dims coords =
  match dims with
  | [] -> O
  | _ :: ds -> (match coords with
                | [] -> O
                | c :: cs -> hs_index_loop ds cs c)

(** val hs_inv_loop : nat list -> nat -> nat list -> nat list **)

let rec hs_inv_loop rdims index acc =
  match rdims with
  | [] -> acc
  | dm :: r ->
    (match r with
     | [] -> index :: acc
     | _ :: _ ->
       let c = Nat.modulo index dm in
       hs_inv_loop r (Nat.div (sub index c) dm) (c :: acc))

(** val hyperslab_coords : nat list -> nat -> nat list **)

let hyperslab_coords dims index =
  hs_inv_loop (rev dims) index []

(** val ragged_index : nat list -> (nat * nat) -> nat **)

let ragged_index offsets c =
  add (nth (fst c) offsets O) (snd c)

(** val ragged_loop : nat -> nat list -> nat -> nat -> nat **)

let rec ragged_loop fuel offsets index i =
  match fuel with
  | O -> i
  | S f ->
    if Nat.leb (nth (add i (S O)) offsets O) index
    then ragged_loop f offsets index (S i)
    else i

(** val ragged_coords : nat list -> nat -> nat * nat **)

let ragged_coords offsets index =
  let i = ragged_loop (length offsets) offsets index O in
  (i, (sub index (nth i offsets O)))

(** val ceil_div : nat -> nat -> nat **)

let ceil_div top bottom =
  add (Nat.div top bottom)
    (if Nat.eqb (Nat.modulo top bottom) O then O else S O)

(** val local_work : nat -> nat -> nat -> nat **)

let local_work total workers id =
  add (Nat.div total workers)
    (if Nat.ltb id (Nat.modulo total workers) then S O else O)

(** val ipow_fuel : 'a1 -> ('a1 -> 'a1 -> 'a1) -> nat -> nat -> 'a1 -> 'a1 **)

let rec ipow_fuel one mul0 fuel n v =
  match fuel with
  | O -> one
  | S f ->
    if Nat.eqb n O
    then one
    else if Nat.even n
         then mul0 (ipow_fuel one mul0 f (Nat.div n (S (S O))) v)
                (ipow_fuel one mul0 f (Nat.div n (S (S O))) v)
         else mul0
                (mul0 v
                  (ipow_fuel one mul0 f (Nat.div (sub n (S O)) (S (S O))) v))
                (ipow_fuel one mul0 f (Nat.div (sub n (S O)) (S (S O))) v)

(** val ipow : 'a1 -> ('a1 -> 'a1 -> 'a1) -> nat -> 'a1 -> 'a1 **)

let ipow one mul0 n v =
  ipow_fuel one mul0 (S n) n v

type elt = z * z

(** val d0 : elt **)

let d0 =
  (Z0, Z0)

(** val cmp_of : nat -> elt -> elt -> bool **)

let cmp_of id a b =
  match id with
  | O -> Z.ltb (fst a) (fst b)
  | S n ->
    (match n with
     | O -> Z.ltb (fst b) (fst a)
     | S n0 ->
       (match n0 with
        | O ->
          (||) (Z.ltb (fst a) (fst b))
            ((&&) (Z.eqb (fst a) (fst b)) (Z.ltb (snd a) (snd b)))
        | S _ -> Z.ltb (fst a) (fst b)))

(** val pred_of : nat -> elt -> bool **)

let pred_of id a =
  match id with
  | O -> Z.even (fst a)
  | S n ->
    (match n with
     | O -> Z.ltb (fst a) (Zpos XH)
     | S n0 ->
       (match n0 with
        | O -> negb (Z.eqb (fst a) (Zpos XH))
        | S n1 -> (match n1 with
                   | O -> true
                   | S _ -> false)))

(** val run_sort : nat -> elt list -> elt list **)

let run_sort c l =
  sort d0 (cmp_of c) l

(** val run_partial_sort : nat -> elt list -> nat -> elt list **)

let run_partial_sort c l mid =
  partial_sort d0 (cmp_of c) l mid

(** val run_partition : nat -> elt list -> elt list * nat **)

let run_partition p l =
  partition d0 (pred_of p) l

(** val run_lower : nat -> elt list -> elt -> nat **)

let run_lower c l v =
  lower_bound d0 (cmp_of c) l v

(** val run_upper : nat -> elt list -> elt -> nat **)

let run_upper c l v =
  upper_bound d0 (cmp_of c) l v

(** val run_linear : nat -> elt list -> elt -> nat **)

let run_linear c l v =
  lower_bound_linear (cmp_of c) l v

(** val run_find_sorted : nat -> elt list -> elt -> nat **)

let run_find_sorted c l v =
  find_sorted d0 (cmp_of c) l v

(** val run_min : nat -> elt list -> nat **)

let run_min c l =
  min_element (cmp_of c) l

(** val run_all_of : nat -> elt list -> bool **)

let run_all_of p l =
  all_of (pred_of p) l

(** val run_any_of : nat -> elt list -> bool **)

let run_any_of p l =
  any_of (pred_of p) l

(** val run_all_adjacent : nat -> elt list -> bool **)

let run_all_adjacent c l =
  all_adjacent (cmp_of c) l

(** val run_step_range : z -> z -> z -> z list **)

let run_step_range =
  step_range

(** val run_range : z -> z -> z list **)

let run_range =
  range

(** val run_hs_index : nat list -> nat list -> nat **)

let run_hs_index =
  hyperslab_index

(** val run_hs_coords : nat list -> nat -> nat list **)

let run_hs_coords =
  hyperslab_coords

(** val run_rr_index : nat list -> nat -> nat -> nat **)

let run_rr_index offs a b =
  ragged_index offs (a, b)

(** val run_rr_coords : nat list -> nat -> nat * nat **)

let run_rr_coords =
  ragged_coords

(** val run_ceil_div : nat -> nat -> nat **)

let run_ceil_div =
  ceil_div

(** val run_local_work : nat -> nat -> nat -> nat **)

let run_local_work =
  local_work

(** val run_ipow_z : nat -> z -> z **)

let run_ipow_z n v =
  ipow (Zpos XH) Z.mul n v
