(** * C14 property theorems — statements only; proofs live in coq/C14/*.v (and
    coq/C18/Grid*.v for the grid layer). *)
From Coq Require Import Reals ZArith List.
From Celer Require Import Base.Num Base.NumR C18.Algorithms C18.Grids C14.Calc
  C14.MscProofs C14.LossWitness.
Import ListNotations.
Local Open Scope R_scope.

Theorem C14_msc_geo_le_true : forall min_step dtrl small mscxs rng emass energy lambda range tstep,
  fst (msc_to_geo (T:=R) min_step dtrl small mscxs rng emass energy lambda range tstep) <= tstep.
Proof. exact msc_geo_le_true. Qed.
Print Assumptions C14_msc_geo_le_true.

Theorem C14_msc_true_between : forall min_step small true_step alpha range lambda gstep,
  gstep <= true_step ->
  let t := msc_from_geo (T:=R) min_step small true_step alpha range lambda gstep in
  gstep <= t <= true_step.
Proof. exact msc_true_between. Qed.
Print Assumptions C14_msc_true_between.

Theorem C14_msc_const_xs_le : forall lambda t, 0 < lambda -> 0 <= t ->
  0 <= - lambda * nexpm1 (T:=R) (- t / lambda) <= t.
Proof. exact msc_const_xs_le. Qed.
Print Assumptions C14_msc_const_xs_le.

Theorem C14_msc_const_xs_inverse : forall lambda t, 0 < lambda -> 0 <= t ->
  let z := - lambda * nexpm1 (T:=R) (- t / lambda) in
  - lambda * nlog1p (T:=R) (- z / lambda) = t.
Proof. exact msc_const_xs_inverse. Qed.
Print Assumptions C14_msc_const_xs_inverse.

(** F7 settled: "does not decrease with step length" is false across the
    linear/range switch, even for tables that are consistent at the energy *)
Theorem C14_mean_loss_monotone_refuted :
  exists (dedx rng : xsgrid R) (lll e range s1 s2 : R),
    (forall v, In v (xg_vals dedx) -> 0 < v) /\ (forall v, In v (xg_vals rng) -> 0 < v) /\
    0 < lll <= 1 /\ 0 < e /\ range_calc rng e = range /\
    0 < s1 < s2 /\ s2 <= range /\
    mean_loss dedx rng lll e range s2 < mean_loss dedx rng lll e range s1.
Proof. exact mean_loss_monotone_refuted. Qed.
Print Assumptions C14_mean_loss_monotone_refuted.
