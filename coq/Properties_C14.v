(** * C14 property theorems — statements only; proofs live in coq/C14/*.v (and
    coq/C18/GridProofs.v for the grid layer).  All over the instance R of the
    model coq/C14/Calc.v; [knot g i] = exp (front + delta i) is the energy of
    knot i, [xs_at] is XsCalculator::operator[] (the table value at a knot). *)
From Coq Require Import Reals ZArith List Floats.
From Celer Require Import Base.Num Base.NumR Base.NumF C18.Algorithms C18.Grids C18.GridProofs C14.Calc
  C14.XsProofs C14.RangeProofs C14.LossProofs C14.MscProofs C14.LossWitness C14.LossExample C18.GridFlocq C14.Builder C14.BuilderProofs
  C14.BuilderWitness C14.Generic C14.GenericProofs C14.RangeClampProofs C14.GeantBuilderProofs
  C14.LossMonoProofs C14.LossMonoExample C14.GeantBuilderProofs2.
Import ListNotations.
Local Open Scope R_scope.

(** ** XsCalculator / EnergyLossCalculator *)
Theorem C14_xs_at_knots : forall g i, xs_valid g -> (0 <= i < ug_size (xg_loge g))%Z ->
  xs_calc g (knot g i) = xs_at g i.
Proof. exact xs_at_knots. Qed.
Print Assumptions C14_xs_at_knots.

Theorem C14_find_bin_spec : forall g E, xs_valid g ->
  knot g 0 <= E < knot g (ug_size (xg_loge g) - 1) ->
  let i := ug_find (xg_loge g) (ln E) in
  (0 <= i)%Z /\ (i + 1 < ug_size (xg_loge g))%Z /\ knot g i <= E < knot g (i + 1).
Proof. exact find_bin_spec. Qed.
Print Assumptions C14_find_bin_spec.

Theorem C14_find_bin_unique : forall g E i, xs_valid g -> (0 <= i)%Z ->
  (i + 1 < ug_size (xg_loge g))%Z -> knot g i <= E < knot g (i + 1) ->
  ug_find (xg_loge g) (ln E) = i.
Proof. exact find_bin_unique. Qed.
Print Assumptions C14_find_bin_unique.

Theorem C14_xs_between_neighbours : forall g E, xs_valid g ->
  knot g 0 < E < knot g (ug_size (xg_loge g) - 1) ->
  let i := ug_find (xg_loge g) (ln E) in
  knot g i <= E < knot g (i + 1) /\
  Rmin (xs_at g i) (xs_at g (i + 1)) <= xs_calc g E <= Rmax (xs_at g i) (xs_at g (i + 1)).
Proof. exact xs_between_neighbours. Qed.
Print Assumptions C14_xs_between_neighbours.

Theorem C14_xs_continuous : forall g i, xs_valid g -> (0 < i)%Z ->
  (i + 1 < ug_size (xg_loge g))%Z -> continuity_pt (xs_calc g) (knot g i).
Proof. exact xs_continuous. Qed.
Print Assumptions C14_xs_continuous.

(** on the closed bin the lookup IS the (continuous) bin formula: left limits
    at every knot, including the last one, equal the knot value *)
Theorem C14_xs_calc_on_closed_bin : forall g E i, xs_valid g -> (0 <= i)%Z ->
  (i + 1 < ug_size (xg_loge g))%Z -> knot g i <= E <= knot g (i + 1) ->
  xs_calc g E = xs_bin g i E.
Proof. exact xs_calc_on_closed_bin. Qed.
Print Assumptions C14_xs_calc_on_closed_bin.

Theorem C14_xs_extrapolation : forall g E, xs_valid g -> 0 < E ->
  (E <= knot g 0 ->
     xs_calc g E = if (xg_prime g <=? 0)%Z then xs_get g 0 / E else xs_get g 0) /\
  (knot g (ug_size (xg_loge g) - 1) <= E ->
     let n1 := (ug_size (xg_loge g) - 1)%Z in
     xs_calc g E = if (xg_prime g <=? n1)%Z then xs_get g n1 / E else xs_get g n1).
Proof. exact xs_extrapolation. Qed.
Print Assumptions C14_xs_extrapolation.

Theorem C14_xs_nonneg : forall g E, xs_valid g -> vals_nonneg g -> 0 < E -> 0 <= xs_calc g E.
Proof. exact xs_nonneg. Qed.
Print Assumptions C14_xs_nonneg.

(** ** RangeCalculator / InverseRangeCalculator *)
Theorem C14_range_monotone : forall g, range_valid g ->
  forall E1 E2, 0 < E1 <= E2 -> range_calc g E1 <= range_calc g E2.
Proof. exact range_monotone. Qed.
Print Assumptions C14_range_monotone.

Theorem C14_inverse_range_monotone : forall g, range_valid g ->
  forall r1 r2, 0 <= r1 <= r2 -> inv_range_calc g r1 <= inv_range_calc g r2.
Proof. exact inverse_range_monotone. Qed.
Print Assumptions C14_inverse_range_monotone.

Theorem C14_range_inverse_id : forall g, range_valid g ->
  forall E, 0 < E <= knot g (ug_size (xg_loge g) - 1) -> inv_range_calc g (range_calc g E) = E.
Proof. exact range_inverse_id. Qed.
Print Assumptions C14_range_inverse_id.

Theorem C14_inverse_range_id : forall g, range_valid g ->
  forall r, 0 < r <= rv g (ug_size (xg_loge g) - 1) -> range_calc g (inv_range_calc g r) = r.
Proof. exact inverse_range_id. Qed.
Print Assumptions C14_inverse_range_id.

(** ** calc_mean_energy_loss *)
Theorem C14_mean_loss_bounds : forall dedx rng, xs_valid dedx -> vals_nonneg dedx -> range_valid rng ->
  forall lll E range, 0 < lll <= 1 -> 0 < E -> 0 < range <= range_calc rng E ->
  forall step, 0 < step <= range -> 0 <= mean_loss dedx rng lll E range step <= E.
Proof. exact mean_loss_bounds. Qed.
Print Assumptions C14_mean_loss_bounds.

Theorem C14_mean_loss_range_is_all : forall dedx rng lll E range,
  E * lll <= range * xs_calc dedx E -> mean_loss dedx rng lll E range range = E.
Proof. exact mean_loss_range_is_all. Qed.
Print Assumptions C14_mean_loss_range_is_all.

Theorem C14_mean_loss_monotone_in_branch : forall dedx rng, xs_valid dedx -> vals_nonneg dedx ->
  range_valid rng -> forall lll E range, 0 < lll <= 1 -> 0 < E -> 0 < range <= range_calc rng E ->
  forall s1 s2, 0 < s1 <= s2 -> s2 <= range ->
  (linear_branch dedx lll E s1 <-> linear_branch dedx lll E s2) ->
  mean_loss dedx rng lll E range s1 <= mean_loss dedx rng lll E range s2.
Proof. exact mean_loss_monotone_in_branch. Qed.
Print Assumptions C14_mean_loss_monotone_in_branch.

(** monotone across the switch only under an explicit consistency hypothesis ... *)
Theorem C14_mean_loss_monotone : forall dedx rng, xs_valid dedx -> vals_nonneg dedx ->
  range_valid rng -> forall lll E range, 0 < lll <= 1 -> 0 < E -> 0 < range <= range_calc rng E ->
  (forall s, 0 < s <= range -> ~ linear_branch dedx lll E s -> E * lll <= mean_loss dedx rng lll E range s) ->
  forall s1 s2, 0 < s1 <= s2 -> s2 <= range ->
  mean_loss dedx rng lll E range s1 <= mean_loss dedx rng lll E range s2.
Proof. exact mean_loss_monotone. Qed.
Print Assumptions C14_mean_loss_monotone.

(** ... F7 settled: without it "does not decrease with step length" is false
    across the linear/range switch, even for tables consistent at that energy *)
Theorem C14_mean_loss_monotone_refuted :
  exists (dedx rng : xsgrid R) (lll e range s1 s2 : R),
    (forall v, In v (xg_vals dedx) -> 0 < v) /\ (forall v, In v (xg_vals rng) -> 0 < v) /\
    0 < lll <= 1 /\ 0 < e /\ range_calc rng e = range /\
    0 < s1 < s2 /\ s2 <= range /\
    mean_loss dedx rng lll e range s2 < mean_loss dedx rng lll e range s1.
Proof. exact mean_loss_monotone_refuted. Qed.
Print Assumptions C14_mean_loss_monotone_refuted.

(** ** MSC path conversions *)
Theorem C14_msc_geo_le_true : forall min_step dtrl small mscxs rng emass energy lambda range tstep,
  fst (msc_to_geo (T:=R) min_step dtrl small mscxs rng emass energy lambda range tstep) <= tstep.
Proof. exact msc_geo_le_true. Qed.
Print Assumptions C14_msc_geo_le_true.

Theorem C14_msc_true_between : forall min_step small true_step alpha range lambda gstep,
  gstep <= true_step ->
  let t := msc_from_geo (T:=R) min_step small true_step alpha range lambda gstep in
  gstep <= t <= true_step.
Proof. exact msc_true_between. Qed.
Print Assumptions C14_msc_true_between.

Theorem C14_msc_const_xs_le : forall lambda t, 0 < lambda -> 0 <= t ->
  0 <= - lambda * nexpm1 (T:=R) (- t / lambda) <= t.
Proof. exact msc_const_xs_le. Qed.
Print Assumptions C14_msc_const_xs_le.

Theorem C14_msc_const_xs_inverse : forall lambda t, 0 < lambda -> 0 <= t ->
  let z := - lambda * nexpm1 (T:=R) (- t / lambda) in
  - lambda * nlog1p (T:=R) (- z / lambda) = t.
Proof. exact msc_const_xs_inverse. Qed.
Print Assumptions C14_msc_const_xs_inverse.

(** ** UniformGrid::find index law under a rounding-error model (shared with C18) *)
Theorem C14_find_bin_rounded_in_range : forall (rnd : R -> R) (u : R),
  0 <= u -> (forall x y, x <= y -> rnd x <= rnd y) -> rnd 0 = 0 ->
  forall front back size v,
  (2 <= size)%Z -> 2 * IZR size * u < 1 -> front <= v < back ->
  let D := rnd (back - front) in
  let delta := rnd (D / IZR (size - 1)) in
  0 < D -> (D / IZR (size - 1)) * (1 - u) <= delta ->
  rnd (D / delta) <= (D / delta) * (1 + u) ->
  let bin := rfind rnd front back size v in
  (0 <= bin)%Z /\ (bin + 1 < size)%Z.
Proof. exact rfind_in_range. Qed.
Print Assumptions C14_find_bin_rounded_in_range.

(** ... and for IEEE-754 binary64 itself: [rnd64] is Flocq's round-to-nearest-even
    onto the binary64 format (FLT_exp (-1074) 53), i.e. the value every
    non-overflowing binary64 -, / returns; [rfind rnd64] is UniformGrid::find
    (with from_bounds' delta) evaluated with those roundings.  Holds for every
    grid of 2 .. 2^52-1 points whose spacing is not subnormal. *)
Theorem C14_uniform_find_binary64_in_range : forall front back size v,
  (2 <= size < 4503599627370496)%Z -> front <= v < back ->
  Raux.bpow Zaux.radix2 (-1022) <= rnd64 (back - front) / IZR (size - 1) ->
  let bin := rfind rnd64 front back size v in
  (0 <= bin)%Z /\ (bin + 1 < size)%Z.
Proof. exact find_bin_float_in_range. Qed.
Print Assumptions C14_uniform_find_binary64_in_range.

(** ** ValueGridXsBuilder::build (ValueGridBuilder.cc): the stored prime index.
    Whatever of k-1 / k UniformGrid::find returns under roundoff, the soft_equal
    correction yields k; over R the built table has E[prime_index] = eprime; without
    the correction binary64 stores k-1 on Geant4's standard 85-point grid. *)
Theorem C14_builder_fix_prime_law : forall rel abs grid le k bin,
  (bin = k \/ bin = (k - 1)%Z) ->
  soft_equal_tol rel abs (ug_at grid k) le = true ->
  soft_equal_tol rel abs (ug_at grid (k + 1)) le = false ->
  fix_prime rel abs grid le bin = k.
Proof. exact fix_prime_law. Qed.
Print Assumptions C14_builder_fix_prime_law.

Theorem C14_builder_prime_index_law : forall rel abs lmin lmax n k,
  0 <= rel -> 0 < abs -> (2 <= n)%Z -> lmin < lmax -> (0 <= k)%Z -> (k + 1 < n)%Z ->
  let grid := ug_from_bounds lmin lmax n in
  Rmax abs (rel * Rmax (Rabs (ug_at grid (k + 1))) (Rabs (ug_at grid k))) <= ug_delta grid ->
  build_prime_index rel abs lmin (ug_at grid k) lmax n = k /\
  knot (build_xs rel abs lmin (ug_at grid k) lmax (repeat 0 (Z.to_nat n)))
       (build_prime_index rel abs lmin (ug_at grid k) lmax n) = exp (ug_at grid k).
Proof. exact build_prime_index_law. Qed.
Print Assumptions C14_builder_prime_index_law.

Theorem C14_builder_uncorrected_refuted :
  exists (lmin le lmax : PrimFloat.float) (n k : Z),
    build_prime_index_uncorrected lmin le lmax n = (k - 1)%Z /\
    build_prime_index 0x1.19799812dea11p-40%float 0x1.6849b86a12b9bp-47%float lmin le lmax n = k /\
    PrimFloat.ltb (PrimFloat.abs (PrimFloat.sub (ug_at (ug_from_bounds lmin lmax n) k) le)) 0x1p-48%float = true.
Proof. exact build_prime_uncorrected_refuted. Qed.
Print Assumptions C14_builder_uncorrected_refuted.

(** ** GenericCalculator (celeritas/grid/GenericCalculator.hh): linear interpolation on a
    NONUNIFORM grid, end values extended outward as constants.  [generic_valid] = the
    constructor's preconditions (x strictly increasing, >= 2 points, |y| = |x|). *)
Theorem C14_generic_at_knots : forall g, generic_valid g -> forall i, (i < length (gg_x g))%nat ->
  generic_calc g (get 0 (gg_x g) i) = generic_at g i.
Proof. exact generic_at_knots. Qed.
Print Assumptions C14_generic_at_knots.

Theorem C14_generic_between : forall g, generic_valid g -> forall x,
  get 0 (gg_x g) 0 <= x < get 0 (gg_x g) (length (gg_x g) - 1) ->
  let i := nu_find (gg_x g) x in
  (i + 1 < length (gg_x g))%nat /\ get 0 (gg_x g) i <= x < get 0 (gg_x g) (i + 1) /\
  Rmin (generic_at g i) (generic_at g (i + 1)) <= generic_calc g x
    <= Rmax (generic_at g i) (generic_at g (i + 1)).
Proof. exact generic_between_found. Qed.
Print Assumptions C14_generic_between.

(** on every closed bin the lookup is the bin's straight line ... *)
Theorem C14_generic_on_closed_bin : forall g, generic_valid g -> forall x i, (i + 1 < length (gg_x g))%nat ->
  get 0 (gg_x g) i <= x <= get 0 (gg_x g) (i + 1) ->
  generic_calc g x = lin_interp (get 0 (gg_x g) i) (generic_at g i)
                                (get 0 (gg_x g) (i + 1)) (generic_at g (i + 1)) x.
Proof. exact generic_on_closed_bin. Qed.
Print Assumptions C14_generic_on_closed_bin.

(** ... and it is continuous at EVERY real x (knots, bin interiors, both ends, outside) *)
Theorem C14_generic_continuous : forall g, generic_valid g -> forall x, continuity_pt (generic_calc g) x.
Proof. exact generic_continuous. Qed.
Print Assumptions C14_generic_continuous.

Theorem C14_generic_clamping : forall g, generic_valid g -> forall x,
  (x <= get 0 (gg_x g) 0 -> generic_calc g x = generic_at g 0) /\
  (get 0 (gg_x g) (length (gg_x g) - 1) <= x -> generic_calc g x = generic_at g (length (gg_x g) - 1)).
Proof. exact generic_clamping. Qed.
Print Assumptions C14_generic_clamping.

Theorem C14_generic_nonneg : forall g, generic_valid g ->
  (forall i, (i < length (gg_x g))%nat -> 0 <= generic_at g i) -> forall x, 0 <= generic_calc g x.
Proof. exact generic_nonneg. Qed.
Print Assumptions C14_generic_nonneg.

Theorem C14_generic_monotone : forall g, generic_valid g ->
  (forall i j, (i <= j)%nat -> (j < length (gg_x g))%nat -> get 0 (gg_y g) i <= get 0 (gg_y g) j) ->
  forall x1 x2, x1 <= x2 -> generic_calc g x1 <= generic_calc g x2.
Proof. exact generic_monotone. Qed.
Print Assumptions C14_generic_monotone.

Theorem C14_generic_strictly_monotone : forall g, generic_valid g -> increasing (gg_y g) ->
  forall x1 x2, get 0 (gg_x g) 0 <= x1 -> x1 < x2 -> x2 <= get 0 (gg_x g) (length (gg_x g) - 1) ->
  generic_calc g x1 < generic_calc g x2.
Proof. exact generic_strictly_monotone. Qed.
Print Assumptions C14_generic_strictly_monotone.

(** from_inverse / make_inverse: the inverse function on [x_front, x_back], composed with
    the clamp outside *)
Theorem C14_generic_inverse : forall g, generic_valid g -> increasing (gg_y g) -> forall x,
  generic_calc (generic_inverse g) (generic_calc g x)
  = Rmax (get 0 (gg_x g) 0) (Rmin x (get 0 (gg_x g) (length (gg_x g) - 1))).
Proof. exact generic_inverse_clamp. Qed.
Print Assumptions C14_generic_inverse.

(** ** Range / inverse range on the WHOLE positive axis: identity on the table and on the
    sqrt(E) / r^2 parts below it, the top clamp above it; and the documented pieces *)
Theorem C14_range_inverse_clamp : forall g, range_valid g -> forall E, 0 < E ->
  inv_range_calc g (range_calc g E) = Rmin E (knot g (ug_size (xg_loge g) - 1)).
Proof. exact range_inverse_clamp. Qed.
Print Assumptions C14_range_inverse_clamp.

Theorem C14_inverse_range_clamp : forall g, range_valid g -> forall r, 0 < r ->
  range_calc g (inv_range_calc g r) = Rmin r (rv g (ug_size (xg_loge g) - 1)).
Proof. exact inverse_range_clamp. Qed.
Print Assumptions C14_inverse_range_clamp.

Theorem C14_range_pieces : forall g, range_valid g -> forall E, 0 < E ->
  (E <= knot g 0 -> range_calc g E = rv g 0 * R_sqrt.sqrt (E / knot g 0)) /\
  (knot g (ug_size (xg_loge g) - 1) <= E -> range_calc g E = rv g (ug_size (xg_loge g) - 1)).
Proof. exact range_pieces. Qed.
Print Assumptions C14_range_pieces.

Theorem C14_inverse_range_pieces : forall g, range_valid g -> forall r,
  (r < rv g 0 -> inv_range_calc g r = knot g 0 * ((r / rv g 0) * (r / rv g 0))) /\
  (rv g (ug_size (xg_loge g) - 1) <= r -> inv_range_calc g r = knot g (ug_size (xg_loge g) - 1)).
Proof. exact inverse_range_pieces. Qed.
Print Assumptions C14_inverse_range_pieces.

(** ** ValueGridXsBuilder::from_geant (ValueGridBuilder.cc) *)
Theorem C14_from_geant_concat : forall (l lp : list R), (1 <= length l)%nat ->
  let xs := removelast l ++ lp in
  length xs = (length l + length lp - 1)%nat /\
  (forall i, (i < length l - 1)%nat -> get 0 xs i = get 0 l i) /\
  (forall j, get 0 xs (length l - 1 + j) = get 0 lp j).
Proof. exact from_geant_concat. Qed.
Print Assumptions C14_from_geant_concat.

(** end to end: imported lambda on E_0..E_{nl-1} and lambda_prim on E_{nl-1}..E_{nl+nu-2}
    (E_j = exp (a + h j), log spacing h > 0 larger than soft_equal's tolerance): from_geant
    does not throw, the built XsGridData is valid with the imported energies as knots and the
    prime index at the coincident point, XsCalculator[i] = lambda_i below it and
    lambda_prim_j / E_j from it on *)
Theorem C14_from_geant_reproduces : forall rel abs a h nl nu (lambda lambda_prim : list R),
  0 <= rel -> 0 < abs -> 0 < h -> (2 <= nl)%nat -> (2 <= nu)%nat ->
  length lambda = nl -> length lambda_prim = nu ->
  let le := geant_energies a h 0 nl in
  let pe := geant_energies a h (nl - 1) nu in
  let N := Z.of_nat (nl + nu - 1) in
  let grid := ug_from_bounds a (a + h * IZR (N - 1)) N in
  let k := Z.of_nat (nl - 1) in
  (N < no_scaling)%Z ->
  Rmax abs (rel * Rmax (Rabs (ug_at grid (k + 1))) (Rabs (ug_at grid k))) <= ug_delta grid ->
  exists g, xs_built_grid rel abs (from_geant rel abs le lambda pe lambda_prim) = Some g /\
    xs_valid g /\ ug_size (xg_loge g) = N /\ xg_prime g = k /\
    (forall i, (i < nl - 1)%nat ->
       knot g (Z.of_nat i) = get 0 le i /\ xs_at g (Z.of_nat i) = get 0 lambda i) /\
    (forall j, (j < nu)%nat ->
       knot g (k + Z.of_nat j) = get 0 pe j /\
       xs_at g (k + Z.of_nat j) = get 0 lambda_prim j / get 0 pe j).
Proof. exact from_geant_reproduces. Qed.
Print Assumptions C14_from_geant_reproduces.

(** ** calc_mean_energy_loss: the positive monotonicity statements beside the refutation.
    [loss_monotone] = forall 0 < s1 <= s2 <= range, loss s1 <= loss s2. *)
(** exact characterisation: monotone iff the range-based loss at the switch step
    s* = lll E / (dE/dx) is at least lll E (and always if the switch is beyond the range) *)
Theorem C14_mean_loss_monotone_iff_switch : forall dedx rng, xs_valid dedx -> vals_nonneg dedx ->
  range_valid rng -> forall lll E range, 0 < lll <= 1 -> 0 < E -> 0 < range <= range_calc rng E ->
  0 < xs_calc dedx E -> E * lll / xs_calc dedx E <= range ->
  (loss_monotone dedx rng lll E range <->
   E * lll <= mean_loss dedx rng lll E range (E * lll / xs_calc dedx E)).
Proof. exact mean_loss_monotone_iff_switch. Qed.
Print Assumptions C14_mean_loss_monotone_iff_switch.

Theorem C14_mean_loss_monotone_all_linear : forall dedx rng, xs_valid dedx -> vals_nonneg dedx ->
  range_valid rng -> forall lll E range, 0 < lll <= 1 -> 0 < E -> 0 < range <= range_calc rng E ->
  range * xs_calc dedx E < E * lll -> loss_monotone dedx rng lll E range.
Proof. exact mean_loss_monotone_all_linear. Qed.
Print Assumptions C14_mean_loss_monotone_all_linear.

(** chord condition on the inverse range curve *)
Theorem C14_mean_loss_monotone_chord : forall dedx rng, xs_valid dedx -> vals_nonneg dedx ->
  range_valid rng -> forall lll E range, 0 < lll <= 1 -> 0 < E -> 0 < range <= range_calc rng E ->
  (forall r, 0 <= r < range ->
     xs_calc dedx E * (range - r) <= inv_range_calc rng range - inv_range_calc rng r) ->
  loss_monotone dedx rng lll E range.
Proof. exact mean_loss_monotone_chord. Qed.
Print Assumptions C14_mean_loss_monotone_chord.

(** structural condition: every tabulated Delta E / Delta r that starts below the range is at
    least dE/dx(E), and so is the chord from the origin on the power-law part *)
Theorem C14_mean_loss_monotone_slopes : forall dedx rng, xs_valid dedx -> vals_nonneg dedx ->
  range_valid rng -> forall lll E range, 0 < lll <= 1 -> 0 < E -> 0 < range <= range_calc rng E ->
  (forall k, (0 <= k)%Z -> (k + 1 < ug_size (xg_loge rng))%Z -> rv rng k < range ->
     xs_calc dedx E * (rv rng (k + 1) - rv rng k) <= knot rng (k + 1) - knot rng k) ->
  xs_calc dedx E * Rmin range (rv rng 0) <= inv_range_calc rng (Rmin range (rv rng 0)) ->
  loss_monotone dedx rng lll E range.
Proof. exact mean_loss_monotone_slopes. Qed.
Print Assumptions C14_mean_loss_monotone_slopes.

(** consistency hypothesis: the range table is the trapezoid integral of 1/(dE/dx) over the
    same grid; then it suffices that dE/dx(E) is not above the tabulated dE/dx of the bins that
    start below the range.  (With dE/dx rising towards E this fails, and so does the
    conclusion: C14_mean_loss_monotone_refuted.) *)
Theorem C14_mean_loss_monotone_consistent : forall dedx rng, xs_valid dedx -> vals_nonneg dedx ->
  range_valid rng -> forall lll E range, 0 < lll <= 1 -> 0 < E -> 0 < range <= range_calc rng E ->
  (xg_loge dedx = xg_loge rng /\
   forall i, (0 <= i)%Z -> (i + 1 < ug_size (xg_loge rng))%Z ->
     rv rng (i + 1) - rv rng i
     = (knot rng (i + 1) - knot rng i) * (1 / xs_at dedx i + 1 / xs_at dedx (i + 1)) / 2) ->
  (forall k, (0 <= k)%Z -> (k + 1 < ug_size (xg_loge rng))%Z -> rv rng k < range ->
     xs_calc dedx E <= xs_at dedx k /\ xs_calc dedx E <= xs_at dedx (k + 1)) ->
  xs_calc dedx E * Rmin range (rv rng 0) <= inv_range_calc rng (Rmin range (rv rng 0)) ->
  loss_monotone dedx rng lll E range.
Proof. exact mean_loss_monotone_consistent. Qed.
Print Assumptions C14_mean_loss_monotone_consistent.

(** from_scaled (every point 1/E-scaled, prime index 0) and ValueGridLogBuilder::from_geant /
    from_range (no scaling): the built grid has the imported energies as knots and the
    calculator reproduces the imported values at every knot *)
Theorem C14_from_scaled_reproduces : forall rel abs a h n (vals : list R),
  0 <= rel -> 0 < abs -> 0 < h -> (2 <= n)%nat -> length vals = n ->
  let es := geant_energies a h 0 n in
  let N := Z.of_nat n in
  let grid := ug_from_bounds a (a + h * IZR (N - 1)) N in
  (N < no_scaling)%Z ->
  Rmax abs (rel * Rmax (Rabs (ug_at grid (0 + 1))) (Rabs (ug_at grid 0))) <= ug_delta grid ->
  exists g, xs_built_grid rel abs (from_scaled es vals) = Some g /\
    xs_valid g /\ xg_prime g = 0%Z /\ ug_size (xg_loge g) = N /\
    forall i, (i < n)%nat ->
      knot g (Z.of_nat i) = get 0 es i /\ xs_at g (Z.of_nat i) = get 0 vals i / get 0 es i.
Proof. exact from_scaled_reproduces. Qed.
Print Assumptions C14_from_scaled_reproduces.

Theorem C14_log_from_geant_reproduces : forall a h n (vals : list R),
  0 < h -> (2 <= n)%nat -> length vals = n ->
  let es := geant_energies a h 0 n in
  (Z.of_nat n < no_scaling)%Z ->
  let g := log_built_grid (log_from_geant es vals) in
  xs_valid g /\ xg_prime g = no_scaling /\ ug_size (xg_loge g) = Z.of_nat n /\
  forall i, (i < n)%nat -> knot g (Z.of_nat i) = get 0 es i /\ xs_at g (Z.of_nat i) = get 0 vals i.
Proof. exact log_from_geant_reproduces. Qed.
Print Assumptions C14_log_from_geant_reproduces.
