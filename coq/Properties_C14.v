(** * C14 property theorems — statements only; proofs live in coq/C14/*.v (and
    coq/C18/GridProofs.v for the grid layer).  All over the instance R of the
    model coq/C14/Calc.v; [knot g i] = exp (front + delta i) is the energy of
    knot i, [xs_at] is XsCalculator::operator[] (the table value at a knot). *)
From Coq Require Import Reals ZArith List Floats.
From Celer Require Import Base.Num Base.NumR Base.NumF C18.Algorithms C18.Grids C18.GridProofs C14.Calc
  C14.XsProofs C14.RangeProofs C14.LossProofs C14.MscProofs C14.LossWitness C14.LossExample C18.GridFlocq C14.Builder C14.BuilderProofs
  C14.BuilderWitness.
Import ListNotations.
Local Open Scope R_scope.

(** ** XsCalculator / EnergyLossCalculator *)
Theorem C14_xs_at_knots : forall g i, xs_valid g -> (0 <= i < ug_size (xg_loge g))%Z ->
  xs_calc g (knot g i) = xs_at g i.
Proof. exact xs_at_knots. Qed.
Print Assumptions C14_xs_at_knots.

Theorem C14_find_bin_spec : forall g E, xs_valid g ->
  knot g 0 <= E < knot g (ug_size (xg_loge g) - 1) ->
  let i := ug_find (xg_loge g) (ln E) in
  (0 <= i)%Z /\ (i + 1 < ug_size (xg_loge g))%Z /\ knot g i <= E < knot g (i + 1).
Proof. exact find_bin_spec. Qed.
Print Assumptions C14_find_bin_spec.

Theorem C14_find_bin_unique : forall g E i, xs_valid g -> (0 <= i)%Z ->
  (i + 1 < ug_size (xg_loge g))%Z -> knot g i <= E < knot g (i + 1) ->
  ug_find (xg_loge g) (ln E) = i.
Proof. exact find_bin_unique. Qed.
Print Assumptions C14_find_bin_unique.

Theorem C14_xs_between_neighbours : forall g E, xs_valid g ->
  knot g 0 < E < knot g (ug_size (xg_loge g) - 1) ->
  let i := ug_find (xg_loge g) (ln E) in
  knot g i <= E < knot g (i + 1) /\
  Rmin (xs_at g i) (xs_at g (i + 1)) <= xs_calc g E <= Rmax (xs_at g i) (xs_at g (i + 1)).
Proof. exact xs_between_neighbours. Qed.
Print Assumptions C14_xs_between_neighbours.

Theorem C14_xs_continuous : forall g i, xs_valid g -> (0 < i)%Z ->
  (i + 1 < ug_size (xg_loge g))%Z -> continuity_pt (xs_calc g) (knot g i).
Proof. exact xs_continuous. Qed.
Print Assumptions C14_xs_continuous.

(** on the closed bin the lookup IS the (continuous) bin formula: left limits
    at every knot, including the last one, equal the knot value *)
Theorem C14_xs_calc_on_closed_bin : forall g E i, xs_valid g -> (0 <= i)%Z ->
  (i + 1 < ug_size (xg_loge g))%Z -> knot g i <= E <= knot g (i + 1) ->
  xs_calc g E = xs_bin g i E.
Proof. exact xs_calc_on_closed_bin. Qed.
Print Assumptions C14_xs_calc_on_closed_bin.

Theorem C14_xs_extrapolation : forall g E, xs_valid g -> 0 < E ->
  (E <= knot g 0 ->
     xs_calc g E = if (xg_prime g <=? 0)%Z then xs_get g 0 / E else xs_get g 0) /\
  (knot g (ug_size (xg_loge g) - 1) <= E ->
     let n1 := (ug_size (xg_loge g) - 1)%Z in
     xs_calc g E = if (xg_prime g <=? n1)%Z then xs_get g n1 / E else xs_get g n1).
Proof. exact xs_extrapolation. Qed.
Print Assumptions C14_xs_extrapolation.

Theorem C14_xs_nonneg : forall g E, xs_valid g -> vals_nonneg g -> 0 < E -> 0 <= xs_calc g E.
Proof. exact xs_nonneg. Qed.
Print Assumptions C14_xs_nonneg.

(** ** RangeCalculator / InverseRangeCalculator *)
Theorem C14_range_monotone : forall g, range_valid g ->
  forall E1 E2, 0 < E1 <= E2 -> range_calc g E1 <= range_calc g E2.
Proof. exact range_monotone. Qed.
Print Assumptions C14_range_monotone.

Theorem C14_inverse_range_monotone : forall g, range_valid g ->
  forall r1 r2, 0 <= r1 <= r2 -> inv_range_calc g r1 <= inv_range_calc g r2.
Proof. exact inverse_range_monotone. Qed.
Print Assumptions C14_inverse_range_monotone.

Theorem C14_range_inverse_id : forall g, range_valid g ->
  forall E, 0 < E <= knot g (ug_size (xg_loge g) - 1) -> inv_range_calc g (range_calc g E) = E.
Proof. exact range_inverse_id. Qed.
Print Assumptions C14_range_inverse_id.

Theorem C14_inverse_range_id : forall g, range_valid g ->
  forall r, 0 < r <= rv g (ug_size (xg_loge g) - 1) -> range_calc g (inv_range_calc g r) = r.
Proof. exact inverse_range_id. Qed.
Print Assumptions C14_inverse_range_id.

(** ** calc_mean_energy_loss *)
Theorem C14_mean_loss_bounds : forall dedx rng, xs_valid dedx -> vals_nonneg dedx -> range_valid rng ->
  forall lll E range, 0 < lll <= 1 -> 0 < E -> 0 < range <= range_calc rng E ->
  forall step, 0 < step <= range -> 0 <= mean_loss dedx rng lll E range step <= E.
Proof. exact mean_loss_bounds. Qed.
Print Assumptions C14_mean_loss_bounds.

Theorem C14_mean_loss_range_is_all : forall dedx rng lll E range,
  E * lll <= range * xs_calc dedx E -> mean_loss dedx rng lll E range range = E.
Proof. exact mean_loss_range_is_all. Qed.
Print Assumptions C14_mean_loss_range_is_all.

Theorem C14_mean_loss_monotone_in_branch : forall dedx rng, xs_valid dedx -> vals_nonneg dedx ->
  range_valid rng -> forall lll E range, 0 < lll <= 1 -> 0 < E -> 0 < range <= range_calc rng E ->
  forall s1 s2, 0 < s1 <= s2 -> s2 <= range ->
  (linear_branch dedx lll E s1 <-> linear_branch dedx lll E s2) ->
  mean_loss dedx rng lll E range s1 <= mean_loss dedx rng lll E range s2.
Proof. exact mean_loss_monotone_in_branch. Qed.
Print Assumptions C14_mean_loss_monotone_in_branch.

(** monotone across the switch only under an explicit consistency hypothesis ... *)
Theorem C14_mean_loss_monotone : forall dedx rng, xs_valid dedx -> vals_nonneg dedx ->
  range_valid rng -> forall lll E range, 0 < lll <= 1 -> 0 < E -> 0 < range <= range_calc rng E ->
  (forall s, 0 < s <= range -> ~ linear_branch dedx lll E s -> E * lll <= mean_loss dedx rng lll E range s) ->
  forall s1 s2, 0 < s1 <= s2 -> s2 <= range ->
  mean_loss dedx rng lll E range s1 <= mean_loss dedx rng lll E range s2.
Proof. exact mean_loss_monotone. Qed.
Print Assumptions C14_mean_loss_monotone.

(** ... F7 settled: without it "does not decrease with step length" is false
    across the linear/range switch, even for tables consistent at that energy *)
Theorem C14_mean_loss_monotone_refuted :
  exists (dedx rng : xsgrid R) (lll e range s1 s2 : R),
    (forall v, In v (xg_vals dedx) -> 0 < v) /\ (forall v, In v (xg_vals rng) -> 0 < v) /\
    0 < lll <= 1 /\ 0 < e /\ range_calc rng e = range /\
    0 < s1 < s2 /\ s2 <= range /\
    mean_loss dedx rng lll e range s2 < mean_loss dedx rng lll e range s1.
Proof. exact mean_loss_monotone_refuted. Qed.
Print Assumptions C14_mean_loss_monotone_refuted.

(** ** MSC path conversions *)
Theorem C14_msc_geo_le_true : forall min_step dtrl small mscxs rng emass energy lambda range tstep,
  fst (msc_to_geo (T:=R) min_step dtrl small mscxs rng emass energy lambda range tstep) <= tstep.
Proof. exact msc_geo_le_true. Qed.
Print Assumptions C14_msc_geo_le_true.

Theorem C14_msc_true_between : forall min_step small true_step alpha range lambda gstep,
  gstep <= true_step ->
  let t := msc_from_geo (T:=R) min_step small true_step alpha range lambda gstep in
  gstep <= t <= true_step.
Proof. exact msc_true_between. Qed.
Print Assumptions C14_msc_true_between.

Theorem C14_msc_const_xs_le : forall lambda t, 0 < lambda -> 0 <= t ->
  0 <= - lambda * nexpm1 (T:=R) (- t / lambda) <= t.
Proof. exact msc_const_xs_le. Qed.
Print Assumptions C14_msc_const_xs_le.

Theorem C14_msc_const_xs_inverse : forall lambda t, 0 < lambda -> 0 <= t ->
  let z := - lambda * nexpm1 (T:=R) (- t / lambda) in
  - lambda * nlog1p (T:=R) (- z / lambda) = t.
Proof. exact msc_const_xs_inverse. Qed.
Print Assumptions C14_msc_const_xs_inverse.

(** ** UniformGrid::find index law under a rounding-error model (shared with C18) *)
Theorem C14_find_bin_rounded_in_range : forall (rnd : R -> R) (u : R),
  0 <= u -> (forall x y, x <= y -> rnd x <= rnd y) -> rnd 0 = 0 ->
  forall front back size v,
  (2 <= size)%Z -> 2 * IZR size * u < 1 -> front <= v < back ->
  let D := rnd (back - front) in
  let delta := rnd (D / IZR (size - 1)) in
  0 < D -> (D / IZR (size - 1)) * (1 - u) <= delta ->
  rnd (D / delta) <= (D / delta) * (1 + u) ->
  let bin := rfind rnd front back size v in
  (0 <= bin)%Z /\ (bin + 1 < size)%Z.
Proof. exact rfind_in_range. Qed.
Print Assumptions C14_find_bin_rounded_in_range.

(** ... and for IEEE-754 binary64 itself: [rnd64] is Flocq's round-to-nearest-even
    onto the binary64 format (FLT_exp (-1074) 53), i.e. the value every
    non-overflowing binary64 -, / returns; [rfind rnd64] is UniformGrid::find
    (with from_bounds' delta) evaluated with those roundings.  Holds for every
    grid of 2 .. 2^52-1 points whose spacing is not subnormal. *)
Theorem C14_uniform_find_binary64_in_range : forall front back size v,
  (2 <= size < 4503599627370496)%Z -> front <= v < back ->
  Raux.bpow Zaux.radix2 (-1022) <= rnd64 (back - front) / IZR (size - 1) ->
  let bin := rfind rnd64 front back size v in
  (0 <= bin)%Z /\ (bin + 1 < size)%Z.
Proof. exact find_bin_float_in_range. Qed.
Print Assumptions C14_uniform_find_binary64_in_range.

(** ** ValueGridXsBuilder::build (ValueGridBuilder.cc): the stored prime index.
    Whatever of k-1 / k UniformGrid::find returns under roundoff, the soft_equal
    correction yields k; over R the built table has E[prime_index] = eprime; without
    the correction binary64 stores k-1 on Geant4's standard 85-point grid. *)
Theorem C14_builder_fix_prime_law : forall rel abs grid le k bin,
  (bin = k \/ bin = (k - 1)%Z) ->
  soft_equal_tol rel abs (ug_at grid k) le = true ->
  soft_equal_tol rel abs (ug_at grid (k + 1)) le = false ->
  fix_prime rel abs grid le bin = k.
Proof. exact fix_prime_law. Qed.
Print Assumptions C14_builder_fix_prime_law.

Theorem C14_builder_prime_index_law : forall rel abs lmin lmax n k,
  0 <= rel -> 0 < abs -> (2 <= n)%Z -> lmin < lmax -> (0 <= k)%Z -> (k + 1 < n)%Z ->
  let grid := ug_from_bounds lmin lmax n in
  Rmax abs (rel * Rmax (Rabs (ug_at grid (k + 1))) (Rabs (ug_at grid k))) <= ug_delta grid ->
  build_prime_index rel abs lmin (ug_at grid k) lmax n = k /\
  knot (build_xs rel abs lmin (ug_at grid k) lmax (repeat 0 (Z.to_nat n)))
       (build_prime_index rel abs lmin (ug_at grid k) lmax n) = exp (ug_at grid k).
Proof. exact build_prime_index_law. Qed.
Print Assumptions C14_builder_prime_index_law.

Theorem C14_builder_uncorrected_refuted :
  exists (lmin le lmax : PrimFloat.float) (n k : Z),
    build_prime_index_uncorrected lmin le lmax n = (k - 1)%Z /\
    build_prime_index 0x1.19799812dea11p-40%float 0x1.6849b86a12b9bp-47%float lmin le lmax n = k /\
    PrimFloat.ltb (PrimFloat.abs (PrimFloat.sub (ug_at (ug_from_bounds lmin lmax n) k) le)) 0x1p-48%float = true.
Proof. exact build_prime_uncorrected_refuted. Qed.
Print Assumptions C14_builder_uncorrected_refuted.
