
val negb : bool -> bool

type nat =
| O
| S of nat

val fst : ('a1 * 'a2) -> 'a1

val snd : ('a1 * 'a2) -> 'a2

val length : 'a1 list -> nat

val app : 'a1 list -> 'a1 list -> 'a1 list

type comparison =
| Eq
| Lt
| Gt

val compOpp : comparison -> comparison

val add : nat -> nat -> nat

val mul : nat -> nat -> nat

val sub : nat -> nat -> nat

module Nat :
 sig
  val sub : nat -> nat -> nat

  val eqb : nat -> nat -> bool

  val leb : nat -> nat -> bool

  val ltb : nat -> nat -> bool

  val even : nat -> bool

  val divmod : nat -> nat -> nat -> nat -> nat * nat

  val div : nat -> nat -> nat

  val modulo : nat -> nat -> nat
 end

val nth : nat -> 'a1 list -> 'a1 -> 'a1

val rev : 'a1 list -> 'a1 list

val firstn : nat -> 'a1 list -> 'a1 list

val skipn : nat -> 'a1 list -> 'a1 list

type positive =
| XI of positive
| XO of positive
| XH

type z =
| Z0
| Zpos of positive
| Zneg of positive

module Pos :
 sig
  val succ : positive -> positive

  val add : positive -> positive -> positive

  val add_carry : positive -> positive -> positive

  val pred_double : positive -> positive

  val mul : positive -> positive -> positive

  val compare_cont : comparison -> positive -> positive -> comparison

  val compare : positive -> positive -> comparison

  val eqb : positive -> positive -> bool

  val iter_op : ('a1 -> 'a1 -> 'a1) -> positive -> 'a1 -> 'a1

  val to_nat : positive -> nat
 end

module Z :
 sig
  val double : z -> z

  val succ_double : z -> z

  val pred_double : z -> z

  val pos_sub : positive -> positive -> z

  val add : z -> z -> z

  val opp : z -> z

  val sub : z -> z -> z

  val mul : z -> z -> z

  val compare : z -> z -> comparison

  val leb : z -> z -> bool

  val ltb : z -> z -> bool

  val eqb : z -> z -> bool

  val to_nat : z -> nat

  val even : z -> bool
 end

val get : 'a1 -> 'a1 list -> nat -> 'a1

val upd : 'a1 list -> nat -> 'a1 -> 'a1 list

val swap : 'a1 -> 'a1 list -> nat -> nat -> 'a1 list

val bound_loop : 'a1 -> ('a1 -> bool) -> nat -> 'a1 list -> nat -> nat -> nat

val lower_bound_p : 'a1 -> ('a1 -> bool) -> 'a1 list -> nat

val linear_loop : ('a1 -> bool) -> 'a1 list -> nat -> nat

val lower_bound_linear_p : ('a1 -> bool) -> 'a1 list -> nat

val scan_true : 'a1 -> ('a1 -> bool) -> nat -> 'a1 list -> nat -> nat -> nat

val scan_false : 'a1 -> ('a1 -> bool) -> nat -> 'a1 list -> nat -> nat -> nat

val partition_loop :
  'a1 -> ('a1 -> bool) -> nat -> 'a1 list -> nat -> nat -> 'a1 list * nat

val partition : 'a1 -> ('a1 -> bool) -> 'a1 list -> 'a1 list * nat

val all_of : ('a1 -> bool) -> 'a1 list -> bool

val any_of : ('a1 -> bool) -> 'a1 list -> bool

val all_adjacent_loop : ('a1 -> 'a1 -> bool) -> 'a1 -> 'a1 list -> bool

val all_adjacent : ('a1 -> 'a1 -> bool) -> 'a1 list -> bool

val lower_bound : 'a1 -> ('a1 -> 'a1 -> bool) -> 'a1 list -> 'a1 -> nat

val upper_bound : 'a1 -> ('a1 -> 'a1 -> bool) -> 'a1 list -> 'a1 -> nat

val lower_bound_linear : ('a1 -> 'a1 -> bool) -> 'a1 list -> 'a1 -> nat

val find_sorted : 'a1 -> ('a1 -> 'a1 -> bool) -> 'a1 list -> 'a1 -> nat

val min_loop : ('a1 -> 'a1 -> bool) -> 'a1 list -> nat -> nat -> 'a1 -> nat

val min_element : ('a1 -> 'a1 -> bool) -> 'a1 list -> nat

val pick_child : 'a1 -> ('a1 -> 'a1 -> bool) -> 'a1 list -> nat -> nat -> nat

val sift_loop :
  'a1 -> ('a1 -> 'a1 -> bool) -> nat -> 'a1 list -> nat -> nat -> nat -> 'a1
  -> 'a1 list

val sift_down :
  'a1 -> ('a1 -> 'a1 -> bool) -> 'a1 list -> nat -> nat -> 'a1 list

val pop_heap : 'a1 -> ('a1 -> 'a1 -> bool) -> 'a1 list -> nat -> 'a1 list

val make_heap_loop :
  'a1 -> ('a1 -> 'a1 -> bool) -> nat -> 'a1 list -> nat -> 'a1 list

val make_heap : 'a1 -> ('a1 -> 'a1 -> bool) -> 'a1 list -> 'a1 list

val sort_heap_loop :
  'a1 -> ('a1 -> 'a1 -> bool) -> nat -> 'a1 list -> 'a1 list

val sort_heap : 'a1 -> ('a1 -> 'a1 -> bool) -> 'a1 list -> 'a1 list

val partial_scan :
  'a1 -> ('a1 -> 'a1 -> bool) -> nat -> 'a1 list -> nat -> nat -> 'a1 list

val partial_sort : 'a1 -> ('a1 -> 'a1 -> bool) -> 'a1 list -> nat -> 'a1 list

val sort : 'a1 -> ('a1 -> 'a1 -> bool) -> 'a1 list -> 'a1 list

val step_iter_eq : z -> z -> z -> bool

val step_iter : nat -> z -> z -> z -> z list

val step_range : z -> z -> z -> z list

val range_iter : nat -> z -> z -> z list

val range : z -> z -> z list

val hs_index_loop : nat list -> nat list -> nat -> nat

val hyperslab_index : nat list -> nat list -> nat

val hs_inv_loop : nat list -> nat -> nat list -> nat list

val hyperslab_coords : nat list -> nat -> nat list

val ragged_index : nat list -> (nat * nat) -> nat

val ragged_loop : nat -> nat list -> nat -> nat -> nat

val ragged_coords : nat list -> nat -> nat * nat

val ceil_div : nat -> nat -> nat

val local_work : nat -> nat -> nat -> nat

val ipow_fuel : 'a1 -> ('a1 -> 'a1 -> 'a1) -> nat -> nat -> 'a1 -> 'a1

val ipow : 'a1 -> ('a1 -> 'a1 -> 'a1) -> nat -> 'a1 -> 'a1

type elt = z * z

val d0 : elt

val cmp_of : nat -> elt -> elt -> bool

val pred_of : nat -> elt -> bool

val run_sort : nat -> elt list -> elt list

val run_partial_sort : nat -> elt list -> nat -> elt list

val run_partition : nat -> elt list -> elt list * nat

val run_lower : nat -> elt list -> elt -> nat

val run_upper : nat -> elt list -> elt -> nat

val run_linear : nat -> elt list -> elt -> nat

val run_find_sorted : nat -> elt list -> elt -> nat

val run_min : nat -> elt list -> nat

val run_all_of : nat -> elt list -> bool

val run_any_of : nat -> elt list -> bool

val run_all_adjacent : nat -> elt list -> bool

val run_step_range : z -> z -> z -> z list

val run_range : z -> z -> z list

val run_hs_index : nat list -> nat list -> nat

val run_hs_coords : nat list -> nat -> nat list

val run_rr_index : nat list -> nat -> nat -> nat

val run_rr_coords : nat list -> nat -> nat * nat

val run_ceil_div : nat -> nat -> nat

val run_local_work : nat -> nat -> nat -> nat

val run_ipow_z : nat -> z -> z
