(** * Elementary functions on primitive floats (model-side libm).

    PrimFloat offers only + - * / sqrt.  These are short argument-reduction
    + series implementations, accurate to a few ulp over the ranges the
    models use; the correspondence check compares with the C++ (libm) results
    under the relative tolerance of DESIGN.md 3.2, so only ~1e-13 accuracy
    is needed.  They are executable definitions, not part of any theorem. *)
From Coq Require Import Floats ZArith Uint63 List.
Local Open Scope float_scope.

Definition fofZ (z : Z) : float :=
  match z with
  | Z0 => 0
  | Zpos p => PrimFloat.of_uint63 (Uint63.of_Z (Zpos p))
  | Zneg p => - PrimFloat.of_uint63 (Uint63.of_Z (Zpos p))
  end.
(** exact for |z| < 2^63; larger values are not used by the models *)

Definition ftrunc_to_Z (x : float) : Z :=
  (* truncation toward zero for |x| < 2^62 *)
  let a := PrimFloat.abs x in
  if a <? 1 then 0%Z else
  let '(m, ez) := FloatOps.frexp a in   (* a = m * 2^ez, 0.5<=m<1 *)
  let mz := Uint63.to_Z (PrimFloat.normfr_mantissa m) in  (* m * 2^53 *)
  let r := (if (ez >=? 53)%Z then mz * 2 ^ (ez - 53) else mz / 2 ^ (53 - ez))%Z in
  if x <? 0 then (- r)%Z else r.

Definition ffloorZ (x : float) : Z :=
  let t := ftrunc_to_Z x in
  if fofZ t <=? x then t else (t - 1)%Z.

Definition fldexp2 (x : float) (k : Z) : float := FloatOps.ldexp x k.

Definition ln2 := 0x1.62e42fefa39efp-1.
Definition ln2_hi := 0x1.62e42fee00000p-1.
Definition ln2_lo := 0x1.a39ef35793c76p-33.
Definition pi := 0x1.921fb54442d18p+1.
Definition pio2_hi := 0x1.921fb54442d18p+0.
Definition pio2_lo := 0x1.1a62633145c07p-54.

Fixpoint horner (cs : list float) (x : float) : float :=
  match cs with nil => 0 | c :: r => c + x * horner r x end.

(** exp: x = k ln2 + r, |r| <= ln2/2; Taylor to degree 13 on r/4 squared up *)
Definition fexp (x : float) : float :=
  if x <? -745 then 0 else if 710 <? x then infinity else
  if PrimFloat.eqb x x then
  let k := ffloorZ (x / ln2 + 0.5) in
  let kf := fofZ k in
  let r := (x - kf * ln2_hi) - kf * ln2_lo in
  let p := horner (1 :: 1 :: 0x1p-1 :: 0x1.5555555555555p-3 :: 0x1.5555555555555p-5
                   :: 0x1.1111111111111p-7 :: 0x1.6c16c16c16c17p-10 :: 0x1.a01a01a01a01ap-13
                   :: 0x1.a01a01a01a01ap-16 :: 0x1.71de3a556c734p-19 :: 0x1.27e4fb7789f5cp-22
                   :: 0x1.ae64567f544e4p-26 :: 0x1.1eed8eff8d898p-29 :: 0x1.6124613a86d09p-33 :: nil) r in
  fldexp2 p k
  else x.

(** log: x = m 2^e, m in [sqrt(1/2), sqrt 2); log m = 2 atanh((m-1)/(m+1)) *)
Definition flog (x : float) : float :=
  if x <? 0 then nan else if PrimFloat.eqb x 0 then neg_infinity else
  if PrimFloat.eqb x infinity then infinity else
  if PrimFloat.eqb x x then
  let '(m, ez) := FloatOps.frexp x in
  let '(m, ez) := if m <? 0x1.6a09e667f3bcdp-1 then (m * 2, (ez - 1)%Z) else (m, ez) in
  let s := (m - 1) / (m + 1) in
  let s2 := s * s in
  let p := horner (1 :: 0x1.5555555555555p-2 :: 0x1.999999999999ap-3 :: 0x1.2492492492492p-3
                   :: 0x1.c71c71c71c71cp-4 :: 0x1.745d1745d1746p-4 :: 0x1.3b13b13b13b14p-4
                   :: 0x1.1111111111111p-4 :: 0x1.e1e1e1e1e1e1ep-5 :: 0x1.af286bca1af28p-5
                   :: 0x1.8618618618618p-5 :: 0x1.642c8590b2164p-5 :: nil) s2 in
  let ef := fofZ ez in
  (ef * ln2_hi + (2 * s * p + ef * ln2_lo))
  else x.

Definition flog1p (x : float) : float :=
  if PrimFloat.abs x <? 0x1p-4 then
    (* log1p x = 2 atanh(x/(2+x)) *)
    let s := x / (2 + x) in let s2 := s * s in
    2 * s * horner (1 :: 0x1.5555555555555p-2 :: 0x1.999999999999ap-3 :: 0x1.2492492492492p-3
                   :: 0x1.c71c71c71c71cp-4 :: 0x1.745d1745d1746p-4 :: 0x1.3b13b13b13b14p-4
                   :: 0x1.1111111111111p-4 :: nil) s2
  else flog (1 + x).

Definition fexpm1 (x : float) : float :=
  if PrimFloat.abs x <? 0x1p-2 then
    x * horner (1 :: 0x1p-1 :: 0x1.5555555555555p-3 :: 0x1.5555555555555p-5
                   :: 0x1.1111111111111p-7 :: 0x1.6c16c16c16c17p-10 :: 0x1.a01a01a01a01ap-13
                   :: 0x1.a01a01a01a01ap-16 :: 0x1.71de3a556c734p-19 :: 0x1.27e4fb7789f5cp-22
                   :: 0x1.ae64567f544e4p-26 :: 0x1.1eed8eff8d898p-29 :: nil) x
  else fexp x - 1.

(** sin/cos kernels on [-pi/4, pi/4] *)
Definition ksin (r : float) : float :=
  let r2 := r * r in
  r * horner (1 :: -0x1.5555555555555p-3 :: 0x1.1111111111111p-7 :: -0x1.a01a01a01a01ap-13
              :: 0x1.71de3a556c734p-19 :: -0x1.ae64567f544e4p-26 :: 0x1.6124613a86d09p-33
              :: -0x1.ae7f3e733b81fp-41 :: nil) r2.
Definition kcos (r : float) : float :=
  let r2 := r * r in
  horner (1 :: -0x1p-1 :: 0x1.5555555555555p-5 :: -0x1.6c16c16c16c17p-10 :: 0x1.a01a01a01a01ap-16
          :: -0x1.27e4fb7789f5cp-22 :: 0x1.1eed8eff8d898p-29 :: -0x1.93974a8c07c9dp-37
          :: 0x1.ae7f3e733b81fp-45 :: nil) r2.

(** reduction x = k (pi/2) + r, adequate for |x| up to ~1e5 (models use
    angles in [-2pi, 4pi]) *)
Definition reduce_pio2 (x : float) : Z * float :=
  let k := ffloorZ (x / pio2_hi + 0.5) in
  let kf := fofZ k in
  (k, (x - kf * pio2_hi) - kf * pio2_lo).

Definition fsin (x : float) : float :=
  let '(k, r) := reduce_pio2 x in
  match (k mod 4)%Z with
  | 0%Z => ksin r | 1%Z => kcos r | 2%Z => - ksin r | _ => - kcos r end.
Definition fcos (x : float) : float :=
  let '(k, r) := reduce_pio2 x in
  match (k mod 4)%Z with
  | 0%Z => kcos r | 1%Z => - ksin r | 2%Z => - kcos r | _ => ksin r end.

(** atan by two half-angle reductions + series *)
Definition fatan (x : float) : float :=
  let neg := x <? 0 in
  let a := PrimFloat.abs x in
  let inv := 1 <? a in
  let a := if inv then 1 / a else a in
  (* atan a = 2 atan (a / (1 + sqrt(1+a^2))) twice -> |t| <= tan(pi/16) *)
  let t1 := a / (1 + PrimFloat.sqrt (1 + a * a)) in
  let t := t1 / (1 + PrimFloat.sqrt (1 + t1 * t1)) in
  let t2 := t * t in
  let s := t * horner (1 :: -0x1.5555555555555p-2 :: 0x1.999999999999ap-3 :: -0x1.2492492492492p-3
             :: 0x1.c71c71c71c71cp-4 :: -0x1.745d1745d1746p-4 :: 0x1.3b13b13b13b14p-4
             :: -0x1.1111111111111p-4 :: 0x1.e1e1e1e1e1e1ep-5 :: -0x1.af286bca1af28p-5
             :: 0x1.8618618618618p-5 :: -0x1.642c8590b2164p-5 :: 0x1.47ae147ae147bp-5 :: nil) t2 in
  let r := 4 * s in
  let r := if inv then pio2_hi - r else r in
  if neg then - r else r.

Definition fatan2 (y x : float) : float :=
  if 0 <? x then fatan (y / x)
  else if x <? 0 then (if y <? 0 then fatan (y / x) - pi else fatan (y / x) + pi)
  else if 0 <? y then pio2_hi else if y <? 0 then - pio2_hi else 0.

Definition facos (x : float) : float :=
  (* acos x = 2 atan2(sqrt(1-x), sqrt(1+x)) *)
  2 * fatan2 (PrimFloat.sqrt (1 - x)) (PrimFloat.sqrt (1 + x)).
Definition fasin (x : float) : float := pio2_hi - facos x.

Definition fpow (x y : float) : float :=
  if PrimFloat.eqb y 0 then 1 else if PrimFloat.eqb x 0 then (if 0 <? y then 0 else infinity)
  else fexp (y * flog x).

(** cbrt: exp/log seed + two Newton steps *)
Definition fcbrt (x : float) : float :=
  if PrimFloat.eqb x 0 then x else
  let a := PrimFloat.abs x in
  let y0 := fexp (flog a / 3) in
  let y1 := y0 - (y0 * y0 * y0 - a) / (3 * y0 * y0) in
  let y2 := y1 - (y1 * y1 * y1 - a) / (3 * y1 * y1) in
  if x <? 0 then - y2 else y2.

Definition ftan (x : float) : float := fsin x / fcos x.
Definition fsinh (x : float) : float := let e := fexpm1 x in (e + e / (e + 1)) / 2.
Definition fcosh (x : float) : float := let e := fexp x in (e + 1 / e) / 2.
Definition ftanh (x : float) : float := let e := fexpm1 (2 * x) in e / (e + 2).
