(** * Num: one numeric interface, two number systems (DESIGN.md 3.1).

    Numeric C++ code is modelled once over [Num T].  Instance [R] (NumR.v)
    carries the theorems; instance [float] (NumF.v, binary64 primitive
    floats evaluated by vm_compute) is run against the C++. *)
From Coq Require Import ZArith List.
Import ListNotations.

Class Num (T : Type) := {
  n0 : T; n1 : T;
  nadd : T -> T -> T; nsub : T -> T -> T; nmul : T -> T -> T; ndiv : T -> T -> T;
  nneg : T -> T; nabs : T -> T; nsqrt : T -> T;
  nexp : T -> T; nlog : T -> T; nsin : T -> T; ncos : T -> T;
  natan : T -> T; nacos : T -> T; ncbrt : T -> T; npow : T -> T -> T;
  nexpm1 : T -> T; nlog1p : T -> T;
  nofZ : Z -> T; nfloorZ : T -> Z;
  nltb : T -> T -> bool; nleb : T -> T -> bool; neqb : T -> T -> bool }.

Declare Scope num_scope.
Delimit Scope num_scope with num.
Notation "x + y" := (nadd x y) : num_scope.
Notation "x - y" := (nsub x y) : num_scope.
Notation "x * y" := (nmul x y) : num_scope.
Notation "x / y" := (ndiv x y) : num_scope.
Notation "- x" := (nneg x) : num_scope.
Notation "x <? y" := (nltb x y) : num_scope.
Notation "x <=? y" := (nleb x y) : num_scope.
Notation "x =? y" := (neqb x y) : num_scope.
Notation "x >? y" := (nltb y x) : num_scope.
Notation "x >=? y" := (nleb y x) : num_scope.

Section Derived.
  Context {T : Type} `{Num T}.
  Local Open Scope num_scope.
  Definition n2 : T := nofZ 2.
  Definition nhalf : T := n1 / n2.
  (** rational constant p/q (correctly rounded in the float instance, like a
      C++ decimal literal with the same value) *)
  Definition nQ (p : Z) (q : Z) : T := nofZ p / nofZ q.
  Definition nsq (x : T) : T := x * x.
  (** std::min / std::max argument conventions *)
  Definition nmin (a b : T) : T := if b <? a then b else a.
  Definition nmax (a b : T) : T := if a <? b then b else a.
  (** celeritas::clamp(v, lo, hi) = min(max(v,lo),hi) *)
  Definition nclamp (v lo hi : T) : T := if v <? lo then lo else if hi <? v then hi else v.
  (** fma is modelled without the single rounding (difference is O(eps)) *)
  Definition nfma (a b c : T) : T := a * b + c.
  Fixpoint nipow (n : nat) (x : T) : T :=
    match n with O => n1 | S k => x * nipow k x end.
  Fixpoint nsum (l : list T) : T :=
    match l with [] => n0 | x :: r => x + nsum r end.
End Derived.
