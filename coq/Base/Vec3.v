(** * Real3 utilities: model of corecel/math/ArrayUtils.hh over [Num]. *)
From Coq Require Import ZArith List.
From Celer Require Import Base.Num.
Local Open Scope num_scope.

Section Vec3.
  Context {T : Type} `{Num T}.

  Record vec3 := V3 { vx : T; vy : T; vz : T }.

  Definition vadd (a b : vec3) := V3 (vx a + vx b) (vy a + vy b) (vz a + vz b).
  Definition vsub (a b : vec3) := V3 (vx a - vx b) (vy a - vy b) (vz a - vz b).
  Definition vscale (s : T) (a : vec3) := V3 (s * vx a) (s * vy a) (s * vz a).
  Definition vneg (a : vec3) := V3 (- vx a) (- vy a) (- vz a).
  (** axpy(a, x, &y): y <- a x + y  (fma per component) *)
  Definition axpy (a : T) (x y : vec3) : vec3 :=
    V3 (nfma a (vx x) (vx y)) (nfma a (vy x) (vy y)) (nfma a (vz x) (vz y)).
  (** dot_product: result = fma(x[i], y[i], result), i = 0,1,2 from 0 *)
  Definition dot (x y : vec3) : T :=
    nfma (vz x) (vz y) (nfma (vy x) (vy y) (nfma (vx x) (vx y) n0)).
  Definition cross (x y : vec3) : vec3 :=
    V3 (vy x * vz y - vz x * vy y) (vz x * vx y - vx x * vz y) (vx x * vy y - vy x * vx y).
  Definition norm (v : vec3) : T := nsqrt (dot v v).
  Definition make_unit_vector (v : vec3) : vec3 :=
    let s := n1 / norm v in V3 (vx v * s) (vy v * s) (vz v * s).
  Definition distance (x y : vec3) : T :=
    nsqrt (((n0 + nsq (vx y - vx x)) + nsq (vy y - vy x)) + nsq (vz y - vz x)).
  Definition from_spherical (costheta phi : T) : vec3 :=
    let sintheta := nsqrt (n1 - costheta * costheta) in
    V3 (sintheta * ncos phi) (sintheta * nsin phi) costheta.

  (** rotate(dir, rot); [min_acc] = RealVecTraits<T>::min_accurate_sintheta.
      Mirrors the code as it is, including the middle branch's two defects
      (sign of rot[Y] dropped; 0/0 for x = y = 0), which are recorded as known
      findings: the repair changes sample values pinned by an existing test. *)
  Definition rotate_raw (min_acc : T) (dir rot : vec3) : vec3 :=
    let sintheta := nsqrt (n1 - nsq (vz rot)) in
    let '(cosphi, sinphi) :=
      if min_acc <=? sintheta then
        let inv := n1 / sintheta in (vx rot * inv, vy rot * inv)
      else if n0 <? sintheta then
        let c := vx rot / nsqrt (nsq (vx rot) + nsq (vy rot)) in (c, nsqrt (n1 - nsq c))
      else (n1, n0) in
    let a := vz rot * vx dir + sintheta * vz dir in
    V3 (a * cosphi - sinphi * vy dir)
       (a * sinphi + cosphi * vy dir)
       (- sintheta * vx dir + vz rot * vz dir).
  Definition rotate (min_acc : T) (dir rot : vec3) : vec3 :=
    make_unit_vector (rotate_raw min_acc dir rot).
End Vec3.
Arguments vec3 T : clear implicits.
