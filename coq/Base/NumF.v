(** * Instance of [Num] over primitive binary64 floats: the executable side. *)
From Coq Require Import Floats ZArith.
From Celer Require Import Base.Num Base.FloatFun.

#[export] Instance NumF : Num float := {
  n0 := 0%float; n1 := 1%float;
  nadd := PrimFloat.add; nsub := PrimFloat.sub; nmul := PrimFloat.mul; ndiv := PrimFloat.div;
  nneg := PrimFloat.opp; nabs := PrimFloat.abs; nsqrt := PrimFloat.sqrt;
  nexp := fexp; nlog := flog; nsin := fsin; ncos := fcos;
  natan := fatan; nacos := facos; ncbrt := fcbrt; npow := fpow;
  nexpm1 := fexpm1; nlog1p := flog1p;
  nofZ := fofZ; nfloorZ := ffloorZ;
  nltb := PrimFloat.ltb; nleb := PrimFloat.leb; neqb := PrimFloat.eqb }.
