(** * Random streams as explicit arguments (DESIGN.md 3.3).

    A sampler consumes canonical uniforms from a [list T] and returns
    [None] when the list is exhausted (fuel); theorems exclude that case by
    hypothesis, it is never a normal-looking value. *)
From Coq Require Import List.
Import ListNotations.

Section Stream.
  Context {T : Type}.
  Definition M (A : Type) := list T -> option (A * list T).
  Definition ret {A} (a : A) : M A := fun s => Some (a, s).
  Definition bind {A B} (m : M A) (f : A -> M B) : M B :=
    fun s => match m s with None => None | Some (a, s') => f a s' end.
  Definition draw : M T := fun s => match s with [] => None | u :: r => Some (u, r) end.
  Definition fail {A} : M A := fun _ => None.
  (** number of uniforms consumed by a successful run *)
  Definition consumed {A} (s : list T) (r : option (A * list T)) : option nat :=
    match r with None => None | Some (_, s') => Some (length s - length s') end.
End Stream.
Arguments M T A : clear implicits.
Notation "x <- m ;; f" := (bind m (fun x => f)) (at level 61, m at next level, right associativity).
Notation "' p <- m ;; f" := (bind m (fun p => f)) (at level 61, p pattern, m at next level, right associativity).
