(** * Instance of [Num] over Coq's real numbers: the theorem side. *)
From Coq Require Import Reals ZArith Lra Lia.
From Celer Require Import Base.Num.
Local Open Scope R_scope.

Definition Rltb (x y : R) : bool := if Rlt_dec x y then true else false.
Definition Rleb (x y : R) : bool := if Rle_dec x y then true else false.
Definition Reqb (x y : R) : bool := if Req_EM_T x y then true else false.

(** std::cbrt: odd extension of x^(1/3) *)
Definition Rcbrt (x : R) : R :=
  if Rlt_dec 0 x then Rpower x (/3) else if Rlt_dec x 0 then - Rpower (- x) (/3) else 0.
(** std::pow restricted to the cases the models use (x >= 0) *)
Definition Rpow (x y : R) : R :=
  if Req_EM_T y 0 then 1 else if Rlt_dec 0 x then Rpower x y else 0.

#[export] Instance NumR : Num R := {
  n0 := 0; n1 := 1;
  nadd := Rplus; nsub := Rminus; nmul := Rmult; ndiv := Rdiv;
  nneg := Ropp; nabs := Rabs; nsqrt := sqrt;
  nexp := exp; nlog := ln; nsin := sin; ncos := cos;
  natan := atan; nacos := acos; ncbrt := Rcbrt; npow := Rpow;
  nexpm1 := fun x => exp x - 1; nlog1p := fun x => ln (1 + x);
  nofZ := IZR; nfloorZ := Int_part;
  nltb := Rltb; nleb := Rleb; neqb := Reqb }.

Lemma Rltb_true x y : Rltb x y = true <-> x < y.
Proof. unfold Rltb; destruct (Rlt_dec x y); split; intros; try easy. Qed.
Lemma Rltb_false x y : Rltb x y = false <-> y <= x.
Proof. unfold Rltb; destruct (Rlt_dec x y); split; intros; try easy; lra. Qed.
Lemma Rleb_true x y : Rleb x y = true <-> x <= y.
Proof. unfold Rleb; destruct (Rle_dec x y); split; intros; try easy. Qed.
Lemma Rleb_false x y : Rleb x y = false <-> y < x.
Proof. unfold Rleb; destruct (Rle_dec x y); split; intros; try easy; lra. Qed.
Lemma Reqb_true x y : Reqb x y = true <-> x = y.
Proof. unfold Reqb; destruct (Req_EM_T x y); split; intros; try easy. Qed.
Lemma Reqb_false x y : Reqb x y = false <-> x <> y.
Proof. unfold Reqb; destruct (Req_EM_T x y); split; intros; try easy. Qed.

Lemma Rltb_spec x y : Bool.reflect (x < y) (Rltb x y).
Proof. unfold Rltb; destruct (Rlt_dec x y); constructor; assumption. Qed.
Lemma Rleb_spec x y : Bool.reflect (x <= y) (Rleb x y).
Proof. unfold Rleb; destruct (Rle_dec x y); constructor; assumption. Qed.

(** Unfold the typeclass operations to plain real-number operations so that
    [lra], [nra], [field] apply. *)
Ltac numR :=
  cbn [n0 n1 nadd nsub nmul ndiv nneg nabs nsqrt nexp nlog nsin ncos nofZ
       natan nacos ncbrt npow nexpm1 nlog1p nfloorZ nltb nleb neqb NumR] in *;
  unfold n2, nhalf, nQ, nsq, nmin, nmax, nclamp, nfma in *;
  cbn [n0 n1 nadd nsub nmul ndiv nneg nabs nsqrt nexp nlog nsin ncos nofZ
       natan nacos ncbrt npow nexpm1 nlog1p nfloorZ nltb nleb neqb NumR] in *.

(** Case split on a boolean real comparison appearing in the goal. *)
Ltac rcases :=
  repeat match goal with
  | |- context [Rltb ?a ?b] => destruct (Rltb_spec a b)
  | |- context [Rleb ?a ?b] => destruct (Rleb_spec a b)
  end.
