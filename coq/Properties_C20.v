(** * C20 property theorems -- statements only; proofs live in C20/*.v.
    Model: C20/Optical.v (CerenkovGenerator, CerenkovDndxCalculator,
    CerenkovOffload, ScintillationGenerator, ScintillationOffload over an
    explicit uniform stream).  [canonical u] = 0 <= u < 1; [None] = stream
    exhausted.  [step_dir d] = make_unit_vector(post - pre),
    [mean_inv_beta d] = 2 / (v_pre + v_post). *)
From Coq Require Import Reals ZArith List.
From Coq Require PrimFloat.
From Celer Require Import Base.Num Base.NumR Base.NumF Base.Stream Base.Vec3
  C15.Samplers C15.SamplersProofs C20.RotateVariants C20.Optical C20.RotateProofs C20.OpticalProofs C20.OpticalWitness C20.DndxProofs C20.SegmentIntegral C20.DndxInside.
Import ListNotations.
Local Open Scope R_scope.

(** ** rotate (corecel/math/ArrayUtils.hh).  [rotate] is Base/Vec3.v's model of
    the current source; [rotate_old] / [rotate_new] (C20/RotateVariants.v) are
    the code as pinned (= the current source) and a candidate repair that is
    NOT in the tree (withdrawn upstream). *)
Theorem C20_rotate_model_is_pinned_code : forall min_acc (d rot : vec3 R),
  rotate min_acc d rot = rotate_old min_acc d rot.
Proof. exact rotate_base_eq. Qed.
Print Assumptions C20_rotate_model_is_pinned_code.

Theorem C20_rotate_unit : forall min_acc (d rot : vec3 R),
  0 < min_acc -> dot rot rot = 1 -> dot d d = 1 ->
  dot (rotate min_acc d rot) (rotate min_acc d rot) = 1.
Proof. intros min_acc d rot Ha Hr Hd. exact (proj1 (rotate_base_isometry min_acc rot Ha Hr) d Hd). Qed.
Print Assumptions C20_rotate_unit.

Theorem C20_rotate_preserves_dot : forall min_acc (d e rot : vec3 R),
  0 < min_acc -> dot rot rot = 1 -> dot d d = 1 -> dot e e = 1 ->
  dot (rotate min_acc d rot) (rotate min_acc e rot) = dot d e.
Proof. intros min_acc d e rot Ha Hr Hd He. exact (proj2 (rotate_base_isometry min_acc rot Ha Hr) d e Hd He). Qed.
Print Assumptions C20_rotate_preserves_dot.

(** polar angle about [rot] is kept when sin(theta_rot) >= min_acc or rot_y >= 0 *)
Theorem C20_rotate_polar : forall min_acc (d rot : vec3 R),
  0 < min_acc -> dot rot rot = 1 -> dot d d = 1 ->
  (min_acc <= sqrt (1 - vz rot * vz rot) \/ 0 <= vy rot) ->
  dot (rotate min_acc d rot) rot = vz d.
Proof. intros min_acc d rot Ha Hr Hd Hg. exact (rotate_base_polar min_acc rot Ha Hr Hg d Hd). Qed.
Print Assumptions C20_rotate_polar.

(** ... and NOT otherwise for the pinned code: in the middle branch the sign of
    rot_y is dropped (finding F10) *)
Theorem C20_rotate_polar_refuted :
  exists d rot : vec3 R, dot d d = 1 /\ dot rot rot = 1 /\
    dot (rotate_old (T:=R) (5 / 1000) d rot) rot <> vz d.
Proof. exact rotate_polar_refuted. Qed.
Print Assumptions C20_rotate_polar_refuted.

(** CANDIDATE REPAIR, NOT IN THE TREE ([rotate_new]; tried upstream and withdrawn):
    it would be a rotation taking e_z to [rot] for EVERY unit [rot] *)
Theorem C20_rotate_candidate_repair : forall min_acc (d e rot : vec3 R),
  0 < min_acc -> dot rot rot = 1 -> dot d d = 1 -> dot e e = 1 ->
  dot (rotate_new min_acc d rot) (rotate_new min_acc d rot) = 1 /\
  dot (rotate_new min_acc d rot) (rotate_new min_acc e rot) = dot d e /\
  dot (rotate_new min_acc d rot) rot = vz d.
Proof.
  intros min_acc d e rot Ha Hr Hd He.
  pose proof (rotate_new_isometry min_acc rot Ha Hr) as [H1 H2].
  split; [exact (H1 d Hd)|]. split; [exact (H2 d e Hd He)|exact (rotate_new_polar min_acc rot Ha Hr d Hd)].
Qed.
Print Assumptions C20_rotate_candidate_repair.

(** ** Cerenkov photons *)
Theorem C20_cerenkov_dir_unit : forall min_acc k es ns d s p s',
  0 < min_acc -> ckv_valid_inputs es ns d -> Forall canonical s ->
  ckv_photon min_acc k es ns d (ckv_construct k es ns d) s = Some (p, s') ->
  dot (ph_dir p) (ph_dir p) = 1.
Proof. intros. eapply cerenkov_dir_unit; eauto using ckv_valid_inputs_ok. Qed.
Print Assumptions C20_cerenkov_dir_unit.

Theorem C20_cerenkov_pol_unit : forall min_acc k es ns d s p s',
  0 < min_acc -> ckv_valid_inputs es ns d -> Forall canonical s ->
  ckv_photon min_acc k es ns d (ckv_construct k es ns d) s = Some (p, s') ->
  dot (ph_pol p) (ph_pol p) = 1.
Proof. intros. eapply cerenkov_pol_unit; eauto using ckv_valid_inputs_ok. Qed.
Print Assumptions C20_cerenkov_pol_unit.

Theorem C20_cerenkov_pol_perp_dir : forall min_acc k es ns d s p s',
  0 < min_acc -> ckv_valid_inputs es ns d -> Forall canonical s ->
  ckv_photon min_acc k es ns d (ckv_construct k es ns d) s = Some (p, s') ->
  dot (ph_pol p) (ph_dir p) = 0.
Proof. intros. eapply cerenkov_pol_perp_dir; eauto using ckv_valid_inputs_ok. Qed.
Print Assumptions C20_cerenkov_pol_perp_dir.

Theorem C20_cerenkov_on_cone : forall min_acc k es ns d s p s',
  0 < min_acc -> ckv_valid_inputs es ns d -> Forall canonical s ->
  good_axis min_acc (step_dir d) ->
  ckv_photon min_acc k es ns d (ckv_construct k es ns d) s = Some (p, s') ->
  dot (ph_dir p) (step_dir d) = mean_inv_beta d / gcalc es ns (ph_energy p)
  /\ 0 < dot (ph_dir p) (step_dir d) <= 1.
Proof. intros. eapply cerenkov_on_cone; eauto using ckv_valid_inputs_ok. Qed.
Print Assumptions C20_cerenkov_on_cone.

(** CANDIDATE REPAIR, NOT IN THE TREE: with [rotate_new] the photon would be on
    the cone for every step direction *)
Theorem C20_cerenkov_valid_with_candidate_repair : forall min_acc k es ns d s p s',
  0 < min_acc -> ckv_valid_inputs es ns d -> Forall canonical s ->
  ckv_photon_with (rotate_new min_acc) k es ns d (ckv_construct k es ns d) s = Some (p, s') ->
  (dot (ph_dir p) (step_dir d) = mean_inv_beta d / gcalc es ns (ph_energy p)
   /\ 0 < dot (ph_dir p) (step_dir d) <= 1)
  /\ dot (ph_dir p) (ph_dir p) = 1 /\ dot (ph_pol p) (ph_pol p) = 1 /\ dot (ph_pol p) (ph_dir p) = 0.
Proof. intros. eapply cerenkov_on_cone_repaired; eauto using ckv_valid_inputs_ok. Qed.
Print Assumptions C20_cerenkov_valid_with_candidate_repair.

Theorem C20_cerenkov_energy_in_grid : forall min_acc k es ns d s p s',
  front es <= back es -> Forall canonical s ->
  ckv_photon min_acc k es ns d (ckv_construct k es ns d) s = Some (p, s') ->
  front es <= ph_energy p <= back es.
Proof. exact cerenkov_energy_in_grid. Qed.
Print Assumptions C20_cerenkov_energy_in_grid.

Theorem C20_cerenkov_photon_on_segment : forall min_acc k es ns d s p s',
  front es <= back es -> Forall canonical s ->
  ckv_photon min_acc k es ns d (ckv_construct k es ns d) s = Some (p, s') ->
  exists u, 0 <= u <= 1 /\
    vx (ph_pos p) = (1 - u) * vx (gd_p0 d) + u * vx (gd_p1 d) /\
    vy (ph_pos p) = (1 - u) * vy (gd_p0 d) + u * vy (gd_p1 d) /\
    vz (ph_pos p) = (1 - u) * vz (gd_p0 d) + u * vz (gd_p1 d).
Proof. exact cerenkov_on_segment. Qed.
Print Assumptions C20_cerenkov_photon_on_segment.

Theorem C20_cerenkov_photon_time_ge_pre : forall min_acc k es ns d s p s',
  ckv_valid_inputs es ns d -> 0 < k_clight k -> 0 <= gd_len d -> Forall canonical s ->
  ckv_photon min_acc k es ns d (ckv_construct k es ns d) s = Some (p, s') ->
  gd_time d <= ph_time p.
Proof. intros. eapply cerenkov_time_ge_pre; eauto using ckv_valid_inputs_ok. Qed.
Print Assumptions C20_cerenkov_photon_time_ge_pre.

(** below threshold (1/beta_mean > n at the top of the grid) the offload asks
    for no photons and draws no random numbers; dN/dx is never negative *)
Theorem C20_cerenkov_none_below_threshold : forall k es ns charge len v0 v1 s,
  gcalc es ns (back es) < 1 / ((v0 + v1) / 2) ->
  ckv_offload k es ns charge len v0 v1 s = Some (0%Z, s).
Proof. exact cerenkov_none_below_threshold. Qed.
Print Assumptions C20_cerenkov_none_below_threshold.

Theorem C20_dndx_nonneg : forall k es ns charge beta, 0 <= dndx (T:=R) k es ns charge beta.
Proof. exact dndx_nonneg. Qed.
Print Assumptions C20_dndx_nonneg.

(** ** Scintillation photons: unit direction, unit polarisation perpendicular
    to it, on the segment, not before the pre-step time; energy = hc/lambda is
    positive PROVIDED the normally distributed wavelength came out positive *)
Theorem C20_scint_photon_valid : forall k cs d spare s p spare' s',
  scint_inputs_ok k cs d -> Forall canonical s ->
  scint_photon k cs d spare s = Some ((p, spare'), s') ->
  dot (ph_dir p) (ph_dir p) = 1 /\ dot (ph_pol p) (ph_pol p) = 1 /\ dot (ph_pol p) (ph_dir p) = 0
  /\ on_segment (gd_p0 d) (gd_p1 d) (ph_pos p) /\ gd_time d <= ph_time p
  /\ exists idx lambda st,
       (idx < length cs)%nat /\
       normal_step (sc_mean (nth idx cs (SComp 0 0 0 0 0))) (sc_sigma (nth idx cs (SComp 0 0 0 0 0)))
                   spare (tl s) = Some ((lambda, spare'), st) /\
       ph_energy p = k_hc k / lambda / k_mev k /\ (0 < lambda -> 0 < ph_energy p).
Proof. exact scint_photon_valid. Qed.
Print Assumptions C20_scint_photon_valid.

(** ... and without that proviso it is refuted on the executed (binary64)
    model: accepted component data + canonical stream -> negative energy (F8) *)
Theorem C20_scint_energy_refuted :
  exists (k : consts (T:=PrimFloat.float)) cs d s p sp s',
    forallb scomp_ok cs = true /\ forallb canonicalb s = true /\
    scint_photon k cs d None s = Some ((p, sp), s') /\
    PrimFloat.ltb (ph_energy p) PrimFloat.zero = true.
Proof. exact scint_energy_refuted. Qed.
Print Assumptions C20_scint_energy_refuted.

(** ** Further refutations on the executed (binary64) model of the pinned code
    ([rotate_old]), both replayed on the real code.  (1) F10 in floats: cone cosine off by > 2^-10 for a step
    direction 0.115 degrees from +z with negative y.  (2) NaN: for a rotation
    axis (0, 0, 1 - 2^-53) -- what make_unit_vector returns for ~13% of steps
    exactly along z -- rotate returns NaN in every component, and so the
    Cerenkov generator returns NaN direction and polarisation. *)
Theorem C20_rotate_polar_refuted_float :
  let rot := make_unit_vector f10_rot_f in
  let d := from_spherical (PrimFloat.div PrimFloat.one PrimFloat.two) PrimFloat.zero in
  PrimFloat.ltb two_m10
                (PrimFloat.abs (PrimFloat.sub (dot (rotate_old min_acc_f d rot) rot)
                                              (PrimFloat.div PrimFloat.one PrimFloat.two))) = true.
Proof. exact rotate_polar_refuted_float. Qed.
Print Assumptions C20_rotate_polar_refuted_float.

Theorem C20_rotate_nan_refuted_float :
  let rot := V3 PrimFloat.zero PrimFloat.zero (PrimFloat.next_down PrimFloat.one) in
  let v := rotate_old min_acc_f (V3 PrimFloat.one PrimFloat.zero PrimFloat.zero) rot in
  PrimFloat.ltb (PrimFloat.abs (PrimFloat.sub (dot rot rot) PrimFloat.one))
                two_m50 = true /\
  is_nan (vx v) = true /\ is_nan (vy v) = true /\ is_nan (vz v) = true.
Proof. exact rotate_nan_refuted_float. Qed.
Print Assumptions C20_rotate_nan_refuted_float.

Theorem C20_cerenkov_nan_direction_refuted_float :
  exists (k : consts (T:=PrimFloat.float)) es ns d s p s',
    material_ok es ns = true /\ forallb canonicalb s = true /\
    ckv_photon_with (rotate_old min_acc_f) k es ns d (ckv_construct k es ns d) s = Some (p, s') /\
    is_nan (vx (ph_dir p)) = true.
Proof. exact cerenkov_nan_direction_refuted_float. Qed.
Print Assumptions C20_cerenkov_nan_direction_refuted_float.

(** CANDIDATE REPAIR, NOT IN THE TREE: [rotate_new] on the same inputs (binary64):
    on the cone, finite *)
Theorem C20_rotate_candidate_repair_witnesses_float :
  let rot := make_unit_vector f10_rot_f in
  let d := from_spherical (PrimFloat.div PrimFloat.one PrimFloat.two) PrimFloat.zero in
  PrimFloat.ltb (PrimFloat.abs (PrimFloat.sub (dot (rotate_new min_acc_f d rot) rot)
                                              (PrimFloat.div PrimFloat.one PrimFloat.two))) two_m40 = true /\
  let v := rotate_new min_acc_f (V3 PrimFloat.one PrimFloat.zero PrimFloat.zero)
                      (V3 PrimFloat.zero PrimFloat.zero (PrimFloat.next_down PrimFloat.one)) in
  orb (orb (is_nan (vx v)) (is_nan (vy v))) (is_nan (vz v)) = false.
Proof. split; [exact (proj1 rotate_new_witnesses)|exact (proj1 (proj2 rotate_new_witnesses))]. Qed.
Print Assumptions C20_rotate_candidate_repair_witnesses_float.

(** ** ScintillationOffload: nothing requested (and nothing drawn) for a
    non-positive mean yield; in the Gaussian regime (mean > 10) the count is the
    clamped, rounded normal sample and a valid unsigned value *)
Theorem C20_scint_offload_none : forall yield res edep s, yield * edep <= 0 ->
  scint_offload (T:=R) yield res edep s = Some (0%Z, s).
Proof. exact scint_offload_none. Qed.
Print Assumptions C20_scint_offload_none.

Theorem C20_scint_offload_gauss_count : forall yield res edep u1 u2 s, 10 < yield * edep ->
  forall x st,
  normal_step (T:=R) (yield * edep) (res * sqrt (yield * edep)) None (u1 :: u2 :: s) = Some ((x, st), s) ->
  x + 1 / 2 < 4294967296 ->
  exists k, scint_offload (T:=R) yield res edep (u1 :: u2 :: s) = Some (k, s)
            /\ (0 <= k < 4294967296)%Z /\ k = Int_part (Rmax (x + 1 / 2) 0).
Proof. exact scint_offload_gauss_count. Qed.
Print Assumptions C20_scint_offload_gauss_count.

(** ** CerenkovDndxCalculator: what the integral as coded is *)

(** for a material validated by MaterialParams the threshold test is against the
    largest refractive index, and dN/dx is exactly 0 beyond it *)
Theorem C20_n_max_is_max : forall es ns : list R, material_ok es ns = true ->
  Forall (fun n => n <= n_max ns) ns /\ In (n_max ns) ns.
Proof. exact n_max_is_max. Qed.
Print Assumptions C20_n_max_is_max.

Theorem C20_dndx_zero_beyond_nmax : forall k es ns charge beta, material_ok es ns = true ->
  n_max ns < 1 / beta -> dndx (T:=R) k es ns charge beta = 0.
Proof. exact dndx_zero_beyond_nmax. Qed.
Print Assumptions C20_dndx_zero_beyond_nmax.

(** CerenkovParams' angle-integral table ends with the trapezoid of 1/n^2 over the grid *)
Theorem C20_angle_integral_total : forall e0 r0 (es ns : list R), length es = length ns ->
  length (angle_integral (e0 :: es) (r0 :: ns)) = length (e0 :: es) /\
  back (angle_integral (e0 :: es) (r0 :: ns)) = trap (fun n => 1 / (n * n)) e0 r0 es ns.
Proof. exact angle_integral_total. Qed.
Print Assumptions C20_angle_integral_total.

(** 1/beta below the whole table: the coded integral is exactly the trapezoid rule
    for 1 - 1/(n^2 beta^2) on the energy grid *)
Theorem C20_dndx_full_range_is_trapezoid : forall k e0 r0 es ns charge beta,
  material_ok (e0 :: es) (r0 :: ns) = true -> 1 / beta < r0 ->
  dndx (T:=R) k (e0 :: es) (r0 :: ns) charge beta =
  clamp_to_nonneg (charge * charge * k_dndx k *
    (trap (fun n => 1 - 1 / (n * n) * (1 / beta * (1 / beta))) e0 r0 es ns * k_mev k)).
Proof. exact dndx_full_range_is_trapezoid. Qed.
Print Assumptions C20_dndx_full_range_is_trapezoid.

(** relation to the exact integral for piecewise-linear n(E): per segment
    (e1 - e0)/(n0 n1) <= trapezoid of 1/n^2, equality iff degenerate; hence the
    coded energy integral never exceeds the exact one *)
Theorem C20_segment_trapezoid_ge_exact : forall e0 e1 a b : R, e0 <= e1 -> 0 < a -> 0 < b ->
  (e1 - e0) / (a * b) <= 1 / 2 * (e1 - e0) * (1 / (a * a) + 1 / (b * b)) /\
  ((e1 - e0) / (a * b) = 1 / 2 * (e1 - e0) * (1 / (a * a) + 1 / (b * b)) -> e0 = e1 \/ a = b).
Proof. exact segment_trapezoid_ge_exact. Qed.
Print Assumptions C20_segment_trapezoid_ge_exact.

Theorem C20_dndx_full_range_le_exact : forall e0 r0 (es ns : list R) beta,
  length es = length ns -> increasing (e0 :: es) = true -> Forall (fun n => 0 < n) (r0 :: ns) ->
  trap (fun n => 1 - 1 / (n * n) * (1 / beta * (1 / beta))) e0 r0 es ns
  <= (last es e0 - e0) - exact_pl e0 r0 es ns * (1 / beta * (1 / beta)).
Proof. exact dndx_full_range_le_exact. Qed.
Print Assumptions C20_dndx_full_range_le_exact.

(** ** photon-number rules of the offload helpers *)
Theorem C20_ckv_offload_rule : forall k es ns charge len v0 v1 s,
  let per_len := dndx (T:=R) k es ns charge (1 / 2 * (v0 + v1)) in
  (per_len = 0 -> ckv_offload k es ns charge len v0 v1 s = Some (0%Z, s)) /\
  (per_len <> 0 -> ckv_offload k es ns charge len v0 v1 s = poisson true (per_len * len) s).
Proof. exact ckv_offload_rule. Qed.
Print Assumptions C20_ckv_offload_rule.

Theorem C20_scint_offload_poisson : forall yield res edep s, 0 < yield * edep <= 10 ->
  scint_offload (T:=R) yield res edep s = poisson true (yield * edep) s.
Proof. exact scint_offload_poisson. Qed.
Print Assumptions C20_scint_offload_poisson.

(** the per-segment closed form above IS the Riemann integral (Coquelicot [is_RInt], wrapped in
    [seg_integral_is]) of 1/n(E)^2 for the linear interpolant [nlin] between (e0, a) and (e1, b) *)
Theorem C20_seg_integral_closed_form : forall e0 e1 a b : R, e0 < e1 -> 0 < a -> 0 < b ->
  seg_integral_is e0 e1 a b ((e1 - e0) / (a * b)).
Proof. exact seg_integral_closed_form. Qed.
Print Assumptions C20_seg_integral_closed_form.

(** ** CerenkovDndxCalculator, threshold inside the table (n_j <= 1/beta < n_(j+1)) *)

(** GenericCalculator inside segment j is that segment's linear interpolant *)
Theorem C20_gcalc_in_segment : forall (xs ys : list R) j x, increasing xs = true -> (S j < length xs)%nat ->
  nthT j xs <= x < nthT (S j) xs ->
  gcalc xs ys x = interp (nthT j xs) (nthT j ys) (nthT (S j) xs) (nthT (S j) ys) x.
Proof. exact gcalc_in_segment. Qed.
Print Assumptions C20_gcalc_in_segment.

(** consecutive entries of CerenkovParams' table differ by the segment trapezoid of 1/n^2 *)
Theorem C20_angle_integral_nth_diff : forall e0 r0 (es ns : list R) j, length es = length ns ->
  (S j < length (e0 :: es))%nat ->
  nthT (S j) (angle_integral (e0 :: es) (r0 :: ns)) - nthT j (angle_integral (e0 :: es) (r0 :: ns))
  = seg_T (nthT j (e0 :: es)) (nthT (S j) (e0 :: es)) (nthT j (r0 :: ns)) (nthT (S j) (r0 :: ns)).
Proof. exact angle_integral_nth_diff. Qed.
Print Assumptions C20_angle_integral_nth_diff.

(** what the branch computes: full trapezoids above the crossing segment + (1 - t) of the crossing
    segment's full trapezoid, t = (1/beta - n_j)/(n_(j+1) - n_j) *)
Theorem C20_dndx_inside_grid : forall k e0 r0 es ns charge beta j,
  material_ok (e0 :: es) (r0 :: ns) = true -> (S j < length (r0 :: ns))%nat -> 0 < r0 ->
  nthT j (r0 :: ns) <= 1 / beta < nthT (S j) (r0 :: ns) ->
  let E := e0 :: es in let N := r0 :: ns in let I := angle_integral E N in
  let ib := 1 / beta in
  let t := (ib - nthT j N) / (nthT (S j) N - nthT j N) in
  dndx (T:=R) k E N charge beta = clamp_to_nonneg (charge * charge * k_dndx k *
    (((back E - nthT (S j) E) - (back I - nthT (S j) I) * (ib * ib)
      + (1 - t) * ((nthT (S j) E - nthT j E)
                   - seg_T (nthT j E) (nthT (S j) E) (nthT j N) (nthT (S j) N) * (ib * ib))) * k_mev k)).
Proof. exact dndx_inside_grid. Qed.
Print Assumptions C20_dndx_inside_grid.

(** the two interpolations as coded on the crossing segment, and the relation to the exact integral of
    1 - 1/(n(E)^2 beta^2) from the crossing point (n = 1/beta) to e1 for linear n: coded <= exact, 0 <= exact *)
Theorem C20_crossing_segment_value : forall e0 e1 a b ib I0 : R, e0 < e1 -> 0 < a -> a <= ib < b ->
  let t := (ib - a) / (b - a) in
  let emin := interp a e0 b e1 ib in
  let ilin := interp e0 I0 e1 (I0 + seg_T e0 e1 a b) emin in
  0 <= t < 1 /\ emin = e0 + t * (e1 - e0) /\ e0 <= emin < e1 /\
  ilin = I0 + t * seg_T e0 e1 a b /\
  (e1 - emin) - (I0 + seg_T e0 e1 a b - ilin) * (ib * ib)
    = (1 - t) * ((e1 - e0) - seg_T e0 e1 a b * (ib * ib)).
Proof. exact crossing_segment_value. Qed.
Print Assumptions C20_crossing_segment_value.

Theorem C20_crossing_segment_le_exact : forall e0 e1 a b ib : R, e0 < e1 -> 0 < a -> a <= ib < b ->
  let t := (ib - a) / (b - a) in
  (1 - t) * ((e1 - e0) - seg_T e0 e1 a b * (ib * ib)) <= (1 - t) * (e1 - e0) * (1 - ib / b) /\
  0 <= (1 - t) * (e1 - e0) * (1 - ib / b).
Proof. exact crossing_segment_le_exact. Qed.
Print Assumptions C20_crossing_segment_le_exact.
