(** * C07 property theorems — statements only; proofs live in
    C07/StreamsProofs.v and C07/CellsProofs.v. *)
From Coq Require Import List Arith Permutation String Bool.
From Celer Require Import C07.Streams C07.StreamsProofs Generated.C07_cells C07.Cells C07.CellsProofs
  C07.Stores C07.StoresProofs.
Import ListNotations.

(** The final state of a stream depends only on the number of steps it took
    itself: nothing another stream does, and no interleaving, can change it. *)
Theorem C07_run_per_stream :
  forall (P S stream : Type) (sdec : forall a b : stream, {a = b} + {a <> b}) (stepf : P -> S -> S)
         (p : P) (sched : list stream) (sigma : stream -> S) (j : stream),
    run sdec stepf p sched sigma j = iter (count sdec j sched) (stepf p) (sigma j).
Proof. exact run_per_stream. Qed.
Print Assumptions C07_run_per_stream.

(** Every interleaving (any number of streams) gives every stream the state
    of the serial execution, one stream after the other. *)
Theorem C07_interleaving_equals_serial :
  forall (P S stream : Type) (sdec : forall a b : stream, {a = b} + {a <> b}) (stepf : P -> S -> S)
         (p : P) (streams sched : list stream) (sigma : stream -> S),
    NoDup streams -> (forall i, In i sched -> In i streams) ->
    forall j : stream, run sdec stepf p sched sigma j = run sdec stepf p (serial sdec streams sched) sigma j.
Proof. exact interleaving_equals_serial. Qed.
Print Assumptions C07_interleaving_equals_serial.

Theorem C07_permuted_schedules_agree :
  forall (P S stream : Type) (sdec : forall a b : stream, {a = b} + {a <> b}) (stepf : P -> S -> S)
         (p : P) (s1 s2 : list stream) (sigma : stream -> S),
    Permutation s1 s2 -> forall j : stream, run sdec stepf p s1 sigma j = run sdec stepf p s2 sigma j.
Proof. exact permuted_schedules_agree. Qed.
Print Assumptions C07_permuted_schedules_agree.

(** With C06's history independence as hypothesis, the result of an event
    does not depend on the stream it is assigned to, on that stream's earlier
    events or on the interleaving. *)
Theorem C07_assignment_independence :
  forall (P S stream : Type) (sdec : forall a b : stream, {a = b} + {a <> b}) (Ev Out : Type)
         (transport : P -> Ev -> S -> Out * S) (p : P),
    (forall e s s', fst (transport p e s) = fst (transport p e s')) ->
    forall (sched : list (stream * Ev)) (sigma : stream -> S) (e : Ev) (o : Out) (s0 : S),
      In (e, o) (snd (run_events sdec transport p sched sigma)) -> o = fst (transport p e s0).
Proof. exact assignment_independence. Qed.
Print Assumptions C07_assignment_independence.

Theorem C07_events_reported :
  forall (P S stream : Type) (sdec : forall a b : stream, {a = b} + {a <> b}) (Ev Out : Type)
         (transport : P -> Ev -> S -> Out * S) (p : P) (sched : list (stream * Ev)) (sigma : stream -> S),
    map fst (snd (run_events sdec transport p sched sigma)) = rev (map snd sched).
Proof. exact events_reported. Qed.
Print Assumptions C07_events_reported.

(** ** Generated obligations: the no-data-race hypothesis is TIED, not proved *)

(** every potentially shared mutable cell found in the current sources has a
    row in the hand-reviewed guard table *)
Theorem C07_all_cells_guarded :
  forallb (fun c => match lookup (cell_key c) with Some _ => true | None => false end) cells = true.
Proof. exact all_cells_guarded. Qed.
Print Assumptions C07_all_cells_guarded.

(** the table has no row for a cell that no longer exists *)
Theorem C07_guard_table_current :
  forallb (fun r => existsb (fun c => key_eqb (cell_key c) (row_key r)) cells) guard_table = true.
Proof. exact guard_table_current. Qed.
Print Assumptions C07_guard_table_current.

(** the only cell accepted although it is not guarded is the debug-only status checker *)
Theorem C07_debug_unguarded_is :
  debug_unguarded = [("celeritas/track/StatusChecker.cc", "StatusChecker::data_")%string].
Proof. exact debug_unguarded_is. Qed.
Print Assumptions C07_debug_unguarded_is.

(** no cell is currently known to be insufficiently guarded (finding F-C07-1,
    double-checked locking in ActionDiagnostic::begin_run_impl, was repaired
    in /repo 63841d1) *)
Theorem C07_racy_reported_is : racy_reported = [].
Proof. exact racy_reported_is. Qed.
Print Assumptions C07_racy_reported_is.

(** every use site of an accessor / RAII class that writes an unsynchronised
    global cell (MemRegistry via ScopedMem / mem_registry(), Environment via
    environment(), device activation, logger setters, ScopedMpiInit,
    kernel_registry()) is in the reviewed list and none of them lies in a
    function on a per-stream path *)
Theorem C07_unsync_cells_not_used_per_stream :
  forallb (fun u => existsb (fun r => key3_eqb (fst r) (use_key u)) unsync_use_reviewed && negb (snd u)) unsync_uses = true.
Proof. exact unsync_cells_not_used_per_stream. Qed.
Print Assumptions C07_unsync_cells_not_used_per_stream.

Theorem C07_unsync_use_rows_current :
  forallb (fun r => existsb (fun u => key3_eqb (fst r) (use_key u)) unsync_uses) unsync_use_reviewed = true.
Proof. exact unsync_use_rows_current. Qed.
Print Assumptions C07_unsync_use_rows_current.

(** ** Index model of the per-stream stores (coq/C07/Stores.v): StreamStore's
    vector indexed by StreamId and the per-CoreState AuxStateVec indexed by AuxId.
    The disjointness of the streams' cells, assumed by the function-update shape
    of [step_stream] above, is DERIVED here from the index arithmetic. *)

(** a step of stream [i] on the shared vector is exactly the function update
    (nobody else's entry changes), provided the CELER_EXPECT range obligation *)
Theorem C07_ss_step_refines :
  forall (C : Type) (f : C -> C) (d : C) (mem : list C) (i : nat),
    i < List.length mem ->
    exists mem', ss_step C f mem i = Some mem'
      /\ List.length mem' = List.length mem
      /\ forall j, ss_abs C d mem' j = upd Nat.eq_dec (ss_abs C d mem) i (f (ss_abs C d mem i)) j.
Proof. exact ss_step_refines. Qed.
Print Assumptions C07_ss_step_refines.

(** an out-of-range stream id is the (compiled-out) assertion site *)
Theorem C07_ss_step_error :
  forall (C : Type) (f : C -> C) (mem : list C) (i : nat),
    List.length mem <= i -> ss_step C f mem i = None.
Proof. exact ss_step_error. Qed.
Print Assumptions C07_ss_step_error.

(** every interleaving on the shared StreamStore vector equals the serial
    execution; hypothesis: only the range obligation of the stream ids *)
Theorem C07_ss_interleaving_equals_serial :
  forall (C : Type) (f : C -> C) (d : C) (streams sched : list nat) (mem : list C),
    NoDup streams -> (forall i, In i sched -> In i streams) ->
    (forall i, In i streams -> i < List.length mem) ->
    exists m1 m2, ss_run C f sched mem = Some m1
      /\ ss_run C f (serial Nat.eq_dec streams sched) mem = Some m2
      /\ forall j, ss_abs C d m1 j = ss_abs C d m2 j.
Proof. exact ss_interleaving_equals_serial. Qed.
Print Assumptions C07_ss_interleaving_equals_serial.

(** AuxStateVec: a write at (stream i, aux a) is seen at (i, a) and nowhere else *)
Theorem C07_aux_set_get :
  forall (A : Type) (mem : aux_mem A) (i a : nat) (v : A) (mem' : aux_mem A),
    aux_set A mem i a v = Some mem' ->
    forall j b, aux_get A mem' j b = if (Nat.eqb j i && Nat.eqb b a)%bool then Some v else aux_get A mem j b.
Proof. exact aux_set_get. Qed.
Print Assumptions C07_aux_set_get.

Theorem C07_aux_streams_disjoint :
  forall (A : Type) (mem : aux_mem A) (i a : nat) (v : A) (mem' : aux_mem A) (j b : nat),
    aux_set A mem i a v = Some mem' -> j <> i -> aux_get A mem' j b = aux_get A mem j b.
Proof. exact aux_streams_disjoint. Qed.
Print Assumptions C07_aux_streams_disjoint.

Theorem C07_aux_construct_complete :
  forall (A : Type) (create : nat -> nat -> A) (stream naux a : nat),
    a < naux -> nth_error (aux_construct A create stream naux) a = Some (create stream a).
Proof. exact aux_construct_complete. Qed.
Print Assumptions C07_aux_construct_complete.

Theorem C07_flat_index_inj :
  forall naux i a j b : nat,
    a < naux -> b < naux -> flat_index naux i a = flat_index naux j b -> i = j /\ a = b.
Proof. exact flat_index_inj. Qed.
Print Assumptions C07_flat_index_inj.

(** non-vacuity *)
Theorem C07_stores_examples :
  (ss_run nat S [1; 0; 1; 2; 1] [10; 20; 30] = Some [11; 23; 31]
   /\ ss_run nat S (serial Nat.eq_dec [0; 1; 2] [1; 0; 1; 2; 1]) [10; 20; 30] = Some [11; 23; 31]
   /\ ss_run nat S [3] [10; 20; 30] = None)
  /\ (aux_set nat [[1; 2]; [3; 4]] 1 0 9 = Some [[1; 2]; [9; 4]]
      /\ aux_get nat [[1; 2]; [9; 4]] 0 0 = Some 1
      /\ aux_set nat [[1; 2]; [3; 4]] 1 2 9 = None).
Proof. exact (conj ex_ss_run ex_aux). Qed.
Print Assumptions C07_stores_examples.
