(** * C10 property theorems -- statements only; proofs live in C10/*Proofs.v.
    Each theorem is closed by [exact] and followed by [Print Assumptions].

    Vocabulary (coq/C10/Csg.v, CsgProofs.v):
    [eval t s i]      truth value of node [i] of tree [t] under sense assignment [s];
    [inv t]           topologically sorted + nodes 0/1 are true/false + table ids in range;
    [ids_sound t s]   the hash-cons table is sound under [s] -- this is how
                      "consistent with the constants replaced so far" is expressed
                      (a replaced surface stays in the table mapped to an alias of true/false);
    [Ok _]            no assertion site reached, no exception, fuel sufficient;
    [exchange_fx], [replace_and_simplify_fx], [simplify_tree_fx] (C10/CsgFixed.v) model the code
    as it is (exchange repaired in /repo d70f3c2); [exchange chk] etc. (C10/Csg.v) model the
    code BEFORE the repair and appear only in the [*_before_repair_refuted] witnesses. *)
From Coq Require Import List Arith Bool NArith ZArith.
From Celer Require Import C10.Csg C10.CsgFixed C10.Logic C10.DeMorgan C10.Sense C10.Run C10.RunFixed
  C10.CsgProofs C10.LogicProofs C10.ReplaceProofs C10.FlagProofs C10.DeMorganProofs C10.Witness
  C10.InfixProofs C10.DeMorganNJ C10.SenseProofs C10.InfixStringProofs C10.CsgFixedProofs
  C10.Witness2 C10.Witness3 C10.WitnessFixed.
Import ListNotations.

(** NodeSimplifier: the replacement evaluates like the given node, for every
    tree, node and sense assignment; its operands stay below any bound that
    held for the given node (topological order). *)
Theorem C10_simplify_node_sound : forall t s n r,
  wf t -> base t -> simplify_node t n = Ok r ->
  match r with
  | None => True
  | Some n' => eval_node s (eval t s) n' = eval_node s (eval t s) n
  end.
Proof. intros t s n r Hw Hb. exact (simplify_node_value t s Hw Hb n r). Qed.
Print Assumptions C10_simplify_node_sound.

Theorem C10_simplify_node_order : forall t m n r,
  wf t -> simplify_node t n = Ok r -> 2 <= m ->
  (forall c, In c (children n) -> c < m) ->
  match r with
  | None => True
  | Some n' => forall c, In c (children n') -> c < m
  end.
Proof. intros t m n r Hw. exact (simplify_node_children t (fun _ => true) Hw m n r). Qed.
Print Assumptions C10_simplify_node_order.

(** CsgTree::insert: invariants (incl. topological order) kept, old nodes
    untouched, the returned id evaluates like the given node, existing ids
    keep their value, the table stays sound. *)
Theorem C10_insert_sound : forall t n t' i b,
  inv t -> insert t n = Ok (t', i, b) ->
  inv t' /\ is_prefix_tree t t' /\ i < size t' /\ volumes t' = volumes t /\
  forall s, ids_sound t s ->
    ids_sound t' s /\
    (forall k, k < size t -> eval t' s k = eval t s k) /\
    eval t' s i = eval_node s (eval t s) n.
Proof. exact insert_sound. Qed.
Print Assumptions C10_insert_sound.

(** CsgTree::exchange (as repaired in /repo d70f3c2; model [exchange_fx],
    C10/CsgFixed.v): for a replacement whose operands are below [i], the tree
    invariants INCLUDING the topological order are kept, and for every
    assignment under which the table is sound and the replacement is justified
    every node keeps its value and the table stays sound. No extra check. *)
Theorem C10_exchange_sound : forall t i n t' old,
  inv t -> exchange_fx t i n = Ok (t', old) ->
  (forall c, In c (children n) -> c < i) ->
  inv t' /\ size t' = size t /\ volumes t' = volumes t /\
  forall s, ids_sound t s -> eval_node s (eval t s) n = eval t s i ->
    ids_sound t' s /\ forall k, eval t' s k = eval t s k.
Proof. exact exchange_fx_sound. Qed.
Print Assumptions C10_exchange_sound.

(** the repaired exchange returns what the exchange before the repair
    ([exchange], C10/Csg.v) returned wherever that one kept the order *)
Theorem C10_exchange_repair_agrees : forall t i n r,
  exchange true t i n = Ok r -> exchange_fx t i n = Ok r.
Proof. exact exchange_fx_agrees. Qed.
Print Assumptions C10_exchange_repair_agrees.

(** BEFORE the repair ([exchange false] = the code up to 63841d1) exchange
    could lose the topological order although its documented preconditions
    held (finding R1, fixed; the witness is replayed on every run and must keep
    the order now). *)
Theorem C10_exchange_before_repair_refuted :
  exists t i n t' old,
    tree_after empty_tree r1_ops = Ok t /\
    inv t /\ (forall c, In c (children n) -> c < i) /\
    exchange false t i n = Ok (t', old) /\
    (exists s, ids_sound t s /\ eval_node s (eval t s) n = eval t s i) /\
    ~ wf t'.
Proof. exact exchange_topo_refuted_w. Qed.
Print Assumptions C10_exchange_before_repair_refuted.

(** PostfixLogicBuilder + calc_max_depth + LogicEvaluator on the W-bit
    LogicStack: the reported depth is exactly the greatest stack height, and
    if it fits the stack the evaluator returns the node's value, for every
    assignment; with or without surface remapping. *)
Theorem C10_postfix_eval_correct : forall t s mapping W fuel n faces lgc,
  wf t -> 1 <= W -> build_postfix fuel t mapping n = Ok (faces, lgc) ->
  calc_max_depth lgc = Ok (Some (Z.of_nat (max_height lgc 0))) /\
  1 <= max_height lgc 0 /\
  (max_height lgc 0 <= W ->
   logic_evaluate W lgc (map (umap s mapping) faces) = Ok (eval t s n)).
Proof. intros t s mapping W fuel n faces lgc Hw. exact (postfix_eval_correct_gen t s Hw mapping W fuel n faces lgc). Qed.
Print Assumptions C10_postfix_eval_correct.

(** The bit-field stack refines the unbounded list stack (both directions). *)
Theorem C10_logic_stack_refines_list : forall W values l b,
  1 <= W -> l <> [] -> list_run (nth_error values) [] l = Some [b] -> max_height l 0 <= W ->
  logic_evaluate W l values = Ok b.
Proof. intros W values l b HW. exact (logic_stack_refines_list W HW values l b). Qed.
Print Assumptions C10_logic_stack_refines_list.

Theorem C10_logic_evaluate_list : forall W values l b,
  1 <= W -> logic_evaluate W l values = Ok b -> list_run (nth_error values) [] l = Some [b].
Proof. intros W values l b HW. exact (logic_evaluate_list W HW values l b). Qed.
Print Assumptions C10_logic_evaluate_list.

(** calc_max_depth on ANY well-formed postfix vector is the true maximum
    stack height; a vector that does not reduce to one value is invalid. *)
Theorem C10_calc_max_depth_exact : forall vf l b,
  l <> [] -> list_run vf [] l = Some [b] ->
  calc_max_depth l = Ok (Some (Z.of_nat (max_height l 0))) /\ 1 <= max_height l 0.
Proof. exact calc_max_depth_exact. Qed.
Print Assumptions C10_calc_max_depth_exact.

Theorem C10_calc_max_depth_invalid : forall vf l st',
  l <> [] -> list_run vf [] l = Some st' -> length st' <> 1 -> calc_max_depth l = Ok None.
Proof. exact calc_max_depth_invalid. Qed.
Print Assumptions C10_calc_max_depth_invalid.

(** replace_and_simplify (on the repaired exchange): for every assignment
    consistent with the earlier replacements and with the new constant, every
    node keeps its value; invariants incl. topological order and size kept. *)
Theorem C10_replace_and_simplify_sound : forall fuel t key value t' unk,
  inv t -> replace_and_simplify_fx fuel t key value = Ok (t', unk) ->
  inv t' /\ size t' = size t /\
  forall s, ids_sound t s -> eval t s key = value ->
    ids_sound t' s /\ forall k, eval t' s k = eval t s k.
Proof. exact replace_and_simplify_fx_sound. Qed.
Print Assumptions C10_replace_and_simplify_sound.

(** simplify (iterated simplify_up sweeps, on the repaired exchange) *)
Theorem C10_simplify_sound : forall t start t',
  inv t -> simplify_tree_fx t start = Ok t' ->
  inv t' /\ size t' = size t /\ volumes t' = volumes t /\
  forall s, ids_sound t s -> ids_sound t' s /\ forall j, eval t' s j = eval t s j.
Proof. exact simplify_tree_fx_sound. Qed.
Print Assumptions C10_simplify_sound.

(** InternalSurfaceFlagger: a node not flagged is a nested conjunction of
    literals: if it is true, flipping any one of its faces makes it false. *)
Theorem C10_flag_simple_sound : forall t fuel n,
  wf t -> no_neg_alias t -> flag_internal fuel t n = Ok false ->
  forall s x, In x (surfs fuel t n) -> eval t s n = true -> eval t (flip x s) n = false.
Proof. intros t fuel n Hw Hn. exact (flag_simple_sound_gen t Hw Hn fuel n). Qed.
Print Assumptions C10_flag_simple_sound.

(** Without [no_neg_alias] (a half-simplified tree reachable through the
    public API) the flag is wrong (witness replayed on the real code). *)
Theorem C10_flag_simple_alias_refuted :
  exists t n s x,
    tree_after_fx empty_tree r2_ops = Ok t /\ inv t /\
    flag_internal (S (size t)) t n = Ok false /\
    In x (surfs (S (size t)) t n) /\
    eval t s n = true /\ eval t (flip x s) n = true.
Proof. exact flag_simple_alias_refuted_fx_w. Qed.
Print Assumptions C10_flag_simple_alias_refuted.

(** transform_negated_joins (DeMorganSimplifier): every volume of the output
    tree has the boolean function of the corresponding input volume for EVERY
    assignment, independently of what should_insert_join decides; the output
    satisfies the tree invariants; and the output contains no alias and no
    negation whose operand is a join ([no_negated_join], C10/DeMorganNJ.v:
    for every node [Negated c] of the output, node [c] is not [Joined]). *)
Theorem C10_demorgan_sound : forall t t' tr,
  wf t -> demorgan_full t = Ok (t', tr) ->
  inv t' /\
  (forall s, Forall2 (fun v' v => eval t' s v' = eval t s v) (volumes t') (volumes t)) /\
  no_negated_join t'.
Proof. exact demorgan_sound. Qed.
Print Assumptions C10_demorgan_sound.

(** the structural half needs no hypothesis on the input tree at all *)
Theorem C10_demorgan_no_negated_join : forall t t' tr,
  demorgan_full t = Ok (t', tr) -> no_negated_join t'.
Proof. exact demorgan_no_negated_join. Qed.
Print Assumptions C10_demorgan_no_negated_join.

(** InfixEvaluator (short-circuit evaluation with [short_circuit] skipping to
    the matching parenthesis). [iparse s l v] (C10/InfixProofs.v) is the grammar
    of the explicit infix form: face | ~face | true | ( e op e op ... e ) with one
    operator per group; [v] is the expression's value under [s].
    The evaluator returns that value for EVERY expression of the grammar (no
    assertion site is reached, the model's fuel suffices), also for a top-level
    operator sequence without the outer parentheses ([break] at depth 0);
    the model-side builder only produces expressions of the grammar, with the
    node's value; hence evaluator(builder(node)) = eval node, for all trees,
    nodes and sense assignments. *)
Theorem C10_infix_eval_grammar : forall s l v,
  iparse s l v -> infix_evaluate l s = Ok v.
Proof. exact infix_eval_grammar. Qed.
Print Assumptions C10_infix_eval_grammar.

Theorem C10_infix_eval_toplevel : forall s o l v,
  iseq s o l v -> infix_evaluate l s = Ok v.
Proof. exact infix_eval_toplevel. Qed.
Print Assumptions C10_infix_eval_toplevel.

Theorem C10_build_infix_grammar : forall t s fuel n l,
  wf t -> build_infix fuel t n = Ok l -> iparse s l (eval t s n).
Proof. intros t s fuel n l Hw. exact (build_infix_parse t s Hw fuel n l). Qed.
Print Assumptions C10_build_infix_grammar.

Theorem C10_infix_eval_correct : forall t s fuel n l,
  wf t -> build_infix fuel t n = Ok l -> infix_evaluate l s = Ok (eval t s n).
Proof. intros t s fuel n l Hw. exact (infix_eval_correct t s Hw fuel n l). Qed.
Print Assumptions C10_infix_eval_correct.

(** BEFORE the repair, replace_and_simplify ALONE (no user-level exchange)
    could lose the topological order: on a tree reached by insert /
    insert_volume / replace_and_simplify only ([r3_ops], C10/Witness3.v), with a
    consistent assignment, the old function returned a tree in which node 9
    aliases the higher node 10 (finding R3, fixed together with R1; witness
    replayed on every run, must keep the order now: [ex_fx_r3]). *)
Theorem C10_replace_and_simplify_before_repair_refuted :
  exists t t' unk,
    forallb production_op r3_ops = true /\
    tree_after empty_tree r3_ops = Ok t /\
    inv t /\
    (exists s, ids_sound t s /\ eval t s 7 = false) /\
    replace_and_simplify false (rs_fuel t) t 7 false = Ok (t', unk) /\
    nth_error (nodes t') 9 = Some (NAliased 10) /\
    ~ wf t' /\
    replace_and_simplify true (rs_fuel t) t 7 false = Assert.
Proof. exact replace_topo_refuted_w. Qed.
Print Assumptions C10_replace_and_simplify_before_repair_refuted.

(** SenseEvaluator (recursive evaluation with short circuit, three-valued
    SignedSense): at a point off every surface it returns "inside" exactly when
    the node is true under the assignment of the surfaces' senses, on every
    topologically sorted tree without operand-less joins (an invariant of
    insert: [insert_joins_nonempty]; the C++ loop would return the
    value-initialised sense "on" for such a join). *)
Theorem C10_sense_evaluator_sound : forall t s n b,
  wf t -> joins_nonempty t -> sense_eval_bool t s n = Ok b -> b = eval t s n.
Proof. intros t s n b Hw Hn. exact (sense_eval_bool_sound t s Hw Hn n b). Qed.
Print Assumptions C10_sense_evaluator_sound.

(** InfixStringBuilder: the string built for a node (tokens "all(" "any(" ", "
    ")" "!" "T" "F" "+n" "-n") is a complete expression of the grammar
    expr ::= T | F | +n | -n | !expr | all(expr{, expr}) | any(expr{, expr})
    whose value ([infix_string_value], reference recursive-descent evaluator in
    C10/Sense.v) is the node's value, for every wf tree, node and assignment. *)
Theorem C10_infix_string_sound : forall t s fuel n l,
  wf t -> build_infix_string fuel t n = Ok l -> infix_string_value s l = Some (eval t s n).
Proof. intros t s fuel n l Hw. exact (build_infix_string_sound t s Hw fuel n l). Qed.
Print Assumptions C10_infix_string_sound.
