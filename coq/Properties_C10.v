(** * C10 property theorems -- statements only; proofs live in C10/*Proofs.v. *)
From Coq Require Import List Arith Bool.
From Celer Require Import C10.Csg C10.CsgProofs.
Import ListNotations.

Theorem C10_node_eqb_eq : forall a b, node_eqb a b = true -> a = b.
Proof. exact node_eqb_eq. Qed.
Print Assumptions C10_node_eqb_eq.
