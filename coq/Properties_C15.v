(** * C15 property theorems — statements only; proofs live in C15/SamplersProofs.v.
    Each theorem is closed by [exact] and followed by [Print Assumptions]. *)
From Coq Require Import Reals ZArith List Floats.
From Celer Require Import Base.Num Base.NumR Base.NumF Base.Stream Base.Vec3
  C15.Samplers C15.SamplersProofs C15.SamplersWitness.
Import ListNotations.
Local Open Scope R_scope.

Theorem C15_uniform_support : forall a b u s, a <= b -> canonical u ->
  exists x, uniform (T:=R) a b (u :: s) = Some (x, s) /\ a <= x <= b /\ (a < b -> x < b).
Proof. exact uniform_support. Qed.
Print Assumptions C15_uniform_support.

Theorem C15_uniform_quantile : forall a b u s, a < b ->
  exists x, uniform (T:=R) a b (u :: s) = Some (x, s) /\ (x - a) / (b - a) = u.
Proof. exact uniform_quantile. Qed.
Print Assumptions C15_uniform_quantile.

Theorem C15_exponential_support : forall l u s, 0 < l -> 0 < u < 1 ->
  exists x, exponential (T:=R) l (u :: s) = Some (x, s) /\ 0 < x.
Proof. exact exponential_support. Qed.
Print Assumptions C15_exponential_support.

Theorem C15_exponential_quantile : forall l u s, 0 < l -> 0 < u ->
  exists x, exponential (T:=R) l (u :: s) = Some (x, s) /\ exp (- l * x) = u.
Proof. exact exponential_quantile. Qed.
Print Assumptions C15_exponential_quantile.

Theorem C15_bernoulli_law : forall p u s b,
  bernoulli (T:=R) p (u :: s) = Some (b, s) -> (b = true <-> u < p).
Proof. exact bernoulli_true_iff. Qed.
Print Assumptions C15_bernoulli_law.

Theorem C15_rejection_law : forall f fmax u s, 0 < fmax ->
  exists b, rejection (T:=R) f fmax (u :: s) = Some (b, s) /\ (b = true <-> f / fmax < u).
Proof. exact rejection_iff. Qed.
Print Assumptions C15_rejection_law.

Theorem C15_inverse_square_support : forall a b u s, 0 < a -> a <= b -> canonical u ->
  exists x, inverse_square (T:=R) a b (u :: s) = Some (x, s) /\ a <= x <= b.
Proof. exact inverse_square_support. Qed.
Print Assumptions C15_inverse_square_support.

Theorem C15_inverse_square_quantile : forall a b u s, 0 < a -> a < b -> canonical u ->
  exists x, inverse_square (T:=R) a b (u :: s) = Some (x, s) /\ (1 - a / x) * b / (b - a) = 1 - u.
Proof. exact inverse_square_quantile. Qed.
Print Assumptions C15_inverse_square_quantile.

Theorem C15_reciprocal_support : forall a b u s, 0 < a -> a <= b -> canonical u ->
  exists x, reciprocal (T:=R) a b (u :: s) = Some (x, s) /\ a <= x <= b.
Proof. exact reciprocal_support. Qed.
Print Assumptions C15_reciprocal_support.

Theorem C15_selector_index_valid : forall ws total u s, ws <> [] ->
  exists i, selector (T:=R) ws total (u :: s) = Some (i, s) /\ (i < length ws)%nat.
Proof. exact selector_index_valid. Qed.
Print Assumptions C15_selector_index_valid.

Theorem C15_isotropic_unit : forall u1 u2 s, canonical u1 -> canonical u2 ->
  exists v, isotropic (T:=R) (u1 :: u2 :: s) = Some (v, s) /\ dot v v = 1.
Proof. exact isotropic_unit. Qed.
Print Assumptions C15_isotropic_unit.

(** Poisson count in the Gaussian regime is a valid unsigned count (model of
    the repaired code: negative samples are clamped before the conversion) *)
Theorem C15_poisson_gauss_support : forall lambda u1 u2 s,
  16 < lambda -> forall x st,
  normal_step (T:=R) lambda (R_sqrt.sqrt lambda) None (u1 :: u2 :: s) = Some ((x, st), s) ->
  x + 1 / 2 < 4294967296 ->
  exists k, poisson (T:=R) true lambda (u1 :: u2 :: s) = Some (k, s)
            /\ (0 <= k < 4294967296)%Z /\ k = Int_part (Rmax (x + 1/2) 0).
Proof. exact poisson_gauss_support. Qed.
Print Assumptions C15_poisson_gauss_support.

(** The unrepaired conversion is refuted by a concrete stream (finding F6) *)
Theorem C15_poisson_unclamped_refuted :
  exists (s : list float) k r,
    poisson (T:=float) false 16.5%float s = Some (k, r) /\ (k >= 4294967290)%Z.
Proof. exact poisson_unclamped_refuted. Qed.
Print Assumptions C15_poisson_unclamped_refuted.

Theorem C15_draws_exact : forall a b l p (v : vec3 R) u1 u2 u3 s,
  consumed (u1 :: s) (uniform (T:=R) a b (u1 :: s)) = Some 1%nat /\
  consumed (u1 :: s) (exponential (T:=R) l (u1 :: s)) = Some 1%nat /\
  consumed (u1 :: s) (bernoulli (T:=R) p (u1 :: s)) = Some 1%nat /\
  consumed (u1 :: s) (reciprocal (T:=R) a b (u1 :: s)) = Some 1%nat /\
  consumed (u1 :: s) (inverse_square (T:=R) a b (u1 :: s)) = Some 1%nat /\
  consumed (u1 :: s) (radial (T:=R) a (u1 :: s)) = Some 1%nat /\
  consumed (u1 :: u2 :: s) (isotropic (T:=R) (u1 :: u2 :: s)) = Some 2%nat /\
  consumed (u1 :: u2 :: u3 :: s) (uniform_box (T:=R) v v (u1 :: u2 :: u3 :: s)) = Some 3%nat.
Proof. exact draws_exact. Qed.
Print Assumptions C15_draws_exact.
