(** * C15 property theorems — statements only; proofs live in C15/SamplersProofs.v.
    Each theorem is closed by [exact] and followed by [Print Assumptions]. *)
From Coq Require Import Reals ZArith List Floats.
From Celer Require Import Base.Num Base.NumR Base.NumF Base.Stream Base.Vec3
  C15.Samplers C15.SamplersProofs C15.SamplersWitness C15.SamplersLaws C15.Eloss C15.ElossProofs
  C15.DensityLaws C15.Canonical C15.CanonicalProofs C15.ElossDelta C15.UrbanSupport.
Import ListNotations.
Local Open Scope R_scope.

Theorem C15_uniform_support : forall a b u s, a <= b -> canonical u ->
  exists x, uniform (T:=R) a b (u :: s) = Some (x, s) /\ a <= x <= b /\ (a < b -> x < b).
Proof. exact uniform_support. Qed.
Print Assumptions C15_uniform_support.

Theorem C15_uniform_quantile : forall a b u s, a < b ->
  exists x, uniform (T:=R) a b (u :: s) = Some (x, s) /\ (x - a) / (b - a) = u.
Proof. exact uniform_quantile. Qed.
Print Assumptions C15_uniform_quantile.

Theorem C15_exponential_support : forall l u s, 0 < l -> 0 < u < 1 ->
  exists x, exponential (T:=R) l (u :: s) = Some (x, s) /\ 0 < x.
Proof. exact exponential_support. Qed.
Print Assumptions C15_exponential_support.

Theorem C15_exponential_quantile : forall l u s, 0 < l -> 0 < u ->
  exists x, exponential (T:=R) l (u :: s) = Some (x, s) /\ exp (- l * x) = u.
Proof. exact exponential_quantile. Qed.
Print Assumptions C15_exponential_quantile.

Theorem C15_bernoulli_law : forall p u s b,
  bernoulli (T:=R) p (u :: s) = Some (b, s) -> (b = true <-> u < p).
Proof. exact bernoulli_true_iff. Qed.
Print Assumptions C15_bernoulli_law.

Theorem C15_rejection_law : forall f fmax u s, 0 < fmax ->
  exists b, rejection (T:=R) f fmax (u :: s) = Some (b, s) /\ (b = true <-> f / fmax < u).
Proof. exact rejection_iff. Qed.
Print Assumptions C15_rejection_law.

Theorem C15_inverse_square_support : forall a b u s, 0 < a -> a <= b -> canonical u ->
  exists x, inverse_square (T:=R) a b (u :: s) = Some (x, s) /\ a <= x <= b.
Proof. exact inverse_square_support. Qed.
Print Assumptions C15_inverse_square_support.

Theorem C15_inverse_square_quantile : forall a b u s, 0 < a -> a < b -> canonical u ->
  exists x, inverse_square (T:=R) a b (u :: s) = Some (x, s) /\ (1 - a / x) * b / (b - a) = 1 - u.
Proof. exact inverse_square_quantile. Qed.
Print Assumptions C15_inverse_square_quantile.

Theorem C15_reciprocal_support : forall a b u s, 0 < a -> a <= b -> canonical u ->
  exists x, reciprocal (T:=R) a b (u :: s) = Some (x, s) /\ a <= x <= b.
Proof. exact reciprocal_support. Qed.
Print Assumptions C15_reciprocal_support.

Theorem C15_selector_index_valid : forall ws total u s, ws <> [] ->
  exists i, selector (T:=R) ws total (u :: s) = Some (i, s) /\ (i < length ws)%nat.
Proof. exact selector_index_valid. Qed.
Print Assumptions C15_selector_index_valid.

Theorem C15_isotropic_unit : forall u1 u2 s, canonical u1 -> canonical u2 ->
  exists v, isotropic (T:=R) (u1 :: u2 :: s) = Some (v, s) /\ dot v v = 1.
Proof. exact isotropic_unit. Qed.
Print Assumptions C15_isotropic_unit.

(** Poisson count in the Gaussian regime is a valid unsigned count (model of
    the repaired code: negative samples are clamped before the conversion) *)
Theorem C15_poisson_gauss_support : forall lambda u1 u2 s,
  16 < lambda -> forall x st,
  normal_step (T:=R) lambda (R_sqrt.sqrt lambda) None (u1 :: u2 :: s) = Some ((x, st), s) ->
  x + 1 / 2 < 4294967296 ->
  exists k, poisson (T:=R) true lambda (u1 :: u2 :: s) = Some (k, s)
            /\ (0 <= k < 4294967296)%Z /\ k = Int_part (Rmax (x + 1/2) 0).
Proof. exact poisson_gauss_support. Qed.
Print Assumptions C15_poisson_gauss_support.

(** The unrepaired conversion is refuted by a concrete stream (finding F6) *)
Theorem C15_poisson_unclamped_refuted :
  exists (s : list float) k r,
    poisson (T:=float) false 16.5%float s = Some (k, r) /\ (k >= 4294967290)%Z.
Proof. exact poisson_unclamped_refuted. Qed.
Print Assumptions C15_poisson_unclamped_refuted.

Theorem C15_draws_exact : forall a b l p (v : vec3 R) u1 u2 u3 s,
  consumed (u1 :: s) (uniform (T:=R) a b (u1 :: s)) = Some 1%nat /\
  consumed (u1 :: s) (exponential (T:=R) l (u1 :: s)) = Some 1%nat /\
  consumed (u1 :: s) (bernoulli (T:=R) p (u1 :: s)) = Some 1%nat /\
  consumed (u1 :: s) (reciprocal (T:=R) a b (u1 :: s)) = Some 1%nat /\
  consumed (u1 :: s) (inverse_square (T:=R) a b (u1 :: s)) = Some 1%nat /\
  consumed (u1 :: s) (radial (T:=R) a (u1 :: s)) = Some 1%nat /\
  consumed (u1 :: u2 :: s) (isotropic (T:=R) (u1 :: u2 :: s)) = Some 2%nat /\
  consumed (u1 :: u2 :: u3 :: s) (uniform_box (T:=R) v v (u1 :: u2 :: u3 :: s)) = Some 3%nat.
Proof. exact draws_exact. Qed.
Print Assumptions C15_draws_exact.

(** ** Part 2: further supports, exact laws (quantile identities) and
    specifications.  [cum ws k] = w_0 + ... + w_{k-1};
    [prod_first p us m] = p u_1 ... u_m. *)
Theorem C15_radial_support : forall r u s, 0 <= r -> canonical u ->
  exists x, radial (T:=R) r (u :: s) = Some (x, s) /\ 0 <= x <= r /\ (0 < r -> x < r).
Proof. exact radial_support. Qed.
Print Assumptions C15_radial_support.

Theorem C15_radial_quantile : forall r u s, 0 < r -> 0 <= u ->
  exists x, radial (T:=R) r (u :: s) = Some (x, s) /\ (x / r) * (x / r) * (x / r) = u.
Proof. exact radial_quantile. Qed.
Print Assumptions C15_radial_quantile.

Theorem C15_reciprocal_quantile : forall a b u s, 0 < a -> a < b ->
  exists x, reciprocal (T:=R) a b (u :: s) = Some (x, s) /\ ln (x / a) / ln (b / a) = u.
Proof. exact reciprocal_quantile. Qed.
Print Assumptions C15_reciprocal_quantile.

Theorem C15_uniform_box_support : forall (lo hi : vec3 R) u1 u2 u3 s,
  vx lo <= vx hi -> vy lo <= vy hi -> vz lo <= vz hi ->
  canonical u1 -> canonical u2 -> canonical u3 ->
  exists v, uniform_box lo hi (u1 :: u2 :: u3 :: s) = Some (v, s) /\
    vx lo <= vx v <= vx hi /\ vy lo <= vy v <= vy hi /\ vz lo <= vz v <= vz hi.
Proof. exact uniform_box_support. Qed.
Print Assumptions C15_uniform_box_support.

(** Selector: general specification, then the law P(i) = w_i / sum w as the
    length of the u-interval that selects i, and disjointness of the intervals *)
Theorem C15_selector_spec : forall ws total u s, ws <> [] ->
  exists i, selector (T:=R) ws total (u :: s) = Some (i, s) /\ (i < length ws)%nat /\
    (forall j, (j < i)%nat -> cum ws (S j) <= total * u) /\
    ((i < length ws - 1)%nat -> total * u < cum ws (S i)).
Proof. exact selector_spec. Qed.
Print Assumptions C15_selector_spec.

Theorem C15_selector_quantile : forall ws total u s,
  ws <> [] -> Forall (fun w => 0 <= w) ws -> total = cum ws (length ws) -> 0 < total -> canonical u ->
  exists i, selector (T:=R) ws total (u :: s) = Some (i, s) /\ (i < length ws)%nat /\
    cum ws i / total <= u < cum ws (S i) / total.
Proof. exact selector_quantile. Qed.
Print Assumptions C15_selector_quantile.

Theorem C15_selector_interval_unique : forall ws total u i j,
  Forall (fun w => 0 <= w) ws -> 0 < total ->
  cum ws i / total <= u < cum ws (S i) / total ->
  cum ws j / total <= u < cum ws (S j) / total -> i = j.
Proof. exact selector_interval_unique. Qed.
Print Assumptions C15_selector_interval_unique.

(** Normal: the exact Box-Muller identity, and finiteness for u2 > 0 *)
Theorem C15_normal_box_muller : forall mean sd u1 u2 s, 0 < u2 <= 1 ->
  exists x z2, normal_step (T:=R) mean sd None (u1 :: u2 :: s) = Some ((x, Some z2), s) /\
    let r := R_sqrt.sqrt (-2 * ln u2) in
    x = mean + sd * (r * sin (twopi * u1)) /\ z2 = r * cos (twopi * u1) /\
    r * r = -2 * ln u2 /\
    (r * sin (twopi * u1)) * (r * sin (twopi * u1)) + z2 * z2 = -2 * ln u2 /\
    exp (- ((r * sin (twopi * u1)) * (r * sin (twopi * u1)) + z2 * z2) / 2) = u2.
Proof. exact normal_box_muller. Qed.
Print Assumptions C15_normal_box_muller.

Theorem C15_normal_support_finite : forall mean sd u1 u2 s, 0 <= sd -> 0 < u2 <= 1 ->
  exists x st, normal_step (T:=R) mean sd None (u1 :: u2 :: s) = Some ((x, st), s) /\
    Rabs (x - mean) <= sd * R_sqrt.sqrt (-2 * ln u2).
Proof. exact normal_support_finite. Qed.
Print Assumptions C15_normal_support_finite.

(** Poisson direct method (lambda <= 16): k + 1 = least m with
    e^lambda u_1 ... u_m <= 1, i.e. the least k with prod_{j <= k+1} u_j <= e^-lambda *)
Theorem C15_poisson_direct_spec : forall lambda s k s', lambda <= 16 ->
  poisson (T:=R) true lambda s = Some (k, s') ->
  exists m, (1 <= m)%nat /\ k = (Z.of_nat m - 1)%Z /\ length s = (m + length s')%nat /\
    prod_first (exp lambda) s m <= 1 /\ forall j, (1 <= j < m)%nat -> 1 < prod_first (exp lambda) s j.
Proof. exact poisson_direct_spec. Qed.
Print Assumptions C15_poisson_direct_spec.

Theorem C15_poisson_terminates_on_low_draw : forall lambda pre u post,
  0 <= lambda <= 16 -> Forall canonical pre -> canonical u -> u <= exp (- lambda) ->
  exists k s', poisson (T:=R) true lambda (pre ++ u :: post) = Some (k, s') /\
    (0 <= k <= Z.of_nat (length pre))%Z.
Proof. exact poisson_terminates_on_low_draw. Qed.
Print Assumptions C15_poisson_terminates_on_low_draw.

(** Gamma (Marsaglia-Tsang): positive when it returns; the accepted triple
    passed the squeeze or the exact logarithmic test *)
Theorem C15_gamma_support : forall alpha beta s x s', 0 < alpha -> 0 < beta ->
  Forall (fun u => 0 < u < 1) s ->
  gamma (T:=R) alpha beta s = Some (x, s') -> 0 < x.
Proof. exact gamma_support. Qed.
Print Assumptions C15_gamma_support.

Theorem C15_gamma_acceptance : forall d c fuel st s x s',
  gamma_outer (T:=R) fuel d c st s = Some (x, s') ->
  exists z v u, v = 1 + c * z /\ 0 < v /\ x = d * (v * v * v) /\
    (u <= 1 - 331 / 10000 * (z * z * (z * z))
     \/ ln u <= 1 / 2 * (z * z) + d * (1 - v * v * v + ln (v * v * v))).
Proof. intros d c fuel st s x s'. exact (gamma_outer_spec d c fuel st s x s'). Qed.
Print Assumptions C15_gamma_acceptance.

(** ** Part 3: Tsai-Urban and energy-loss fluctuation distributions *)
Theorem C15_tsai_urban_support : forall e m s x s', 0 < m -> 0 <= e -> Forall canonical s ->
  tsai_urban (T:=R) e m s = Some (x, s') -> -1 <= x <= 1.
Proof. exact tsai_urban_support. Qed.
Print Assumptions C15_tsai_urban_support.

Theorem C15_tsai_urban_terminates_on_high_draw : forall umax f u1 u2 u3 s,
  0 < umax -> exp (- (umax / (16 / 10))) <= u1 * u2 <= 1 ->
  exists x, tsai_urban_loop (T:=R) (S f) umax (u1 :: u2 :: u3 :: s) = Some (x, s).
Proof. exact tsai_urban_terminates_on_high_draw. Qed.
Print Assumptions C15_tsai_urban_terminates_on_high_draw.

Theorem C15_eloss_gauss_support : forall mean sd st s x st' s',
  eloss_gauss (T:=R) mean sd st s = Some ((x, st'), s') -> 0 < x <= 2 * mean.
Proof. exact eloss_gauss_support. Qed.
Print Assumptions C15_eloss_gauss_support.

Theorem C15_eloss_gamma_support : forall mean var s x s', 0 < mean -> 0 < var ->
  Forall (fun u => 0 < u < 1) s -> eloss_gamma (T:=R) mean var s = Some (x, s') -> 0 < x.
Proof. exact eloss_gamma_support. Qed.
Print Assumptions C15_eloss_gamma_support.

Theorem C15_eloss_model_cases : forall ml me mt mr bv,
  let m := eloss_model (T:=R) ml me mt mr bv in
  (m = 0%nat <-> (ml < 1 / 100000 \/ me <= 1 / 100000)) /\
  (m = 2%nat -> 4 * bv <= ml * ml /\ mr < 1 /\ 10 * me <= ml /\ mt <= 2 * me) /\
  (m = 1%nat -> ml * ml < 4 * bv /\ mr < 1 /\ 10 * me <= ml /\ mt <= 2 * me).
Proof. exact eloss_model_cases. Qed.
Print Assumptions C15_eloss_model_cases.

(** ** Part 4: exactness at alpha = 1 and mean of the energy-loss models *)
Theorem C15_gamma_no_boost_from_one : forall alpha beta s, 1 <= alpha ->
  gamma (T:=R) alpha beta s =
  match gamma_outer (length s) (alpha - 1 / 3) (rsqrt (9 * (alpha - 1 / 3))) None s with
  | Some (dv, s') => Some (dv * beta, s')
  | None => None
  end.
Proof. exact gamma_no_boost_from_one. Qed.
Print Assumptions C15_gamma_no_boost_from_one.

(** Urban model: in every branch of the constructor (no excitation, single
    level, two levels; with or without width correction) the first moments of its
    parameters add up to the requested mean energy loss:
    scaling * (Sigma_0 E_0 + Sigma_1 E_1 + Sigma_ion <E_ion>) = mean *)
Theorem C15_urban_params_mean : forall (m : urban_mat (T:=R)) unscaled Emax tmb bsq,
  0 < unscaled -> 1 / 100000 < Emax ->
  0 < um_be0 m -> 0 < um_be1 m -> um_f0 m + um_f1 m = 1 -> 0 <= um_f0 m -> 0 <= um_f1 m ->
  um_f0 m * um_lbe0 m + um_f1 m * um_lbe1 m = um_logI m -> um_lbe0 m <= um_lbe1 m ->
  urban_params_first_moment (fst (urban_construct m unscaled Emax tmb bsq)) = unscaled.
Proof. exact urban_params_mean. Qed.
Print Assumptions C15_urban_params_mean.

Theorem C15_eloss_gamma_params_mean : forall mean var : R, 0 < mean -> 0 < var ->
  let k := mean * mean / var in let theta := mean / k in
  k * theta = mean /\ k * (theta * theta) = var /\ 0 < k /\ 0 < theta.
Proof. exact eloss_gamma_params_mean. Qed.
Print Assumptions C15_eloss_gamma_params_mean.

Theorem C15_eloss_gauss_window_symmetric : forall mean x : R,
  (0 < x < 2 * mean) <-> (0 < 2 * mean - x < 2 * mean).
Proof. exact eloss_gauss_window_symmetric. Qed.
Print Assumptions C15_eloss_gauss_window_symmetric.

(** ** Part 5: density-level statements about the rejection / composite samplers
    (the strongest statements about their law expressible without measure theory) *)

(** (a) the acceptance function of RejectionSampler is a probability proportional to the target density *)
Theorem C15_rejection_accept_probability : forall f fmax u s, 0 < fmax -> 0 <= f <= fmax ->
  exists b, rejection (T:=R) f fmax (u :: s) = Some (b, s) /\
    (b = false <-> u <= f / fmax) /\ 0 <= f / fmax <= 1.
Proof. exact rejection_accept_probability. Qed.
Print Assumptions C15_rejection_accept_probability.

Theorem C15_rejection_accept_proportional : forall f1 f2 fmax, 0 < fmax -> 0 < f2 ->
  (f1 / fmax) / (f2 / fmax) = f1 / f2.
Proof. exact rejection_accept_proportional. Qed.
Print Assumptions C15_rejection_accept_proportional.

Theorem C15_bernoulli_accept_interval : forall p u s, 0 <= p <= 1 -> canonical u ->
  exists b, bernoulli (T:=R) p (u :: s) = Some (b, s) /\ (b = true <-> 0 <= u < p) /\ (b = false <-> p <= u < 1).
Proof. exact bernoulli_accept_interval. Qed.
Print Assumptions C15_bernoulli_accept_interval.

Theorem C15_bernoulli2_probability : forall st sf u s, 0 <= st -> 0 <= sf -> 0 < st + sf ->
  exists b, bernoulli2 (T:=R) st sf (u :: s) = Some (b, s) /\ (b = true <-> u < st / (st + sf)) /\
    0 <= st / (st + sf) <= 1.
Proof. exact bernoulli2_probability. Qed.
Print Assumptions C15_bernoulli2_probability.

(** (b) Marsaglia-Tsang: squeeze soundness -- for every alpha > 0 (d = alpha' - 1/3 >= 2/3 as coded),
    every z with v = 1 + z / sqrt(9 d) > 0 and every u > 0, passing the squeeze
    u <= 1 - 0.0331 z^4 implies passing the exact test ln u <= z^2/2 + d (1 - v^3 + ln v^3) *)
Theorem C15_gamma_squeeze_sound : forall alpha z u, 0 < alpha ->
  let d := mt_alpha_p alpha - 1 / 3 in
  let c := rsqrt (T:=R) (9 * d) in
  let v := 1 + c * z in
  0 < v -> 0 < u -> u <= 1 - 331 / 10000 * (z * z * (z * z)) ->
  ln u <= 1 / 2 * (z * z) + d * (1 - v * v * v + ln (v * v * v)).
Proof. exact gamma_squeeze_sound. Qed.
Print Assumptions C15_gamma_squeeze_sound.

(** hence the accepted set is exactly the exact-test set *)
Theorem C15_gamma_accept_exact : forall alpha fuel st s x s', 0 < alpha ->
  let d := mt_alpha_p alpha - 1 / 3 in
  let c := rsqrt (T:=R) (9 * d) in
  Forall (fun u => 0 < u) s ->
  gamma_outer (T:=R) fuel d c st s = Some (x, s') ->
  exists z v u, In u s /\ v = 1 + c * z /\ 0 < v /\ x = d * (v * v * v) /\
    ln u <= 1 / 2 * (z * z) + d * (1 - v * v * v + ln (v * v * v)).
Proof. exact gamma_accept_exact. Qed.
Print Assumptions C15_gamma_accept_exact.

(** alpha < 1: X_alpha = X_(alpha+1) u^(1/alpha) from the same stream *)
Theorem C15_gamma_boost_identity : forall alpha beta s x s', 0 < alpha < 1 -> 0 < beta ->
  Forall (fun u => 0 < u < 1) s ->
  gamma (T:=R) alpha beta s = Some (x, s') ->
  exists y u, gamma (T:=R) (alpha + 1) beta s = Some (y, u :: s') /\ 0 < y /\ 0 < u < 1 /\
    x = y * Rpower u (1 / alpha) /\ Rpower (x / y) alpha = u /\ 0 < x < y.
Proof. exact gamma_boost_identity. Qed.
Print Assumptions C15_gamma_boost_identity.

(** (c) Poisson direct method: prod_(i<=k) u_i > e^-lambda >= prod_(i<=k+1) u_i *)
Theorem C15_poisson_direct_interarrival : forall lambda s k s', 0 < lambda <= 16 ->
  poisson (T:=R) true lambda s = Some (k, s') ->
  (0 <= k)%Z /\ length s = (Z.to_nat k + 1 + length s')%nat /\
  (forall j, (j <= Z.to_nat k)%nat -> exp (- lambda) < uprod s j) /\
  uprod s (Z.to_nat k + 1) <= exp (- lambda).
Proof. exact poisson_direct_interarrival. Qed.
Print Assumptions C15_poisson_direct_interarrival.

(** (d) Box-Muller: the spare is the companion deviate *)
Theorem C15_normal_spare_companion : forall mean sd u1 u2 s, 0 < u2 <= 1 ->
  exists x1 x2, normal2 (T:=R) mean sd (u1 :: u2 :: s) = Some ((x1, x2), s) /\
    let r := R_sqrt.sqrt (-2 * ln u2) in let theta := twopi * u1 in
    x1 = mean + sd * (r * sin theta) /\ x2 = mean + sd * (r * cos theta) /\
    (x1 - mean) * (x1 - mean) + (x2 - mean) * (x2 - mean) = sd * sd * (-2 * ln u2).
Proof. exact normal_spare_companion. Qed.
Print Assumptions C15_normal_spare_companion.

(** (e) Tsai-Urban: branch conditions as coded *)
Theorem C15_tsai_urban_branches : forall umax fuel s x s',
  tsai_urban_loop (T:=R) fuel umax s = Some (x, s') ->
  exists pre u1 u2 u3, s = pre ++ u1 :: u2 :: u3 :: s' /\
    let a := if Rltb u3 (1 / 4) then 16 / 10 else 16 / 10 / 3 in
    let u := - ln (u1 * u2) * a in
    u <= umax /\ x = 1 - 2 * (u / umax * (u / umax)).
Proof. exact tsai_urban_branches. Qed.
Print Assumptions C15_tsai_urban_branches.

(** ** Part 6: IsotropicDistribution through ArrayUtils.hh from_spherical; the generic GenerateCanonical path *)
Theorem C15_isotropic_quantile : forall u1 u2 s, canonical u1 -> canonical u2 ->
  exists v, isotropic (T:=R) (u1 :: u2 :: s) = Some (v, s) /\
    let c := 2 * u1 - 1 in let phi := twopi * u2 in
    (vz v + 1) / 2 = u1 /\ -1 <= vz v < 1 /\ 0 <= phi < twopi /\ phi / twopi = u2 /\
    vx v = R_sqrt.sqrt (1 - c * c) * cos phi /\ vy v = R_sqrt.sqrt (1 - c * c) * sin phi /\ vz v = c /\
    dot v v = 1.
Proof. exact isotropic_quantile. Qed.
Print Assumptions C15_isotropic_quantile.

(** std::generate_canonical<double, 53> as used by GenerateCanonical.hh, exact binary64 arithmetic in Z:
    the result N / 2^64 lies in [0, 1); two words for a 32-bit engine, one for a 64-bit engine *)
Theorem C15_canonical_generic_32 : forall x0 x1 rest, (0 <= x0 < 2 ^ 32)%Z -> (0 <= x1 < 2 ^ 32)%Z ->
  exists N, canonical_generic true 32 (x0 :: x1 :: rest) = Some (N, 64%Z, rest) /\
    (0 <= N < 2 ^ 64)%Z /\
    let s := rnd53 (x0 + x1 * 2 ^ 32) in
    ((s < 2 ^ 64)%Z /\ N = s) \/ (s = (2 ^ 64)%Z /\ N = (2 ^ 64 - 2 ^ 11)%Z).
Proof. exact canonical_generic_32. Qed.
Print Assumptions C15_canonical_generic_32.

Theorem C15_canonical_generic_64 : forall x rest, (0 <= x < 2 ^ 64)%Z ->
  exists N, canonical_generic true 64 (x :: rest) = Some (N, 64%Z, rest) /\
    (0 <= N < 2 ^ 64)%Z /\
    let s := rnd53 (rnd53 x) in
    ((s < 2 ^ 64)%Z /\ N = s) \/ (s = (2 ^ 64)%Z /\ N = (2 ^ 64 - 2 ^ 11)%Z).
Proof. exact canonical_generic_64. Qed.
Print Assumptions C15_canonical_generic_64.

(** without the [ret >= 1] repair of the standard library both engines can return exactly 1.0 *)
Theorem C15_canonical_unclamped_reaches_one :
  canonical_generic false 64 [2 ^ 64 - 1]%Z = Some ((2 ^ 64)%Z, 64%Z, []) /\
  canonical_generic false 32 [2 ^ 32 - 1; 2 ^ 32 - 1]%Z = Some ((2 ^ 64)%Z, 64%Z, []) /\
  canonical_generic true 64 [2 ^ 64 - 1]%Z = Some ((2 ^ 64 - 2 ^ 11)%Z, 64%Z, []) /\
  canonical_generic true 32 [2 ^ 32 - 1; 2 ^ 32 - 1]%Z = Some ((2 ^ 64 - 2 ^ 11)%Z, 64%Z, []).
Proof. exact canonical_unclamped_reaches_one. Qed.
Print Assumptions C15_canonical_unclamped_reaches_one.

(** ** Part 7: support of EnergyLossUrbanDistribution (every branch as coded) and the Delta model *)

(** sample_fast_urban: truncated Gaussian or uniform, always in [0, 2 mean] *)
Theorem C15_fast_urban_support : forall mean sd s x s', 0 <= mean -> Forall canonical s ->
  fast_urban (T:=R) mean sd s = Some (x, s') -> 0 <= x <= 2 * mean /\ suffix_of s s'.
Proof. exact fast_urban_nonneg. Qed.
Print Assumptions C15_fast_urban_support.

(** state-level: scaling * (excitation + ionisation) >= 0 *)
Theorem C15_eloss_urban_nonneg : forall (u : urban_state (T:=R)) s x s',
  0 <= ub_scaling u -> 0 <= ub_be0 u -> 0 <= ub_be1 u -> 1 / 100000 < ub_max_energy u ->
  Forall canonical s -> eloss_urban u s = Some (x, s') -> 0 <= x.
Proof. exact eloss_urban_nonneg. Qed.
Print Assumptions C15_eloss_urban_nonneg.

(** the constructor establishes those facts in each of its branches *)
Theorem C15_urban_construct_state_ok : forall (m : urban_mat (T:=R)) mean Emax tmb bsq,
  0 < Emax -> 0 <= um_be0 m -> 0 <= um_be1 m ->
  let st := fst (urban_construct m mean Emax tmb bsq) in
  1 <= ub_scaling st /\ 0 <= ub_be0 st /\ 0 <= ub_be1 st /\ ub_max_energy st = Emax.
Proof. exact urban_construct_state_ok. Qed.
Print Assumptions C15_urban_construct_state_ok.

(** every parameter set the constructor accepts, every canonical stream: sampled loss >= 0 *)
Theorem C15_eloss_urban_support : forall (m : urban_mat (T:=R)) mean Emax tmb bsq s x s',
  1 / 100000 < Emax -> 0 <= um_be0 m -> 0 <= um_be1 m -> Forall canonical s ->
  eloss_urban (fst (urban_construct m mean Emax tmb bsq)) s = Some (x, s') -> 0 <= x.
Proof. exact eloss_urban_support. Qed.
Print Assumptions C15_eloss_urban_support.

(** EnergyLossDeltaDistribution: the mean loss, no draw *)
Theorem C15_eloss_delta_spec : forall (mean : R) s, eloss_delta (T:=R) mean s = Some (mean, s).
Proof. exact eloss_delta_spec. Qed.
Print Assumptions C15_eloss_delta_spec.
