(** * C06 property theorems — statements only; proofs live in
    C06/NoninterferenceProofs.v and C06/ResetCompleteProofs.v. *)
From Coq Require Import List Bool Arith NArith Permutation String.
From Celer Require Import C06.Noninterference C06.NoninterferenceProofs
  Generated.C06_fields C06.ResetComplete C06.ResetCompleteProofs C06.Example
  C06.Reindex C06.ReindexProofs C06.Reseed C06.ReseedProofs.
Import ListNotations.

(** A kernel launch whose per-slot operations do not observe what the launch
    does to the other launched slots gives the same store for every thread
    order that is a permutation of the same slots (all re-indexing track
    orders, and the identity). *)
Theorem C06_perm_invariance :
  forall (field value slot : Type) (sdec : forall a b : slot, {a = b} + {a <> b})
         (op : slot -> store field value slot -> sstate field value)
         (o1 o2 : list slot) (sigma : store field value slot),
    Permutation o1 o2 -> NoDup o1 -> isolated sdec op o1 ->
    forall i : slot, launch sdec op o1 sigma i = launch sdec op o2 sigma i.
Proof. exact perm_invariance. Qed.
Print Assumptions C06_perm_invariance.

(** Instance for ordinary track kernels (slot i is updated from slot i only). *)
Theorem C06_kernel_perm_invariance :
  forall (field value slot : Type) (sdec : forall a b : slot, {a = b} + {a <> b})
         (k : sstate field value -> sstate field value) (o1 o2 : list slot)
         (sigma : store field value slot),
    Permutation o1 o2 -> NoDup o1 ->
    forall i : slot, launch sdec (own_slot k) o1 sigma i = launch sdec (own_slot k) o2 sigma i.
Proof. exact kernel_perm_invariance. Qed.
Print Assumptions C06_kernel_perm_invariance.

(** A whole sequence of kernels, each launched in its own order (the order may
    be re-sorted between kernels), is the slot-wise composition. *)
Theorem C06_kernels_slotwise :
  forall (field value slot : Type) (sdec : forall a b : slot, {a = b} + {a <> b})
         (ks : list ((sstate field value -> sstate field value) * list slot))
         (all : list slot) (sigma : store field value slot),
    NoDup all ->
    (forall k o, In (k, o) ks -> Permutation all o) ->
    forall i : slot, In i all ->
      fold_left (fun sg ko => launch sdec (own_slot (fst ko)) (snd ko) sg) ks sigma i
      = fold_left (fun s ko => fst ko s) ks (sigma i).
Proof. exact kernels_slotwise. Qed.
Print Assumptions C06_kernels_slotwise.

(** Pure observers (action timing, the status checker while it does not
    throw) do not change the transported state. *)
Theorem C06_observer_invariance :
  forall (S A : Type) (l : list (ostep S A)) (x : S) (a : A),
    fst (run_osteps l (x, a)) = fold_left (fun x0 f => f x0) (core_only l) x.
Proof. exact observer_invariance. Qed.
Print Assumptions C06_observer_invariance.

(** History independence: two states that are related (same host data; every
    slot agrees on [Persist] = generator state and status; live slots agree on
    [Persist ++ Reset]) stay related, whatever else the slots contain, if the
    step obeys the written-before-read discipline ([check]) and only switches
    a slot on by overwriting [Reset] ([phases_ok]). *)
Theorem C06_history_independence :
  forall (field value slot G : Type) (fdec : forall a b : field, {a = b} + {a <> b})
         (status : field) (is_live : value -> bool) (Persist Reset : list field),
    In status Persist ->
    forall (I : Type) (step : I -> list (phase field value slot G)),
      (forall i : I, phases_ok status is_live Reset (step i)
                     /\ check fdec status Persist Reset (C0 Persist Reset) (step i) = true) ->
      forall (ins : list I) (x y : sys field value slot G),
        rel status is_live Persist (C0 Persist Reset) x y ->
        rel status is_live Persist (C0 Persist Reset)
            (run_steps fdec status is_live Persist step ins x)
            (run_steps fdec status is_live Persist step ins y).
Proof. exact history_independence. Qed.
Print Assumptions C06_history_independence.

(** ... hence equal host data (counters = StepperResult, recorded step
    stream) after every step. *)
Theorem C06_step_records_equal :
  forall (field value slot G : Type) (fdec : forall a b : field, {a = b} + {a <> b})
         (status : field) (is_live : value -> bool) (Persist Reset : list field),
    In status Persist ->
    forall (I : Type) (step : I -> list (phase field value slot G)),
      (forall i : I, phases_ok status is_live Reset (step i)
                     /\ check fdec status Persist Reset (C0 Persist Reset) (step i) = true) ->
      forall (ins : list I) (x y : sys field value slot G),
        rel status is_live Persist (C0 Persist Reset) x y ->
        trace fdec status is_live Persist step ins x = trace fdec status is_live Persist step ins y.
Proof. exact step_records_equal. Qed.
Print Assumptions C06_step_records_equal.

(** Reseeding establishes the relation between two states that agree on the
    host data and whose slots are all inactive (end of a completed event). *)
Theorem C06_reseed_establishes_relation :
  forall (field value slot G : Type) (fdec : forall a b : field, {a = b} + {a <> b})
         (status : field) (is_live : value -> bool) (Persist Reset : list field)
         (E : Type) (rng_fields : list field) (seed_of : E -> slot -> field -> value)
         (greseed : E -> G -> G),
    (forall f : field, In f Persist -> f = status \/ In f rng_fields) ->
    ~ In status rng_fields ->
    forall (e : E) (x y : sys field value slot G),
      glob x = glob y ->
      (forall i : slot, live status is_live (slots x i) = false
                        /\ slots x i status = slots y i status) ->
      rel status is_live Persist (C0 Persist Reset)
          (reseed fdec rng_fields seed_of greseed e x) (reseed fdec rng_fields seed_of greseed e y).
Proof. exact reseed_rel. Qed.
Print Assumptions C06_reseed_establishes_relation.

(** After CoreState::reset + reseed the event's step records do not depend on
    the previous state at all (aborted event, any number of earlier events). *)
Theorem C06_event_independent_of_history :
  forall (field value slot G : Type) (fdec : forall a b : field, {a = b} + {a <> b})
         (status : field) (is_live : value -> bool) (Persist Reset : list field),
    In status Persist ->
    forall (I : Type) (step : I -> list (phase field value slot G)),
      (forall i : I, phases_ok status is_live Reset (step i)
                     /\ check fdec status Persist Reset (C0 Persist Reset) (step i) = true) ->
      forall (E : Type) (rng_fields : list field) (seed_of : E -> slot -> field -> value)
             (greseed : E -> G -> G) (greset : G -> G) (inactive : value),
        (forall f : field, In f Persist -> f = status \/ In f rng_fields) ->
        ~ In status rng_fields ->
        (forall g g' : G, greset g = greset g') ->
        is_live inactive = false ->
        forall (e : E) (ins : list I) (x y : sys field value slot G),
          trace fdec status is_live Persist step ins
                (reseed fdec rng_fields seed_of greseed e (core_reset fdec status greset inactive x))
          = trace fdec status is_live Persist step ins
                  (reseed fdec rng_fields seed_of greseed e (core_reset fdec status greset inactive y)).
Proof. exact event_independent_of_history. Qed.
Print Assumptions C06_event_independent_of_history.

(** Actions built from a read set, a write set and a body that only sees the
    restriction to the read set satisfy [action_ok]. *)
Theorem C06_mk_action_ok :
  forall (field value : Type) (fdec : forall a b : field, {a = b} + {a <> b})
         (rs ws : list field) (dflt : value) (body : sstate field value -> field -> value),
    action_ok (mk_action fdec rs ws dflt body).
Proof. exact mk_action_ok. Qed.
Print Assumptions C06_mk_action_ok.

(** The hypotheses are satisfiable and necessary (concrete instance). *)
Theorem C06_hypotheses_satisfiable :
  (forall i, phases_ok Status is_live Example.Reset (step false i)
             /\ check fld_dec Status Example.Persist Example.Reset
                      (C0 Example.Persist Example.Reset) (step false i) = true)
  /\ rel Status is_live Example.Persist (C0 Example.Persist Example.Reset) fresh used
  /\ trace fld_dec Status is_live Example.Persist (step true) [tt; tt] fresh
     <> trace fld_dec Status is_live Example.Persist (step true) [tt; tt] used.
Proof. exact (conj step_ok (conj fresh_used_rel stale_read_depends_on_history)). Qed.
Print Assumptions C06_hypotheses_satisfiable.

(** ** Generated obligations (field lists from the current sources) *)

(** every source shape the translator relies on was recognised *)
Theorem C06_shapes_all_ok : forallb snd shape_checks = true.
Proof. exact shapes_all_ok. Qed.
Print Assumptions C06_shapes_all_ok.

(** every per-stream state field is overwritten by both track-initialisation
    paths, or by reseed, or is a host counter restored by CoreState::reset, or
    is on the hand-justified temporary / constant / permutation lists *)
Theorem C06_reset_complete :
  forallb (fun f => mem f (inter init_primary_writes init_secondary_writes)
                    || mem f reseed_writes || mem f glob_fields
                    || mem f temp_ok || mem f const_ok || mem f perm_ok)
          all_state_fields = true.
Proof. exact reset_complete. Qed.
Print Assumptions C06_reset_complete.

Theorem C06_hand_lists_current :
  (subset temp_ok all_state_fields && subset const_ok all_state_fields
   && subset perm_ok all_state_fields && subset glob_fields all_state_fields
   && subset persist_fields all_state_fields) = true.
Proof. exact hand_lists_current. Qed.
Print Assumptions C06_hand_lists_current.

(** the model's [Persist] fields: generator state and the event's track
    counter are reseeded; the status is initialised and reset *)
Theorem C06_persist_established :
  (mem ("rng.state", "xorstate")%string reseed_writes && mem ("rng.state", "weylstate")%string reseed_writes
   && mem ("init", "track_counters")%string reseed_writes
   && mem ("sim", "status")%string (inter init_primary_writes init_secondary_writes)
   && mem ("sim", "status")%string state_reset_writes) = true.
Proof. exact persist_established. Qed.
Print Assumptions C06_persist_established.

Theorem C06_state_reset_covers_glob :
  (subset glob_fields state_reset_writes && mem ("init", "vacancies")%string state_reset_writes) = true.
Proof. exact state_reset_covers_glob. Qed.
Print Assumptions C06_state_reset_covers_glob.

Theorem C06_inplace_covers :
  forallb (fun f => mem f inplace_writes
                    || String.eqb (fst f) "geometry" || String.eqb (fst f) "materials.state")
          (inter init_primary_writes init_secondary_writes) = true.
Proof. exact inplace_covers. Qed.
Print Assumptions C06_inplace_covers.

(** every explicit TrackSlotId construction outside CoreTrackView's
    thread->slot map is in the reviewed list (hypothesis [isolated] of
    [perm_invariance]) with an unchanged number of occurrences *)
Theorem C06_slot_discipline :
  (forallb (fun fc => existsb (fun r => String.eqb (fst (fst r)) (fst fc) && String.eqb (snd (fst r)) (snd fc)) slot_ctor_reviewed)
           slot_ctor_files
   && forallb (fun r => existsb (fun fc => String.eqb (fst (fst r)) (fst fc)) slot_ctor_files) slot_ctor_reviewed) = true.
Proof. exact slot_discipline. Qed.
Print Assumptions C06_slot_discipline.

(** the per-step temporaries that the errored path still reads (tracking cut
    adds to energy_deposition; LocateAlive reads secondaries) are cleared by
    PreStepExecutor on every path a non-inactive track can take *)
Theorem C06_errored_path_clean :
  (forallb (fun f => mem f (inter init_primary_writes init_secondary_writes) || mem f prestep_clears) errored_path_reads
   && subset prestep_cleared_temps prestep_clears
   && subset prestep_cleared_temps temp_ok) = true.
Proof. exact errored_path_clean. Qed.
Print Assumptions C06_errored_path_clean.

(** ** The re-indexing machinery itself (coq/C06/Reindex.v: fill_sequence,
    shuffle_track_slots, sort_tracks, count_tracks_per_action,
    backfill_action_count, get_action_range, TrackExecutor, launches) *)

(** (a) after ANY sequence of re-indexing operations (fill, shuffle, sort /
    partition under any order and any state contents) track_slots is a
    permutation of 0..n-1 *)
Theorem C06_reindex_perm :
  forall shuf : nat -> list nat, shuf_ok shuf ->
  forall (ops : list reindex_op) (n : nat) (l : list nat),
    reindex_steps shuf ops (fill_track_slots n) l ->
    Permutation (seq 0 n) l /\ NoDup l /\ List.length l = n.
Proof. exact reindex_perm. Qed.
Print Assumptions C06_reindex_perm.

(** the specification of std::sort is satisfiable (insertion sort) *)
Theorem C06_sort_spec_inhabited :
  forall (key : nat -> aid) (l : list nat), sorted_perm key l (sort_by key l).
Proof. exact sort_by_spec. Qed.
Print Assumptions C06_sort_spec_inhabited.

(** (b) count_tracks_per_action + backfill_action_count on sorted thread keys
    succeed and produce exactly the closed-form table [offset_spec] ... *)
Theorem C06_count_offsets :
  forall (act : list aid) (ts : list nat) (A : nat),
    let ks := thread_keys act ts in
    ts <> [] -> 1 <= A -> sortedb ks = true -> valid_below A ks ->
    exists offs, count_tracks_per_action act ts (S A) = Some offs
                 /\ List.length offs = S A
                 /\ forall a, a <= A -> nth a offs None = Some (offset_spec ks a).
Proof. exact count_offsets. Qed.
Print Assumptions C06_count_offsets.

(** ... which is the prefix sum of the per-action counts when every thread has
    a valid action id *)
Theorem C06_offsets_are_prefix_sums :
  forall (ks : list aid) (a : nat),
    (forall k, In k ks -> k <> None) ->
    offset_spec ks a = prefix_sum (fun b => count_eq b ks) a.
Proof. exact offsets_are_prefix_sums. Qed.
Print Assumptions C06_offsets_are_prefix_sums.

(** the launch ranges are consecutive (hence pairwise disjoint) intervals ... *)
Theorem C06_offsets_monotone :
  forall (ks : list aid) (a : nat), offset_spec ks a <= offset_spec ks (S a).
Proof. exact offsets_monotone. Qed.
Print Assumptions C06_offsets_monotone.

(** ... every thread whose action is [a] lies in the range of [a] ... *)
Theorem C06_action_in_range :
  forall (ks : list aid) (a t : nat),
    sortedb ks = true -> t < List.length ks -> nth t ks None = Some a ->
    offset_spec ks a <= t < offset_spec ks (S a).
Proof. exact action_in_range. Qed.
Print Assumptions C06_action_in_range.

(** ... and a range holds only threads of its action or threads with an INVALID
    action id *)
Theorem C06_range_only_action :
  forall (ks : list aid) (a t : nat),
    sortedb ks = true -> offset_spec ks a <= t < offset_spec ks (S a) ->
    t < List.length ks /\ (nth t ks None = Some a \/ nth t ks None = None).
Proof. exact range_only_action. Qed.
Print Assumptions C06_range_only_action.

(** the ranges are NOT exactly "the threads of the action": slots with an
    invalid action id trail in the range of the last action present (harmless:
    the executor's IsStepActionEqual guard skips them, next theorem) *)
Theorem C06_exact_ranges_refuted :
  exists act ts A offs a t,
    sortedb (thread_keys act ts) = true /\ valid_below A (thread_keys act ts) /\
    count_tracks_per_action act ts (S A) = Some offs /\
    get_action_range offs a = Some (0, 2) /\ t = 1 /\
    nth t (thread_keys act ts) None <> Some a.
Proof. exact exact_ranges_refuted. Qed.
Print Assumptions C06_exact_ranges_refuted.

(** (b)+(c) the action-range launch of a kernel guarded by IsStepActionEqual{a}
    visits every slot whose action is [a] exactly once and equals the launch
    over all threads in the plain (TrackOrder::none) order *)
Theorem C06_action_range_launch :
  forall (field value : Type) (action_of : sstate field value -> aid)
         (k : sstate field value -> sstate field value)
         (sigma : store field value nat) (ts : list nat) (n A : nat)
         (offs : list (option nat)) (a : nat),
    let ks := store_keys action_of sigma ts in
    let ck := cond_kernel (is_action_equal action_of a) k in
    0 < n -> Permutation (seq 0 n) ts -> sortedb ks = true ->
    List.length offs = S A -> (forall b, b <= A -> nth b offs None = Some (offset_spec ks b)) ->
    a < A ->
    exists st, launch_action_range ck ts offs a sigma = Some st
      /\ NoDup (range_slots ts (offset_spec ks a) (offset_spec ks (S a)))
      /\ (forall s, s < n -> action_of (sigma s) = Some a ->
                    In s (range_slots ts (offset_spec ks a) (offset_spec ks (S a))))
      /\ forall i, st i = launch_core ck [] n sigma i.
Proof. exact action_range_launch. Qed.
Print Assumptions C06_action_range_launch.

(** (c) the host launch over all threads is independent of the order policy *)
Theorem C06_launch_order_independent :
  forall (field value : Type) (shuf : nat -> list nat), shuf_ok shuf ->
  forall (ops : list reindex_op) (n : nat) (ts : list nat)
         (k : sstate field value -> sstate field value) (sigma : store field value nat) (i : nat),
    0 < n -> reindex_steps shuf ops (fill_track_slots n) ts ->
    launch_core k ts n sigma i = launch_core k [] n sigma i.
Proof. exact launch_order_independent. Qed.
Print Assumptions C06_launch_order_independent.

(** end to end: any re-indexing history, then SortTracksAction (sort by the
    action id, count, back-fill), then the launch of action [a] by range or over
    all threads: all equal the plain-order launch *)
Theorem C06_sorted_action_launch :
  forall (field value : Type) (shuf : nat -> list nat), shuf_ok shuf ->
  forall (ops : list reindex_op) (n : nat) (ts0 ts : list nat) (A : nat)
         (action_of : sstate field value -> aid) (k : sstate field value -> sstate field value)
         (sigma : store field value nat) (a : nat),
    0 < n -> 1 <= A -> a < A ->
    reindex_steps shuf ops (fill_track_slots n) ts0 ->
    sorted_perm (fun s => action_of (sigma s)) ts0 ts ->
    (forall s b, s < n -> action_of (sigma s) = Some b -> b < A) ->
    let act := map (fun s => action_of (sigma s)) (seq 0 n) in
    let ck := cond_kernel (is_action_equal action_of a) k in
    exists offs st,
      count_tracks_per_action act ts (S A) = Some offs
      /\ launch_action_range ck ts offs a sigma = Some st
      /\ (forall i, st i = launch_core ck [] n sigma i)
      /\ (forall i, launch_core ck ts n sigma i = launch_core ck [] n sigma i).
Proof. exact sorted_action_launch. Qed.
Print Assumptions C06_sorted_action_launch.

(** non-vacuity: a concrete run fill -> shuffle -> partition by status -> sort by
    along-step action, its offsets table and its launch *)
Theorem C06_reindex_examples :
  reindex_steps ex_shuf [OpShuffle; OpSort reindex_status ex_state; OpSort reindex_along_step_action ex_state]
                (fill_track_slots 5) [2; 4; 0; 3; 1]
  /\ shuf_ok ex_shuf
  /\ count_tracks_per_action (st_along ex_state) [2; 4; 0; 3; 1] 4 = Some [Some 0; Some 1; Some 1; Some 5].
Proof. exact (conj ex_reindex_steps (conj ex_shuf_ok (proj1 ex_count))). Qed.
Print Assumptions C06_reindex_examples.

(** ** reseed_rng (coq/C06/Reseed.v): the generators after reseeding are a
    function of (seed, event, slot count) only -- the stream id of the state that
    transports the event is not an input *)
Theorem C06_reseed_independent_of_stream :
  forall seed size event s1 s2 : N,
    reseed_rng seed size s1 event = reseed_rng seed size s2 event.
Proof. exact reseed_independent_of_stream. Qed.
Print Assumptions C06_reseed_independent_of_stream.

Theorem C06_reseed_covers_all_slots :
  forall seed size stream event : N,
    List.length (reseed_rng seed size stream event) = N.to_nat size.
Proof. exact reseed_covers_all_slots. Qed.
Print Assumptions C06_reseed_covers_all_slots.

(** distinct (event, slot) pairs get distinct subsequences while the 64-bit
    product does not wrap *)
Theorem C06_reseed_subsequences_distinct :
  forall seed size stream e1 e2 i1 i2 : N,
    (i1 < size)%N -> (i2 < size)%N ->
    ((e1 + 1) * size <= ull_max)%N -> ((e2 + 1) * size <= ull_max)%N ->
    ri_subsequence (reseed_init seed size stream e1 i1) = ri_subsequence (reseed_init seed size stream e2 i2) ->
    e1 = e2 /\ i1 = i2.
Proof. exact reseed_subsequences_distinct. Qed.
Print Assumptions C06_reseed_subsequences_distinct.
