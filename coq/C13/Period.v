(** * C13: full period of the xorshift part.

    Generic part: if [p] annihilates [T], [T^M = id], [M] is the product of the
    primes [qs] and for every prime [q] the element [z^(M/q) - 1] is invertible
    modulo [p] (Bezout certificate), then no non-zero vector has a period
    shorter than [M].  Primality of the factors is established by trial
    division running on primitive 63-bit integers. *)
From Coq Require Import NArith ZArith PeanoNat List Bool Lia Uint63.
From Celer Require Import C13.Gf2.
Import ListNotations.
Local Open Scope N_scope.

(** ** number theory over N *)
Definition isprime (q : N) : Prop := 1 < q /\ forall d, (d | q) -> d = 1 \/ d = q.
Definition prod (l : list N) : N := fold_right N.mul 1 l.

Lemma walk_ex qs : forall c, (c | prod qs) -> c <> 1 -> exists q, In q qs /\ N.gcd c q <> 1.
Proof.
  induction qs as [|q r IH]; intros c Hd Hc; cbn [prod fold_right] in Hd.
  - exfalso. apply Hc. apply N.divide_1_r, Hd.
  - destruct (N.eq_dec (N.gcd c q) 1) as [Hg|Hg].
    + destruct (IH c (N.gauss _ _ _ Hd Hg) Hc) as [q' [Hin Hq']].
      exists q'. split; [right; exact Hin|exact Hq'].
    + exists q. split; [left; reflexivity|exact Hg].
Qed.

Lemma prod_pos qs : (forall q, In q qs -> isprime q) -> 0 < prod qs.
Proof.
  induction qs as [|q r IH]; intro H; cbn [prod fold_right]; [lia|].
  assert (1 < q) by (apply H; left; reflexivity).
  assert (0 < prod r) by (apply IH; intros q' Hq'; apply H; right; exact Hq').
  unfold prod in *. nia.
Qed.

Lemma proper_divisor_prime qs : (forall q, In q qs -> isprime q) ->
  forall G, (G | prod qs) -> G <> prod qs -> exists q, In q qs /\ (G | prod qs / q).
Proof.
  intros Hp G [c Hc] Hne.
  pose proof (prod_pos qs Hp) as Hpos.
  assert (Hc1 : c <> 1) by (intro; subst c; apply Hne; lia).
  assert (Hcd : (c | prod qs)) by (exists G; lia).
  destruct (walk_ex qs c Hcd Hc1) as [q [Hin Hg]].
  destruct (Hp q Hin) as [Hq1 Hqd].
  destruct (Hqd (N.gcd c q) (N.gcd_divide_r c q)) as [H1|Hq]; [contradiction|].
  pose proof (N.gcd_divide_l c q) as Hdiv. rewrite Hq in Hdiv. destruct Hdiv as [c' Hc'].
  exists q. split; [exact Hin|].
  exists c'. rewrite Hc, Hc'.
  replace (c' * q * G) with (c' * G * q) by lia. apply N.div_mul. lia.
Qed.

(** ** trial division on primitive integers *)
Definition td_step (q : int) (st : int * bool) : int * bool :=
  let (i, ok) := st in ((i + 1)%uint63, ok && negb (q mod i =? 0)%uint63).
Definition td (q : int) (n : positive) : int * bool := Pos.iter (td_step q) (2%uint63, true) n.

Lemma td_spec q n : (2 + Z.pos n < wB)%Z ->
  to_Z (fst (td q n)) = (2 + Z.pos n)%Z /\
  (snd (td q n) = true -> forall m, (2 <= m < 2 + Z.pos n)%Z -> (to_Z q mod m <> 0)%Z).
Proof.
  unfold td. induction n as [|n IH] using Pos.peano_ind; intro Hb.
  - cbn [Pos.iter td_step fst snd]. split.
    + rewrite add_spec. change (to_Z 2) with 2%Z. change (to_Z 1) with 1%Z. rewrite Z.mod_small; lia.
    + intros Hok m Hm. assert (m = 2%Z) by lia. subst m.
      rewrite andb_true_l in Hok. apply negb_true_iff in Hok.
      intro Hz. apply eqb_false_spec in Hok. apply Hok. apply to_Z_inj.
      rewrite mod_spec. change (to_Z 2) with 2%Z. change (to_Z 0) with 0%Z. exact Hz.
  - rewrite Pos.iter_succ. rewrite Pos2Z.inj_succ in *.
    destruct IH as [IHi IHok]; [lia|].
    destruct (Pos.iter (td_step q) (2%uint63, true) n) as [i ok]. cbn [fst snd td_step] in *.
    split.
    + rewrite add_spec, IHi. change (to_Z 1) with 1%Z. rewrite Z.mod_small; lia.
    + intros Hok m Hm. apply andb_prop in Hok. destruct Hok as [Hok1 Hok2].
      destruct (Z.eq_dec m (2 + Z.pos n)) as [->|Hne].
      * apply negb_true_iff in Hok2. intro Hz. apply eqb_false_spec in Hok2. apply Hok2. apply to_Z_inj.
        rewrite mod_spec, IHi. change (to_Z 0) with 0%Z. exact Hz.
      * apply (IHok Hok1). lia.
Qed.

Definition prime_check (q : N) (qi : int) (n : positive) : bool :=
  (Z.of_N q =? to_Z qi)%Z && (2 + Z.pos n <? wB)%Z && (1 <? q) && (q <? (1 + Npos n) * (1 + Npos n))
  && snd (td qi n).

Lemma prime_check_sound q qi n : prime_check q qi n = true -> isprime q.
Proof.
  unfold prime_check. intro H.
  repeat (apply andb_prop in H; destruct H as [H ?]).
  apply Z.eqb_eq in H. match goal with E : (_ <? wB)%Z = true |- _ => apply Z.ltb_lt in E end.
  repeat match goal with E : (_ <? _) = true |- _ => apply N.ltb_lt in E end.
  match goal with E : (2 + Z.pos n < wB)%Z |- _ => destruct (td_spec qi n E) as [_ Htd] end.
  match goal with E : snd (td qi n) = true |- _ => specialize (Htd E) end.
  split; [assumption|]. intros d [c Hc].
  destruct (N.eq_dec d 1) as [|Hd1]; [left; assumption|].
  destruct (N.eq_dec c 1) as [->|Hc1]; [right; lia|]. exfalso.
  assert (c <> 0 /\ d <> 0) as [Hc0 Hd0] by (split; intro; subst; lia).
  set (m := N.min c d).
  assert (Hm2 : 2 <= m) by (unfold m; lia).
  assert (Hmm : m * m <= q) by (unfold m; nia).
  assert (Hmn : m < 2 + Npos n) by nia.
  assert (Hdiv : (Z.of_N q mod Z.of_N m = 0)%Z).
  { unfold m. destruct (N.min_spec c d) as [[_ ->]|[_ ->]]; rewrite Hc, N2Z.inj_mul.
    - rewrite Z.mul_comm. apply Z.mod_mul. lia.
    - apply Z.mod_mul. lia. }
  rewrite H in Hdiv. apply (Htd (Z.of_N m)); [lia|exact Hdiv].
Qed.

(** ** period theory over a [LinSpace] *)
Section Per.
  Variable L : LinSpace.
  Local Notation V := (ls_V L).
  Local Notation vx := (ls_vx L).
  Local Notation v0 := (ls_v0 L).
  Local Notation T := (ls_T L).
  Local Notation wf := (ls_wf L).
  Variable p : poly.
  Hypothesis ann : forall x, wf x -> peval L p x = v0.

  Lemma fix_mul a x : N.iter a T x = x -> forall k, N.iter (k * a) T x = x.
  Proof.
    intros H k. induction k as [|k IH] using N.peano_ind; [reflexivity|].
    replace (N.succ k * a) with (a + k * a) by lia. rewrite N.iter_add, IH. exact H.
  Qed.

  Lemma fix_gcd a b x : N.iter a T x = x -> N.iter b T x = x -> N.iter (N.gcd a b) T x = x.
  Proof.
    intros Ha Hb.
    destruct (N.gcd_bezout a b) as [[u [v H]]|[u [v H]]].
    - rewrite <- (fix_mul a x Ha u) at 2. rewrite H, N.iter_add, (fix_mul b x Hb v). reflexivity.
    - rewrite <- (fix_mul b x Hb u) at 2. rewrite H, N.iter_add, (fix_mul a x Ha v). reflexivity.
  Qed.

  (** [u (h + 1) + v p = 1] *)
  Definition unit_ok (h u v : poly) : bool :=
    pzero (padd (padd (pmul u (padd h [true])) (pmul v p)) [true]).

  Lemma peval_one x : peval L [true] x = x.
  Proof. cbn [peval sel]. apply (ls_0_r L). Qed.

  Lemma unit_sound h u v e x :
    unit_ok h u v = true -> (forall y, wf y -> peval L h y = N.iter e T y) ->
    wf x -> N.iter e T x = x -> x = v0.
  Proof.
    intros Hok Hh Hx Hfix. unfold unit_ok in Hok.
    pose proof (peval_pzero L _ Hok x) as H0.
    rewrite !(peval_padd L), !(peval_pmul L), (peval_padd L), (ann x Hx), (Hh x Hx), Hfix, !peval_one in H0.
    rewrite (ls_nilp L), !(peval_0 L), (ls_nilp L), (vx_0_l L) in H0. exact H0.
  Qed.

  Variable qs : list N.
  Variable M : N.
  Hypothesis HM : prod qs = M.
  Hypothesis Hprime : forall q, In q qs -> isprime q.
  Hypothesis Hfull : forall x, wf x -> N.iter M T x = x.
  Hypothesis Hunit : forall q, In q qs -> exists h u v,
    unit_ok h u v = true /\ forall y, wf y -> peval L h y = N.iter (M / q) T y.

  Theorem no_short_period x d : wf x -> x <> v0 -> 0 < d < M -> N.iter d T x <> x.
  Proof.
    intros Hx Hnz [Hd0 HdM] Hfix.
    pose proof (fix_gcd d M x Hfix (Hfull x Hx)) as HG.
    set (G := N.gcd d M) in *.
    assert (HGd : G <= d) by (apply N.divide_pos_le; [exact Hd0|apply N.gcd_divide_l]).
    assert (HGM : (G | prod qs)) by (rewrite HM; apply N.gcd_divide_r).
    destruct (proper_divisor_prime qs Hprime G HGM ltac:(rewrite HM; lia)) as [q [Hin [k Hk]]].
    destruct (Hunit q Hin) as [h [u [v [Hok Hh]]]].
    apply Hnz. apply (unit_sound h u v _ x Hok Hh Hx).
    rewrite <- HM, Hk. apply fix_mul, HG.
  Qed.

  Corollary orbit_injective x a b : wf x -> x <> v0 -> a < b -> b < M ->
    N.iter a T x <> N.iter b T x.
  Proof.
    intros Hx Hnz Hab Hb Heq.
    apply (no_short_period x (b - a) Hx Hnz); [lia|].
    assert (H : N.iter (M - a) T (N.iter a T x) = N.iter (M - a) T (N.iter b T x)) by (rewrite Heq; reflexivity).
    rewrite <- !N.iter_add in H.
    replace (M - a + a) with M in H by lia.
    replace (M - a + b) with ((b - a) + M) in H by lia.
    rewrite N.iter_add, !(Hfull x Hx) in H. symmetry. exact H.
  Qed.
End Per.
