(** * C13: the xorshift part of XORWOW has period exactly [2^160 - 1] on every
    non-zero state: certificates from [Generated/C13_period.v] checked here. *)
From Coq Require Import NArith ZArith PeanoNat List Bool Lia Uint63.
From Celer Require Import Generated.C13_tables Generated.C13_period C13.Xorwow C13.Gf2 C13.XorwowProofs C13.Period.
Import ListNotations.
Local Open Scope N_scope.

Definition Mper : N := 2 ^ 160 - 1.

(** prime factorisation of [2^160 - 1], with multiplicity *)
Definition qs_mult : list N :=
  [3; 5; 5; 11; 17; 31; 41; 257; 61681; 65537; 414721; 4278255361; 44479210368001].

Lemma qs_prod : prod qs_mult = Mper.
Proof. vm_compute. reflexivity. Qed.

Definition prime_check' (q : N) : bool :=
  prime_check q (of_Z (Z.of_N q)) (match N.sqrt q with Npos s => s | N0 => 1%positive end).

Lemma qs_prime_check : forallb prime_check' qs_mult = true.
Proof. vm_cast_no_check (eq_refl true). Qed.

Lemma qs_prime : forall q, In q qs_mult -> isprime q.
Proof.
  intros q Hin. pose proof (proj1 (forallb_forall _ _) qs_prime_check q Hin) as H.
  exact (prime_check_sound _ _ _ H).
Qed.

(** ** [z^(2^160-1) = 1 mod p] *)
Definition steps_of (bits : list bool) (chain : list (N * N)) : list (bool * poly * poly) :=
  map (fun bc => (fst bc, poly_of_N (fst (snd bc)), poly_of_N (snd (snd bc)))) (combine bits chain).

Lemma steps_of_bits bits : forall chain, length bits = length chain ->
  map (fun s => fst (fst s)) (steps_of bits chain) = bits.
Proof.
  unfold steps_of. induction bits as [|b r IH]; intros [|c cs] Hl; cbn in *; try discriminate; try reflexivity.
  f_equal. apply IH. lia.
Qed.

(** a certified power of z: [Some h] with [h(T) = T^e] *)
Definition zpow (bits : list bool) (chain : list (N * N)) : option poly :=
  if (length bits =? length chain)%nat then run_chain the_p pz1 (steps_of bits chain) else None.

Lemma zpow_sound bits chain h : zpow bits chain = Some h ->
  forall x, wfx x -> pev h x = N.iter (chain_exp 1 bits) next x.
Proof.
  unfold zpow. destruct (Nat.eqb_spec (length bits) (length chain)) as [Hl|]; [|discriminate].
  intros Hrun x Hx.
  pose proof (run_chain_sound XL the_p charpoly_annihilates _ _ 1 _ Hrun (fun y _ => pev_z y) x Hx) as H.
  rewrite (steps_of_bits bits chain Hl) in H. exact H.
Qed.

Definition full_bits : list bool := repeat true 159.

Definition full_check_gen (bits : list bool) (chain : list (N * N)) : bool :=
  (chain_exp 1 bits =? Mper)
  && match zpow bits chain with Some g => pzero (padd g [true]) | None => false end.

Lemma full_check_sound bits chain : full_check_gen bits chain = true ->
  forall x, wfx x -> N.iter Mper next x = x.
Proof.
  unfold full_check_gen. intros H x Hx.
  apply andb_prop in H. destruct H as [He Hz]. apply N.eqb_eq in He.
  destruct (zpow bits chain) as [g|] eqn:Hg; [|discriminate].
  rewrite <- He, <- (zpow_sound _ _ _ Hg x Hx).
  rewrite (pev_eq_of_pzero _ _ Hz x). apply (peval_one XL).
Qed.

Lemma full_check_ok : full_check_gen full_bits cert_full_chain = true.
Proof. vm_cast_no_check (eq_refl true). Qed.

Lemma full_period x : wfx x -> N.iter Mper next x = x.
Proof. exact (full_check_sound _ _ full_check_ok x). Qed.

(** ** per prime: [z^(M/q) - 1] is a unit modulo [p] *)
Definition cert_q (c : N * list bool * list (N * N) * N * N) : N := fst (fst (fst (fst c))).

Definition prime_cert_ok (c : N * list bool * list (N * N) * N * N) : bool :=
  let '(q, bits, chain, u, v) := c in
  (chain_exp 1 bits =? Mper / q)
  && match zpow bits chain with
     | Some h => unit_ok the_p h (poly_of_N u) (poly_of_N v)
     | None => false
     end.

Lemma prime_cert_sound c : prime_cert_ok c = true ->
  exists h u v, unit_ok the_p h u v = true /\ forall y, wfx y -> pev h y = N.iter (Mper / cert_q c) next y.
Proof.
  destruct c as [[[[q bits] chain] u] v]. cbn [prime_cert_ok cert_q fst]. intro H.
  apply andb_prop in H. destruct H as [He Hz]. apply N.eqb_eq in He.
  destruct (zpow bits chain) as [h|] eqn:Hh; [|discriminate].
  exists h, (poly_of_N u), (poly_of_N v). split; [exact Hz|].
  intros y Hy. rewrite <- He. apply (zpow_sound _ _ _ Hh y Hy).
Qed.

Definition primes_check_gen (certs : list (N * list bool * list (N * N) * N * N)) (qs : list N) : bool :=
  forallb (fun q => existsb (fun c => if cert_q c =? q then prime_cert_ok c else false) certs) qs.

Lemma primes_check_sound certs qs : primes_check_gen certs qs = true ->
  forall q, In q qs -> exists h u v,
    unit_ok the_p h u v = true /\ forall y, wfx y -> pev h y = N.iter (Mper / q) next y.
Proof.
  unfold primes_check_gen. intros Hall q Hin.
  pose proof (proj1 (forallb_forall _ _) Hall q Hin) as H.
  apply existsb_exists in H. destruct H as [c [_ Hc]].
  destruct (N.eqb_spec (cert_q c) q) as [Hq|]; [|discriminate].
  rewrite <- Hq. apply prime_cert_sound, Hc.
Qed.

Lemma primes_check_ok : primes_check_gen cert_primes qs_mult = true.
Proof. vm_cast_no_check (eq_refl true). Qed.

Lemma qs_unit : forall q, In q qs_mult -> exists h u v,
  unit_ok the_p h u v = true /\ forall y, wfx y -> pev h y = N.iter (Mper / q) next y.
Proof. exact (primes_check_sound _ _ primes_check_ok). Qed.

(** ** the theorems *)
Theorem period_full : forall x, wfx x -> x <> xzero ->
  N.iter Mper next x = x /\ forall d, 0 < d < Mper -> N.iter d next x <> x.
Proof.
  intros x Hx Hnz. split; [apply full_period, Hx|].
  intros d Hd.
  exact (no_short_period XL the_p charpoly_annihilates qs_mult Mper qs_prod qs_prime full_period qs_unit x d Hx Hnz Hd).
Qed.

Theorem orbit_distinct : forall x a b, wfx x -> x <> xzero -> a < b -> b < Mper ->
  N.iter a next x <> N.iter b next x.
Proof.
  intros x a b Hx Hnz Hab Hb.
  exact (orbit_injective XL the_p charpoly_annihilates qs_mult Mper qs_prod qs_prime full_period qs_unit x a b Hx Hnz Hab Hb).
Qed.
