(** * C13 — [discard] and [discard_subsequence] commute, and the reseeded
    streams stay disjoint under arbitrary sequences of [discard]s whose total
    is shorter than one subsequence (2^67). *)
From Coq Require Import NArith List Lia.
From Celer Require Import Generated.C13_tables C13.Xorwow C13.Gf2 C13.XorwowProofs C13.InitProofs.
Import ListNotations.
Local Open Scope N_scope.

(** skipping [n] draws and skipping [k] subsequences commute (both are powers
    of the same transition; the Weyl counter is advanced additively), for every
    pair of 64-bit counts *)
Theorem discard_commute : forall r n k, wf_rng r -> n < 2 ^ 64 -> k < 2 ^ 64 ->
  discard n (discard_subsequence k r) = discard_subsequence k (discard n r).
Proof.
  intros r n k Hr Hn Hk.
  rewrite (discard_subsequence_eq r k Hr Hk).
  rewrite (discard_eq_iterate (draws (k * 2 ^ 67) r) n (wf_draws _ _ Hr) Hn).
  rewrite (discard_eq_iterate r n Hr Hn).
  rewrite (discard_subsequence_eq (draws n r) k (wf_draws _ _ Hr) Hk).
  rewrite <- !draws_add. f_equal. apply N.add_comm.
Qed.

Example discard_commute_ex :
  wf_rng (Rng (X 1 2 3 4 5) 6) /\ 0xffffffffffffffff < 2 ^ 64
  /\ discard 1000 (discard_subsequence 3 (Rng (X 1 2 3 4 5) 6))
     = discard_subsequence 3 (discard 1000 (Rng (X 1 2 3 4 5) 6)).
Proof.
  split; [cbv; repeat split | split; [reflexivity | ]].
  apply discard_commute; [cbv; repeat split | reflexivity | reflexivity].
Qed.

(** a history of [discard] calls *)
Definition advance (l : list N) (r : rng) : rng := fold_left (fun r n => discard n r) l r.
Definition total (l : list N) : N := fold_right N.add 0 l.

Lemma advance_eq : forall l r, wf_rng r -> Forall (fun n => n < 2 ^ 64) l ->
  advance l r = draws (total l) r.
Proof.
  induction l as [ | a l IH]; intros r Hr Hl; [reflexivity | ].
  inversion Hl as [ | ? ? Ha Hl']. subst.
  unfold advance. cbn [fold_left]. fold (advance l (discard a r)).
  rewrite (discard_eq_iterate r a Hr Ha).
  rewrite (IH (draws a r) (wf_draws _ _ Hr) Hl').
  rewrite <- draws_add. f_equal. cbn [total fold_right]. apply N.add_comm.
Qed.

Lemma wf_reseed seed event S slot : event * S + slot < 2 ^ 64 -> wf_rng (reseed seed event S slot).
Proof. intro H. rewrite reseed_eq_iterate by exact H. apply wf_draws. apply wf_seed_state. Qed.

(** the streams assigned to different (event, slot) pairs never meet, whatever
    sequences of [discard]s (and hence draws) advance them, as long as each
    stream has consumed fewer than 2^67 values in total *)
Theorem streams_disjoint_advanced : forall seed S e1 s1 e2 s2 la lb,
  seed < two32 -> s1 < S -> s2 < S ->
  e1 * S + s1 < 2 ^ 64 -> e2 * S + s2 < 2 ^ 64 ->
  (e1 <> e2 \/ s1 <> s2) ->
  Forall (fun n => n < 2 ^ 64) la -> Forall (fun n => n < 2 ^ 64) lb ->
  total la < 2 ^ 67 -> total lb < 2 ^ 67 ->
  xs (advance la (reseed seed e1 S s1)) <> xs (advance lb (reseed seed e2 S s2)).
Proof.
  intros seed S e1 s1 e2 s2 la lb Hseed H1 H2 Hw1 Hw2 Hne Hla Hlb Ha Hb.
  rewrite (advance_eq la _ (wf_reseed seed e1 S s1 Hw1) Hla).
  rewrite (advance_eq lb _ (wf_reseed seed e2 S s2 Hw2) Hlb).
  apply streams_disjoint; assumption.
Qed.

Example streams_disjoint_advanced_ex :
  Forall (fun n => n < 2 ^ 64) [0xffffffffffffffff; 5; 0xffffffffffffffff]
  /\ total [0xffffffffffffffff; 5; 0xffffffffffffffff] < 2 ^ 67.
Proof. split; [repeat constructor | reflexivity]. Qed.
