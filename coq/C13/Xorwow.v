(** * C13: executable model of celeritas' XORWOW engine (no proofs here).

    Words are [N]; every 32-bit (64-bit) wrap-around of the C++ is an explicit
    [land mask32] / [mod two32] ([mod two64]). All numeric constants of the
    algorithm (shift amounts, Weyl increments, base-4 digit mask/shift,
    SplitMix64 constants, jump tables) come from [Generated/C13_tables.v],
    which [translators/xorwow.py] rewrites from the current source on every run.

    Source: src/celeritas/random/XorwowRngEngine.hh, XorwowRngParams.cc,
    RngReseed.cc, detail/GenerateCanonical32.hh. *)
From Coq Require Import NArith List Bool.
From Celer Require Import Generated.C13_tables.
Import ListNotations.
Local Open Scope N_scope.

Definition mask32 : N := 0xffffffff.
Definition two32 : N := 0x100000000.
Definition two64 : N := 0x10000000000000000.
Definition w32 (x : N) : N := N.land x mask32.

(** ** State *)

(** [xorstate[0..4]] *)
Inductive xst := X (s0 s1 s2 s3 s4 : N).

Definition xzero : xst := X 0 0 0 0 0.
Definition xxor (a b : xst) : xst :=
  match a, b with
  | X a0 a1 a2 a3 a4, X b0 b1 b2 b3 b4 =>
      X (N.lxor a0 b0) (N.lxor a1 b1) (N.lxor a2 b2) (N.lxor a3 b3) (N.lxor a4 b4)
  end.
Definition word4 (s : xst) : N := match s with X _ _ _ _ e => e end.
Definition xwords (s : xst) : list N := match s with X a b c d e => [a; b; c; d; e] end.

(** [XorwowState]: xorstate + weylstate *)
Record rng := Rng { xs : xst; wy : N }.

(** ** [next()] *)
Definition next (s : xst) : xst :=
  match s with
  | X s0 s1 s2 s3 s4 =>
      let t := N.lxor s0 (N.shiftr s0 src_sh_a) in
      X s1 s2 s3 s4
        (N.lxor (N.lxor s4 (w32 (N.shiftl s4 src_sh_c)))
                (N.lxor t (w32 (N.shiftl t src_sh_b))))
  end.

(** ** [operator()]: new state and the 32-bit output *)
Definition draw (r : rng) : rng * N :=
  let x' := next (xs r) in
  let w' := (wy r + src_weyl_draw) mod two32 in
  (Rng x' w', (w' + word4 x') mod two32).
Definition step (r : rng) : rng := fst (draw r).

(** ** [jump(JumpPoly const&)]: words in order, bits from the least significant;
    for each bit: [if set, acc ^= state]; [next()]. *)
Fixpoint word_loop (n : nat) (j : N) (w : N) (acc st : xst) : xst * xst :=
  match n with
  | O => (acc, st)
  | S n' =>
      let acc' := if N.testbit w j then xxor acc st else acc in
      word_loop n' (j + 1) w acc' (next st)
  end.
Fixpoint row_loop (row : list N) (acc st : xst) : xst :=
  match row with
  | [] => acc
  | w :: r => let '(acc', st') := word_loop 32 0 w acc st in row_loop r acc' st'
  end.
Definition apply_poly (row : list N) (x : xst) : xst := row_loop row xzero x.

(** ** [jump(ull_int count, ArrayJumpPoly const&)]: the loop runs while
    [count > 0]; the table list plays the role of [jump_idx] (an exhausted
    table is the C++'s out-of-range read, unreachable for 64-bit counts). *)
Fixpoint jump (tbl : list (list N)) (count : N) (x : xst) : xst :=
  if count =? 0 then x
  else match tbl with
       | [] => x
       | g :: tbl' =>
           jump tbl' (N.shiftr count src_digit_shift)
                (N.iter (N.land (w32 count) src_digit_mask) (apply_poly g) x)
       end.

(** ** [discard] / [discard_subsequence] *)
Definition discard (n : N) (r : rng) : rng :=
  Rng (jump src_jump n (xs r))
      ((wy r + ((n mod two32) * src_weyl_discard) mod two32) mod two32).
Definition discard_subsequence (k : N) (r : rng) : rng :=
  Rng (jump src_jump_sub k (xs r)) (wy r).

(** ** SplitMix64 and [operator=(Initializer)] *)
Definition sm_next (st : N) : N * N :=
  let st' := (st + src_sm_gamma) mod two64 in
  let z := st' in
  let z := (N.lxor z (N.shiftr z src_sm_s1) * src_sm_m1) mod two64 in
  let z := (N.lxor z (N.shiftr z src_sm_s2) * src_sm_m2) mod two64 in
  (st', N.lxor z (N.shiftr z src_sm_s3)).

Definition seed_state (seed : N) : rng :=
  let '(st, a) := sm_next seed in
  let '(st, b) := sm_next st in
  let '(_, c) := sm_next st in
  Rng (X (w32 a) (w32 (N.shiftr a 32)) (w32 b) (w32 (N.shiftr b 32)) (w32 c))
      (w32 (N.shiftr c 32)).

Definition init (seed subsequence offset : N) : rng :=
  discard offset (discard_subsequence subsequence (seed_state seed)).

(** ** [reseed_rng]: [init.subsequence = event_id * size + i] in [ull_int] *)
Definition reseed_subsequence (event size slot : N) : N := (event * size + slot) mod two64.
Definition reseed (seed event size slot : N) : rng :=
  init seed (reseed_subsequence event size slot) 0.

(** ** [GenerateCanonical32<double>]: the 64-bit integer that is converted to
    double and scaled by [2^-norm_d_log2]; [upper] is drawn first. *)
Definition canon_int (upper lower : N) : N :=
  N.lxor (N.shiftl upper src_canon_shift mod two64) lower.
Definition canonical_double (r : rng) : rng * N :=
  let '(r1, upper) := draw r in
  let '(r2, lower) := draw r1 in
  (r2, canon_int upper lower).

(** ** [GenerateCanonical32<float>]: [float(u)] is round-to-nearest-even to a
    24-bit significand; the result is this integer times [2^-norm_f_log2]. *)
Definition float_of_u32 (u : N) : N :=
  if u <? 0x1000000 then u
  else
    let e := N.log2 u - 23 in
    let q := N.shiftr u e in
    let r := N.land u (N.ones e) in
    let half := N.shiftl 1 (e - 1) in
    let q' := if r <? half then q
              else if half <? r then q + 1
              else if N.even q then q else q + 1 in
    N.shiftl q' e.

(** ** iteration helper: [n] sequential draws *)
Definition draws (n : N) (r : rng) : rng := N.iter n step r.
