(** * C13: proofs about the XORWOW model.

    Everything that depends on the generated tables/constants is checked here
    by [vm_compute] against the certificates emitted by the translator. *)
From Coq Require Import NArith PeanoNat List Bool Lia Btauto.
From Celer Require Import Generated.C13_tables C13.Xorwow C13.Gf2.
Import ListNotations.
Local Open Scope N_scope.

(** ** GF(2)-linearity of [next] *)
Lemma w32_lxor a b : w32 (N.lxor a b) = N.lxor (w32 a) (w32 b).
Proof.
  unfold w32. apply N.bits_inj; intro n.
  rewrite !N.lxor_spec, !N.land_spec, !N.lxor_spec. btauto.
Qed.

Lemma next_linear a b : next (xxor a b) = xxor (next a) (next b).
Proof.
  destruct a as [a0 a1 a2 a3 a4], b as [b0 b1 b2 b3 b4]; cbn [next xxor].
  f_equal.
  rewrite ?N.shiftr_lxor, ?N.shiftl_lxor, ?w32_lxor, ?N.shiftl_lxor, ?w32_lxor.
  apply N.bits_inj; intro n; rewrite !N.lxor_spec. btauto.
Qed.

(** ** well-formed (32-bit) states *)
Definition wfw (a : N) : Prop := a < two32.
Definition wfx (s : xst) : Prop :=
  match s with X a b c d e => wfw a /\ wfw b /\ wfw c /\ wfw d /\ wfw e end.
Definition wf_rng (r : rng) : Prop := wfx (xs r) /\ wy r < two32.

Lemma lxor_lt n a b : a < 2 ^ n -> b < 2 ^ n -> N.lxor a b < 2 ^ n.
Proof.
  intros Ha Hb.
  destruct (N.eq_dec a 0) as [->|Ha0]; [rewrite N.lxor_0_l; exact Hb|].
  destruct (N.eq_dec b 0) as [->|Hb0]; [rewrite N.lxor_0_r; exact Ha|].
  destruct (N.eq_dec (N.lxor a b) 0) as [->|Hx0]; [lia|].
  apply N.log2_lt_pow2; [lia|].
  eapply N.le_lt_trans; [apply N.log2_lxor|].
  apply N.max_lub_lt; apply N.log2_lt_pow2; lia.
Qed.

Lemma wfw_lxor a b : wfw a -> wfw b -> wfw (N.lxor a b).
Proof. unfold wfw. change two32 with (2 ^ 32). apply lxor_lt. Qed.

Lemma w32_mod a : w32 a = a mod two32.
Proof. unfold w32. change mask32 with (N.ones 32). rewrite N.land_ones. reflexivity. Qed.

Lemma wfw_w32 a : wfw (w32 a).
Proof. unfold wfw. rewrite w32_mod. apply N.mod_lt. discriminate. Qed.

Lemma w32_id a : wfw a -> w32 a = a.
Proof. intro H. rewrite w32_mod. apply N.mod_small, H. Qed.

Lemma wfw_shiftr a k : wfw a -> wfw (N.shiftr a k).
Proof.
  unfold wfw. intro H. rewrite N.shiftr_div_pow2.
  eapply N.le_lt_trans; [|exact H].
  apply N.div_le_upper_bound; [apply N.pow_nonzero; discriminate|].
  assert (0 < 2 ^ k) by (apply N.neq_0_lt_0, N.pow_nonzero; discriminate). nia.
Qed.

Lemma wfx_next s : wfx s -> wfx (next s).
Proof.
  destruct s as [a b c d e]; cbn [wfx next]. intros (Ha & Hb & Hc & Hd & He).
  repeat split; try assumption.
  repeat apply wfw_lxor; try assumption; try apply wfw_w32. apply wfw_shiftr, Ha.
Qed.

Lemma wfx_xxor a b : wfx a -> wfx b -> wfx (xxor a b).
Proof.
  destruct a, b; cbn [wfx xxor]. intros (?&?&?&?&?) (?&?&?&?&?).
  repeat split; apply wfw_lxor; assumption.
Qed.

Lemma wfx_zero : wfx xzero.
Proof. cbn. unfold wfw. repeat split; reflexivity. Qed.

(** ** the state space as a [LinSpace] *)
Lemma xx_assoc a b c : xxor a (xxor b c) = xxor (xxor a b) c.
Proof. destruct a, b, c; cbn [xxor]. rewrite !N.lxor_assoc. reflexivity. Qed.
Lemma xx_comm a b : xxor a b = xxor b a.
Proof. destruct a, b; cbn [xxor]. f_equal; apply N.lxor_comm. Qed.
Lemma xx_nilp a : xxor a a = xzero.
Proof. destruct a; cbn [xxor]. rewrite !N.lxor_nilpotent. reflexivity. Qed.
Lemma xx_0_r a : xxor a xzero = a.
Proof. destruct a; cbn [xxor xzero]. rewrite !N.lxor_0_r. reflexivity. Qed.

Definition XL : LinSpace :=
  Build_LinSpace xst xxor xzero next wfx xx_assoc xx_comm xx_nilp xx_0_r
                 next_linear wfx_next wfx_xxor wfx_zero.

(** [g(T) x] for the xorshift transition [T = next] *)
Definition pev (g : poly) (x : xst) : xst := peval XL g x.

(** ** [jump(JumpPoly)] computes [g(T) x] *)
Lemma word_loop_spec n : forall j w acc st rest,
  xxor (fst (word_loop n j w acc st)) (pev rest (snd (word_loop n j w acc st)))
  = xxor acc (pev (wbits n j w ++ rest) st).
Proof.
  induction n as [|n IH]; intros j w acc st rest; cbn [word_loop wbits app fst snd].
  - reflexivity.
  - rewrite IH. unfold pev. cbn [peval]. change (ls_T XL) with next. change (ls_vx XL) with xxor.
    destruct (N.testbit w j); cbn [sel].
    + symmetry. apply xx_assoc.
    + change (ls_v0 XL) with xzero. rewrite (xx_comm xzero), xx_0_r. reflexivity.
Qed.

Lemma row_loop_spec row : forall acc st,
  row_loop row acc st = xxor acc (pev (poly_of_row row) st).
Proof.
  induction row as [|w r IH]; intros acc st; cbn [row_loop poly_of_row flat_map].
  - unfold pev. cbn [peval]. change (ls_v0 XL) with xzero. symmetry; apply xx_0_r.
  - pose proof (word_loop_spec 32 0 w acc st (poly_of_row r)) as H.
    destruct (word_loop 32 0 w acc st) as [acc' st']. cbn [fst snd] in H.
    rewrite IH. exact H.
Qed.

Lemma apply_poly_spec row x : apply_poly row x = pev (poly_of_row row) x.
Proof. unfold apply_poly. rewrite row_loop_spec, xx_comm. apply xx_0_r. Qed.

(** ** the polynomial [cert_p] annihilates [T]: sweep over the 160 basis vectors *)
Definition unit_word (k : nat) (w : N) : xst :=
  match k with
  | 0%nat => X w 0 0 0 0
  | 1%nat => X 0 w 0 0 0
  | 2%nat => X 0 0 w 0 0
  | 3%nat => X 0 0 0 w 0
  | _ => X 0 0 0 0 w
  end.

Definition xeqb (a b : xst) : bool :=
  match a, b with
  | X a0 a1 a2 a3 a4, X b0 b1 b2 b3 b4 =>
      (a0 =? b0) && (a1 =? b1) && (a2 =? b2) && (a3 =? b3) && (a4 =? b4)
  end.

Lemma xeqb_eq a b : xeqb a b = true -> a = b.
Proof.
  destruct a, b; cbn [xeqb]. intro H.
  repeat (apply andb_prop in H; destruct H as [H ?]).
  repeat match goal with E : (_ =? _) = true |- _ => apply N.eqb_eq in E end.
  subst. reflexivity.
Qed.

Definition ann_check (p : poly) : bool :=
  allb 5 (fun k => allb 32 (fun i => xeqb (pev p (unit_word k (2 ^ N.of_nat i))) xzero)).

Lemma unit_word_lxor k a b : unit_word k (N.lxor a b) = xxor (unit_word k a) (unit_word k b).
Proof. do 5 (destruct k as [|k]; [reflexivity|]). reflexivity. Qed.

Lemma ann_check_sound p : ann_check p = true -> forall x, wfx x -> pev p x = xzero.
Proof.
  intros Hc.
  assert (Hk : forall k w, (k < 5)%nat -> wfw w -> pev p (unit_word k w) = xzero).
  { intros k w Hk Hw.
    apply (lin_word_zero XL 32 (fun w => pev p (unit_word k w))).
    - intros a b. rewrite unit_word_lxor. apply (peval_lin XL).
    - intros i Hi. apply xeqb_eq.
      exact (allb_spec _ _ (allb_spec _ _ Hc k Hk) i Hi).
    - exact Hw. }
  intros [a b c d e] (Ha & Hb & Hc' & Hd & He).
  replace (X a b c d e) with
    (xxor (unit_word 0 a) (xxor (unit_word 1 b) (xxor (unit_word 2 c) (xxor (unit_word 3 d) (unit_word 4 e))))).
  - unfold pev. rewrite !(peval_lin XL). fold (pev p (unit_word 0 a)) (pev p (unit_word 1 b))
      (pev p (unit_word 2 c)) (pev p (unit_word 3 d)) (pev p (unit_word 4 e)).
    rewrite !Hk by (assumption || lia). reflexivity.
  - cbn [unit_word xxor]. rewrite ?N.lxor_0_l, ?N.lxor_0_r. reflexivity.
Qed.

Definition the_p : poly := poly_of_N cert_p.

Lemma the_p_ann_check : ann_check the_p = true.
Proof. vm_cast_no_check (eq_refl true). Qed.

Theorem charpoly_annihilates : forall x, wfx x -> pev the_p x = xzero.
Proof. exact (ann_check_sound the_p the_p_ann_check). Qed.

Lemma the_p_degree : length the_p = 161%nat.
Proof. vm_compute. reflexivity. Qed.

(** ** the jump tables: quotient certificates *)
Definition jump_polys : list poly := map poly_of_row src_jump.
Definition sub_polys : list poly := map poly_of_row src_jump_sub.

Definition mk_rest (certs : list (N * N * N)) (tl : list poly) : list (poly * poly * poly * poly) :=
  map (fun cg => let '(q1, mid, q2) := fst cg in (poly_of_N q1, poly_of_N mid, poly_of_N q2, snd cg))
      (combine certs tl).

Definition mk_steps (certs : list (N * N)) : list (bool * poly * poly) :=
  map (fun c => (false, poly_of_N (fst c), poly_of_N (snd c))) certs.

Definition pz1 : poly := [false; true].

(** table shape: 32 entries, first one checked against a given polynomial *)
Definition table_check (tbl : list poly) (certs : list (N * N * N)) (first : poly) : bool :=
  match tbl with
  | [] => false
  | g :: tl =>
      (length tl =? 31)%nat && (length certs =? 31)%nat
      && pzero (padd g first) && check_table the_p g (mk_rest certs tl)
  end.

Lemma mk_rest_snd certs : forall tl, length certs = length tl -> map snd (mk_rest certs tl) = tl.
Proof.
  unfold mk_rest. induction certs as [|[[q1 mid] q2] cs IH]; intros [|g tl] Hl; cbn in *; try discriminate; try reflexivity.
  f_equal. apply IH. lia.
Qed.

Lemma pev_eq_of_pzero a b : pzero (padd a b) = true -> forall x, pev a x = pev b x.
Proof.
  intros H x. apply (vx_eq XL). unfold pev. rewrite <- (peval_padd XL). apply (peval_pzero XL), H.
Qed.

Lemma table_check_sound tbl certs first e :
  table_check tbl certs first = true ->
  (forall x, wfx x -> pev first x = N.iter e next x) ->
  length tbl = 32%nat /\ tbl_ok XL e tbl.
Proof.
  destruct tbl as [|g tl]; cbn [table_check]; [discriminate|]. intros H Hf.
  repeat (apply andb_prop in H; destruct H as [H ?]).
  apply Nat.eqb_eq in H. match goal with E : (length certs =? 31)%nat = true |- _ => apply Nat.eqb_eq in E end.
  split; [cbn [length]; lia|].
  rewrite <- (mk_rest_snd certs tl) by lia.
  apply (check_table_sound XL the_p charpoly_annihilates); [assumption|].
  intros x Hx. transitivity (pev first x); [apply pev_eq_of_pzero; assumption|apply Hf, Hx].
Qed.

Lemma pev_z x : pev pz1 x = N.iter 1 next x.
Proof. unfold pev, pz1. cbn. rewrite ?N.lxor_0_l, ?N.lxor_0_r. destruct (next x). cbn. rewrite ?N.lxor_0_r. reflexivity. Qed.

Lemma jump_table_check : table_check jump_polys cert_jump_chain pz1 = true.
Proof. vm_cast_no_check (eq_refl true). Qed.

Theorem jump_table_correct : length jump_polys = 32%nat /\ tbl_ok XL 1 jump_polys.
Proof. apply (table_check_sound _ _ _ _ jump_table_check). intros x _. apply pev_z. Qed.

(** [z^(2^67)]: 67 certified squarings starting from [z] *)
Definition sub0_poly : poly :=
  match run_chain the_p pz1 (mk_steps cert_sub0_chain) with Some g => g | None => [] end.

Lemma sub0_chain_ok :
  run_chain the_p pz1 (mk_steps cert_sub0_chain) = Some sub0_poly
  /\ chain_exp 1 (map (fun s => fst (fst s)) (mk_steps cert_sub0_chain)) = 2 ^ 67.
Proof. split; vm_compute; reflexivity. Qed.

Lemma sub0_correct x : wfx x -> pev sub0_poly x = N.iter (2 ^ 67) next x.
Proof.
  intro Hx. destruct sub0_chain_ok as [Hrun Hexp]. rewrite <- Hexp.
  apply (run_chain_sound XL the_p charpoly_annihilates _ _ _ _ Hrun); [|exact Hx].
  intros y _. apply pev_z.
Qed.

Lemma sub_table_check : table_check sub_polys cert_sub_chain sub0_poly = true.
Proof. vm_cast_no_check (eq_refl true). Qed.

Theorem sub_table_correct : length sub_polys = 32%nat /\ tbl_ok XL (2 ^ 67) sub_polys.
Proof. apply (table_check_sound _ _ _ _ sub_table_check). intros x Hx. apply sub0_correct, Hx. Qed.

(** ** [jump(count, table)] *)
Lemma iter_ext {A} (f g : A -> A) : (forall x, f x = g x) -> forall n x, N.iter n f x = N.iter n g x.
Proof.
  intros H n. induction n as [|n IH] using N.peano_ind; intro x; [reflexivity|].
  rewrite !N.iter_succ, IH. apply H.
Qed.

Lemma digit_mask_ok c : N.land (w32 c) src_digit_mask = c mod 4.
Proof.
  unfold w32. rewrite <- N.land_assoc.
  change (N.land mask32 src_digit_mask) with (N.ones 2). rewrite N.land_ones. reflexivity.
Qed.

Lemma digit_shift_ok c : N.shiftr c src_digit_shift = c / 4.
Proof. rewrite N.shiftr_div_pow2. reflexivity. Qed.

Lemma jump_jumpA tbl : forall c x, jump tbl c x = jumpA XL (map poly_of_row tbl) c x.
Proof.
  induction tbl as [|g r IH]; intros c x; cbn [jump jumpA map].
  - reflexivity.
  - destruct (c =? 0); [reflexivity|].
    rewrite IH, digit_mask_ok, digit_shift_ok. f_equal.
    apply iter_ext. intro y. apply apply_poly_spec.
Qed.

Lemma jump_correct tbl e :
  length (map poly_of_row tbl) = 32%nat /\ tbl_ok XL e (map poly_of_row tbl) ->
  forall n x, n < 2 ^ 64 -> wfx x -> jump tbl n x = N.iter (e * n) next x.
Proof.
  intros [Hl Hok] n x Hn Hx. rewrite jump_jumpA.
  apply (jumpA_sound XL); [exact Hok| |exact Hx].
  rewrite Hl. exact Hn.
Qed.

(** ** Weyl counter and the full generator state *)
Lemma step_eq r : step r = Rng (next (xs r)) ((wy r + src_weyl_draw) mod two32).
Proof. reflexivity. Qed.

Lemma draws_eq n : forall r, wy r < two32 ->
  draws n r = Rng (N.iter n next (xs r)) ((wy r + n * src_weyl_draw) mod two32).
Proof.
  unfold draws. induction n as [|n IH] using N.peano_ind; intros r Hw.
  - cbn [N.iter]. rewrite N.mul_0_l, N.add_0_r, N.mod_small by exact Hw. destruct r; reflexivity.
  - rewrite !N.iter_succ, IH by exact Hw. rewrite step_eq. cbn [xs wy]. f_equal.
    rewrite N.add_mod_idemp_l by discriminate. f_equal. lia.
Qed.

Lemma wf_step r : wf_rng r -> wf_rng (step r).
Proof.
  intros [Hx Hw]. rewrite step_eq. split; cbn [xs wy]; [apply wfx_next, Hx|apply N.mod_lt; discriminate].
Qed.

Lemma weyl_consts : src_weyl_discard = src_weyl_draw.
Proof. reflexivity. Qed.

Theorem discard_eq_iterate : forall r n, wf_rng r -> n < 2 ^ 64 -> discard n r = draws n r.
Proof.
  intros r n [Hx Hw] Hn. rewrite draws_eq by exact Hw. unfold discard. f_equal.
  - rewrite (jump_correct src_jump 1 jump_table_correct n _ Hn Hx). f_equal. lia.
  - rewrite weyl_consts, N.mul_mod_idemp_l, N.add_mod_idemp_r by discriminate. reflexivity.
Qed.

Lemma weyl_sub_period k : (k * 2 ^ 67 * src_weyl_draw) mod two32 = 0.
Proof.
  replace (k * 2 ^ 67 * src_weyl_draw) with ((k * 2 ^ 35 * src_weyl_draw) * two32).
  - apply N.mod_mul. discriminate.
  - change two32 with (2 ^ 32). change (2 ^ 67) with (2 ^ 35 * 2 ^ 32). lia.
Qed.

Theorem discard_subsequence_eq : forall r k, wf_rng r -> k < 2 ^ 64 ->
  discard_subsequence k r = draws (k * 2 ^ 67) r.
Proof.
  intros r k [Hx Hw] Hk. rewrite draws_eq by exact Hw. unfold discard_subsequence. f_equal.
  - rewrite (jump_correct src_jump_sub (2 ^ 67) sub_table_correct k _ Hk Hx). f_equal. lia.
  - rewrite <- N.add_mod_idemp_r, weyl_sub_period, N.add_0_r by discriminate.
    symmetry. apply N.mod_small, Hw.
Qed.

(** ** initialisation and reseeding *)
Lemma draws_add a b r : draws (a + b) r = draws a (draws b r).
Proof. unfold draws. apply N.iter_add. Qed.

Lemma wf_draws n r : wf_rng r -> wf_rng (draws n r).
Proof. intro H. unfold draws. apply N.iter_invariant; [exact wf_step|exact H]. Qed.

Lemma wf_seed_state seed : wf_rng (seed_state seed).
Proof.
  unfold seed_state.
  destruct (sm_next seed) as [s1 a]. destruct (sm_next s1) as [s2 b]. destruct (sm_next s2) as [s3 c].
  split; cbn [xs wy wfx]; repeat split; apply wfw_w32.
Qed.

Theorem init_eq_iterate : forall seed sub off, sub < 2 ^ 64 -> off < 2 ^ 64 ->
  init seed sub off = draws (sub * 2 ^ 67 + off) (seed_state seed).
Proof.
  intros seed sub off Hs Ho. unfold init.
  rewrite discard_subsequence_eq by (exact Hs || apply wf_seed_state).
  rewrite discard_eq_iterate by (exact Ho || apply wf_draws, wf_seed_state).
  rewrite <- draws_add. f_equal. lia.
Qed.

(** distinct (event, slot) pairs get distinct subsequence indices when
    [event * slots + slot] does not wrap, hence disjoint index segments *)
Lemma reseed_index_inj S e1 s1 e2 s2 :
  s1 < S -> s2 < S -> e1 * S + s1 = e2 * S + s2 -> e1 = e2 /\ s1 = s2.
Proof.
  intros H1 H2 H.
  assert (e1 = e2) by nia. subst. split; [reflexivity|lia].
Qed.

Lemma segments_disjoint i1 i2 a b :
  i1 <> i2 -> a < 2 ^ 67 -> b < 2 ^ 67 -> i1 * 2 ^ 67 + a <> i2 * 2 ^ 67 + b.
Proof. intros Hne Ha Hb H. apply Hne. nia. Qed.

Theorem reseed_eq_iterate : forall seed event S slot,
  event * S + slot < 2 ^ 64 ->
  reseed seed event S slot = draws ((event * S + slot) * 2 ^ 67) (seed_state seed).
Proof.
  intros seed event S slot H. unfold reseed, reseed_subsequence.
  change two64 with (2 ^ 64). rewrite N.mod_small by exact H.
  rewrite init_eq_iterate by (exact H || reflexivity). f_equal. lia.
Qed.

(** ** canonical double: the integer is below [2^53] *)
Lemma draw_out_lt r : snd (draw r) < two32.
Proof. unfold draw. cbn [snd]. apply N.mod_lt. discriminate. Qed.

Lemma canon_consts : src_canon_shift = 21 /\ src_norm_d_log2 = 53.
Proof. split; reflexivity. Qed.

Theorem canon_int_lt : forall upper lower, upper < two32 -> lower < two32 ->
  canon_int upper lower < 2 ^ src_norm_d_log2.
Proof.
  intros u l Hu Hl. unfold canon_int. destruct canon_consts as [-> ->].
  assert (Hs : N.shiftl u 21 < 2 ^ 53).
  { rewrite N.shiftl_mul_pow2. change (2 ^ 53) with (two32 * 2 ^ 21). apply N.mul_lt_mono_pos_r; [reflexivity|exact Hu]. }
  apply lxor_lt.
  - eapply N.le_lt_trans; [apply N.mod_le; discriminate|exact Hs].
  - eapply N.lt_trans; [exact Hl|reflexivity].
Qed.

(** ** canonical float: refuted *)
Theorem canonical_float_refuted :
  exists u, u < two32 /\ float_of_u32 u = 2 ^ src_norm_f_log2.
Proof. exists 0xffffff80. split; vm_compute; reflexivity. Qed.

Fixpoint range_all (n : nat) (lo : N) (P : N -> bool) : bool :=
  match n with O => true | S m => P lo && range_all m (lo + 1) P end.

Lemma float_one_range : range_all 128 0xffffff80 (fun u => float_of_u32 u =? 2 ^ src_norm_f_log2) = true
  /\ (float_of_u32 0xffffff7f <? 2 ^ src_norm_f_log2) = true.
Proof. split; vm_compute; reflexivity. Qed.

(** ** per-entry form of the table theorems *)
Lemma tbl_ok_nth (L : LinSpace) tbl : forall e i, tbl_ok L e tbl -> (i < length tbl)%nat ->
  forall x, ls_wf L x -> peval L (nth i tbl []) x = N.iter (e * 4 ^ N.of_nat i) (ls_T L) x.
Proof.
  induction tbl as [|g r IH]; intros e i Hok Hi x Hx; cbn [length] in Hi; [lia|].
  destruct Hok as [Hg Hr]. destruct i as [|i]; cbn [nth].
  - rewrite N.mul_1_r. apply Hg, Hx.
  - rewrite (IH (4 * e) i Hr) by (exact Hx || lia). f_equal.
    rewrite Nat2N.inj_succ, N.pow_succ_r'. lia.
Qed.

Theorem jump_entry_correct : forall i x, (i < 32)%nat -> wfx x ->
  apply_poly (nth i src_jump []) x = N.iter (4 ^ N.of_nat i) next x.
Proof.
  intros i x Hi Hx. destruct jump_table_correct as [Hl Hok].
  rewrite apply_poly_spec. unfold pev.
  rewrite <- (map_nth poly_of_row). fold jump_polys. change (poly_of_row []) with (@nil bool).
  rewrite (tbl_ok_nth XL jump_polys 1 i Hok) by (exact Hx || lia).
  rewrite N.mul_1_l. reflexivity.
Qed.

Theorem sub_entry_correct : forall i x, (i < 32)%nat -> wfx x ->
  apply_poly (nth i src_jump_sub []) x = N.iter (2 ^ 67 * 4 ^ N.of_nat i) next x.
Proof.
  intros i x Hi Hx. destruct sub_table_correct as [Hl Hok].
  rewrite apply_poly_spec. unfold pev.
  rewrite <- (map_nth poly_of_row). fold sub_polys. change (poly_of_row []) with (@nil bool).
  rewrite (tbl_ok_nth XL sub_polys (2 ^ 67) i Hok) by (exact Hx || lia).
  reflexivity.
Qed.

Theorem canonical_double_lt : forall r,
  snd (canonical_double r) < 2 ^ src_norm_d_log2 /\ src_norm_d_log2 = 53.
Proof.
  intro r. split; [|reflexivity]. unfold canonical_double.
  pose proof (draw_out_lt r) as H1. destruct (draw r) as [r1 u]. cbn [snd] in H1.
  pose proof (draw_out_lt r1) as H2. destruct (draw r1) as [r2 l]. cbn [snd] in *.
  apply canon_int_lt; assumption.
Qed.
