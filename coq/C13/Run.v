(** * C13: entry points for the correspondence check; every answer is a list of words. *)
From Coq Require Import NArith List.
From Celer Require Import Generated.C13_tables C13.Xorwow.
Import ListNotations.
Local Open Scope N_scope.

Definition mk (a b c d e w : N) : rng := Rng (X a b c d e) w.
Definition out (r : rng) : list N := xwords (xs r) ++ [wy r].

Definition run_tables : list N := concat src_jump ++ concat src_jump_sub.
Definition run_next (r : rng) := out (Rng (next (xs r)) (wy r)).
Definition run_draw (k : N) (r : rng) :=
  let r' := N.iter (k - 1) step r in
  let '(r'', o) := draw r' in out r'' ++ [o].
Fixpoint outs_nat (k : nat) (r : rng) : list N :=
  match k with O => [] | S k' => let '(r', o) := draw r in o :: outs_nat k' r' end.
Definition run_outs (k : N) (r : rng) := outs_nat (N.to_nat k) r.
Definition run_discard (n : N) (r : rng) := out (discard n r).
Definition run_subseq (k : N) (r : rng) := out (discard_subsequence k r).
Definition run_poly (t i : N) (r : rng) :=
  out (Rng (apply_poly (nth (N.to_nat i) (if t =? 0 then src_jump else src_jump_sub) []) (xs r)) (wy r)).
Definition run_init (seed sub off : N) := out (init seed sub off).
Definition run_reseed (seed event size : N) :=
  flat_map (fun i => out (reseed seed event size (N.of_nat i))) (seq 0 (N.to_nat size)).
Definition run_canon_d (upper lower : N) := [canon_int upper lower].
Definition run_canon_f (u : N) := [float_of_u32 u].
Definition run_canon_e (r : rng) := let '(r', c) := canonical_double r in c :: out r'.
