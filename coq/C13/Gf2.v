(** * C13: polynomials over GF(2) acting on an abstract GF(2)-vector space
    through a linear map [T]; certificate checkers and their soundness.

    Independent of the generated tables (never breaks when the source changes). *)
From Coq Require Import NArith PeanoNat List Bool Lia.
Import ListNotations.
Local Open Scope N_scope.

(** ** Polynomials: little-endian coefficient lists *)
Definition poly := list bool.

Fixpoint padd (a b : poly) : poly :=
  match a, b with
  | [], _ => b
  | _, [] => a
  | x :: a', y :: b' => xorb x y :: padd a' b'
  end.

Fixpoint pmul (a b : poly) : poly :=
  match a with
  | [] => []
  | c :: a' => padd (if c then b else []) (false :: pmul a' b)
  end.

Definition pzero (a : poly) : bool := forallb negb a.

(** bits of a number, least significant first *)
Fixpoint pos_bits (p : positive) : poly :=
  match p with
  | xH => [true]
  | xO p' => false :: pos_bits p'
  | xI p' => true :: pos_bits p'
  end.
Definition poly_of_N (n : N) : poly := match n with N0 => [] | Npos p => pos_bits p end.

(** [n] bits of [w] starting at bit [j] *)
Fixpoint wbits (n : nat) (j : N) (w : N) : poly :=
  match n with
  | O => []
  | S n' => N.testbit w j :: wbits n' (j + 1) w
  end.
Definition poly_of_row (row : list N) : poly := flat_map (wbits 32 0) row.

Definition pz (b : bool) : poly := if b then [false; true] else [true].

(** one exponentiation step: [g' = g^2 * z^b - q p] *)
Definition step_ok (p g : poly) (b : bool) (q g' : poly) : bool :=
  pzero (padd (pmul (pmul g g) (pz b)) (padd (pmul q p) g')).

Fixpoint run_chain (p g : poly) (steps : list (bool * poly * poly)) : option poly :=
  match steps with
  | [] => Some g
  | (b, q, g') :: r => if step_ok p g b q g' then run_chain p g' r else None
  end.

Fixpoint chain_exp (e : N) (bits : list bool) : N :=
  match bits with
  | [] => e
  | b :: r => chain_exp (2 * e + N.b2n b) r
  end.

(** table check: each next entry is the 4th power of the previous one mod p,
    certified through the intermediate square *)
Fixpoint check_table (p g : poly) (rest : list (poly * poly * poly * poly)) : bool :=
  match rest with
  | [] => true
  | (q1, mid, q2, g') :: r =>
      step_ok p g false q1 mid && step_ok p mid false q2 g' && check_table p g' r
  end.

(** bounded universal quantifier *)
Fixpoint allb (n : nat) (P : nat -> bool) : bool :=
  match n with O => true | S m => P m && allb m P end.

Lemma allb_spec n P : allb n P = true -> forall i, (i < n)%nat -> P i = true.
Proof.
  induction n as [|n IH]; cbn [allb]; intros H i Hi; [lia|].
  apply andb_prop in H; destruct H as [H1 H2].
  destruct (Nat.eq_dec i n) as [->|Hne]; [exact H1|apply IH; [exact H2|lia]].
Qed.

(** ** number decomposition used by the basis sweep *)
Lemma N_split_low a : a = N.lxor (2 * N.div2 a) (N.b2n (N.odd a)).
Proof.
  rewrite <- N.add_nocarry_lxor; [apply N.div2_odd|].
  apply N.bits_inj; intro n. rewrite N.land_spec, N.bits_0.
  destruct (N.eq_dec n 0) as [->|Hn].
  - rewrite N.testbit_even_0. reflexivity.
  - replace (N.testbit (N.b2n (N.odd a)) n) with false; [apply andb_false_r|].
    symmetry. destruct (N.odd a); cbn [N.b2n].
    + apply N.bits_above_log2. cbn. lia.
    + apply N.bits_0.
Qed.

Lemma double_lxor a b : 2 * N.lxor a b = N.lxor (2 * a) (2 * b).
Proof.
  rewrite !(N.mul_comm 2). change 2 with (2 ^ 1).
  rewrite <- !N.shiftl_mul_pow2. apply N.shiftl_lxor.
Qed.

(** ** a GF(2)-vector space with a linear map and an invariant *)
Record LinSpace := {
  ls_V : Type;
  ls_vx : ls_V -> ls_V -> ls_V;
  ls_v0 : ls_V;
  ls_T : ls_V -> ls_V;
  ls_wf : ls_V -> Prop;
  ls_assoc : forall a b c, ls_vx a (ls_vx b c) = ls_vx (ls_vx a b) c;
  ls_comm : forall a b, ls_vx a b = ls_vx b a;
  ls_nilp : forall a, ls_vx a a = ls_v0;
  ls_0_r : forall a, ls_vx a ls_v0 = a;
  ls_T_lin : forall a b, ls_T (ls_vx a b) = ls_vx (ls_T a) (ls_T b);
  ls_wf_T : forall a, ls_wf a -> ls_wf (ls_T a);
  ls_wf_vx : forall a b, ls_wf a -> ls_wf b -> ls_wf (ls_vx a b);
  ls_wf_0 : ls_wf ls_v0
}.

Section Lin.
  Variable L : LinSpace.
  Local Notation V := (ls_V L).
  Local Notation vx := (ls_vx L).
  Local Notation v0 := (ls_v0 L).
  Local Notation T := (ls_T L).
  Local Notation wf := (ls_wf L).
  Local Notation vx_assoc := (ls_assoc L).
  Local Notation vx_comm := (ls_comm L).
  Local Notation vx_nilp := (ls_nilp L).
  Local Notation vx_0_r := (ls_0_r L).
  Local Notation T_lin := (ls_T_lin L).
  Local Notation wf_T := (ls_wf_T L).
  Local Notation wf_vx := (ls_wf_vx L).
  Local Notation wf_0 := (ls_wf_0 L).

  Lemma vx_0_l a : vx v0 a = a.
  Proof. rewrite vx_comm. apply vx_0_r. Qed.

  Lemma T_0 : T v0 = v0.
  Proof. rewrite <- (vx_nilp v0) at 1. rewrite T_lin. apply vx_nilp. Qed.

  Lemma vx_swap4 a b c d : vx (vx a b) (vx c d) = vx (vx a c) (vx b d).
  Proof.
    rewrite <- (vx_assoc a b), (vx_assoc b c d), (vx_comm b c), <- (vx_assoc c b d).
    apply vx_assoc.
  Qed.

  Lemma vx_eq a b : vx a b = v0 -> a = b.
  Proof.
    intro H. rewrite <- (vx_0_r a), <- (vx_nilp b), (vx_assoc a b b), H. apply vx_0_l.
  Qed.

  Definition sel (b : bool) (x : V) : V := if b then x else v0.

  Fixpoint peval (g : poly) (x : V) : V :=
    match g with
    | [] => v0
    | b :: g' => vx (sel b x) (peval g' (T x))
    end.

  Lemma sel_lin b x y : sel b (vx x y) = vx (sel b x) (sel b y).
  Proof. destruct b; cbn [sel]; [reflexivity|symmetry; apply vx_nilp]. Qed.

  Lemma sel_xorb a b x : sel (xorb a b) x = vx (sel a x) (sel b x).
  Proof.
    destruct a, b; cbn [sel xorb]; symmetry;
      [apply vx_nilp|apply vx_0_r|apply vx_0_l|apply vx_nilp].
  Qed.

  Lemma sel_T b x : sel b (T x) = T (sel b x).
  Proof. destruct b; cbn [sel]; [reflexivity|symmetry; apply T_0]. Qed.

  Lemma wf_sel b x : wf x -> wf (sel b x).
  Proof. intro Hx. destruct b; cbn [sel]; [exact Hx|exact wf_0]. Qed.

  Lemma peval_lin g : forall x y, peval g (vx x y) = vx (peval g x) (peval g y).
  Proof.
    induction g as [|b g IH]; intros x y; cbn [peval].
    - symmetry; apply vx_nilp.
    - rewrite T_lin, IH, sel_lin. apply vx_swap4.
  Qed.

  Lemma peval_0 g : peval g v0 = v0.
  Proof. rewrite <- (vx_nilp v0) at 1. rewrite peval_lin. apply vx_nilp. Qed.

  Lemma peval_T g : forall x, peval g (T x) = T (peval g x).
  Proof.
    induction g as [|b g IH]; intros x; cbn [peval].
    - symmetry; apply T_0.
    - rewrite T_lin, <- IH, sel_T. reflexivity.
  Qed.

  Lemma wf_peval g : forall x, wf x -> wf (peval g x).
  Proof.
    induction g as [|b g IH]; intros x Hx; cbn [peval]; [exact wf_0|].
    apply wf_vx; [apply wf_sel; exact Hx|apply IH, wf_T, Hx].
  Qed.

  Lemma peval_padd a : forall b x, peval (padd a b) x = vx (peval a x) (peval b x).
  Proof.
    induction a as [|c a IH]; intros [|d b] x; cbn [padd peval].
    - symmetry; apply vx_nilp.
    - symmetry; apply vx_0_l.
    - symmetry; apply vx_0_r.
    - rewrite IH, sel_xorb. apply vx_swap4.
  Qed.

  Lemma peval_shift g x : peval (false :: g) x = peval g (T x).
  Proof. cbn [peval sel]. apply vx_0_l. Qed.

  Lemma peval_pmul a : forall b x, peval (pmul a b) x = peval a (peval b x).
  Proof.
    induction a as [|c a IH]; intros b x; cbn [pmul]; [reflexivity|].
    rewrite peval_padd, peval_shift, IH, peval_T. cbn [peval]. f_equal.
    destruct c; cbn [sel peval]; reflexivity.
  Qed.

  Lemma peval_pzero a : pzero a = true -> forall x, peval a x = v0.
  Proof.
    unfold pzero. induction a as [|c a IH]; cbn [forallb peval]; intros H x; [reflexivity|].
    apply andb_prop in H; destruct H as [Hc Ha]. destruct c; [discriminate|].
    cbn [sel]. rewrite vx_0_l. apply IH, Ha.
  Qed.

  Lemma peval_app a : forall b x,
    peval (a ++ b) x = vx (peval a x) (peval b (N.iter (N.of_nat (length a)) T x)).
  Proof.
    induction a as [|c a IH]; intros b x.
    - cbn [app length peval N.of_nat N.iter]. symmetry; apply vx_0_l.
    - cbn [app length peval]. rewrite IH, Nat2N.inj_succ, N.iter_succ_r. apply vx_assoc.
  Qed.

  (** *** iteration of [T] *)
  Lemma wf_iter e x : wf x -> wf (N.iter e T x).
  Proof. intro Hx. apply N.iter_invariant; [exact wf_T|exact Hx]. Qed.

  Lemma iter_pow (f : V -> V) e :
    (forall x, wf x -> f x = N.iter e T x) ->
    forall d x, wf x -> N.iter d f x = N.iter (e * d) T x.
  Proof.
    intros Hf d. induction d as [|d IH] using N.peano_ind; intros x Hx.
    - rewrite N.mul_0_r. reflexivity.
    - rewrite N.iter_succ, IH by exact Hx.
      rewrite Hf by (apply wf_iter; exact Hx).
      rewrite <- N.iter_add. f_equal. lia.
  Qed.

  (** *** exponent certificates *)
  Section Ann.
    Variable p : poly.
    Hypothesis ann : forall x, wf x -> peval p x = v0.

    Lemma peval_pz b x : peval (pz b) x = N.iter (N.b2n b) T x.
    Proof.
      destruct b; cbn [pz peval sel N.b2n].
      - rewrite vx_0_l, vx_0_r. reflexivity.
      - apply vx_0_r.
    Qed.

    Lemma step_sound g b q g' e :
      step_ok p g b q g' = true ->
      (forall x, wf x -> peval g x = N.iter e T x) ->
      forall x, wf x -> peval g' x = N.iter (2 * e + N.b2n b) T x.
    Proof.
      intros Hok Hg x Hx. unfold step_ok in Hok.
      pose proof (peval_pzero _ Hok x) as H0.
      rewrite !peval_padd, (peval_pmul q p), (ann x Hx), peval_0, vx_0_l in H0.
      apply vx_eq in H0. rewrite <- H0.
      rewrite !peval_pmul, peval_pz.
      assert (Hb : wf (N.iter (N.b2n b) T x)) by (apply wf_iter; exact Hx).
      rewrite (Hg _ Hb), Hg by (apply wf_iter; exact Hb).
      rewrite <- !N.iter_add. f_equal. lia.
    Qed.

    Lemma run_chain_sound steps : forall g e gf,
      run_chain p g steps = Some gf ->
      (forall x, wf x -> peval g x = N.iter e T x) ->
      forall x, wf x -> peval gf x = N.iter (chain_exp e (map (fun s => fst (fst s)) steps)) T x.
    Proof.
      induction steps as [|[[b q] g'] r IH]; intros g e gf Hrun Hg; cbn [run_chain map chain_exp fst] in *.
      - injection Hrun as <-. exact Hg.
      - destruct (step_ok p g b q g') eqn:Hok; [|discriminate].
        eapply IH; [exact Hrun|]. eapply step_sound; eassumption.
    Qed.

    Fixpoint tbl_ok (e : N) (tbl : list poly) : Prop :=
      match tbl with
      | [] => True
      | g :: r => (forall x, wf x -> peval g x = N.iter e T x) /\ tbl_ok (4 * e) r
      end.

    Lemma check_table_sound rest : forall g e,
      check_table p g rest = true ->
      (forall x, wf x -> peval g x = N.iter e T x) ->
      tbl_ok e (g :: map snd rest).
    Proof.
      induction rest as [|[[[q1 mid] q2] g'] r IH]; intros g e Hc Hg; cbn [check_table map snd tbl_ok] in *.
      - split; [exact Hg|exact I].
      - apply andb_prop in Hc; destruct Hc as [Hc H3]. apply andb_prop in Hc; destruct Hc as [H1 H2].
        split; [exact Hg|]. apply (IH g' (4 * e) H3).
        intros x Hx.
        pose proof (step_sound _ _ _ _ _ H1 Hg) as Hm. cbn [N.b2n] in Hm.
        pose proof (step_sound _ _ _ _ _ H2 Hm x Hx) as Hf. cbn [N.b2n] in Hf.
        rewrite Hf. f_equal. lia.
    Qed.

    (** *** the base-4 digit loop of [jump(count, table)] *)
    Fixpoint jumpA (tbl : list poly) (count : N) (x : V) : V :=
      if count =? 0 then x
      else match tbl with
           | [] => x
           | g :: r => jumpA r (count / 4) (N.iter (count mod 4) (peval g) x)
           end.

    Lemma jumpA_sound tbl : forall e count x,
      tbl_ok e tbl -> count < 4 ^ N.of_nat (length tbl) -> wf x ->
      jumpA tbl count x = N.iter (e * count) T x.
    Proof.
      induction tbl as [|g r IH]; intros e count x Hok Hlt Hx.
      - cbn in Hlt. assert (count = 0) by lia. subst. rewrite N.mul_0_r. reflexivity.
      - cbn [jumpA]. destruct (N.eqb_spec count 0) as [->|Hnz].
        + rewrite N.mul_0_r. reflexivity.
        + destruct Hok as [Hg Hr].
          rewrite (iter_pow _ _ Hg) by exact Hx.
          rewrite (IH (4 * e)); [| exact Hr | | apply wf_iter; exact Hx].
          * rewrite <- N.iter_add. f_equal.
            pose proof (N.div_mod count 4 ltac:(lia)). lia.
          * cbn [length] in Hlt. rewrite Nat2N.inj_succ, N.pow_succ_r' in Hlt.
            apply N.div_lt_upper_bound; lia.
    Qed.
  End Ann.

  (** *** basis sweep: a linear function of a word vanishing on powers of two *)
  Lemma lin_word_zero n : forall (f : N -> V),
    (forall a b, f (N.lxor a b) = vx (f a) (f b)) ->
    (forall i, (i < n)%nat -> f (2 ^ N.of_nat i) = v0) ->
    forall a, a < 2 ^ N.of_nat n -> f a = v0.
  Proof.
    induction n as [|n IH]; intros f Hlin Hb a Ha.
    - cbn in Ha. assert (a = 0) by lia. subst.
      rewrite <- (N.lxor_nilpotent 0), Hlin. apply vx_nilp.
    - rewrite (N_split_low a), Hlin.
      assert (H1 : f (N.b2n (N.odd a)) = v0).
      { destruct (N.odd a); cbn [N.b2n].
        - apply (Hb 0%nat). lia.
        - rewrite <- (N.lxor_nilpotent 0), Hlin. apply vx_nilp. }
      rewrite H1, vx_0_r.
      apply (IH (fun x => f (2 * x))).
      + intros x y. rewrite double_lxor. apply Hlin.
      + intros i Hi. rewrite <- N.pow_succ_r', <- Nat2N.inj_succ. apply Hb. lia.
      + rewrite Nat2N.inj_succ, N.pow_succ_r' in Ha. rewrite N.div2_div.
        apply N.div_lt_upper_bound; lia.
  Qed.
End Lin.
