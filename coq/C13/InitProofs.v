(** * C13: the SplitMix64 initialisation never produces the all-zero xorshift
    state (the only fixed point of [next]), and distinct (event, slot) pairs
    get disjoint streams. *)
From Coq Require Import NArith PeanoNat List Bool Lia.
From Celer Require Import Generated.C13_tables C13.Xorwow C13.Gf2 C13.XorwowProofs C13.Period C13.PeriodProofs.
Import ListNotations.
Local Open Scope N_scope.

Definition sm_mix (z : N) : N :=
  let z := (N.lxor z (N.shiftr z src_sm_s1) * src_sm_m1) mod two64 in
  let z := (N.lxor z (N.shiftr z src_sm_s2) * src_sm_m2) mod two64 in
  N.lxor z (N.shiftr z src_sm_s3).

Lemma sm_next_eq st :
  sm_next st = ((st + src_sm_gamma) mod two64, sm_mix ((st + src_sm_gamma) mod two64)).
Proof. reflexivity. Qed.

Lemma xorshift_zero z k : 0 < k -> N.lxor z (N.shiftr z k) = 0 -> z = 0.
Proof.
  intros Hk H. apply N.lxor_eq in H.
  destruct (N.eq_dec z 0) as [|Hz]; [assumption|exfalso].
  rewrite N.shiftr_div_pow2 in H.
  assert (z / 2 ^ k < z) by (apply N.div_lt; [lia|apply N.pow_gt_1; lia]). lia.
Qed.

Lemma xorshift_lt z k : z < two64 -> N.lxor z (N.shiftr z k) < two64.
Proof.
  intro Hz. change two64 with (2 ^ 64) in *. apply lxor_lt; [exact Hz|].
  rewrite N.shiftr_div_pow2. eapply N.le_lt_trans; [|exact Hz].
  apply N.div_le_upper_bound; [apply N.pow_nonzero; discriminate|].
  assert (0 < 2 ^ k) by (apply N.neq_0_lt_0, N.pow_nonzero; discriminate). nia.
Qed.

Lemma mul_unit_zero m minv y :
  (m * minv) mod two64 = 1 -> y < two64 -> (y * m) mod two64 = 0 -> y = 0.
Proof.
  intros Hinv Hy H.
  rewrite <- (N.mod_small y two64 Hy), <- (N.mul_1_r y), <- Hinv.
  rewrite N.mul_mod_idemp_r, N.mul_assoc, <- N.mul_mod_idemp_l, H by discriminate. reflexivity.
Qed.

(** inverse of an odd number modulo 2^64 by Newton iteration (checked by computation below) *)
Fixpoint inv_newton (n : nat) (m x : N) : N :=
  match n with
  | O => x
  | S n' => inv_newton n' m ((x * (two64 + 2 - (m * x) mod two64)) mod two64)
  end.
Definition inv64 (m : N) : N := inv_newton 6 m 1.

Lemma sm_consts :
  (src_sm_m1 * inv64 src_sm_m1) mod two64 = 1 /\ (src_sm_m2 * inv64 src_sm_m2) mod two64 = 1
  /\ 0 < src_sm_s1 /\ 0 < src_sm_s2 /\ 0 < src_sm_s3
  /\ 0 < src_sm_gamma /\ src_sm_gamma + two32 <= two64.
Proof. vm_compute. repeat split; discriminate. Qed.

Lemma sm_mix_zero z : z < two64 -> sm_mix z = 0 -> z = 0.
Proof.
  destruct sm_consts as (Hi1 & Hi2 & Hs1 & Hs2 & Hs3 & _).
  unfold sm_mix. intros Hz H.
  apply (xorshift_zero _ _ Hs3) in H.
  apply (mul_unit_zero _ _ _ Hi2) in H;
    [|apply xorshift_lt, N.mod_lt; discriminate].
  apply (xorshift_zero _ _ Hs2) in H.
  apply (mul_unit_zero _ _ _ Hi1) in H; [|apply xorshift_lt, Hz].
  exact (xorshift_zero _ _ Hs1 H).
Qed.

Lemma sm_mix_lt z : sm_mix z < two64.
Proof. unfold sm_mix. apply xorshift_lt, N.mod_lt. discriminate. Qed.

Lemma split64_zero a : a < two64 -> w32 a = 0 -> w32 (N.shiftr a 32) = 0 -> a = 0.
Proof.
  intros Ha H1 H2. rewrite w32_mod in H1, H2. rewrite N.shiftr_div_pow2 in H2.
  change (2 ^ 32) with two32 in H2.
  assert (a / two32 < two32) by (apply N.div_lt_upper_bound; [discriminate|exact Ha]).
  rewrite N.mod_small in H2 by assumption.
  rewrite (N.div_mod a two32) by discriminate. lia.
Qed.

Definition xw0 (s : xst) : N := match s with X a _ _ _ _ => a end.
Definition xw1 (s : xst) : N := match s with X _ b _ _ _ => b end.

Theorem init_state_nonzero : forall seed, seed < two32 -> xs (seed_state seed) <> xzero.
Proof.
  intros seed Hseed. unfold seed_state. rewrite sm_next_eq.
  set (st1 := (seed + src_sm_gamma) mod two64).
  destruct (sm_next st1) as [st2 b]. destruct (sm_next st2) as [st3 c]. cbn [xs].
  intro H.
  pose proof (f_equal xw0 H) as H0. pose proof (f_equal xw1 H) as H1. cbn [xw0 xw1 xzero] in H0, H1. clear H.
  destruct sm_consts as (_ & _ & _ & _ & _ & Hg0 & Hg).
  assert (Ha : sm_mix st1 = 0) by (apply split64_zero; [apply sm_mix_lt|exact H0|exact H1]).
  apply sm_mix_zero in Ha; [|apply N.mod_lt; discriminate].
  unfold st1 in Ha. rewrite N.mod_small in Ha by lia. lia.
Qed.

(** ** disjoint streams *)
Lemma xs_draws n r : wy r < two32 -> xs (draws n r) = N.iter n next (xs r).
Proof. intro H. rewrite draws_eq by exact H. reflexivity. Qed.

Lemma seed_weyl_lt seed : wy (seed_state seed) < two32.
Proof. apply wf_seed_state. Qed.

Theorem streams_disjoint : forall seed S e1 s1 e2 s2 a b,
  seed < two32 -> s1 < S -> s2 < S ->
  e1 * S + s1 < 2 ^ 64 -> e2 * S + s2 < 2 ^ 64 ->
  (e1 <> e2 \/ s1 <> s2) ->
  a < 2 ^ 67 -> b < 2 ^ 67 ->
  xs (draws a (reseed seed e1 S s1)) <> xs (draws b (reseed seed e2 S s2)).
Proof.
  intros seed S e1 s1 e2 s2 a b Hseed H1 H2 Hw1 Hw2 Hne Ha Hb.
  rewrite !reseed_eq_iterate by assumption.
  rewrite <- !draws_add, !xs_draws by apply seed_weyl_lt.
  set (i1 := e1 * S + s1) in *. set (i2 := e2 * S + s2) in *.
  assert (Hi : i1 <> i2).
  { intro Heq. destruct (reseed_index_inj S e1 s1 e2 s2 H1 H2 Heq) as [-> ->]. destruct Hne; congruence. }
  pose proof (segments_disjoint i1 i2 a b Hi Ha Hb) as Hpos.
  assert (Hx : wfx (xs (seed_state seed))) by apply wf_seed_state.
  pose proof (init_state_nonzero seed Hseed) as Hnz.
  assert (HM : 2 ^ 64 * 2 ^ 67 < Mper) by (vm_compute; reflexivity).
  destruct (N.lt_total (a + i1 * 2 ^ 67) (b + i2 * 2 ^ 67)) as [Hlt|[Heq|Hgt]].
  - apply orbit_distinct; try assumption. nia.
  - exfalso. apply Hpos. lia.
  - intro Heq. symmetry in Heq. revert Heq. apply orbit_distinct; try assumption. nia.
Qed.
