
val negb : bool -> bool

type nat =
| O
| S of nat

val option_map : ('a1 -> 'a2) -> 'a1 option -> 'a2 option

val fst : ('a1 * 'a2) -> 'a1

val snd : ('a1 * 'a2) -> 'a2

val length : 'a1 list -> nat

val app : 'a1 list -> 'a1 list -> 'a1 list

type comparison =
| Eq
| Lt
| Gt

val compOpp : comparison -> comparison

val add : nat -> nat -> nat

val mul : nat -> nat -> nat

type positive =
| XI of positive
| XO of positive
| XH

type n =
| N0
| Npos of positive

type z =
| Z0
| Zpos of positive
| Zneg of positive

val eqb : bool -> bool -> bool

module Nat :
 sig
  val eqb : nat -> nat -> bool

  val leb : nat -> nat -> bool

  val ltb : nat -> nat -> bool
 end

module Pos :
 sig
  val succ : positive -> positive

  val add : positive -> positive -> positive

  val add_carry : positive -> positive -> positive

  val pred_double : positive -> positive

  val mul : positive -> positive -> positive

  val compare_cont : comparison -> positive -> positive -> comparison

  val compare : positive -> positive -> comparison

  val eqb : positive -> positive -> bool

  val iter_op : ('a1 -> 'a1 -> 'a1) -> positive -> 'a1 -> 'a1

  val to_nat : positive -> nat

  val of_succ_nat : nat -> positive
 end

module N :
 sig
  val add : n -> n -> n

  val mul : n -> n -> n

  val to_nat : n -> nat

  val of_nat : nat -> n
 end

module Z :
 sig
  val double : z -> z

  val succ_double : z -> z

  val pred_double : z -> z

  val pos_sub : positive -> positive -> z

  val add : z -> z -> z

  val opp : z -> z

  val sub : z -> z -> z

  val mul : z -> z -> z

  val compare : z -> z -> comparison

  val leb : z -> z -> bool

  val ltb : z -> z -> bool

  val eqb : z -> z -> bool

  val to_nat : z -> nat

  val of_nat : nat -> z

  val pos_div_eucl : positive -> z -> z * z

  val div_eucl : z -> z -> z * z

  val div : z -> z -> z

  val modulo : z -> z -> z
 end

val concat : 'a1 list list -> 'a1 list

val map : ('a1 -> 'a2) -> 'a1 list -> 'a2 list

val fold_left : ('a1 -> 'a2 -> 'a1) -> 'a2 list -> 'a1 -> 'a1

val existsb : ('a1 -> bool) -> 'a1 list -> bool

val forallb : ('a1 -> bool) -> 'a1 list -> bool

val combine : 'a1 list -> 'a2 list -> ('a1 * 'a2) list

val firstn : nat -> 'a1 list -> 'a1 list

val skipn : nat -> 'a1 list -> 'a1 list

val repeat : 'a1 -> nat -> 'a1 list

type ascii =
| Ascii of bool * bool * bool * bool * bool * bool * bool * bool

val zero : ascii

val one : ascii

val shift : bool -> ascii -> ascii

val eqb0 : ascii -> ascii -> bool

val ascii_of_pos : positive -> ascii

val ascii_of_N : n -> ascii

val ascii_of_nat : nat -> ascii

val n_of_digits : bool list -> n

val n_of_ascii : ascii -> n

val nat_of_ascii : ascii -> nat

type string =
| EmptyString
| String of ascii * string

val eqb1 : string -> string -> bool

val append : string -> string -> string

type flt = z

val sIGNBIT : z

val f_INF : z

val f_MAX : z

val f_ONE : z

val f_ZERO : z

val f_NINF : z

val valid_fltb : flt -> bool

val fmag : flt -> z

val fsign : flt -> z

val is_nan : flt -> bool

val is_inf : flt -> bool

val is_max : flt -> bool

val is_zero : flt -> bool

val copysign : z -> flt -> flt

val is_finite : flt -> bool

val fkey : flt -> z

val feqb : flt -> flt -> bool

val fleb : flt -> flt -> bool

val fltb : flt -> flt -> bool

type json =
| JNull
| JBool of bool
| JInt of z
| JFlt of flt
| JStr of string
| JArr of json list
| JObj of (string * json) list

val jfind : string -> (string * json) list -> json option

val jget : string -> json -> json option

val jcontains : string -> json -> bool

val wire : json -> json

val jfinite : json -> bool

val obind : 'a1 option -> ('a1 -> 'a2 option) -> 'a2 option

val dec_list : (json -> 'a1 option) -> json list -> 'a1 list option

val dec_arr : (json -> 'a1 option) -> json -> 'a1 list option

val dec_real : json -> flt option

val dec_int : json -> z option

val dec_str : json -> string option

type label = { l_name : string; l_ext : string }

val empty_label : label

val aT : ascii

val label_to_string : label -> string

val rsplit_at : string -> (string * string) option

val label_from_separator : string -> label

val enc_label : label -> json

val dec_label : json -> label option

val has_at : string -> bool

val wfb_label : label -> bool

type vec3 = (flt * flt) * flt

val vmap : (flt -> flt) -> vec3 -> vec3

val vall : (flt -> bool) -> vec3 -> bool

val enc_vec3 : vec3 -> json

val dec_vec3 : json -> vec3 option

type bbox = { b_lo : vec3; b_hi : vec3 }

val null_bbox : bbox

val inf_bbox : bbox

val bbox_nonnull : bbox -> bool

val v3_eqb : vec3 -> vec3 -> bool

val bbox_eqb : bbox -> bbox -> bool

val inf_to_max : flt -> flt

val max_to_inf : flt -> flt

val enc_bbox : bbox -> json

val dec_bbox : json -> bbox option

val get_bbox : json -> bbox option

val coord_ok : flt -> bool

val bbox_bits_eqb : bbox -> bbox -> bool

val wfb_bbox : bbox -> bool

type zorder =
| ZInvalid
| ZBackground
| ZMedia
| ZArray
| ZHole
| ZImplExt
| ZExterior

val zorder_char : zorder -> ascii

val zorder_eqb : zorder -> zorder -> bool

val to_zorder : ascii -> zorder

val dec_zorder : json -> zorder option

val uINT : z

val lBEGIN : z

val lTRUE : z

val lOR : z

val lAND : z

val lNOT : z

val tok_char : z -> ascii

val digit_char : z -> ascii

val dec_digits : nat -> z -> string

val z_to_string : z -> string

val tok_string : z -> string

val join_sp : string list -> string

val logic_to_string : z list -> string

val is_digit : ascii -> bool

val digit_val : ascii -> z

val tok_of_char : ascii -> z option

val s2l : string -> z list -> z -> bool -> z list option

val string_to_logic : string -> z list option

val wfb_token : z -> bool

type obz = { obz_inner : bbox; obz_outer : bbox; obz_tid : z }

type volume = { v_label : label; v_faces : z list; v_logic : z list;
                v_bbox : bbox; v_obz : obz option; v_flags : z;
                v_zorder : zorder }

val opt_entry : bool -> string -> json -> (string * json) list

val enc_volume : volume -> json

val dec_volume : json -> volume option

val is_nil : 'a1 list -> bool

val list_eqb : z list -> z list -> bool

val wfb_volume : volume -> bool

type surf_type =
| Spx
| Spy
| Spz
| Scxc
| Scyc
| Sczc
| Ssc
| Scx
| Scy
| Scz
| Sp
| Ss
| Skx
| Sky
| Skz
| Ssq
| Sgq
| Sinv

val all_surf_types : surf_type list

val surf_name : surf_type -> string

val surf_arity : surf_type -> nat

val find_surf : string -> surf_type list -> surf_type option

val to_surface_type : string -> surf_type option

val visit_supported : surf_type -> bool

val opt_map : ('a1 -> 'a2 option) -> 'a1 list -> 'a2 list option

type surface = { s_type : surf_type; s_data : flt list }

val enc_surfaces : surface list -> json

val unzip_surfaces :
  surf_type list -> z list -> flt list -> surface list option

val dec_surfaces : json -> surface list option

val wfb_surface : surface -> bool

type transform =
| NoTrans
| Transl of vec3
| Transf of vec3 * vec3 * vec3 * vec3

val v3list : vec3 -> flt list

val transform_data : transform -> flt list

val enc_transform : transform -> json

val transform_of_data : flt list -> transform option

val dec_transform : json -> transform option

val wfb_transform : transform -> bool

val make_transform : vec3 -> transform

type daughter = { d_univ : z; d_trans : transform }

type unit_in = { u_surfaces : surface list; u_volumes : volume list;
                 u_bbox : bbox; u_daughters : (z * daughter) list;
                 u_surface_labels : label list; u_label : label }

val set_label : (label * volume) -> volume

val enc_unit : unit_in -> json

val first_key : string list -> json -> json option

val emplace : z -> daughter -> (z * daughter) list -> (z * daughter) list

val chunk3 : flt list -> vec3 list

val dec_daughters_key :
  string -> json -> (z * daughter) list -> (z * daughter) list option

val dec_unit : json -> unit_in option

val keys_sorted : (z * daughter) list -> bool

val wfb_unit : unit_in -> bool

type rectarray = { r_grid : ((flt list * flt list) * flt list);
                   r_daughters : daughter list; r_label : label }

val rect_translation : daughter -> flt list option

val opt_concat : ('a1 -> 'a2 list option) -> 'a1 list -> 'a2 list option

val enc_rectarray : rectarray -> json option

val iNVALID_ID : z

val default_daughter : daughter

val list_set : 'a1 list -> nat -> 'a1 -> 'a1 list option

val place_daughters :
  z list -> daughter list -> daughter list -> daughter list option

val dec_grid : string -> json -> flt list option

val dec_rectarray : json -> rectarray option

val rect_daughter_ok : daughter -> bool

val grid_ok : flt list -> bool

val wfb_rectarray : rectarray -> bool

type tolerance = { t_rel : flt; t_abs : flt }

val tol_valid : tolerance -> bool

val enc_tolerance : tolerance -> json

val dec_tolerance : json -> tolerance option

val f_DEFAULT_TOL : flt

val default_tol : tolerance

val wfb_tolerance : tolerance -> bool

type universe =
| UUnit of unit_in
| URect of rectarray

type orange_input = { oi_universes : universe list; oi_tol : tolerance }

val nATIVE_UNITS : string

val enc_universe : universe -> json option

val enc_input : orange_input -> json option

val str_in : string -> string list -> bool

val dec_universe : json -> universe option

val dec_input : json -> orange_input option

val wfb_universe : universe -> bool

val wfb_input : orange_input -> bool

val dump_label : label -> json

val dump_vec3 : vec3 -> json

val dump_bbox : bbox -> json

val dump_transform : transform -> json

val zorder_value : zorder -> z

val dump_volume : volume -> json

val surf_index : surf_type -> surf_type list -> z -> z

val dump_surface : surface -> json

val dump_unit : unit_in -> json

val dump_rect : rectarray -> json

val dump_input : orange_input -> json

val run_rt :
  orange_input -> ((bool * json option) * json option) * json option

val run_dec : json -> json option

val run_consts : ((((((flt * flt) * string) * z) * z) * z) * json) * json
