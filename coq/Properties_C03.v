(** * C03 property theorems — statements only; proofs live in C03/*Proofs.v, C03/NavWitness.v.
    Each theorem is closed by [exact] and followed by [Print Assumptions]. *)
From Coq Require Import Reals List Bool Arith Sorting.Sorted.
From Celer Require Import Base.Num Base.NumR Base.NumF Base.Vec3 C12.Solver C12.Surfaces C12.Transforms
  C03.LogicWalk C03.NavModel C03.LogicWalkProofs C03.QuadricSign C03.NavProofs C03.NavWitness
  C03.UnitWalk C03.UnitAbs C03.UnitWalkProofs C03.UnitBridge C03.UnitWitness
  C03.Indexer C03.IndexerProofs C03.RectArray C03.RectArrayProofs C03.BIH C03.BIHProofs
  C03.LevelsProofs C03.NavLevelsProofs C03.NavLevelsWitness C03.UnitWalkBg C03.UnitWalkBgProofs C03.UnitBgWitness.
Import ListNotations.
Local Open Scope R_scope.

(** ** L1: logic walk *)

Theorem C03_complex_exit_is_first_exit :
  forall (inside : list bool -> bool) (s : list bool) (xs : list (nat * R)),
  StronglySorted (fun a b => snd a < snd b) xs ->
  (forall f b d, complex_walk inside s xs = Some (f, b, d) ->
     In (f, d) xs /\ inside (senses_upto d s xs) = false
     /\ (forall f' d', In (f', d') xs -> d' < d -> inside (senses_upto d' s xs) = true))
  /\ (forall f d, In (f, d) xs -> inside (senses_upto d s xs) = false ->
        exists f0 b0 d0, complex_walk inside s xs = Some (f0, b0, d0) /\ d0 <= d)
  /\ (complex_walk inside s xs = None <->
        forall f d, In (f, d) xs -> inside (senses_upto d s xs) = true).
Proof. exact complex_exit_is_first_exit. Qed.
Print Assumptions C03_complex_exit_is_first_exit.

Theorem C03_complex_walk_truncates :
  forall (inside : list bool -> bool) (s : list bool) (xs : list (nat * R)) (m : R),
  StronglySorted (fun a b => snd a <= snd b) xs ->
  complex_walk inside s (keep_upto m xs) =
  match complex_walk inside s xs with
  | Some (f, b, d) => if Rleb d m then Some (f, b, d) else None
  | None => None
  end.
Proof. exact complex_walk_truncates. Qed.
Print Assumptions C03_complex_walk_truncates.

Theorem C03_simple_exit_correct :
  forall (want s : list bool) (xs : list (nat * R)),
  conj_literals want s = true ->
  (forall f d, In (f, d) xs -> (f < length s)%nat) ->
  xs <> [] ->
  exists f d, simple_exit s xs = Some (f, nth f s false, d)
    /\ In (f, d) xs /\ (forall f' d', In (f', d') xs -> d <= d')
    /\ conj_literals want (flip_at f s) = false.
Proof. exact simple_exit_correct. Qed.
Print Assumptions C03_simple_exit_correct.

Theorem C03_background_enter_first :
  forall (enter : nat -> R -> option bool) (xs : list (nat * R)) f b d,
  background_enter enter xs = Some (f, b, d) <->
  exists k, nth_error xs k = Some (f, d) /\ enter f d = Some b
            /\ forall j f' d', (j < k)%nat -> nth_error xs j = Some (f', d') -> enter f' d' = None.
Proof. exact background_enter_first. Qed.
Print Assumptions C03_background_enter_first.

(** the reported step is exactly the maximal initial segment of the ray inside the
    current volume (single volume; hypotheses: non-tangent ray = strictly
    sorted positive crossings, senses flip once per crossing) *)
Theorem C03_nav_refines_locate_partial :
  forall (inside : list bool -> bool) (s0 : list bool) (xs : list (nat * R)) (sense_at : R -> list bool),
  StronglySorted (fun a b => snd a < snd b) xs ->
  (forall f d, In (f, d) xs -> 0 < d) ->
  inside s0 = true ->
  (forall t, 0 <= t -> (forall f d, In (f, d) xs -> d <> t) -> sense_at t = senses_upto t s0 xs) ->
  (forall f b d, complex_walk inside s0 xs = Some (f, b, d) ->
     (forall t, 0 <= t < d -> (forall f' d', In (f', d') xs -> d' <> t) -> inside (sense_at t) = true)
     /\ (forall t, d < t -> (forall f' d', In (f', d') xs -> d < d' -> t < d') -> inside (sense_at t) = false))
  /\ (complex_walk inside s0 xs = None ->
      forall t, 0 <= t -> (forall f' d', In (f', d') xs -> d' <> t) -> inside (sense_at t) = true).
Proof. exact nav_refines_locate_partial. Qed.
Print Assumptions C03_nav_refines_locate_partial.

Theorem C03_quadric_sign_between_roots :
  forall a h c t : R,
  a <> 0 -> 0 < h * h - a * c ->
  let D := sqrt (h * h - a * c) in
  let q := a * t * t + 2 * h * t + c in
  (a * q < 0 <-> - D < a * t + h < D)
  /\ (q = 0 <-> (a * t + h = D \/ a * t + h = - D))
  /\ (0 < a * q <-> (a * t + h < - D \/ D < a * t + h)).
Proof. exact quadric_sign_between_roots. Qed.
Print Assumptions C03_quadric_sign_between_roots.

(** ** L1.5: a whole unit partitioned by several volumes *)

(** cross_boundary (neighbour search / full scan with the crossed face's sense forced) returns
    the volume point location gives just past the crossing: [sprev]/[snew] are the true senses
    just before/after crossing surface [s] (only [s] changes), [oracle] is SenseCalculator AT
    the crossing point (arbitrary on [s]); partition hypotheses: before the crossing only
    [cur] contains the track, after it [cur] does not, at most one volume does, implicit
    (background / exterior-placeholder) volumes never do *)
Theorem C03_unit_cross_is_locate :
  forall (vols : list avol) (bg : option nat) (sprev snew oracle : nat -> bool) (cur s : nat) (b : bool),
  (forall x, x <> s -> is_face vols x -> snew x = sprev x) ->
  snew s = negb b ->
  (forall x, x <> s -> is_face vols x -> oracle x = snew x) ->
  (forall w, (w < length vols)%nat -> w <> cur -> contains vols w sprev = false) ->
  contains vols cur snew = false ->
  at_most_one vols snew -> implicit_empty vols snew ->
  a_unit_cross vols bg oracle cur (s, negb b) = a_locate vols bg snew.
Proof. exact a_cross_correct. Qed.
Print Assumptions C03_unit_cross_is_locate.

(** by induction over the crossings of a non-tangent ray: the sequence of (volume entered,
    crossing distance) pairs of the loop find_next_step; move_to_boundary; cross_boundary
    equals the specification's sequence of maximal segments (point location in every
    interval between crossings, equal neighbours merged) *)
Theorem C03_unit_trace_refines_locate :
  forall (vols : list avol) (bg : option nat) (S0 : list bool) (xs : list (nat * R))
         (oracle_at : R -> nat -> bool),
  StronglySorted (fun a b => snd a < snd b) xs ->
  (forall s d, In (s, d) xs -> (s < length S0)%nat) ->
  (forall i, NoDup (av_faces (a_vol vols i))) ->
  (forall s d, In (s, d) xs -> forall x, x <> s -> oracle_at d x = true_sense S0 xs d x) ->
  forall (t0 : R) (cur : nat),
  (forall s d, In (s, d) xs -> t0 < d) ->
  (forall x, oracle_at t0 x = nth x S0 false) ->
  spec_locate vols bg S0 xs t0 = Some cur ->
  all_good vols S0 xs ->
  nav_trace (S (length xs)) vols bg oracle_at xs t0 cur None
  = spec_trace (spec_locate vols bg S0 xs) (Some cur) (map snd xs).
Proof. exact nav_trace_refines_locate. Qed.
Print Assumptions C03_unit_trace_refines_locate.

(** the same with a BACKGROUND volume: when the current volume is implicit the tracker uses
    background_intersect (first crossing at which a neighbour of the crossed surface contains
    the bumped point); partition hypothesis: in every sense region along the ray AT MOST one
    volume contains the track (none = background), implicit volumes never do *)
Theorem C03_unit_trace_bg_refines_locate :
  forall (vols : list avol) (bg : option nat),
  (forall b, bg = Some b -> (b < length vols)%nat /\ av_implicit (a_vol vols b) = true) ->
  forall (S0 : list bool) (xs : list (nat * R)) (oracle_at oracle_bump : R -> nat -> bool),
  StronglySorted (fun a b => snd a < snd b) xs ->
  (forall s d, In (s, d) xs -> (s < length S0)%nat) ->
  (forall i, NoDup (av_faces (a_vol vols i))) ->
  (forall s d, In (s, d) xs -> forall x, x <> s -> oracle_at d x = true_sense S0 xs d x) ->
  (forall s d, In (s, d) xs -> forall x, oracle_bump d x = true_sense S0 xs d x) ->
  forall (t0 : R) (cur : nat),
  (forall s d, In (s, d) xs -> t0 < d) ->
  (forall x, oracle_at t0 x = nth x S0 false) ->
  spec_locate vols bg S0 xs t0 = Some cur ->
  all_good' vols S0 xs ->
  nav_trace_bg (S (length xs)) vols bg oracle_at oracle_bump xs t0 cur None
  = spec_trace (spec_locate vols bg S0 xs) (Some cur) (map snd xs).
Proof. exact nav_trace_bg_refines_locate. Qed.
Print Assumptions C03_unit_trace_bg_refines_locate.

(** the executable model's SimpleUnitTracker::cross_boundary / initialize ARE the abstract
    functions above (any numeric instance) *)
Theorem C03_bridge_unit_cross :
  forall (u : unit R) (pos : vec3 R) (cur : nat) (surf : nat * bool),
  wf_faces u ->
  unit_cross u pos cur surf = a_unit_cross (abs_unit u) (u_background u) (orc u pos) cur surf.
Proof. exact bridge_unit_cross. Qed.
Print Assumptions C03_bridge_unit_cross.

Theorem C03_bridge_unit_initialize :
  forall (u : unit R) (pos : vec3 R),
  off_surfaces u pos ->
  unit_initialize u pos = a_locate (abs_unit u) (u_background u) (orc u pos).
Proof. exact bridge_unit_initialize. Qed.
Print Assumptions C03_bridge_unit_initialize.

(** for a concrete unit of NavModel: the new volume after cross_boundary at [pos] is what
    initialisation (= the spec [locate] at this level) gives at any point [pos'] just past
    the crossing *)
Theorem C03_unit_cross_is_locate_past :
  forall (u : unit R) (pos pos' : vec3 R) (cur s : nat) (b : bool),
  wf_faces u ->
  off_surfaces u pos' ->
  (forall x, x <> s -> (exists i, In x (v_faces (get_vol u i))) -> orc u pos x = orc u pos' x) ->
  orc u pos' s = negb b ->
  let vols := abs_unit u in
  let sprev := fun x => if Nat.eqb x s then b else orc u pos' x in
  (forall w, (w < length vols)%nat -> w <> cur -> contains vols w sprev = false) ->
  contains vols cur (orc u pos') = false ->
  at_most_one vols (orc u pos') -> implicit_empty vols (orc u pos') ->
  unit_cross u pos cur (s, negb b) = unit_initialize u pos'.
Proof. exact unit_cross_is_locate_past. Qed.
Print Assumptions C03_unit_cross_is_locate_past.

(** ** index arithmetic: binary search, UniverseIndexer, Hyperslab / RaggedRight indexers *)

Theorem C03_bsearch_partition_point :
  forall (p : nat -> bool) (fuel first len : nat),
  (len <= fuel)%nat ->
  (forall i j, (first <= i)%nat -> (i <= j)%nat -> (j < first + len)%nat -> p j = true -> p i = true) ->
  let k := bsearch p fuel first len in
  (first <= k <= first + len)%nat
  /\ (forall i, (first <= i)%nat -> (i < k)%nat -> p i = true)
  /\ (forall i, (k <= i)%nat -> (i < first + len)%nat -> p i = false).
Proof. exact bsearch_spec. Qed.
Print Assumptions C03_bsearch_partition_point.

Theorem C03_indexer_local_of_global :
  forall (offs : list nat) (uni loc : nat),
  wf_offsets offs -> (uni < num_universes offs)%nat -> (loc < local_size offs uni)%nat ->
  local_id offs (global_id offs uni loc) = (uni, loc).
Proof. exact indexer_local_of_global. Qed.
Print Assumptions C03_indexer_local_of_global.

Theorem C03_indexer_global_of_local :
  forall (offs : list nat) (id : nat),
  wf_offsets offs -> (id < nth (length offs - 1) offs 0)%nat ->
  let '(uni, loc) := local_id offs id in
  global_id offs uni loc = id /\ (uni < num_universes offs)%nat
  /\ (nth uni offs 0 <= id < nth (S uni) offs 0)%nat /\ (loc < local_size offs uni)%nat.
Proof. exact indexer_global_of_local. Qed.
Print Assumptions C03_indexer_global_of_local.

Theorem C03_hyperslab_inverse :
  (forall d0 d1 d2 c0 c1 c2, (c1 < d1)%nat -> (c2 < d2)%nat ->
     hs_coords (d0, d1, d2) (hs_index (d0, d1, d2) (c0, c1, c2)) = (c0, c1, c2))
  /\ (forall d0 d1 d2 index, (0 < d1)%nat -> (0 < d2)%nat -> (index < d0 * d1 * d2)%nat ->
       let '(c0, c1, c2) := hs_coords (d0, d1, d2) index in
       hs_index (d0, d1, d2) (c0, c1, c2) = index /\ (c0 < d0)%nat /\ (c1 < d1)%nat /\ (c2 < d2)%nat).
Proof. exact (conj hs_coords_of_index hs_index_of_coords). Qed.
Print Assumptions C03_hyperslab_inverse.

Theorem C03_ragged_right_inverse :
  (forall s0 s1 s2 ax k, (ax < 3)%nat -> (k < nth ax [s0; s1; s2] 0)%nat ->
     rr_coords (rr_from_sizes s0 s1 s2) (rr_index (rr_from_sizes s0 s1 s2) ax k) = (ax, k))
  /\ (forall s0 s1 s2 index, (index < s0 + s1 + s2)%nat ->
       let '(ax, k) := rr_coords (rr_from_sizes s0 s1 s2) index in
       rr_index (rr_from_sizes s0 s1 s2) ax k = index /\ (ax < 3)%nat /\ (k < nth ax [s0; s1; s2] 0)%nat).
Proof. exact (conj rr_coords_of_index rr_index_of_coords). Qed.
Print Assumptions C03_ragged_right_inverse.

(** ** RectArrayTracker *)

Theorem C03_rect_initialize_spec :
  forall (r : rect R) (pos : vec3 R) (v : nat),
  wf_rect r ->
  (ra_initialize r pos = Some v <->
   exists c0 c1 c2, v = hs_index (ra_dims r) (c0, c1, c2)
     /\ (S c0 < length (ra_gx r))%nat /\ nth c0 (ra_gx r) 0 < vx pos < nth (S c0) (ra_gx r) 0
     /\ (S c1 < length (ra_gy r))%nat /\ nth c1 (ra_gy r) 0 < vy pos < nth (S c1) (ra_gy r) 0
     /\ (S c2 < length (ra_gz r))%nat /\ nth c2 (ra_gz r) 0 < vz pos < nth (S c2) (ra_gz r) 0).
Proof. exact ra_initialize_spec. Qed.
Print Assumptions C03_rect_initialize_spec.

Theorem C03_rect_cross_adjacent :
  forall (r : rect R) (c0 c1 c2 ax k : nat) (sense : bool),
  (c1 < snd (fst (ra_dims r)))%nat -> (c2 < snd (ra_dims r))%nat ->
  (ax < 3)%nat -> (k < length (ra_grid r ax))%nat ->
  let c := (c0, c1, c2) in
  let surf := rr_index (ra_offs r) ax k in
  let ca := coord c ax in
  ra_cross r (hs_index (ra_dims r) c) (surf, sense) =
  if (Nat.eqb ca 0 && negb sense) || (Nat.eqb ca (ra_dim r ax - 1) && sense) then None
  else Some (hs_index (ra_dims r) (set_coord c ax (if sense then S ca else pred ca)), (surf, sense)).
Proof. exact ra_cross_adjacent. Qed.
Print Assumptions C03_rect_cross_adjacent.

Theorem C03_rect_limited_truncates :
  forall (r : rect R) (vol : nat) (pos dir : vec3 R) (m : R),
  ra_intersect r vol pos dir (Some m) =
  match ra_intersect r vol pos dir None with
  | (Some d, Some s) => if Rleb d m then (Some d, Some s) else (Some m, None)
  | _ => (Some m, None)
  end.
Proof. exact ra_limited_truncates. Qed.
Print Assumptions C03_rect_limited_truncates.

(** ** BIH traversal *)

(** the flat-array state machine of BIHTraverser::operator() = the recursive traversal of the
    tree the arrays represent, then the infinite volumes; fuel 3 * #nodes + 1 suffices *)
Theorem C03_bih_traverse_refines :
  forall (t : bih_tree R) (p : vec3 R) (is_inside : nat -> bool) (b : btree R),
  repr t 0 None b ->
  (bsize b <= length (t_inner t) + length (t_leaves t))%nat ->
  bih_traverse t p is_inside =
  Some (match rec_traverse (btest t p is_inside) p b with
        | Some v => Some v
        | None => visit_inf_vols t is_inside
        end).
Proof. exact bih_traverse_refines. Qed.
Print Assumptions C03_bih_traverse_refines.

(** it returns a volume iff some volume in a leaf reached by the point's path passes the test
    (bbox contains the point and the predicate holds), and the returned volume is one *)
Theorem C03_bih_traverse_complete :
  forall (test : nat -> bool) (p : vec3 R) (b : btree R),
  (rec_traverse test p b = None <-> (forall v, reach p b v -> test v = false))
  /\ (forall w, rec_traverse test p b = Some w -> reach p b w /\ test w = true).
Proof. exact (fun test p b => conj (rec_traverse_none test p b) (rec_traverse_some test p b)). Qed.
Print Assumptions C03_bih_traverse_complete.

Theorem C03_bih_equals_linear_search :
  forall (bb : nat -> vec3 R * vec3 R) (test : nat -> bool) (p : vec3 R) (b : btree R),
  planes_sound bb b ->
  (forall v, In v (bvols b) -> test v = true -> strictly_inside bb v p) ->
  (forall v w, In v (bvols b) -> In w (bvols b) -> test v = true -> test w = true -> v = w) ->
  rec_traverse test p b = first_vol test (bvols b).
Proof. exact bih_equals_linear_search. Qed.
Print Assumptions C03_bih_equals_linear_search.

(** a point exactly on a bounding plane (closed bbox test vs strict plane test) is missed *)
Theorem C03_bih_boundary_point_missed :
  exists (test : nat -> bool) (p : vec3 R) (b : btree R) (bbx : nat -> vec3 R * vec3 R),
    bbox_contains (bbx 0%nat) p = true /\ test 0%nat = true
    /\ first_vol (fun v => bbox_contains (bbx v) p && test v) (bvols b) = Some 0%nat
    /\ rec_traverse (fun v => bbox_contains (bbx v) p && test v) p b = None.
Proof. exact bih_boundary_point_missed. Qed.
Print Assumptions C03_bih_boundary_point_missed.

(** ** L2: minimum over levels, shallowest level wins ties *)

Theorem C03_min_over_levels_correct :
  forall (r : nat -> isect R) (search : nat -> R -> isect R),
  (forall l m, search l m = truncate (r l) m) ->
  forall n r0 res lev,
  find_next_levels r0 search n = (res, lev) ->
  ((lev = 0%nat /\ res = r0)
   \/ ((1 <= lev <= n)%nat /\ res = r lev /\ i_surf (r lev) <> None /\ i_dist res < i_dist r0))
  /\ i_dist res <= i_dist r0
  /\ (forall l, (1 <= l <= n)%nat -> i_surf (r l) <> None -> i_dist res <= i_dist (r l))
  /\ (forall l, (1 <= l <= n)%nat -> (l < lev)%nat -> i_surf (r l) <> None -> i_dist res < i_dist (r l)).
Proof. exact min_over_levels_correct. Qed.
Print Assumptions C03_min_over_levels_correct.

(** ** L3: track-view state machine *)

Theorem C03_limited_search_truncates :
  forall (tol : tolerance R) (g : geometry R) (st : state R) (m : R),
  st_reentrant st = false ->
  let r l := level_intersect tol g st l None in
  (forall l m', truncate (level_intersect tol g st l (Some m')) m' = truncate (r l) m') ->
  i_surf (r 0%nat) <> None ->
  (forall l, (1 <= l <= level st)%nat -> i_surf (r l) <> None -> i_dist (r l) <> m) ->
  let unl := snd (find_next_step tol g st None) in
  let lim := snd (find_next_step tol g st (Some m)) in
  lim = if snd unl && Rleb (fst unl) m then (fst unl, true) else (m, false).
Proof. exact limited_search_truncates. Qed.
Print Assumptions C03_limited_search_truncates.

(** without the no-tie hypothesis the law fails for deeper levels (reproduced on the code) *)
Theorem C03_limited_search_tie_refuted :
  exists (r : nat -> isect R) (r0 : isect R) (m : R),
    i_surf r0 <> None /\
    fst (find_next_levels (truncate r0 m) (fun l x => truncate (r l) x) 1)
    <> truncate (fst (find_next_levels r0 (fun l x => truncate (r l) x) 1)) m.
Proof. exact limited_search_tie_refuted. Qed.
Print Assumptions C03_limited_search_tie_refuted.

Theorem C03_set_dir_reentrant_iff :
  forall (g : geometry R) (st : state R) (u n : vec3 R),
  global_normal g st (nrot_fixed st) = Some n ->
  let d0 := ls_dir (get_level st 0) in
  (st_reentrant (set_dir g st u) = negb (st_reentrant st))
  <-> ((0 <= dot n u /\ dot n d0 < 0) \/ (dot n u < 0 /\ 0 <= dot n d0)).
Proof. exact set_dir_reentrant_iff. Qed.
Print Assumptions C03_set_dir_reentrant_iff.

Theorem C03_set_dir_normal_from_surface_level :
  forall (g : geometry R) (st : state R) sl s sense,
  st_surf st = Some (sl, s, sense) ->
  global_normal g st (nrot_fixed st) =
  Some (rotate_up_from g st sl
          (surf_normal (get_surf (get_unit g (ls_univ (get_level st sl))) s) (ls_pos (get_level st sl)))).
Proof. exact global_normal_from_surface_level. Qed.
Print Assumptions C03_set_dir_normal_from_surface_level.

Theorem C03_set_dir_keeps_volumes :
  forall (g : geometry R) (st : state R) (u : vec3 R),
  map (fun l => (ls_univ l, ls_vol l, ls_pos l)) (st_levels (set_dir g st u))
  = map (fun l => (ls_univ l, ls_vol l, ls_pos l)) (st_levels st)
  /\ st_surf (set_dir g st u) = st_surf st.
Proof. exact set_dir_keeps_volumes. Qed.
Print Assumptions C03_set_dir_keeps_volumes.

Theorem C03_moves_keep_volumes :
  forall (st : state R) (d : R),
  map (fun l => (ls_univ l, ls_vol l)) (st_levels (move_internal st d))
  = map (fun l => (ls_univ l, ls_vol l)) (st_levels st)
  /\ map (fun l => (ls_univ l, ls_vol l)) (st_levels (move_to_boundary st))
  = map (fun l => (ls_univ l, ls_vol l)) (st_levels st).
Proof. exact moves_keep_volumes. Qed.
Print Assumptions C03_moves_keep_volumes.

(** move_internal(pos): same volume stack, level-0 position = pos, deeper positions = the
    parent's position through the daughter transform, surface and cached step cleared *)
Theorem C03_move_internal_pos_spec :
  forall (g : geometry R) (st : state R) (pos : vec3 R),
  st_levels st <> [] ->
  let st' := move_internal_pos g st pos in
  map (fun l => (ls_univ l, ls_vol l, ls_dir l)) (st_levels st')
  = map (fun l => (ls_univ l, ls_vol l, ls_dir l)) (st_levels st)
  /\ ls_pos (get_level st' 0) = pos
  /\ (forall k, (S k <= level st)%nat ->
       ls_pos (get_level st' (S k)) = x_down (level_xform g st k) (ls_pos (get_level st' k)))
  /\ st_surf st' = None /\ st_next_step st' = 0 /\ st_next_surf st' = None
  /\ st_reentrant st' = st_reentrant st.
Proof. exact move_internal_pos_spec. Qed.
Print Assumptions C03_move_internal_pos_spec.

Theorem C03_reentrant_protocol :
  forall (tol : tolerance R) (g : geometry R) (st : state R) (maxd : option R),
  st_reentrant st = true ->
  find_next_step tol g st maxd = (st, (0, true))
  /\ st_levels (cross_boundary g st) = st_levels st
  /\ st_surf (cross_boundary g st) = st_surf st
  /\ st_reentrant (cross_boundary g st) = false.
Proof. exact reentrant_protocol. Qed.
Print Assumptions C03_reentrant_protocol.

(** ** composition over nesting levels *)

(** levels_positions_consistent: the level stack is a [chain] -- every level's universe,
    local position and local direction are the daughter universe / transform of the volume
    the level above is in, applied to that level's position and direction.  Established by
    initialisation and preserved by every operation (cross_boundary: for a valid surface
    level, which the search + move_to_boundary guarantee: [find_next_level_valid]) *)
Theorem C03_levels_positions_consistent :
  forall g : geometry R,
  (forall pos dir, chain g (st_levels (initialize g pos dir)))
  /\ (forall tol st maxd, chain g (st_levels st) -> chain g (st_levels (fst (find_next_step tol g st maxd))))
  /\ (forall st d, chain g (st_levels st) -> chain g (st_levels (move_internal st d)))
  /\ (forall st, chain g (st_levels st) -> chain g (st_levels (move_to_boundary st)))
  /\ (forall st, chain g (st_levels st) ->
        (forall sl s b, st_surf st = Some (sl, s, b) -> (sl < length (st_levels st))%nat) ->
        chain g (st_levels (cross_boundary g st))).
Proof. exact levels_positions_consistent. Qed.
Print Assumptions C03_levels_positions_consistent.

Theorem C03_levels_positions_consistent_redirect :
  forall (g : geometry R) (st : state R),
  chain g (st_levels st) ->
  (forall u, chain g (st_levels (set_dir g st u)))
  /\ (forall p, chain g (st_levels (move_internal_pos g st p))).
Proof. exact levels_positions_consistent_redirect. Qed.
Print Assumptions C03_levels_positions_consistent_redirect.

(** one crossing at any nesting level: the stack after cross_boundary (levels above the
    surface level untouched, new volume at the surface level, daughters re-initialised) is
    the stack [locate] gives at a point [p'] just past the crossing *)
Theorem C03_nav_cross_refines_locate :
  forall (g : geometry R) (st : state R) (sl s : nat) (sense : bool) (p' : vec3 R) (vol : nat),
  st_reentrant st = false -> st_surf st = Some (sl, s, sense) ->
  (sl < length (st_levels st))%nat -> (S sl <= max_depth)%nat ->
  chain g (st_levels st) -> ls_univ (get_level st 0) = 0%nat ->
  let pre := firstn sl (st_levels st) in
  let b := get_level st sl in
  let u := get_unit g (ls_univ b) in
  let q := img_after g pre p' in
  tops_ok g pre p' ->
  unit_cross u (ls_pos b) (ls_vol b) (s, negb sense) = Some vol ->
  forall (Hinit : unit_initialize u q = Some vol)
         (Hbelow : match v_daughter (get_vol u vol) with
                   | None => True
                   | Some (duid, x) =>
                       exists rest, stackf (max_depth - S sl) g duid (x_down x q) = (rest, false)
                                    /\ stackf max_depth g duid (x_down x (ls_pos b)) = (rest, false)
                   end),
  locate g p' = Some (map stk (st_levels (cross_boundary g st)))
  /\ st_failed (cross_boundary g st) = st_failed st
  /\ st_surf (cross_boundary g st) = Some (sl, s, negb sense).
Proof. exact nav_cross_refines_locate. Qed.
Print Assumptions C03_nav_cross_refines_locate.

(** the multi-level loop find_next_step; move_to_boundary; cross_boundary from any state that
    satisfies the (self-carrying) invariant, e.g. a fresh initialisation: for every number of
    crossings the stacks reported after the crossings are the stacks [locate] gives just past
    them.  PARTIAL: the per-crossing hypotheses [crossing_ok] (parent volumes still contain
    the point = daughters inside parents; unit-level cross = unit-level locate, which is
    C03_unit_cross_is_locate_past; location below the surface level stable across the crossing
    point = no inter-level tie; nesting depth < 8) are assumed for the navigator's own states
    instead of being derived from a global "valid geometry + non-tangent ray" predicate, and
    the crossing DISTANCES are not part of this statement (per step they are the minimum over
    levels of the unit-level exits: C03_min_over_levels_correct, C03_complex_exit_is_first_exit) *)
Theorem C03_nav_refines_locate_multilevel_partial :
  forall (tol : tolerance R) (g : geometry R) (ps : list (vec3 R)) (st : state R),
  nav_inv g st -> run_ok tol g st ps ->
  map (locate g) ps = map Some (run_stacks tol g st (length ps)).
Proof. exact nav_refines_locate_multilevel_partial. Qed.
Print Assumptions C03_nav_refines_locate_multilevel_partial.

(** ** witnesses on the float instance *)

Theorem C03_set_dir_prefix_refuted :
  exists (g : geometry PrimFloat.float) (st : state PrimFloat.float) (u : vec3 PrimFloat.float),
    is_on_boundary st = true /\
    st_reentrant (set_dir g st u) <> st_reentrant (set_dir_prefix g st u).
Proof. exact set_dir_prefix_refuted. Qed.
Print Assumptions C03_set_dir_prefix_refuted.

Theorem C03_post_cross_reversal_refuted :
  exists (tol : tolerance PrimFloat.float) (g : geometry PrimFloat.float) (p d : vec3 PrimFloat.float) (ops : list (op PrimFloat.float)) (o : obs PrimFloat.float),
    let trace := run_ray tol g p d ops in
    forallb (fun x => o_ok x) trace = true
    /\ last_obs trace = Some o
    /\ o_onb o = false /\ o_failed o = false
    /\ locate g (o_pos o) <> None
    /\ locate g (o_pos o) <> Some (o_stack o).
Proof. exact post_cross_reversal_refuted. Qed.
Print Assumptions C03_post_cross_reversal_refuted.

(** the normal must be rotated up in DESCENDING level order (surface_level-1 .. 0) *)
Theorem C03_set_dir_ascending_refuted :
  exists (g : geometry PrimFloat.float) (st : state PrimFloat.float) (u : vec3 PrimFloat.float)
         (sl : nat) (n : vec3 PrimFloat.float),
    local_normal g st = Some (sl, n) /\ sl = 2%nat
    /\ global_normal g st (nrot_fixed st) = Some (rotate_up_from g st sl n)
    /\ sign_changes (rotate_up_from g st sl n) (ls_dir (get_level st 0)) u
       <> sign_changes (rotate_up_ascending g st 0 sl n) (ls_dir (get_level st 0)) u.
Proof. exact set_dir_ascending_refuted. Qed.
Print Assumptions C03_set_dir_ascending_refuted.
