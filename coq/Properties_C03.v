(** * C03 property theorems — statements only; proofs live in C03/*Proofs.v, C03/NavWitness.v.
    Each theorem is closed by [exact] and followed by [Print Assumptions]. *)
From Coq Require Import Reals List Bool Arith Sorting.Sorted.
From Celer Require Import Base.Num Base.NumR Base.NumF Base.Vec3 C12.Solver C12.Surfaces C12.Transforms
  C03.LogicWalk C03.NavModel C03.LogicWalkProofs C03.QuadricSign C03.NavProofs C03.NavWitness.
Import ListNotations.
Local Open Scope R_scope.

(** ** L1: logic walk *)

Theorem C03_complex_exit_is_first_exit :
  forall (inside : list bool -> bool) (s : list bool) (xs : list (nat * R)),
  StronglySorted (fun a b => snd a < snd b) xs ->
  (forall f b d, complex_walk inside s xs = Some (f, b, d) ->
     In (f, d) xs /\ inside (senses_upto d s xs) = false
     /\ (forall f' d', In (f', d') xs -> d' < d -> inside (senses_upto d' s xs) = true))
  /\ (forall f d, In (f, d) xs -> inside (senses_upto d s xs) = false ->
        exists f0 b0 d0, complex_walk inside s xs = Some (f0, b0, d0) /\ d0 <= d)
  /\ (complex_walk inside s xs = None <->
        forall f d, In (f, d) xs -> inside (senses_upto d s xs) = true).
Proof. exact complex_exit_is_first_exit. Qed.
Print Assumptions C03_complex_exit_is_first_exit.

Theorem C03_complex_walk_truncates :
  forall (inside : list bool -> bool) (s : list bool) (xs : list (nat * R)) (m : R),
  StronglySorted (fun a b => snd a <= snd b) xs ->
  complex_walk inside s (keep_upto m xs) =
  match complex_walk inside s xs with
  | Some (f, b, d) => if Rleb d m then Some (f, b, d) else None
  | None => None
  end.
Proof. exact complex_walk_truncates. Qed.
Print Assumptions C03_complex_walk_truncates.

Theorem C03_simple_exit_correct :
  forall (want s : list bool) (xs : list (nat * R)),
  conj_literals want s = true ->
  (forall f d, In (f, d) xs -> (f < length s)%nat) ->
  xs <> [] ->
  exists f d, simple_exit s xs = Some (f, nth f s false, d)
    /\ In (f, d) xs /\ (forall f' d', In (f', d') xs -> d <= d')
    /\ conj_literals want (flip_at f s) = false.
Proof. exact simple_exit_correct. Qed.
Print Assumptions C03_simple_exit_correct.

Theorem C03_background_enter_first :
  forall (enter : nat -> R -> option bool) (xs : list (nat * R)) f b d,
  background_enter enter xs = Some (f, b, d) <->
  exists k, nth_error xs k = Some (f, d) /\ enter f d = Some b
            /\ forall j f' d', (j < k)%nat -> nth_error xs j = Some (f', d') -> enter f' d' = None.
Proof. exact background_enter_first. Qed.
Print Assumptions C03_background_enter_first.

(** the reported step is exactly the maximal initial segment of the ray inside the
    current volume (single volume; hypotheses: non-tangent ray = strictly
    sorted positive crossings, senses flip once per crossing) *)
Theorem C03_nav_refines_locate_partial :
  forall (inside : list bool -> bool) (s0 : list bool) (xs : list (nat * R)) (sense_at : R -> list bool),
  StronglySorted (fun a b => snd a < snd b) xs ->
  (forall f d, In (f, d) xs -> 0 < d) ->
  inside s0 = true ->
  (forall t, 0 <= t -> (forall f d, In (f, d) xs -> d <> t) -> sense_at t = senses_upto t s0 xs) ->
  (forall f b d, complex_walk inside s0 xs = Some (f, b, d) ->
     (forall t, 0 <= t < d -> (forall f' d', In (f', d') xs -> d' <> t) -> inside (sense_at t) = true)
     /\ (forall t, d < t -> (forall f' d', In (f', d') xs -> d < d' -> t < d') -> inside (sense_at t) = false))
  /\ (complex_walk inside s0 xs = None ->
      forall t, 0 <= t -> (forall f' d', In (f', d') xs -> d' <> t) -> inside (sense_at t) = true).
Proof. exact nav_refines_locate_partial. Qed.
Print Assumptions C03_nav_refines_locate_partial.

Theorem C03_quadric_sign_between_roots :
  forall a h c t : R,
  a <> 0 -> 0 < h * h - a * c ->
  let D := sqrt (h * h - a * c) in
  let q := a * t * t + 2 * h * t + c in
  (a * q < 0 <-> - D < a * t + h < D)
  /\ (q = 0 <-> (a * t + h = D \/ a * t + h = - D))
  /\ (0 < a * q <-> (a * t + h < - D \/ D < a * t + h)).
Proof. exact quadric_sign_between_roots. Qed.
Print Assumptions C03_quadric_sign_between_roots.

(** ** L2: minimum over levels, shallowest level wins ties *)

Theorem C03_min_over_levels_correct :
  forall (r : nat -> isect R) (search : nat -> R -> isect R),
  (forall l m, search l m = truncate (r l) m) ->
  forall n r0 res lev,
  find_next_levels r0 search n = (res, lev) ->
  ((lev = 0%nat /\ res = r0)
   \/ ((1 <= lev <= n)%nat /\ res = r lev /\ i_surf (r lev) <> None /\ i_dist res < i_dist r0))
  /\ i_dist res <= i_dist r0
  /\ (forall l, (1 <= l <= n)%nat -> i_surf (r l) <> None -> i_dist res <= i_dist (r l))
  /\ (forall l, (1 <= l <= n)%nat -> (l < lev)%nat -> i_surf (r l) <> None -> i_dist res < i_dist (r l)).
Proof. exact min_over_levels_correct. Qed.
Print Assumptions C03_min_over_levels_correct.

(** ** L3: track-view state machine *)

Theorem C03_limited_search_truncates :
  forall (tol : tolerance R) (g : geometry R) (st : state R) (m : R),
  st_reentrant st = false ->
  let r l := level_intersect tol g st l None in
  (forall l m', truncate (level_intersect tol g st l (Some m')) m' = truncate (r l) m') ->
  i_surf (r 0%nat) <> None ->
  (forall l, (1 <= l <= level st)%nat -> i_surf (r l) <> None -> i_dist (r l) <> m) ->
  let unl := snd (find_next_step tol g st None) in
  let lim := snd (find_next_step tol g st (Some m)) in
  lim = if snd unl && Rleb (fst unl) m then (fst unl, true) else (m, false).
Proof. exact limited_search_truncates. Qed.
Print Assumptions C03_limited_search_truncates.

(** without the no-tie hypothesis the law fails for deeper levels (reproduced on the code) *)
Theorem C03_limited_search_tie_refuted :
  exists (r : nat -> isect R) (r0 : isect R) (m : R),
    i_surf r0 <> None /\
    fst (find_next_levels (truncate r0 m) (fun l x => truncate (r l) x) 1)
    <> truncate (fst (find_next_levels r0 (fun l x => truncate (r l) x) 1)) m.
Proof. exact limited_search_tie_refuted. Qed.
Print Assumptions C03_limited_search_tie_refuted.

Theorem C03_set_dir_reentrant_iff :
  forall (g : geometry R) (st : state R) (u n : vec3 R),
  global_normal g st (nrot_fixed st) = Some n ->
  let d0 := ls_dir (get_level st 0) in
  (st_reentrant (set_dir g st u) = negb (st_reentrant st))
  <-> ((0 <= dot n u /\ dot n d0 < 0) \/ (dot n u < 0 /\ 0 <= dot n d0)).
Proof. exact set_dir_reentrant_iff. Qed.
Print Assumptions C03_set_dir_reentrant_iff.

Theorem C03_set_dir_normal_from_surface_level :
  forall (g : geometry R) (st : state R) sl s sense,
  st_surf st = Some (sl, s, sense) ->
  global_normal g st (nrot_fixed st) =
  Some (rotate_up_from g st sl
          (surf_normal (get_surf (get_unit g (ls_univ (get_level st sl))) s) (ls_pos (get_level st sl)))).
Proof. exact global_normal_from_surface_level. Qed.
Print Assumptions C03_set_dir_normal_from_surface_level.

Theorem C03_set_dir_keeps_volumes :
  forall (g : geometry R) (st : state R) (u : vec3 R),
  map (fun l => (ls_univ l, ls_vol l, ls_pos l)) (st_levels (set_dir g st u))
  = map (fun l => (ls_univ l, ls_vol l, ls_pos l)) (st_levels st)
  /\ st_surf (set_dir g st u) = st_surf st.
Proof. exact set_dir_keeps_volumes. Qed.
Print Assumptions C03_set_dir_keeps_volumes.

Theorem C03_moves_keep_volumes :
  forall (st : state R) (d : R),
  map (fun l => (ls_univ l, ls_vol l)) (st_levels (move_internal st d))
  = map (fun l => (ls_univ l, ls_vol l)) (st_levels st)
  /\ map (fun l => (ls_univ l, ls_vol l)) (st_levels (move_to_boundary st))
  = map (fun l => (ls_univ l, ls_vol l)) (st_levels st).
Proof. exact moves_keep_volumes. Qed.
Print Assumptions C03_moves_keep_volumes.

Theorem C03_reentrant_protocol :
  forall (tol : tolerance R) (g : geometry R) (st : state R) (maxd : option R),
  st_reentrant st = true ->
  find_next_step tol g st maxd = (st, (0, true))
  /\ st_levels (cross_boundary g st) = st_levels st
  /\ st_surf (cross_boundary g st) = st_surf st
  /\ st_reentrant (cross_boundary g st) = false.
Proof. exact reentrant_protocol. Qed.
Print Assumptions C03_reentrant_protocol.

(** ** witnesses on the float instance *)

Theorem C03_set_dir_prefix_refuted :
  exists (g : geometry PrimFloat.float) (st : state PrimFloat.float) (u : vec3 PrimFloat.float),
    is_on_boundary st = true /\
    st_reentrant (set_dir g st u) <> st_reentrant (set_dir_prefix g st u).
Proof. exact set_dir_prefix_refuted. Qed.
Print Assumptions C03_set_dir_prefix_refuted.

Theorem C03_post_cross_reversal_refuted :
  exists (tol : tolerance PrimFloat.float) (g : geometry PrimFloat.float) (p d : vec3 PrimFloat.float) (ops : list (op PrimFloat.float)) (o : obs PrimFloat.float),
    let trace := run_ray tol g p d ops in
    forallb (fun x => o_ok x) trace = true
    /\ last_obs trace = Some o
    /\ o_onb o = false /\ o_failed o = false
    /\ locate g (o_pos o) <> None
    /\ locate g (o_pos o) <> Some (o_stack o).
Proof. exact post_cross_reversal_refuted. Qed.
Print Assumptions C03_post_cross_reversal_refuted.

(** the normal must be rotated up in DESCENDING level order (surface_level-1 .. 0) *)
Theorem C03_set_dir_ascending_refuted :
  exists (g : geometry PrimFloat.float) (st : state PrimFloat.float) (u : vec3 PrimFloat.float)
         (sl : nat) (n : vec3 PrimFloat.float),
    local_normal g st = Some (sl, n) /\ sl = 2%nat
    /\ global_normal g st (nrot_fixed st) = Some (rotate_up_from g st sl n)
    /\ sign_changes (rotate_up_from g st sl n) (ls_dir (get_level st 0)) u
       <> sign_changes (rotate_up_ascending g st 0 sl n) (ls_dir (get_level st 0)) u.
Proof. exact set_dir_ascending_refuted. Qed.
Print Assumptions C03_set_dir_ascending_refuted.
