(** * C01: energy ledger model (executable, no proofs).

    One-to-one Gallina mirrors, over [Num T], of every place where transport
    moves energy between a track, the local deposit and its secondaries:

    - [calc_mean_energy_loss]  celeritas/phys/PhysicsStepUtils.hh
    - [mean_eloss_cut]         global/alongstep/detail/MeanELoss.hh  (calc_eloss)
    - [fluct_eloss_cut]        global/alongstep/detail/FluctELoss.hh (calc_eloss,
                                with the sampled loss as an input)
    - [eloss_apply]            global/alongstep/detail/ElossApplier.hh
    - [interaction_apply]      phys/InteractionApplier.hh (+ CutoffView::apply)
    - [tracking_cut_apply]     phys/detail/TrackingCutExecutor.hh
    - [boundary_exit]          geo/detail/BoundaryExecutor.hh (exit branch)
    - [track_of_sec]           track/detail/ProcessSecondariesExecutor.hh

    and the ledger state machine ([run]) whose invariant is the property. *)
From Coq Require Import ZArith List Bool.
From Celer Require Import Base.Num.
Import ListNotations.
Local Open Scope num_scope.

(** TrackStatus (celeritas/Types.hh), in increasing enum order *)
Inductive status := Inactive | Initializing | Alive | Errored | Killed.

(** post-step action classes that the energy code distinguishes *)
Inductive paction := ABoundary | ARange | ADiscrete | ATrackingCut | AFailure | AOther | AModel | ANone.

Definition paction_eqb (a b : paction) : bool :=
  match a, b with
  | ABoundary, ABoundary | ARange, ARange | ADiscrete, ADiscrete
  | ATrackingCut, ATrackingCut | AFailure, AFailure | AOther, AOther | AModel, AModel | ANone, ANone => true
  | _, _ => false
  end.

(** Interaction::Action *)
Inductive iaction := IScattered | IAbsorbed | IUnchanged | IFailed.

Section Model.
  Context {T : Type} `{Num T}.

  (** ** Tracks and secondaries *)
  Record track := mkTrack { tE : T; tm : T; tanti : bool }.

  (** Secondary (phys/Secondary.hh) + the static data of its particle id.
      [svalid = false] is the cleared secondary [secondary = {}]. *)
  Record sec := mkSec { svalid : bool; spid : nat; sE : T; sm : T; santi : bool }.

  Definition null_sec : sec := mkSec false 0 n0 n0 false.

  (** the 2mc^2-per-positron convention of the property statement *)
  Definition weight (t : track) : T :=
    if tanti t then tE t + n2 * tm t else tE t.
  Definition weight_sec (s : sec) : T :=
    if svalid s then (if santi s then sE s + n2 * sm s else sE s) else n0.

  Fixpoint sumw (l : list track) : T :=
    match l with [] => n0 | t :: r => weight t + sumw r end.
  Fixpoint sumws (l : list sec) : T :=
    match l with [] => n0 | s :: r => weight_sec s + sumws r end.

  (** ProcessSecondariesExecutor: [ti.particle.energy = secondary.energy] *)
  Definition track_of_sec (s : sec) : track := mkTrack (sE s) (sm s) (santi s).
  Definition spawn (l : list sec) : list track :=
    map track_of_sec (filter svalid l).

  (** ** Energy-loss calculators *)

  (** calc_mean_energy_loss: [rate] = dE/dx at the pre-step energy,
      [lll] = linear_loss_limit, [range] = dedx_range saved by pre-step,
      [inv_range] = the InverseRangeCalculator *)
  Definition calc_mean_energy_loss (E step rate lll range : T) (inv_range : T -> T) : T :=
    let eloss := step * rate in
    if E * lll <=? eloss then
      (if step =? range then E else E - inv_range (range - step))
    else eloss.

  (** MeanELoss::calc_eloss given the mean loss *)
  Definition mean_eloss_cut (apply_cut : bool) (lowest E mean : T) : T :=
    if apply_cut && (E <? lowest) then E
    else if apply_cut && (E - mean <=? lowest) then E
    else mean.

  (** FluctELoss::calc_eloss given the mean loss, the sampled loss and
      the helper's mean_loss() *)
  Definition fluct_eloss_cut (apply_cut : bool) (lowest E mean sampled helper_mean : T) : T :=
    if apply_cut && (E <? lowest) then E
    else
      let eloss :=
        if mean <? E then
          (if E <=? sampled then (if apply_cut then E else helper_mean) else sampled)
        else mean in
      if apply_cut && (E - eloss <=? lowest) then E else eloss.

  (** ** One track slot as seen by the along-step / post-step executors *)
  Record slot := mkSlot {
    strk : track;
    sdep : T;              (* PhysicsStepView::energy_deposition *)
    sstat : status;
    spost : paction;       (* sim.post_step_action class *)
    ssecs : list sec       (* PhysicsStepView::secondaries *)
  }.

  Definition set_E (t : track) (e : T) : track := mkTrack e (tm t) (tanti t).
  Definition is_stopped (t : track) : bool := tE t =? n0.

  (** ElossApplier::operator(); [deposited] = eloss.calc_eloss(track, step,
      apply_cut) with apply_cut = (post_step_action != boundary) *)
  Definition eloss_apply (applicable has_at_rest : bool) (deposited : T) (s : slot) : slot :=
    if negb applicable || is_stopped (strk s) then s
    else
      let s1 :=
        if n0 <? deposited then
          mkSlot (set_E (strk s) (tE (strk s) - deposited)) (sdep s + deposited)
                 (sstat s) (spost s) (ssecs s)
        else s in
      if is_stopped (strk s1) then
        (if has_at_rest then mkSlot (strk s1) (sdep s1) (sstat s1) ADiscrete (ssecs s1)
         else mkSlot (strk s1) (sdep s1) Killed ARange (ssecs s1))
      else s1.

  Definition eloss_apply_cut (s : slot) : bool := negb (paction_eqb (spost s) ABoundary).

  (** Interaction (phys/Interaction.hh) *)
  Record interaction := mkInt { iact : iaction; iE : T; idep : T; isecs : list sec }.

  (** CutoffView::apply: [cut pid] = Some (production cut) for gamma/e-/e+ *)
  Definition cutoff_apply (cut : nat -> option T) (s : sec) : bool :=
    match cut (spid s) with Some c => sE s <? c | None => false end.

  (** the secondary loop of InteractionApplier: returns (deposition, secondaries) *)
  Fixpoint cut_secondaries (cut : nat -> option T) (dep : T) (l : list sec) : T * list sec :=
    match l with
    | [] => (dep, [])
    | s :: r =>
      if cutoff_apply cut s then
        let d1 := dep + sE s in
        let d2 := if santi s then d1 + n2 * sm s else d1 in
        let '(d, r') := cut_secondaries cut d2 r in (d, null_sec :: r')
      else
        let '(d, r') := cut_secondaries cut dep r in (d, s :: r')
    end.

  (** InteractionApplierBaseImpl::operator().  Returns the slot and whether the
      failure branch (step_limit({0, failure})) was taken. *)
  Definition interaction_apply (apply_post : bool) (cut : nat -> option T)
             (i : interaction) (s : slot) : slot * bool :=
    match iact i with
    | IFailed => (s, true)
    | IUnchanged => (s, false)
    | _ =>
      let t1 := set_E (strk s) (iE i) in
      let st1 := match iact i with IAbsorbed => Killed | _ => sstat s end in
      let '(d, secs) :=
        if apply_post then cut_secondaries cut (idep i) (isecs i) else (idep i, isecs i) in
      (mkSlot t1 (sdep s + d) st1 (spost s) secs, false)
    end.

  (** TrackingCutExecutor::operator() *)
  Definition tracking_cut_apply (s : slot) : slot :=
    let t := strk s in
    let deposited := if tanti t then tE t + n2 * tm t else tE t in
    mkSlot (set_E t (tE t - tE t)) (sdep s + deposited) Killed (spost s) (ssecs s).

  (** BoundaryExecutor, branch geo.is_outside(): energy untouched *)
  Definition boundary_exit (s : slot) : slot :=
    mkSlot (strk s) (sdep s) Killed (spost s) (ssecs s).

  (** ** The ledger: a history applied to a multiset of live tracks *)

  Inductive tevent :=
  | TEloss (applicable has_at_rest : bool) (deposited : T)
  | TInteract (apply_post : bool) (cut : nat -> option T) (i : interaction)
  | TCut
  | TExit.

  (** fresh slot at the start of a step (pre-step clears deposit/secondaries) *)
  Definition fresh_slot (t : track) : slot := mkSlot t n0 Alive AOther [].

  Definition slot_step (e : tevent) (s : slot) : slot :=
    match e with
    | TEloss a r d => eloss_apply a r d s
    | TInteract ap c i => fst (interaction_apply ap c i s)
    | TCut => tracking_cut_apply s
    | TExit => boundary_exit s
    end.

  (** result of one energy-moving action on one live track *)
  Record tresult := mkRes {
    rtrk : option track;   (* None: the track left the live set *)
    rdep : T;              (* added to the local deposit *)
    rsecs : list sec;      (* secondaries handed to ProcessSecondaries *)
    resc : T               (* weight carried out of the world *)
  }.

  Definition track_step (e : tevent) (t : track) : tresult :=
    let s := slot_step e (fresh_slot t) in
    match e with
    | TExit => mkRes None (sdep s) (ssecs s) (weight (strk s))
    | _ =>
      match sstat s with
      | Killed => mkRes None (sdep s) (ssecs s) n0
      | _ => mkRes (Some (strk s)) (sdep s) (ssecs s) n0
      end
    end.

  Record ledger := mkLedger {
    live : list track;
    pending : list sec;    (* secondaries waiting in PhysicsStepView *)
    deposited : T;
    escaped : T
  }.

  (** events: an action on the k-th live track, or extend-from-secondaries *)
  Inductive event := EvTrack (k : nat) (e : tevent) | EvSpawn.

  Fixpoint replace_nth {A} (k : nat) (l : list A) (x : option A) : list A :=
    match l, k with
    | [], _ => []
    | _ :: r, O => match x with Some y => y :: r | None => r end
    | a :: r, S k' => a :: replace_nth k' r x
    end.

  Definition apply_event (ev : event) (L : ledger) : ledger :=
    match ev with
    | EvSpawn => mkLedger (live L ++ spawn (pending L)) [] (deposited L) (escaped L)
    | EvTrack k e =>
      match nth_error (live L) k with
      | None => L
      | Some t =>
        let r := track_step e t in
        mkLedger (replace_nth k (live L) (rtrk r)) (pending L ++ rsecs r)
                 (deposited L + rdep r) (escaped L + resc r)
      end
    end.

  Fixpoint run (h : list event) (L : ledger) : ledger :=
    match h with [] => L | ev :: r => run r (apply_event ev L) end.

  Definition init_ledger (primaries : list track) : ledger := mkLedger primaries [] n0 n0.

  Definition ledger_total (L : ledger) : T :=
    deposited L + escaped L + sumw (live L) + sumws (pending L).

  (** ** One track followed through its own events *)
  Record tledger := mkTL {
    cur : option track; tdep : T; tsecs : list sec; tesc : T }.

  Definition tl_step (e : tevent) (L : tledger) : tledger :=
    match cur L with
    | None => L
    | Some t =>
      let r := track_step e t in
      mkTL (rtrk r) (tdep L + rdep r) (tsecs L ++ rsecs r) (tesc L + resc r)
    end.

  Fixpoint tl_run (h : list tevent) (L : tledger) : tledger :=
    match h with [] => L | e :: r => tl_run r (tl_step e L) end.

  Definition weight_opt (o : option track) : T :=
    match o with Some t => weight t | None => n0 end.

End Model.

Arguments track T : clear implicits.
Arguments sec T : clear implicits.
Arguments slot T : clear implicits.
Arguments interaction T : clear implicits.
Arguments tevent T : clear implicits.
Arguments event T : clear implicits.
Arguments ledger T : clear implicits.
Arguments tledger T : clear implicits.
Arguments tresult T : clear implicits.
