(** * C01: non-vacuity examples (a concrete cascade over R). *)
From Coq Require Import Reals ZArith List Bool Lra Lia.
From Celer Require Import Base.Num Base.NumR C01.LedgerModel C01.LedgerProofs.
Import ListNotations.
Local Open Scope R_scope.

(** particle ids: 0 gamma, 1 electron, 2 positron; production cuts 1, 2, 2 *)
Definition ex_cut (pid : nat) : option R :=
  match pid with 0%nat => Some 1 | 1%nat => Some 2 | 2%nat => Some 2 | _ => None end.

Definition ex_primaries : list (track R) := [mkTrack 20 1 false].

(** e- 18 MeV -> e- 10 + local 1 + e+ 1 (below its cut: 1 + 2*1 deposited) + gamma 4 *)
Definition ex_interaction : interaction R :=
  mkInt IScattered 10 1 [mkSec true 2 1 1 true; mkSec true 0 4 0 false].

Definition ex_history : list (event R) :=
  [ EvTrack 0 (TEloss true false 2);              (* continuous loss of 2 *)
    EvTrack 0 (TInteract true ex_cut ex_interaction);
    EvSpawn;                                      (* gamma becomes a track *)
    EvTrack 1 TExit;                              (* gamma leaves the world *)
    EvTrack 0 TCut ].                             (* e- killed by a tracking cut *)

Ltac rdec :=
  repeat match goal with
  | |- context [Rltb ?a ?b] =>
    first [ replace (Rltb a b) with true by (symmetry; apply Rltb_true; lra)
          | replace (Rltb a b) with false by (symmetry; apply Rltb_false; lra) ]
  | |- context [Rleb ?a ?b] =>
    first [ replace (Rleb a b) with true by (symmetry; apply Rleb_true; lra)
          | replace (Rleb a b) with false by (symmetry; apply Rleb_false; lra) ]
  | |- context [Reqb ?a ?b] =>
    first [ replace (Reqb a b) with true by (symmetry; apply Reqb_true; lra)
          | replace (Reqb a b) with false by (symmetry; apply Reqb_false; lra) ]
  end.

Ltac open_step :=
  unfold track_step, slot_step, eloss_apply, interaction_apply, tracking_cut_apply,
    boundary_exit, fresh_slot, is_stopped, set_E, ex_interaction;
  cbn [strk sdep sstat spost ssecs tE tm tanti negb orb andb fst snd iact iE idep isecs
       cut_secondaries cutoff_apply ex_cut svalid spid sE sm santi];
  numR; rdec;
  cbn [strk sdep sstat spost ssecs tE tm tanti negb orb andb fst snd iact iE idep isecs
       cut_secondaries cutoff_apply ex_cut svalid spid sE sm santi];
  numR; rdec.

Lemma ex_step1 :
  track_step (TEloss true false 2) (mkTrack 20 1 false)
  = mkRes (Some (mkTrack (20 - 2) 1 false)) (0 + 2) [] 0.
Proof. open_step. reflexivity. Qed.

Lemma ex_step2 :
  track_step (TInteract true ex_cut ex_interaction) (mkTrack (20 - 2) 1 false)
  = mkRes (Some (mkTrack 10 1 false)) (0 + (1 + 1 + 2 * 1))
          [null_sec; mkSec true 0 4 0 false] 0.
Proof. open_step. reflexivity. Qed.

Lemma ex_step4 :
  track_step TExit (mkTrack 4 0 false) = mkRes None 0 [] 4.
Proof. open_step. reflexivity. Qed.

Lemma ex_step5 :
  track_step TCut (mkTrack 10 1 false) = mkRes None (0 + 10) [] 0.
Proof. open_step. reflexivity. Qed.

Definition ex_final : ledger R := run ex_history (init_ledger ex_primaries).

Ltac lsimp :=
  cbn [run apply_event nth_error live pending deposited escaped rtrk rdep rsecs resc
       replace_nth app init_ledger].

Lemma ex_final_eq :
  ex_final = mkLedger [] [] (0 + (0 + 2) + (0 + (1 + 1 + 2 * 1)) + 0 + (0 + 10)) (0 + 0 + 0 + 4 + 0).
Proof.
  unfold ex_final, ex_history, ex_primaries. lsimp.
  rewrite ex_step1. lsimp. rewrite ex_step2. lsimp.
  unfold spawn, track_of_sec, null_sec. cbn [filter map svalid sE sm santi app]. lsimp.
  rewrite ex_step4. lsimp. rewrite ex_step5. lsimp. numR. reflexivity.
Qed.

Lemma example_history_nonvacuous :
  history_ok ex_history (init_ledger ex_primaries)
  /\ let L := run ex_history (init_ledger ex_primaries) in
     live L = [] /\ pending L = [] /\ 0 < deposited L /\ 0 < escaped L
     /\ sumw ex_primaries = deposited L + escaped L.
Proof.
  split.
  - unfold ex_history, ex_primaries. cbn [history_ok init_ledger live nth_error].
    split; [cbn; intros; discriminate|].
    lsimp. rewrite ex_step1. lsimp. cbn [history_ok live nth_error].
    split.
    { cbn [tevent_ok]. unfold interaction_conserves, ex_interaction.
      cbn [isecs iact iE idep]. split.
      - repeat constructor.
      - unfold weight, weight_sec, set_E. cbn. numR. lra. }
    lsimp. rewrite ex_step2. lsimp. cbn [history_ok]. split; [exact I|].
    lsimp. unfold spawn, track_of_sec, null_sec. cbn [filter map svalid sE sm santi app].
    cbn [history_ok live nth_error tevent_ok]. split; [exact I|].
    repeat split; exact I.
  - change (run ex_history (init_ledger ex_primaries)) with ex_final. rewrite ex_final_eq.
    cbn [live pending deposited escaped]. unfold ex_primaries, weight. cbn [sumw tanti tE].
    unfold weight. cbn [tanti tE]. numR. repeat split; try reflexivity; lra.
Qed.
