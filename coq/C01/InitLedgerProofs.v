(** * C01 x C02: energy is conserved by the concrete slot / initializer-stack machine. *)
From Coq Require Import Reals List Arith Bool PeanoNat Lia Lra Permutation.
From Celer Require Import Base.Num Base.NumR C01.LedgerModel C01.LedgerProofs.
From Celer Require Import C02.TrackInit C02.ListLemmas C02.InvA C02.InvA2 C02.InvB C02.TrackInitProofs.
From Celer Require Import C01.InitLedger.
Import ListNotations.
Local Open Scope R_scope.

Notation estateR := (estate R).
Notation bookR := (book R).

(** ** the book *)

Lemma key_eqb_refl k : key_eqb k k = true.
Proof. unfold key_eqb. rewrite !Nat.eqb_refl. reflexivity. Qed.

Lemma key_eqb_eq a b : key_eqb a b = true -> a = b.
Proof.
  unfold key_eqb. intros E. apply andb_true_iff in E. destruct E as [E1 E2].
  apply Nat.eqb_eq in E1. apply Nat.eqb_eq in E2. destruct a, b; cbn in *; congruence.
Qed.

Lemma bget_cons_same (b : bookR) k v : bget ((k, v) :: b) k = v.
Proof. unfold bget. cbn [lookup]. rewrite key_eqb_refl. reflexivity. Qed.

Lemma bget_cons_other (b : bookR) k k' v : k' <> k -> bget ((k', v) :: b) k = bget b k.
Proof.
  intros Hn. unfold bget. cbn [lookup]. destruct (key_eqb k' k) eqn:E; [|reflexivity].
  apply key_eqb_eq in E. contradiction.
Qed.

Lemma tracks_w_app (b : bookR) l1 l2 : tracks_w b (l1 ++ l2) = tracks_w b l1 + tracks_w b l2.
Proof. induction l1 as [|t l IH]; cbn [tracks_w app]; numR; [lra|rewrite IH; lra]. Qed.

Lemma tracks_w_perm (b : bookR) l1 l2 : Permutation l1 l2 -> tracks_w b l1 = tracks_w b l2.
Proof.
  induction 1; cbn [tracks_w].
  - reflexivity.
  - rewrite IHPermutation. reflexivity.
  - numR. lra.
  - congruence.
Qed.

Lemma tracks_w_cons_notin (b : bookR) k v l :
  ~ In k (map tkey l) -> tracks_w ((k, v) :: b) l = tracks_w b l.
Proof.
  induction l as [|t l IH]; intros Hn; [reflexivity|]. cbn [tracks_w].
  rewrite bget_cons_other by (intros ->; apply Hn; left; reflexivity).
  rewrite IH by (intros Hc; apply Hn; right; exact Hc). reflexivity.
Qed.

Lemma tracks_w_app_notin (u b : bookR) l :
  (forall k, In k (map fst u) -> In k (map tkey l) -> False) ->
  tracks_w (u ++ b) l = tracks_w b l.
Proof.
  induction u as [|[k v] u IH]; intros Hd; [reflexivity|]. cbn [app].
  rewrite tracks_w_cons_notin by (intros Hc; apply (Hd k); [left; reflexivity|exact Hc]).
  apply IH. intros k' H1 H2. apply (Hd k'); [right; exact H1|exact H2].
Qed.

Lemma map_fst_combine {A B} (a : list A) (c : list B) :
  length a = length c -> map fst (combine a c) = a.
Proof.
  revert c. induction a as [|x a IH]; intros [|y c] Hl; cbn in *; try discriminate; [reflexivity|].
  f_equal. apply IH. lia.
Qed.

Lemma in_map_fst_combine {A B} (a : list A) (c : list B) k :
  In k (map fst (combine a c)) -> In k a.
Proof.
  revert c. induction a as [|x a IH]; intros [|y c] Hin; cbn in *; try contradiction.
  destruct Hin as [->|Hin]; [left; reflexivity|right; eapply IH; exact Hin].
Qed.

(** freshly issued tracks read back exactly the payloads written for them *)
Lemma tracks_w_combine (b : bookR) ts (vs : list (track R)) :
  NoDup (map tkey ts) -> length ts = length vs ->
  tracks_w (combine (map tkey ts) vs ++ b) ts = sumw vs.
Proof.
  revert vs. induction ts as [|t ts IH]; intros [|v vs] Hnd Hl; cbn in Hl; try discriminate.
  - reflexivity.
  - cbn [map combine app tracks_w sumw]. rewrite bget_cons_same.
    inversion Hnd as [|? ? Hx Hr]; subst.
    rewrite tracks_w_cons_notin by exact Hx. rewrite IH by (auto; lia). reflexivity.
Qed.

(** ** slots and statuses *)

Lemma carrier_active sls :
  Forall (fun sl => sst sl <> Killed) sls -> map str (filter carrier sls) = active_tracks sls.
Proof.
  intros Hf. unfold active_tracks. f_equal. apply filter_ext_in. intros sl Hin.
  rewrite Forall_forall in Hf. specialize (Hf sl Hin).
  unfold carrier, is_active, is_inactive. destruct (sst sl); cbn; try reflexivity. congruence.
Qed.

Lemma carrier_survivors sls :
  Forall (fun sl => status_ok Interacted (sst sl)) sls ->
  map str (filter carrier sls) = survivors sls.
Proof.
  intros Hf. unfold survivors. f_equal. apply filter_ext_in. intros sl Hin.
  rewrite Forall_forall in Hf. specialize (Hf sl Hin). cbn in Hf.
  unfold carrier. destruct Hf as [-> | [-> | ->]]; reflexivity.
Qed.

Lemma status_ok_not_killed p sls :
  p = Ready \/ p = Inited ->
  Forall (fun sl => status_ok p (sst sl)) sls -> Forall (fun sl => sst sl <> Killed) sls.
Proof.
  intros Hp Hf. eapply Forall_impl; [|exact Hf]. intros sl Hs.
  destruct Hp as [-> | ->]; cbn in Hs; [|exact Hs].
  destruct Hs as [-> | [-> | ->]]; discriminate.
Qed.

(** phase after a successful step *)
Lemma step_phase cfg s o s' : step cfg s o = Ok s' ->
  ph s <> Failed \/ o = Reset.
Proof.
  unfold step. destruct o; try (right; reflexivity);
    (destruct (phase_eqb (ph s) Failed) eqn:E; [discriminate|]); intros _; left; intros Hc;
    rewrite Hc in E; discriminate.
Qed.

Lemma insert_phase cfg s ps s' : insert_primaries cfg s ps = Ok s' -> ph s' = Ready.
Proof.
  unfold insert_primaries. destruct (negb _); [discriminate|]. destruct (negb _); [discriminate|].
  destruct (_ <? _); [discriminate|]. destruct (process_primaries _ _ _ _). intros Hs.
  inversion Hs; subst. reflexivity.
Qed.

Lemma initialize_phase cfg s s' : initialize_tracks cfg s = Ok s' -> ph s = Ready /\ ph s' = Inited.
Proof.
  unfold initialize_tracks. destruct (phase_eqb (ph s) Ready) eqn:E; cbn [negb]; [|discriminate].
  apply phase_eqb_eq in E. destruct (_ =? 0); intros Hs; inversion Hs; subst; auto.
Qed.

Lemma extend_sec_phase cfg s s' :
  extend_from_secondaries cfg s = Ok s' -> ph s = Interacted /\ ph s' = Ready.
Proof.
  unfold extend_from_secondaries. destruct (phase_eqb (ph s) Interacted) eqn:E; cbn [negb]; [|discriminate].
  apply phase_eqb_eq in E. destruct (exclusive_scan _ _). destruct (_ <? _); [discriminate|].
  destruct (proc_all _ _ _ _ _ _ _ _). intros Hs. inversion Hs; subst; auto.
Qed.

Lemma skipn_length_app {A} (a c : list A) : skipn (length a) (a ++ c) = c.
Proof. induction a; cbn; auto. Qed.

(** ** the invariant *)

Fixpoint aligned (sls : list slot) (pend : list (list (sec R))) : Prop :=
  match sls with
  | [] => True
  | sl :: r => (is_inactive sl = false -> ssecs sl = map kind_of (hd [] pend))
               /\ aligned r (tl pend)
  end.

Definition EInv (cfg : config) (E : estateR) : Prop :=
  InvA cfg (es E) /\ InvB cfg (es E) /\ ph (es E) <> Failed /\
  etotal E = ein E /\
  (ph (es E) = Interacted -> aligned (slots (es E)) (epend E)).

(** total weight in flight as a sum over [all_tracks] when no slot is Killed *)
Lemma carried_all_tracks (b : bookR) s :
  Forall (fun sl => sst sl <> Killed) (slots s) ->
  slots_w b (slots s) + tracks_w b (stack s) = tracks_w b (all_tracks s).
Proof.
  intros Hf. unfold slots_w, all_tracks. rewrite carrier_active by exact Hf.
  rewrite tracks_w_app. reflexivity.
Qed.

Lemma invA_live cfg s : InvA cfg s -> ph s <> Failed -> InvA_live cfg (ph s) s.
Proof. intros (_ & H & _) Hp. exact (H Hp). Qed.

(** ** InsertPrimaries *)
Lemma EInv_insert cfg (E E' : estateR) ps :
  EInv cfg E -> estep cfg E (EInsert ps) = Some E' -> EInv cfg E'.
Proof.
  intros (HA & HB & Hph & Htot & Hal) Hs. cbn [estep] in Hs.
  destruct (step cfg (es E) (InsertPrimaries (map fst ps))) as [s'| |] eqn:Hstep; try discriminate.
  inversion Hs; subst E'; clear Hs.
  pose proof (InvA_step cfg (es E) (InsertPrimaries (map fst ps)) HA) as HA'.
  pose proof (Inv_step cfg (es E) (InsertPrimaries (map fst ps)) HA HB) as HB'.
  rewrite Hstep in HA', HB'.
  unfold step in Hstep. destruct (phase_eqb (ph (es E)) Failed); [discriminate|].
  pose proof (insert_phase _ _ _ _ Hstep) as Hph'.
  destruct (insert_primaries_stack cfg (es E) (map fst ps) s' HA Hstep) as (E1 & E2 & _ & _ & Hready).
  unfold EInv. cbn [es ebook epend edep eesc ein].
  split; [exact HA'|]. split; [exact HB'|]. split; [rewrite Hph'; discriminate|].
  split; [|rewrite Hph'; discriminate].
  set (issued := fst (issue_primaries (map fst ps) (next_id (es E)))) in *.
  assert (Hlen : length issued = length (map snd ps)).
  { unfold issued. rewrite issue_primaries_length, !map_length. reflexivity. }
  rewrite E2, skipn_length_app.
  destruct (HB' ltac:(rewrite Hph'; discriminate)) as [Hnd _].
  unfold all_tracks in Hnd. rewrite E1, E2, app_assoc, map_app in Hnd.
  apply NoDup_app_elim in Hnd. destruct Hnd as (_ & Hnd2 & Hdis).
  pose proof (invA_live cfg (es E) HA Hph) as (_ & _ & _ & Hst).
  assert (Hnk : Forall (fun sl => sst sl <> Killed) (slots (es E))).
  { eapply status_ok_not_killed; [left; exact Hready|exact Hst]. }
  unfold etotal in *. cbn [es ebook epend edep eesc ein]. rewrite Hph'. rewrite Hready in Htot.
  cbn [phase_eqb] in *. rewrite E1, E2.
  set (new := combine (map tkey issued) (map snd ps)).
  assert (Hkeys : forall k, In k (map fst new) -> In k (map tkey issued)).
  { intros k Hk. eapply in_map_fst_combine. exact Hk. }
  rewrite tracks_w_app. unfold slots_w.
  rewrite (tracks_w_app_notin new (ebook E) (map str (filter carrier (slots (es E))))).
  2:{ intros k H1 H2. apply (Hdis k); [|apply Hkeys; exact H1].
      rewrite carrier_active in H2 by exact Hnk. rewrite map_app. apply in_or_app. left. exact H2. }
  rewrite (tracks_w_app_notin new (ebook E) (stack (es E))).
  2:{ intros k H1 H2. apply (Hdis k); [|apply Hkeys; exact H1].
      rewrite map_app. apply in_or_app. right. exact H2. }
  unfold new. rewrite tracks_w_combine by (auto; exact Hnd2).
  unfold slots_w in Htot. numR. lra.
Qed.


(** ** InitializeTracks, ExtendFromPrimaries, Reseed: the records are only moved *)
Lemma etotal_moved cfg (E : estateR) s' :
  EInv cfg E -> InvA cfg s' -> InvB cfg s' ->
  (ph (es E) = Ready) -> (ph s' = Ready \/ ph s' = Inited) ->
  Permutation (all_tracks s') (all_tracks (es E)) ->
  EInv cfg (with_state E s').
Proof.
  intros (HA & HB & Hph & Htot & Hal) HA' HB' Hready Hph' Hperm.
  assert (Hnf : ph s' <> Failed) by (destruct Hph' as [-> | ->]; discriminate).
  unfold EInv, with_state. cbn [es ebook epend edep eesc ein].
  split; [exact HA'|]. split; [exact HB'|]. split; [exact Hnf|].
  split; [|intros Hc; destruct Hph' as [Hp|Hp]; rewrite Hp in Hc; discriminate].
  pose proof (invA_live cfg (es E) HA Hph) as (_ & _ & _ & Hst).
  pose proof (invA_live cfg s' HA' Hnf) as (_ & _ & _ & Hst').
  assert (Hnk : Forall (fun sl => sst sl <> Killed) (slots (es E))).
  { eapply status_ok_not_killed; [left; exact Hready|exact Hst]. }
  assert (Hnk' : Forall (fun sl => sst sl <> Killed) (slots s')).
  { eapply status_ok_not_killed; [exact Hph'|exact Hst']. }
  unfold etotal in *. cbn [es ebook epend edep eesc ein].
  rewrite Hready in Htot. cbn [phase_eqb] in Htot.
  replace (phase_eqb (ph s') Interacted) with false by (destruct Hph' as [-> | ->]; reflexivity).
  pose proof (carried_all_tracks (ebook E) s' Hnk') as C1.
  pose proof (carried_all_tracks (ebook E) (es E) Hnk) as C2.
  rewrite (tracks_w_perm _ _ _ Hperm) in C1. numR. lra.
Qed.

Lemma EInv_init cfg (E E' : estateR) :
  EInv cfg E -> estep cfg E EInit = Some E' -> EInv cfg E'.
Proof.
  intros HI Hs. pose proof HI as (HA & HB & Hph & _). cbn [estep] in Hs.
  destruct (step cfg (es E) InitializeTracks) as [s'| |] eqn:Hstep; try discriminate.
  inversion Hs; subst E'; clear Hs.
  pose proof (InvA_step cfg (es E) InitializeTracks HA) as HA'.
  pose proof (Inv_step cfg (es E) InitializeTracks HA HB) as HB'.
  rewrite Hstep in HA', HB'.
  unfold step in Hstep. destruct (phase_eqb (ph (es E)) Failed); [discriminate|].
  destruct (initialize_phase _ _ _ Hstep) as [P1 P2].
  destruct (initialize_tracks_perm cfg (es E) s' HA Hstep) as (Hperm & _).
  apply etotal_moved; auto.
Qed.

Lemma extend_prim_facts cfg s s' : extend_from_primaries cfg s = Ok s' ->
  ph s = Ready /\ ph s' = Ready /\ slots s' = slots s /\ stack s' = stack s.
Proof.
  unfold extend_from_primaries. destruct (phase_eqb (ph s) Ready) eqn:E; cbn [negb]; [|discriminate].
  apply phase_eqb_eq in E. intros Hs; inversion Hs; subst; cbn; auto.
Qed.

Lemma reseed_facts cfg s s' : reseed cfg s = Ok s' ->
  ph s = Ready /\ ph s' = Ready /\ slots s' = slots s /\ stack s' = stack s.
Proof.
  unfold reseed. destruct (phase_eqb (ph s) Ready) eqn:E; cbn [negb]; [|discriminate].
  apply phase_eqb_eq in E. destruct (negb (drained s)); [discriminate|].
  intros Hs; inversion Hs; subst; cbn; auto.
Qed.

Lemma EInv_extend_prim cfg (E E' : estateR) :
  EInv cfg E -> estep cfg E EExtendPrim = Some E' -> EInv cfg E'.
Proof.
  intros HI Hs. pose proof HI as (HA & HB & Hph & _). cbn [estep] in Hs.
  destruct (step cfg (es E) ExtendFromPrimaries) as [s'| |] eqn:Hstep; try discriminate.
  inversion Hs; subst E'; clear Hs.
  pose proof (InvA_step cfg (es E) ExtendFromPrimaries HA) as HA'.
  pose proof (Inv_step cfg (es E) ExtendFromPrimaries HA HB) as HB'.
  rewrite Hstep in HA', HB'.
  unfold step in Hstep. destruct (phase_eqb (ph (es E)) Failed); [discriminate|].
  destruct (extend_prim_facts _ _ _ Hstep) as (P1 & P2 & P3 & P4).
  apply etotal_moved; auto. unfold all_tracks. rewrite P3, P4. reflexivity.
Qed.

Lemma EInv_reseed cfg (E E' : estateR) :
  EInv cfg E -> estep cfg E EReseed = Some E' -> EInv cfg E'.
Proof.
  intros HI Hs. pose proof HI as (HA & HB & Hph & _). cbn [estep] in Hs.
  destruct (step cfg (es E) Reseed) as [s'| |] eqn:Hstep; try discriminate.
  inversion Hs; subst E'; clear Hs.
  pose proof (InvA_step cfg (es E) Reseed HA) as HA'.
  pose proof (Inv_step cfg (es E) Reseed HA HB) as HB'.
  rewrite Hstep in HA', HB'.
  unfold step in Hstep. destruct (phase_eqb (ph (es E)) Failed); [discriminate|].
  destruct (reseed_facts _ _ _ Hstep) as (P1 & P2 & P3 & P4).
  apply etotal_moved; auto. unfold all_tracks. rewrite P3, P4. reflexivity.
Qed.


(** ** PhysicsOutcome *)

(** the hypotheses of C01's per-track theorem, for the track in every slot that
    is stepped (interactions conserve energy -- C04; a stopped antiparticle has
    an at-rest process) *)
Fixpoint phys_ok (b : bookR) (sls : list slot) (hs : list (list (tevent R))) : Prop :=
  match sls with
  | [] => True
  | sl :: r =>
    (match sst sl with
     | Inactive | Errored => True
     | _ => thistory_ok (hd [] hs) (start_tl (bget b (tkey (str sl))))
     end) /\ phys_ok b r (tl hs)
  end.

Lemma phys_slot_errored (b : bookR) sl h :
  sst sl = Errored ->
  cur (phys_slot b sl h) = None /\ tsecs (phys_slot b sl h) = [].
Proof.
  intros Hs. unfold phys_slot. rewrite Hs. cbn. split; reflexivity.
Qed.

Lemma phys_slot_balance (b : bookR) sl h :
  (match sst sl with
   | Inactive | Errored => True
   | _ => thistory_ok h (start_tl (bget b (tkey (str sl))))
   end) ->
  is_inactive sl = false ->
  let L := phys_slot b sl h in
  weight (bget b (tkey (str sl))) = weight_opt (cur L) + tdep L + sumws (tsecs L) + tesc L.
Proof.
  intros Hok Hina. cbn zeta. unfold phys_slot.
  set (t := bget b (tkey (str sl))) in *.
  assert (Hgen : forall h', thistory_ok h' (start_tl t) ->
     weight t = weight_opt (cur (tl_run h' (start_tl t))) + tdep (tl_run h' (start_tl t))
                + sumws (tsecs (tl_run h' (start_tl t))) + tesc (tl_run h' (start_tl t))).
  { intros h' Hh. pose proof (track_energy_balance t h' Hh) as Hb. cbn zeta in Hb.
    unfold start_tl. numR. lra. }
  unfold is_inactive in Hina.
  destruct (sst sl); cbn in Hina; try discriminate; try (apply Hgen; exact Hok).
  apply Hgen. cbn. auto.
Qed.

Lemma carrier_physics_in r f t :
  In t (map str (filter carrier (physics_slots r f))) -> In t (active_tracks r).
Proof.
  revert f. induction r as [|sl r IH]; intros f Hin; cbn [physics_slots filter map] in Hin; [contradiction|].
  unfold active_tracks. cbn [filter].
  assert (Hstr : str (physics_slot sl (hd dflt_outcome f)) = str sl).
  { unfold physics_slot. destruct (sst sl); reflexivity. }
  destruct (carrier (physics_slot sl (hd dflt_outcome f))) eqn:Hc.
  - cbn [map] in Hin. destruct Hin as [Hin|Hin].
    + assert (Ha : is_active sl = true).
      { unfold is_active. rewrite <- (physics_slot_inactive sl (hd dflt_outcome f)).
        unfold is_inactive, carrier in *. destruct (sst (physics_slot sl (hd dflt_outcome f))); cbn; try reflexivity; discriminate. }
      rewrite Ha. cbn [map]. left. congruence.
    + destruct (is_active sl); cbn [map]; [right|]; apply (IH _ Hin).
  - destruct (is_active sl); cbn [map]; [right|]; apply (IH _ Hin).
Qed.

Lemma phys_book_keys (b : bookR) sls hs k :
  In k (map fst (phys_book sls (phys_all b sls hs))) -> In k (map tkey (active_tracks sls)).
Proof.
  revert hs. induction sls as [|sl r IH]; intros hs Hin; cbn [phys_all phys_book] in Hin; [contradiction|].
  unfold active_tracks, is_active, is_inactive. cbn [filter].
  destruct (status_eqb (sst sl) Inactive) eqn:Hi; cbn [negb].
  - apply (IH _ Hin).
  - cbn [map]. destruct (cur (phys_slot b sl (hd [] hs))).
    + cbn [map fst] in Hin. destruct Hin as [Hin|Hin]; [left; exact Hin|right; apply (IH _ Hin)].
    + right. apply (IH _ Hin).
Qed.

Lemma physics_all (b : bookR) sls hs :
  NoDup (map tkey (active_tracks sls)) ->
  Forall (fun sl => sst sl <> Killed) sls ->
  phys_ok b sls hs ->
  let Ls := phys_all b sls hs in
  let sls' := physics_slots sls (map outcome_of Ls) in
  slots_w (phys_book sls Ls ++ b) sls' + sum_tl (@tdep R) Ls + sum_tl (@tesc R) Ls
    + pend_w sls' (map (@tsecs R) Ls) = slots_w b sls
  /\ aligned sls' (map (@tsecs R) Ls).
Proof.
  revert hs. induction sls as [|sl r IH]; intros hs Hnd Hnk Hok; cbn zeta.
  - cbn. unfold slots_w. cbn. numR. split; [lra|exact I].
  - cbn [phys_all map physics_slots hd tl phys_book sum_tl pend_w aligned].
    destruct Hok as [Hok1 Hok2].
    pose proof (Forall_inv Hnk) as Hnk1. pose proof (Forall_inv_tail Hnk) as Hnkr.
    set (L := phys_slot b sl (hd [] hs)) in *.
    assert (Hndr : NoDup (map tkey (active_tracks r))).
    { unfold active_tracks in *. cbn [filter] in Hnd. destruct (is_active sl); [|exact Hnd].
      cbn [map] in Hnd. inversion Hnd; assumption. }
    specialize (IH (tl hs) Hndr Hnkr Hok2). cbn zeta in IH. destruct IH as [IH1 IH2].
    set (Ls := phys_all b r (tl hs)) in *.
    set (r' := physics_slots r (map outcome_of Ls)) in *.
    destruct (status_eqb (sst sl) Inactive) eqn:Hi.
    + (* inactive slot *)
      assert (Hs : sst sl = Inactive) by (destruct (sst sl); cbn in Hi; try discriminate; reflexivity).
      assert (Hps : forall o, physics_slot sl o = sl) by (intros o; unfold physics_slot; rewrite Hs; reflexivity).
      assert (Hcar : carrier sl = false) by (unfold carrier; rewrite Hs; reflexivity).
      assert (HL : L = idle_tl) by (subst L; unfold phys_slot; rewrite Hs; reflexivity).
      rewrite !Hps. unfold slots_w in *. cbn [filter]. rewrite Hcar. rewrite HL. cbn [idle_tl tdep tesc tsecs cur].
      rewrite Hi. split; [numR; lra|]. split; [|exact IH2]. unfold is_inactive. rewrite Hi. discriminate.
    + assert (Hina : is_inactive sl = false) by exact Hi.
      pose proof (phys_slot_balance b sl (hd [] hs) Hok1 Hina) as Hbal. cbn zeta in Hbal. fold L in Hbal.
      assert (Hact : is_active sl = true) by (unfold is_active; rewrite Hina; reflexivity).
      assert (Hk : ~ In (tkey (str sl)) (map tkey (active_tracks r))).
      { unfold active_tracks in Hnd. cbn [filter] in Hnd. rewrite Hact in Hnd. cbn [map] in Hnd.
        inversion Hnd; assumption. }
      assert (Hk' : forall v, tracks_w ((tkey (str sl), v) :: phys_book r Ls ++ b) (map str (filter carrier r'))
                              = tracks_w (phys_book r Ls ++ b) (map str (filter carrier r'))).
      { intros v. apply tracks_w_cons_notin. intros Hc. apply Hk.
        apply in_map_iff in Hc. destruct Hc as [t [Ht Hin]]. apply in_map_iff. exists t. split; [exact Ht|].
        eapply carrier_physics_in. exact Hin. }
      unfold slots_w in *.
      assert (Hsl : filter carrier (sl :: r) = sl :: filter carrier r).
      { cbn [filter]. unfold carrier at 1. destruct (sst sl); cbn in Hi; try discriminate; try reflexivity.
        exfalso. apply Hnk1. reflexivity. }
      rewrite Hsl. cbn [map tracks_w].
      destruct (sst sl) eqn:Hs; cbn in Hi; try discriminate; try (exfalso; apply Hnk1; reflexivity).
      * (* Initializing *)
        assert (Hps : physics_slot sl (outcome_of L)
                      = TrackInit.mkSlot (if is_none (cur L) then Killed else Alive) (str sl)
                                         (map kind_of (tsecs L)) (sused sl))
          by (unfold physics_slot; rewrite Hs; reflexivity).
        rewrite !Hps.
        destruct (cur L) as [t'|] eqn:Hc; cbn [is_none filter carrier sst str ssecs map tracks_w status_eqb app weight_opt] in *.
        -- rewrite bget_cons_same, Hk'. split; [numR; lra|]. split; [intros _; reflexivity|exact IH2].
        -- split; [numR; lra|]. split; [intros _; reflexivity|exact IH2].
      * (* Alive *)
        assert (Hps : physics_slot sl (outcome_of L)
                      = TrackInit.mkSlot (if is_none (cur L) then Killed else Alive) (str sl)
                                         (map kind_of (tsecs L)) (sused sl))
          by (unfold physics_slot; rewrite Hs; reflexivity).
        rewrite !Hps.
        destruct (cur L) as [t'|] eqn:Hc; cbn [is_none filter carrier sst str ssecs map tracks_w status_eqb app weight_opt] in *.
        -- rewrite bget_cons_same, Hk'. split; [numR; lra|]. split; [intros _; reflexivity|exact IH2].
        -- split; [numR; lra|]. split; [intros _; reflexivity|exact IH2].
      * (* Errored *)
        destruct (phys_slot_errored b sl (hd [] hs) Hs) as [Hc Hse]. fold L in Hc, Hse.
        assert (Hps : forall o, physics_slot sl o = TrackInit.mkSlot Killed (str sl) [] (sused sl))
          by (intros o; unfold physics_slot; rewrite Hs; reflexivity).
        rewrite !Hps. rewrite Hc in *. rewrite Hse in *.
        cbn [is_none filter carrier sst str ssecs map tracks_w status_eqb app weight_opt sumws] in *.
        split; [numR; lra|]. split; [intros _; reflexivity|exact IH2].
Qed.


Lemma physics_facts cfg s f s' : physics_outcome cfg s f = Ok s' ->
  ph s = Inited /\ ph s' = Interacted /\ slots s' = physics_slots (slots s) f /\ stack s' = stack s.
Proof.
  unfold physics_outcome. destruct (phase_eqb (ph s) Inited) eqn:E; cbn [negb]; [|discriminate].
  apply phase_eqb_eq in E. intros Hs; inversion Hs; subst; cbn; auto.
Qed.

Lemma EInv_physics cfg (E E' : estateR) hs :
  EInv cfg E -> phys_ok (ebook E) (slots (es E)) hs ->
  estep cfg E (EPhysics hs) = Some E' -> EInv cfg E'.
Proof.
  intros (HA & HB & Hph & Htot & Hal) Hok Hs. cbn [estep] in Hs.
  set (Ls := phys_all (ebook E) (slots (es E)) hs) in *.
  destruct (step cfg (es E) (PhysicsOutcome (map outcome_of Ls))) as [s'| |] eqn:Hstep; try discriminate.
  inversion Hs; subst E'; clear Hs.
  pose proof (InvA_step cfg (es E) (PhysicsOutcome (map outcome_of Ls)) HA) as HA'.
  pose proof (Inv_step cfg (es E) (PhysicsOutcome (map outcome_of Ls)) HA HB) as HB'.
  rewrite Hstep in HA', HB'.
  unfold step in Hstep. destruct (phase_eqb (ph (es E)) Failed); [discriminate|].
  destruct (physics_facts _ _ _ _ Hstep) as (P1 & P2 & P3 & P4).
  pose proof (invA_live cfg (es E) HA Hph) as (_ & _ & _ & Hst). rewrite P1 in Hst.
  assert (Hnk : Forall (fun sl => sst sl <> Killed) (slots (es E))).
  { eapply Forall_impl; [|exact Hst]. intros sl Hsl. exact Hsl. }
  destruct (HB Hph) as [Hnd _]. unfold all_tracks in Hnd. rewrite map_app in Hnd.
  apply NoDup_app_elim in Hnd. destruct Hnd as (Hnd1 & _ & Hdis).
  destruct (physics_all (ebook E) (slots (es E)) hs Hnd1 Hnk Hok) as [Hw Hal'].
  cbn zeta in Hw, Hal'. fold Ls in Hw, Hal'.
  unfold EInv. cbn [es ebook epend edep eesc ein].
  split; [exact HA'|]. split; [exact HB'|]. split; [rewrite P2; discriminate|].
  split; [|intros _; rewrite P3; exact Hal'].
  unfold etotal in *. cbn [es ebook epend edep eesc ein]. rewrite P2, P3, P4. rewrite P1 in Htot.
  cbn [phase_eqb] in *.
  rewrite (tracks_w_app_notin (phys_book (slots (es E)) Ls) (ebook E) (stack (es E))).
  2:{ intros k H1 H2. apply (Hdis k); [|exact H2]. apply (phys_book_keys (ebook E) _ hs). exact H1. }
  numR. lra.
Qed.

(** ** ExtendFromSecondaries *)

Lemma extend_sec_facts cfg s s' :
  InvA cfg s -> extend_from_secondaries cfg s = Ok s' ->
  slots s' = fst (fst (spec_all (charge_order cfg) (slots s) (next_id s))) /\
  stack s' = stack s ++ snd (fst (spec_all (charge_order cfg) (slots s) (next_id s))).
Proof.
  intros ((Hl & Hp & Hn) & Hlive & Hready & Hstep) H.
  unfold extend_from_secondaries in H.
  destruct (phase_eqb (ph s) Interacted) eqn:Hph; cbn [negb] in H; [|discriminate].
  apply phase_eqb_eq in Hph. rewrite Hph in Hlive.
  destruct (Hlive ltac:(discriminate)) as (A & B & C & D).
  pose proof (exclusive_scan_total (map snd (locate_all (charge_order cfg) 0 (slots s))) 0) as Htot.
  destruct (exclusive_scan 0 (map snd (locate_all (charge_order cfg) 0 (slots s)))) as [scan total] eqn:Hscan.
  cbn [snd] in Htot.
  destruct (capacity cfg <? c_init (cnt s) + total) eqn:Hcap; [discriminate|].
  pose proof (proc_all_arr (charge_order cfg) (n_slots cfg) (c_init (cnt s) + total) total (stack s) (slots s) 0 0 []
                (mkP (stack s ++ repeat dflt_trk total) (parents s) (next_id s))
                ltac:(lia) ltac:(lia) eq_refl) as Harr.
  cbn zeta in Harr. rewrite Hscan in Harr. cbn [fst p_arr p_nx app] in Harr.
  rewrite Nat.sub_0_r in Harr. specialize (Harr eq_refl). destruct Harr as (R1 & R2 & R3).
  destruct (proc_all _ _ _ _ _ _ _ _) as [slots' ps] eqn:Hpa. cbn [fst snd] in *.
  inversion H; subst s'; clear H. cbn [slots stack]. auto.
Qed.

(** the tracks issued by ProcessSecondaries, slot by slot *)
Fixpoint issued_all (sls : list slot) (nx : list nat) : list trk :=
  match sls with
  | [] => []
  | sl :: r =>
    if status_eqb (sst sl) Inactive then issued_all r nx
    else
      let m := make_secondaries (tid (str sl)) (tev (str sl)) (live_secs sl) nx in
      fst m ++ issued_all r (snd m)
  end.

Lemma perm_ins {A} (a q s i u : list A) :
  Permutation (a ++ q) (s ++ i) -> Permutation (a ++ u ++ q) (s ++ u ++ i).
Proof.
  intros Hp. rewrite (Permutation_app_swap_app a u q), (Permutation_app_swap_app s u i).
  apply Permutation_app_head. exact Hp.
Qed.

(** exactly-once with an explicit witness: after the step the population is the
    surviving tracks plus exactly the issued ones *)
Lemma spec_all_issued charge sls nx :
  Forall (fun sl => status_ok Interacted (sst sl)) sls ->
  Permutation (active_tracks (fst (fst (spec_all charge sls nx))) ++ snd (fst (spec_all charge sls nx)))
              (survivors sls ++ issued_all sls nx).
Proof.
  revert nx. induction sls as [|sl r IH]; intros nx Hst; [cbn; constructor|].
  pose proof (Forall_inv Hst) as Hs1. pose proof (Forall_inv_tail Hst) as Hsr.
  cbn [spec_all issued_all]. unfold spec_slot.
  cbn in Hs1. destruct Hs1 as [Hs | [Hs | Hs]]; rewrite Hs; cbn [status_eqb negb andb].
  - (* Inactive *)
    specialize (IH nx Hsr). destruct (spec_all charge r nx) as [[sls' qs] nx2]. cbn [fst snd] in *.
    unfold active_tracks, survivors, is_active, is_inactive in *. cbn [filter]. rewrite Hs. cbn [status_eqb negb app].
    exact IH.
  - (* Alive *)
    destruct (make_secondaries (tid (str sl)) (tev (str sl)) (live_secs sl) nx) as [ts nx'] eqn:Hm.
    cbn [fst snd].
    assert (Hbr : (match ts with
                   | [] => (sl, ts, nx')
                   | _ :: _ => (sl, ts, nx') end) = (sl, ts, nx')) by (destruct ts; reflexivity).
    destruct ts as [|t0 rest]; cbn [andb];
    specialize (IH nx' Hsr); destruct (spec_all charge r nx') as [[sls' qs] nx2]; cbn [fst snd] in *;
    unfold active_tracks, survivors, is_active, is_inactive in *; cbn [filter]; rewrite Hs;
    cbn [status_eqb negb app map]; apply perm_skip.
    + exact IH.
    + apply (perm_ins _ _ _ _ (t0 :: rest)). exact IH.
  - (* Killed *)
    destruct (make_secondaries (tid (str sl)) (tev (str sl)) (live_secs sl) nx) as [ts nx'] eqn:Hm.
    cbn [fst snd].
    destruct ts as [|t0 rest]; [|destruct charge]; cbn [negb andb];
    specialize (IH nx' Hsr); destruct (spec_all _ r nx') as [[sls' qs] nx2]; cbn [fst snd] in *;
    unfold active_tracks, survivors, is_active, is_inactive in *; cbn [filter sst]; rewrite ?Hs;
    cbn [status_eqb negb app map].
    + exact IH.
    + apply (perm_ins _ _ _ _ (t0 :: rest)). exact IH.
    + cbn [str]. apply Permutation_cons_app. apply (perm_ins _ _ _ _ rest). exact IH.
Qed.

Lemma live_secs_spawn_length sl (p : list (sec R)) :
  ssecs sl = map kind_of p -> length (live_secs sl) = length (spawn p).
Proof.
  unfold live_secs, spawn. intros ->. rewrite map_length.
  induction p as [|s p IH]; [reflexivity|]. cbn [map filter]. unfold kind_of at 1.
  destruct (svalid s); cbn [Nat.eqb negb length]; rewrite IH; reflexivity.
Qed.

Lemma issue_book_keys sls (pend : list (list (sec R))) nx k :
  In k (map fst (issue_book sls pend nx)) -> In k (map tkey (issued_all sls nx)).
Proof.
  revert pend nx. induction sls as [|sl r IH]; intros pend nx Hin; cbn [issue_book issued_all] in *; [contradiction|].
  destruct (status_eqb (sst sl) Inactive); [apply (IH _ _ Hin)|].
  cbn zeta in *. rewrite map_app in *. apply in_app_or in Hin. apply in_or_app.
  destruct Hin as [Hin|Hin]; [left|right].
  - apply in_map_fst_combine in Hin. exact Hin.
  - apply (IH _ _ Hin).
Qed.

Lemma issue_book_w (b : bookR) sls pend nx :
  aligned sls pend -> NoDup (map tkey (issued_all sls nx)) ->
  tracks_w (issue_book sls pend nx ++ b) (issued_all sls nx) = pend_w sls pend.
Proof.
  revert pend nx. induction sls as [|sl r IH]; intros pend nx Hal Hnd; [reflexivity|].
  cbn [issue_book issued_all pend_w aligned] in *. destruct Hal as [Hal1 Hal2].
  destruct (status_eqb (sst sl) Inactive) eqn:Hi.
  - rewrite (IH _ _ Hal2 Hnd). numR. lra.
  - cbn zeta in *.
    set (m := make_secondaries (tid (str sl)) (tev (str sl)) (live_secs sl) nx) in *.
    rewrite map_app in Hnd. apply NoDup_app_elim in Hnd. destruct Hnd as (N1 & N2 & N3).
    assert (Hlen : length (fst m) = length (spawn (hd [] pend))).
    { subst m. destruct (make_secondaries_lengths (tid (str sl)) (tev (str sl)) (live_secs sl) nx) as [L1 _].
      rewrite L1. apply live_secs_spawn_length. apply Hal1. exact Hi. }
    rewrite <- app_assoc. rewrite tracks_w_app.
    rewrite tracks_w_combine by assumption.
    rewrite tracks_w_app_notin.
    2:{ intros k H1 H2. apply in_map_fst_combine in H1. exact (N3 k H1 H2). }
    rewrite (IH _ _ Hal2 N2). rewrite sumw_spawn. numR. lra.
Qed.

Lemma EInv_extend_sec cfg (E E' : estateR) :
  EInv cfg E -> estep cfg E EExtendSec = Some E' -> EInv cfg E'.
Proof.
  intros (HA & HB & Hph & Htot & Hal) Hs. cbn [estep] in Hs.
  destruct (step cfg (es E) ExtendFromSecondaries) as [s'| |] eqn:Hstep; try discriminate.
  inversion Hs; subst E'; clear Hs.
  pose proof (InvA_step cfg (es E) ExtendFromSecondaries HA) as HA'.
  pose proof (Inv_step cfg (es E) ExtendFromSecondaries HA HB) as HB'.
  rewrite Hstep in HA', HB'.
  unfold step in Hstep. destruct (phase_eqb (ph (es E)) Failed); [discriminate|].
  destruct (extend_sec_phase _ _ _ Hstep) as [P1 P2].
  destruct (extend_sec_facts _ _ _ HA Hstep) as [F1 F2].
  specialize (Hal P1).
  pose proof (invA_live cfg (es E) HA Hph) as (_ & _ & _ & Hst). rewrite P1 in Hst.
  assert (Hnf' : ph s' <> Failed) by (rewrite P2; discriminate).
  pose proof (invA_live cfg s' HA' Hnf') as (_ & _ & _ & Hst').
  assert (Hnk' : Forall (fun sl => sst sl <> Killed) (slots s')).
  { eapply status_ok_not_killed; [left; exact P2|exact Hst']. }
  pose proof (spec_all_issued (charge_order cfg) (slots (es E)) (next_id (es E)) Hst) as Hperm.
  rewrite <- F1 in Hperm.
  set (pushed := snd (fst (spec_all (charge_order cfg) (slots (es E)) (next_id (es E))))) in *.
  set (issued := issued_all (slots (es E)) (next_id (es E))) in *.
  assert (Hall : Permutation (all_tracks s') ((survivors (slots (es E)) ++ stack (es E)) ++ issued)).
  { unfold all_tracks. rewrite F2.
    rewrite (Permutation_app_comm (stack (es E)) pushed), app_assoc, Hperm.
    rewrite <- !app_assoc. apply Permutation_app_head. apply Permutation_app_comm. }
  destruct (HB' Hnf') as [Hnd _].
  assert (Hnd2 : NoDup (map tkey ((survivors (slots (es E)) ++ stack (es E)) ++ issued))).
  { eapply Permutation_NoDup; [|exact Hnd]. apply Permutation_map. exact Hall. }
  rewrite map_app in Hnd2. apply NoDup_app_elim in Hnd2. destruct Hnd2 as (_ & Nis & Ndis).
  unfold EInv. cbn [es ebook epend edep eesc ein].
  split; [exact HA'|]. split; [exact HB'|]. split; [exact Hnf'|].
  split; [|rewrite P2; discriminate].
  unfold etotal in *. cbn [es ebook epend edep eesc ein]. rewrite P2. rewrite P1 in Htot.
  cbn [phase_eqb] in *.
  set (b' := issue_book (slots (es E)) (epend E) (next_id (es E)) ++ ebook E).
  pose proof (carried_all_tracks b' s' Hnk') as C1.
  rewrite (tracks_w_perm _ _ _ Hall) in C1. rewrite tracks_w_app in C1.
  assert (H1 : tracks_w b' (survivors (slots (es E)) ++ stack (es E))
               = tracks_w (ebook E) (survivors (slots (es E)) ++ stack (es E))).
  { unfold b'. apply tracks_w_app_notin. intros k K1 K2. apply issue_book_keys in K1. exact (Ndis k K2 K1). }
  assert (H2 : tracks_w b' issued = pend_w (slots (es E)) (epend E)).
  { unfold b', issued. apply issue_book_w; assumption. }
  rewrite H1, H2 in C1.
  rewrite tracks_w_app in C1.
  unfold slots_w in Htot. rewrite (carrier_survivors _ Hst) in Htot.
  numR. lra.
Qed.

(** ** every run of the machine *)

(** side conditions, stated along the run: at every physics step the energy events
    of every stepped track satisfy C01's per-track hypotheses *)
Fixpoint eops_ok (cfg : config) (E : estateR) (ops : list (eop R)) : Prop :=
  match ops with
  | [] => True
  | o :: r =>
    (match o with EPhysics hs => phys_ok (ebook E) (slots (es E)) hs | _ => True end) /\
    (match estep cfg E o with Some E' => eops_ok cfg E' r | None => True end)
  end.

(** weight of all primaries handed to the machine *)
Fixpoint inserted_w (ops : list (eop R)) : R :=
  match ops with
  | [] => 0
  | EInsert ps :: r => sumw (map snd ps) + inserted_w r
  | _ :: r => inserted_w r
  end.

Lemma filter_carrier_repeat n : filter carrier (repeat dflt_slot n) = [].
Proof. induction n; cbn; auto. Qed.

Lemma EInv_einit cfg : EInv cfg (einit (T:=R) cfg).
Proof.
  unfold EInv, einit. cbn [es ebook epend edep eesc ein].
  split; [apply InvA_init|]. split; [apply InvB_init|]. split; [cbn; discriminate|].
  split; [|cbn; discriminate].
  unfold etotal, slots_w. cbn [es ebook epend edep eesc ein init_state slots stack ph phase_eqb].
  rewrite filter_carrier_repeat. cbn. numR. lra.
Qed.

Lemma EInv_estep cfg (E E' : estateR) o :
  EInv cfg E ->
  (match o with EPhysics hs => phys_ok (ebook E) (slots (es E)) hs | _ => True end) ->
  estep cfg E o = Some E' -> EInv cfg E'.
Proof.
  intros HI Hok Hs. destruct o.
  - eapply EInv_insert; eauto.
  - eapply EInv_extend_prim; eauto.
  - eapply EInv_init; eauto.
  - eapply EInv_physics; eauto.
  - eapply EInv_extend_sec; eauto.
  - eapply EInv_reseed; eauto.
Qed.

Lemma EInv_eexec cfg ops : forall (E E' : estateR),
  EInv cfg E -> eops_ok cfg E ops -> eexec cfg E ops = Some E' -> EInv cfg E'.
Proof.
  induction ops as [|o r IH]; intros E E' HI Hok Hx; cbn [eexec] in Hx.
  - inversion Hx; subst; exact HI.
  - destruct Hok as [Hok1 Hok2]. destruct (estep cfg E o) as [E1|] eqn:Hs; [|discriminate].
    eapply IH; [|exact Hok2|exact Hx]. eapply EInv_estep; eauto.
Qed.

Lemma ein_estep cfg (E E' : estateR) o : estep cfg E o = Some E' ->
  ein E' = ein E + inserted_w [o].
Proof.
  destruct o; cbn [estep inserted_w]; intros Hs;
    match type of Hs with context [step ?c ?s ?op] => destruct (step c s op) end;
    try discriminate; inversion Hs; subst; cbn [ein with_state]; numR; lra.
Qed.

Lemma inserted_w_cons o r : inserted_w (o :: r) = inserted_w [o] + inserted_w r.
Proof. destruct o; cbn; lra. Qed.

Lemma ein_eexec cfg ops : forall (E E' : estateR),
  eexec cfg E ops = Some E' -> ein E' = ein E + inserted_w ops.
Proof.
  induction ops as [|o r IH]; intros E E' Hx; cbn [eexec] in Hx.
  - inversion Hx; subst. cbn. lra.
  - destruct (estep cfg E o) as [E1|] eqn:Hs; [|discriminate].
    rewrite (IH _ _ Hx), (ein_estep _ _ _ _ Hs), (inserted_w_cons o r). lra.
Qed.

(** THE composition theorem: over every op sequence of the concrete C02 machine
    (primaries inserted, tracks initialised from the stack in LIFO or
    charge-partitioned order incl. the in-place initialisation of the first
    secondary in a dying parent's slot, physics, extend-from-secondaries), what
    is in the live slots + on the initializer stack + pending in the slots +
    deposited + escaped is exactly what the primaries brought in *)
Theorem machine_energy_conserved cfg (ops : list (eop R)) (E : estateR) :
  eops_ok cfg (einit cfg) ops ->
  eexec cfg (einit cfg) ops = Some E ->
  edep E + eesc E + slots_w (ebook E) (slots (es E)) + tracks_w (ebook E) (stack (es E))
  + (if phase_eqb (ph (es E)) Interacted then pend_w (slots (es E)) (epend E) else 0)
  = inserted_w ops.
Proof.
  intros Hok Hx.
  destruct (EInv_eexec cfg ops _ _ (EInv_einit cfg) Hok Hx) as (_ & _ & _ & Htot & _).
  rewrite (ein_eexec cfg ops _ _ Hx) in Htot. unfold etotal in Htot. cbn [einit ein] in Htot.
  numR. lra.
Qed.

(** a drained machine: everything was deposited or escaped *)
Corollary machine_energy_conserved_complete cfg (ops : list (eop R)) (E : estateR) :
  eops_ok cfg (einit cfg) ops ->
  eexec cfg (einit cfg) ops = Some E ->
  ph (es E) = Ready -> drained (es E) = true ->
  inserted_w ops = edep E + eesc E.
Proof.
  intros Hok Hx Hph Hdr.
  pose proof (machine_energy_conserved cfg ops E Hok Hx) as Ht.
  destruct (EInv_eexec cfg ops _ _ (EInv_einit cfg) Hok Hx) as (HA & _ & _ & _ & _).
  pose proof (drained_no_tracks cfg (es E) HA Hph Hdr) as Hno.
  assert (Hnk : Forall (fun sl => sst sl <> Killed) (slots (es E))).
  { pose proof (invA_live cfg (es E) HA ltac:(rewrite Hph; discriminate)) as (_ & _ & _ & Hst).
    eapply status_ok_not_killed; [left; exact Hph|exact Hst]. }
  pose proof (carried_all_tracks (ebook E) (es E) Hnk) as Hc. rewrite Hno in Hc. cbn [tracks_w] in Hc.
  rewrite Hph in Ht. cbn [phase_eqb] in Ht. numR. lra.
Qed.
