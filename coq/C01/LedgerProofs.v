(** * C01: proofs over the real-number instance of the ledger model. *)
From Coq Require Import Reals ZArith List Bool Lra Lia.
From Celer Require Import Base.Num Base.NumR C01.LedgerModel.
Import ListNotations.
Local Open Scope R_scope.

Notation trackR := (track R).
Notation secR := (sec R).
Notation slotR := (slot R).

(** ** Hypotheses under which a single event conserves energy *)

(** what C04 proves for every interaction model *)
Definition interaction_conserves (t : trackR) (i : interaction R) : Prop :=
  Forall (fun s => svalid s = true) (isecs i) /\
  match iact i with
  | IScattered => weight t = weight (set_E t (iE i)) + idep i + sumws (isecs i)
  | IAbsorbed => weight t = idep i + sumws (isecs i)
  | IUnchanged | IFailed => True
  end.

(** an antiparticle that is stopped by continuous loss must have an at-rest
    process (annihilation): it is the only path that returns its 2mc^2 *)
Definition tevent_ok (t : trackR) (e : tevent R) : Prop :=
  match e with
  | TEloss _ has_at_rest _ => tanti t = true -> has_at_rest = true
  | TInteract _ _ i => interaction_conserves t i
  | TCut | TExit => True
  end.

Lemma weight_set_E (t : trackR) e :
  weight (set_E t e) = weight t - tE t + e.
Proof. unfold weight, set_E; cbn. destruct (tanti t); numR; lra. Qed.

Lemma sumw_app (a b : list trackR) : sumw (a ++ b) = sumw a + sumw b.
Proof. induction a as [|x a IH]; cbn; numR; [lra | rewrite IH; lra]. Qed.

Lemma sumws_app (a b : list secR) : sumws (a ++ b) = sumws a + sumws b.
Proof. induction a as [|x a IH]; cbn; numR; [lra | rewrite IH; lra]. Qed.

Lemma sumw_spawn (l : list secR) : sumw (spawn l) = sumws l.
Proof.
  unfold spawn. induction l as [|s l IH]; cbn; [reflexivity|].
  unfold weight_sec. destruct (svalid s) eqn:V; cbn.
  - rewrite IH. unfold weight, track_of_sec; cbn. reflexivity.
  - rewrite IH. numR. lra.
Qed.

(** ** Energy-loss calculators *)

Lemma mean_eloss_cut_bounds apply_cut lowest E mean :
  0 <= mean <= E ->
  0 <= mean_eloss_cut apply_cut lowest E mean <= E.
Proof.
  intros Hm. unfold mean_eloss_cut. numR.
  destruct apply_cut; cbn [andb]; rcases; lra.
Qed.

Lemma fluct_eloss_cut_bounds apply_cut lowest E mean sampled hmean :
  0 <= mean <= E -> 0 <= sampled -> 0 <= hmean < E ->
  0 <= fluct_eloss_cut apply_cut lowest E mean sampled hmean <= E.
Proof.
  intros Hm Hs Hh. unfold fluct_eloss_cut. numR.
  destruct apply_cut; cbn [andb]; rcases; lra.
Qed.

(** the cut rule: whenever the cut applies and the track starts or ends at or
    below the tracking cut, *all* of the energy is deposited *)
Lemma mean_eloss_cut_all lowest E mean :
  (E < lowest \/ E - mean <= lowest) ->
  mean_eloss_cut true lowest E mean = E.
Proof.
  intros Hc. unfold mean_eloss_cut. numR. cbn [andb]. rcases; try lra; reflexivity.
Qed.

(** never leaves a track alive below the cut *)
Lemma mean_eloss_cut_post lowest E mean :
  let d := mean_eloss_cut true lowest E mean in
  d = E \/ lowest < E - d.
Proof.
  cbn zeta. unfold mean_eloss_cut. numR. cbn [andb]. rcases; lra.
Qed.

Lemma calc_mean_energy_loss_range E step rate lll inv_range :
  E * lll <= step * rate ->
  calc_mean_energy_loss E step rate lll step inv_range = E.
Proof.
  intros Hl. unfold calc_mean_energy_loss. numR.
  destruct (Rleb_spec (E * lll) (step * rate)); [|lra].
  unfold Reqb. destruct (Req_EM_T step step); [reflexivity | congruence].
Qed.

Lemma calc_mean_energy_loss_bounds E step rate lll range inv_range :
  0 <= E -> 0 <= step -> 0 <= rate -> 0 < lll <= 1 ->
  (forall r, 0 <= inv_range r <= E) ->
  0 <= calc_mean_energy_loss E step rate lll range inv_range <= E.
Proof.
  intros HE Hs Hr Hl Hinv. unfold calc_mean_energy_loss. numR.
  destruct (Rleb_spec (E * lll) (step * rate)) as [Hb|Hb].
  - unfold Reqb. destruct (Req_EM_T step range); [lra|].
    specialize (Hinv (range - step)). lra.
  - split; [apply Rmult_le_pos; lra|]. nra.
Qed.

(** ** Single transitions *)

Definition slot_total (s : slotR) : R := weight (strk s) + sdep s + sumws (ssecs s).

Lemma eloss_apply_total a r d (s : slotR) :
  slot_total (eloss_apply a r d s) = slot_total s.
Proof.
  unfold eloss_apply.
  destruct (negb a || is_stopped (strk s)); [reflexivity|].
  set (s1 := if (n0 <? d)%num then _ else s).
  assert (H1 : slot_total s1 = slot_total s).
  { subst s1. destruct (n0 <? d)%num; [|reflexivity].
    unfold slot_total; cbn. rewrite weight_set_E. numR. lra. }
  destruct (is_stopped (strk s1)); [|exact H1].
  destruct r; unfold slot_total in *; cbn; exact H1.
Qed.

(** ElossApplier: energy before = energy after + what was added to the deposit *)
Lemma eloss_apply_balance a r d (s : slotR) :
  let s' := eloss_apply a r d s in
  tE (strk s) = tE (strk s') + (sdep s' - sdep s)
  /\ ssecs s' = ssecs s /\ tm (strk s') = tm (strk s) /\ tanti (strk s') = tanti (strk s).
Proof.
  cbn zeta. unfold eloss_apply.
  destruct (negb a || is_stopped (strk s)); [repeat split; lra|].
  destruct (n0 <? d)%num.
  - match goal with |- context [is_stopped ?t] => destruct (is_stopped t) end;
      try destruct r; cbn [strk sdep ssecs set_E tE tm tanti]; numR; repeat split; lra.
  - destruct (is_stopped (strk s)); try destruct r;
      cbn [strk sdep ssecs set_E tE tm tanti]; numR; repeat split; lra.
Qed.

Lemma cut_secondaries_total cut dep (l : list secR) :
  Forall (fun s => svalid s = true) l ->
  let '(d, l') := cut_secondaries cut dep l in
  d + sumws l' = dep + sumws l /\ length l' = length l.
Proof.
  revert dep. induction l as [|s l IH]; intros dep Hv; cbn [cut_secondaries].
  - cbn. split; [lra|reflexivity].
  - inversion Hv as [|? ? Hs Hl]; subst.
    assert (Hw : weight_sec s = if santi s then sE s + 2 * sm s else sE s)
      by (unfold weight_sec; rewrite Hs; reflexivity).
    assert (Hn : weight_sec (null_sec (T:=R)) = 0) by reflexivity.
    destruct (cutoff_apply cut s).
    + set (d2 := if santi s then _ else _).
      specialize (IH d2 Hl). destruct (cut_secondaries cut d2 l) as [d l'].
      destruct IH as [IH1 IH2]. cbn [sumws length]. split; [|now rewrite IH2].
      rewrite Hw, Hn. subst d2. destruct (santi s); numR; lra.
    + specialize (IH dep Hl). destruct (cut_secondaries cut dep l) as [d l'].
      destruct IH as [IH1 IH2]. cbn [sumws length]. split; [numR; lra|now rewrite IH2].
Qed.

(** only secondaries strictly below their production cut are removed, and what
    is removed is exactly what is added to the deposit *)
Lemma cut_secondaries_keeps cut dep (l : list secR) s :
  In s l -> cutoff_apply cut s = false -> In s (snd (cut_secondaries cut dep l)).
Proof.
  revert dep. induction l as [|x l IH]; intros dep Hin Hc; [destruct Hin|].
  cbn. destruct Hin as [->|Hin].
  - rewrite Hc. destruct (cut_secondaries cut dep l); cbn. now left.
  - destruct (cutoff_apply cut x).
    + match goal with |- context [cut_secondaries cut ?d l] =>
        specialize (IH d Hin Hc); destruct (cut_secondaries cut d l) end. cbn in *. now right.
    + specialize (IH dep Hin Hc). destruct (cut_secondaries cut dep l). cbn in *. now right.
Qed.

(** InteractionApplier: with a conserving interaction, the weight of the
    incident track = weight of the outgoing track (0 if absorbed) + what was
    added to the deposit + weights of the surviving secondaries *)
Lemma interaction_apply_balance ap cut i (s : slotR) :
  ssecs s = [] ->
  interaction_conserves (strk s) i ->
  let '(s', failed) := interaction_apply ap cut i s in
  weight (strk s) =
    (match sstat s' with Killed => if match iact i with IAbsorbed => true | _ => false end
                                   then 0 else weight (strk s') | _ => weight (strk s') end)
    + (sdep s' - sdep s) + sumws (ssecs s').
Proof.
  intros Hsec [Hv Hc]. unfold interaction_apply.
  destruct (iact i) eqn:Ha.
  - (* scattered *)
    assert (Hcs := cut_secondaries_total cut (idep i) (isecs i) Hv).
    destruct ap.
    + destruct (cut_secondaries cut (idep i) (isecs i)) as [d secs]. destruct Hcs as [Hcs _].
      cbn. destruct (sstat s); numR; lra.
    + cbn. destruct (sstat s); numR; lra.
  - (* absorbed *)
    assert (Hcs := cut_secondaries_total cut (idep i) (isecs i) Hv).
    destruct ap.
    + destruct (cut_secondaries cut (idep i) (isecs i)) as [d secs]. destruct Hcs as [Hcs _].
      cbn. numR. lra.
    + cbn. numR. lra.
  - rewrite Hsec. cbn. destruct (sstat s); numR; lra.
  - rewrite Hsec. cbn. destruct (sstat s); numR; lra.
Qed.

(** TrackingCutExecutor: everything (kinetic + 2mc^2 of an antiparticle) goes to the deposit *)
Lemma tracking_cut_balance (s : slotR) :
  let s' := tracking_cut_apply s in
  sdep s' - sdep s = weight (strk s) /\ tE (strk s') = 0 /\ sstat s' = Killed
  /\ ssecs s' = ssecs s.
Proof.
  cbn zeta. unfold tracking_cut_apply, weight; cbn.
  destruct (tanti (strk s)); numR; repeat split; lra.
Qed.

Lemma boundary_exit_balance (s : slotR) :
  let s' := boundary_exit s in
  strk s' = strk s /\ sdep s' = sdep s /\ sstat s' = Killed.
Proof. cbn. repeat split. Qed.

Lemma eloss_killed_weight a r d (t : track R) :
  (tanti t = true -> r = true) ->
  sstat (eloss_apply a r d (fresh_slot t)) = Killed ->
  weight (strk (eloss_apply a r d (fresh_slot t))) = 0.
Proof.
  intros Hok. unfold eloss_apply, fresh_slot. cbn [strk sdep sstat spost ssecs].
  destruct (negb a || is_stopped t); [cbn; discriminate|].
  destruct (n0 <? d)%num; cbn [strk sdep sstat spost ssecs].
  - destruct (is_stopped (set_E t (tE t - d)%num)) eqn:Z; [|cbn; discriminate].
    destruct r; [cbn; discriminate|]. intros _. cbn [strk].
    unfold is_stopped in Z. cbn [set_E tE] in Z. 
    unfold weight. cbn [set_E tE tanti tm].
    destruct (tanti t). specialize (Hok eq_refl). discriminate Hok.
    numR. apply Reqb_true in Z. exact Z.
  - destruct (is_stopped t) eqn:Z; [|cbn; discriminate].
    destruct r; [cbn; discriminate|]. intros _. cbn [strk].
    unfold is_stopped in Z. unfold weight.
    destruct (tanti t). specialize (Hok eq_refl). discriminate Hok.
    numR. apply Reqb_true in Z. exact Z.
Qed.

(** ** One event on one live track *)

Definition res_total (r : tresult R) : R :=
  weight_opt (rtrk r) + rdep r + sumws (rsecs r) + resc r.

Lemma track_step_balance (t : trackR) e :
  tevent_ok t e -> res_total (track_step e t) = weight t.
Proof.
  intros Hok. unfold track_step, res_total.
  destruct e as [a r d| ap cut i | | ].
  - (* eloss *)
    cbn [slot_step].
    assert (Ht := eloss_apply_total a r d (fresh_slot t)).
    unfold slot_total in Ht. cbn [fresh_slot strk sdep ssecs sumws] in Ht.
    remember (eloss_apply a r d (fresh_slot t)) as s' eqn:Es.
    destruct (sstat s') eqn:St; cbn [rtrk rdep rsecs resc weight_opt]; numR; try lra.
    (* killed by range: the track must not carry 2mc^2 *)
    assert (Hk : weight (strk s') = 0).
    { subst s'. apply eloss_killed_weight; [exact Hok | exact St]. }
    lra.
  - (* interaction *)
    cbn [slot_step]. cbn in Hok.
    assert (Hb := interaction_apply_balance ap cut i (fresh_slot t) eq_refl Hok).
    destruct (interaction_apply ap cut i (fresh_slot t)) as [s' f] eqn:Ei.
    cbn [fst]. cbn [fresh_slot strk sdep] in Hb.
    unfold interaction_apply in Ei. cbn [fresh_slot sstat strk sdep spost ssecs] in Ei.
    destruct (iact i) eqn:Ha.
    + (* scattered: status stays Alive *)
      destruct (if ap then _ else _) as [d secs] in Ei. inversion Ei; subst s' f.
      cbn [sstat] in *. cbn [rtrk rdep rsecs resc weight_opt strk sdep ssecs] in *. numR. lra.
    + destruct (if ap then _ else _) as [d secs] in Ei. inversion Ei; subst s' f.
      cbn [sstat] in *. cbn [rtrk rdep rsecs resc weight_opt strk sdep ssecs] in *. numR. lra.
    + inversion Ei; subst s' f. cbn in *. numR. lra.
    + inversion Ei; subst s' f. cbn in *. numR. lra.
  - (* tracking cut *)
    cbn [slot_step].
    destruct (tracking_cut_balance (fresh_slot t)) as (Hd & _ & Hk & Hs).
    rewrite Hk. cbn [rtrk rdep rsecs resc weight_opt]. rewrite Hs.
    cbn [fresh_slot sdep strk ssecs sumws] in *. numR. lra.
  - (* exit *)
    cbn. numR. lra.
Qed.

(** ** Histories *)

(** the hypotheses on a history are stated along its own run *)
Fixpoint history_ok (h : list (event R)) (L : ledger R) : Prop :=
  match h with
  | [] => True
  | ev :: r =>
    (match ev with
     | EvSpawn => True
     | EvTrack k e => match nth_error (live L) k with Some t => tevent_ok t e | None => True end
     end) /\ history_ok r (apply_event ev L)
  end.

Lemma sumw_replace_nth (l : list trackR) k t o :
  nth_error l k = Some t ->
  sumw (replace_nth k l o) = sumw l - weight t + weight_opt o.
Proof.
  revert k. induction l as [|a l IH]; intros [|k] Hn; cbn in Hn; try discriminate.
  - inversion Hn; subst. destruct o; cbn; numR; lra.
  - cbn. rewrite (IH k Hn). numR. lra.
Qed.

Lemma apply_event_total ev (L : ledger R) :
  (match ev with
   | EvSpawn => True
   | EvTrack k e => match nth_error (live L) k with Some t => tevent_ok t e | None => True end
   end) ->
  ledger_total (apply_event ev L) = ledger_total L.
Proof.
  intros Hok. destruct ev as [k e|]; cbn [apply_event].
  - destruct (nth_error (live L) k) as [t|] eqn:Hn; [|reflexivity].
    assert (Hb := track_step_balance t e Hok). unfold res_total in Hb.
    unfold ledger_total; cbn [live pending deposited escaped].
    rewrite (sumw_replace_nth _ _ _ _ Hn), sumws_app. numR. lra.
  - unfold ledger_total; cbn [live pending deposited escaped sumws].
    rewrite sumw_app, sumw_spawn. numR. lra.
Qed.

Lemma run_total h : forall L, history_ok h L -> ledger_total (run h L) = ledger_total L.
Proof.
  induction h as [|ev h IH]; intros L Hok; [reflexivity|].
  destruct Hok as [H1 H2]. cbn [run]. rewrite (IH _ H2). now apply apply_event_total.
Qed.

(** THE event-level theorem: for every history from any multiset of primaries *)
Theorem event_energy_conserved (primaries : list trackR) (h : list (event R)) :
  history_ok h (init_ledger primaries) ->
  let L := run h (init_ledger primaries) in
  sumw primaries = deposited L + escaped L + sumw (live L) + sumws (pending L).
Proof.
  intros Hok. cbn zeta. pose proof (run_total h _ Hok) as Ht.
  unfold ledger_total in Ht at 2. cbn in Ht. unfold ledger_total in Ht. numR. lra.
Qed.

(** completed event: nothing live, nothing pending *)
Corollary event_energy_conserved_complete (primaries : list trackR) h :
  history_ok h (init_ledger primaries) ->
  let L := run h (init_ledger primaries) in
  live L = [] -> pending L = [] ->
  sumw primaries = deposited L + escaped L.
Proof.
  intros Hok L Hl Hp. pose proof (event_energy_conserved primaries h Hok) as Hb.
  cbn zeta in Hb. fold L in Hb. rewrite Hl, Hp in Hb. cbn in Hb. numR. lra.
Qed.

(** ** Per-track balance *)
Fixpoint thistory_ok (h : list (tevent R)) (L : tledger R) : Prop :=
  match h with
  | [] => True
  | e :: r => (match cur L with Some t => tevent_ok t e | None => True end)
              /\ thistory_ok r (tl_step e L)
  end.

Definition tl_total (L : tledger R) : R :=
  weight_opt (cur L) + tdep L + sumws (tsecs L) + tesc L.

Lemma tl_run_total h : forall L, thistory_ok h L -> tl_total (tl_run h L) = tl_total L.
Proof.
  induction h as [|e h IH]; intros L Hok; [reflexivity|].
  destruct Hok as [H1 H2]. cbn [tl_run]. rewrite (IH _ H2).
  unfold tl_step. destruct (cur L) as [t|] eqn:Hc; [|reflexivity].
  assert (Hb := track_step_balance t e H1). unfold res_total in Hb.
  unfold tl_total; cbn [cur tdep tsecs tesc]. rewrite Hc, sumws_app. cbn. numR. lra.
Qed.

Theorem track_energy_balance (t : trackR) (h : list (tevent R)) :
  thistory_ok h (mkTL (Some t) 0 [] 0) ->
  let L := tl_run h (mkTL (Some t) 0 [] 0) in
  weight t - weight_opt (cur L) = tdep L + sumws (tsecs L) + tesc L.
Proof.
  intros Hok. cbn zeta. pose proof (tl_run_total h _ Hok) as Ht.
  unfold tl_total in Ht. cbn [cur tdep tsecs tesc weight_opt sumws] in Ht. numR. lra.
Qed.

(** ** eloss_le_energy / range_step_deposits_all at the ElossApplier level *)

Lemma eloss_apply_le a r d (s : slotR) E :
  tE (strk s) = E -> 0 <= d <= E ->
  let s' := eloss_apply a r d s in
  0 <= sdep s' - sdep s <= E /\ 0 <= tE (strk s') <= E.
Proof.
  intros HE Hd. cbn zeta. unfold eloss_apply.
  destruct (negb a || is_stopped (strk s)); [lra|].
  destruct (Rltb_spec 0 d) as [Hp|Hp].
  - replace (n0 <? d)%num with true by (symmetry; apply Rltb_true; exact Hp).
    cbn [strk sdep].
    destruct (is_stopped (set_E (strk s) (tE (strk s) - d)%num));
      try destruct r; cbn [strk sdep set_E tE]; numR; lra.
  - replace (n0 <? d)%num with false by (symmetry; apply Rltb_false; numR; lra).
    destruct (is_stopped (strk s)); try destruct r; cbn [strk sdep]; lra.
Qed.

Theorem eloss_le_energy apply_cut lowest E mean (s : slotR) a r :
  tE (strk s) = E -> 0 <= mean <= E ->
  let d := mean_eloss_cut apply_cut lowest E mean in
  let s' := eloss_apply a r d s in
  0 <= d <= E /\ 0 <= sdep s' - sdep s <= E /\ 0 <= tE (strk s') <= E.
Proof.
  intros HE Hm. cbn zeta.
  pose proof (mean_eloss_cut_bounds apply_cut lowest E mean Hm) as Hd.
  split; [exact Hd|]. now apply eloss_apply_le.
Qed.

Theorem range_step_deposits_all lowest E rate lll step inv_range apply_cut (s : slotR) r :
  tE (strk s) = E -> 0 < E -> E * lll <= step * rate ->
  let mean := calc_mean_energy_loss E step rate lll step inv_range in
  let s' := eloss_apply true r (mean_eloss_cut apply_cut lowest E mean) s in
  sdep s' - sdep s = E /\ tE (strk s') = 0 /\
  (r = false -> sstat s' = Killed) /\ (r = true -> spost s' = ADiscrete).
Proof.
  intros HE Hpos Hl. cbn zeta.
  rewrite (calc_mean_energy_loss_range E step rate lll inv_range Hl).
  assert (Hd : mean_eloss_cut apply_cut lowest E E = E).
  { unfold mean_eloss_cut. numR. destruct apply_cut; cbn [andb]; rcases; lra. }
  rewrite Hd. unfold eloss_apply. cbn [negb orb].
  assert (Hs : is_stopped (strk s) = false).
  { unfold is_stopped. rewrite HE. numR. apply Reqb_false. lra. }
  rewrite Hs.
  assert (Hp : (n0 <? E)%num = true) by (numR; apply Rltb_true; exact Hpos).
  rewrite Hp. cbn [strk].
  assert (Hz : is_stopped (set_E (strk s) (tE (strk s) - E)%num) = true).
  { unfold is_stopped. cbn [set_E tE]. rewrite HE. numR. apply Reqb_true. lra. }
  rewrite Hz.
  destruct r; cbn [strk sdep sstat spost set_E tE]; rewrite HE; numR;
    repeat split; try lra; intros; try discriminate; reflexivity.
Qed.
