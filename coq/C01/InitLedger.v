(** * C01 x C02: the energy ledger composed with the concrete slot / initializer-stack
    machine (executable model, NO proofs).

    [C02.TrackInit] is the (C++-tied) model of celeritas' track bookkeeping:
    primaries -> initializer stack -> vacant slots (LIFO or charge-partitioned),
    physics outcomes, ExtendFromSecondaries incl. the in-place initialisation of
    the first secondary in the slot of a dying parent.  Its track records carry
    an identity [(event, track id)] but no energy.  Here every track record is
    given an energy payload (a [LedgerModel.track]: kinetic energy, mass,
    antiparticle flag), attached to the record's identity exactly where the C++
    writes the energy next to the id:

    - [ProcessPrimariesExecutor]:  [ti.sim.track_id = make_track_id(..)] and
      [ti.particle.energy = primary.energy] go into the same [TrackInitializer];
    - [InitTracksExecutor]: sim and particle state are initialised from the same
      [TrackInitializer] (the record is moved as a whole);
    - [ProcessSecondariesExecutor]: for every non-null secondary, in order,
      [make_track_id] and [ti.particle.energy = secondary.energy]
      ([LedgerModel.track_of_sec]);
    - the physics of one step of the track in a slot is a list of
      [LedgerModel.tevent]s (continuous loss, interaction incl. production cuts,
      tracking cut, boundary exit) run through [LedgerModel.tl_run]; the
      [outcome] (dies / kinds of the secondaries) handed to the C02 machine is
      COMPUTED from that energy run, an [Errored] slot (failed geometry
      initialisation) gets the tracking cut.

    The machine state itself is a *component* of the energy state and is advanced
    by [TrackInit.step] itself, so this is the concrete machine, not a copy. *)
From Coq Require Import List Arith Bool PeanoNat.
From Celer Require Import Base.Num C01.LedgerModel.
From Celer Require Import C02.TrackInit.
Import ListNotations.
Local Open Scope num_scope.

Section InitLedger.
  Context {T : Type} `{Num T}.

  (** identity of a track record: (event id, track id) *)
  Definition tkey (t : trk) : nat * nat := (tev t, tid t).
  Definition key_eqb (a b : nat * nat) : bool :=
    Nat.eqb (fst a) (fst b) && Nat.eqb (snd a) (snd b).

  (** the energy book: payload per track identity (latest entry first) *)
  Definition book := list ((nat * nat) * track T).

  Fixpoint lookup (b : book) (k : nat * nat) : option (track T) :=
    match b with
    | [] => None
    | (k', t) :: r => if key_eqb k' k then Some t else lookup r k
    end.

  Definition zero_track : track T := mkTrack n0 n0 false.
  Definition bget (b : book) (k : nat * nat) : track T :=
    match lookup b k with Some t => t | None => zero_track end.

  (** kind of a secondary as the C02 machine sees it: 0 = null (cut away),
      [S p] = particle id p *)
  Definition kind_of (s : sec T) : nat := if svalid s then S (spid s) else 0%nat.

  Record estate := mkE {
    es : state;                      (* the concrete C02 machine state *)
    ebook : book;
    epend : list (list (sec T));     (* per slot: secondaries of the last step *)
    edep : T;                        (* deposited so far *)
    eesc : T;                        (* escaped so far *)
    ein : T }.                       (* weight of all primaries inserted so far *)

  (** ** physics of one step, per slot *)
  Definition start_tl (t : track T) : tledger T := mkTL (Some t) n0 [] n0.
  Definition idle_tl : tledger T := mkTL None n0 [] n0.

  Definition phys_slot (b : book) (sl : slot) (h : list (tevent T)) : tledger T :=
    let t := bget b (tkey (str sl)) in
    match sst sl with
    | Inactive => idle_tl
    | Errored => tl_run [TCut] (start_tl t)
    | _ => tl_run h (start_tl t)
    end.

  Fixpoint phys_all (b : book) (sls : list slot) (hs : list (list (tevent T)))
    : list (tledger T) :=
    match sls with
    | [] => []
    | sl :: r => phys_slot b sl (hd [] hs) :: phys_all b r (tl hs)
    end.

  Definition is_none {A} (o : option A) : bool :=
    match o with None => true | Some _ => false end.

  Definition outcome_of (L : tledger T) : outcome :=
    mkOut (is_none (cur L)) (map kind_of (tsecs L)).

  (** post-step energies of the surviving tracks *)
  Fixpoint phys_book (sls : list slot) (Ls : list (tledger T)) : book :=
    match sls, Ls with
    | sl :: r, L :: rl =>
      match status_eqb (sst sl) Inactive, cur L with
      | false, Some t' => (tkey (str sl), t') :: phys_book r rl
      | _, _ => phys_book r rl
      end
    | _, _ => []
    end.

  Fixpoint sum_tl (f : tledger T -> T) (Ls : list (tledger T)) : T :=
    match Ls with [] => n0 | L :: r => f L + sum_tl f r end.

  (** ** ProcessSecondariesExecutor: ids and energies of the new tracks, slot by
      slot, threading the per-event track counters exactly as [proc_all] does *)
  Fixpoint issue_book (sls : list slot) (pend : list (list (sec T))) (nx : list nat) : book :=
    match sls with
    | [] => []
    | sl :: r =>
      if status_eqb (sst sl) Inactive then issue_book r (tl pend) nx
      else
        let m := make_secondaries (tid (str sl)) (tev (str sl)) (live_secs sl) nx in
        combine (map tkey (fst m)) (spawn (hd [] pend)) ++ issue_book r (tl pend) (snd m)
    end.

  (** ** operations *)
  Inductive eop :=
  | EInsert (ps : list (primary * track T))
  | EExtendPrim
  | EInit
  | EPhysics (hs : list (list (tevent T)))
  | EExtendSec
  | EReseed.

  Definition with_state (E : estate) (s' : state) : estate :=
    mkE s' (ebook E) (epend E) (edep E) (eesc E) (ein E).

  (** [None]: the concrete machine reported [Err] (a CELER_VALIDATE fired: the
      run is aborted by an exception) or [Misuse] *)
  Definition estep (cfg : config) (E : estate) (o : eop) : option estate :=
    let s := es E in
    match o with
    | EInsert ps =>
      match step cfg s (InsertPrimaries (map fst ps)) with
      | Ok s' =>
        Some (mkE s'
                (combine (map tkey (skipn (length (stack s)) (stack s'))) (map snd ps) ++ ebook E)
                (epend E) (edep E) (eesc E) (ein E + sumw (map snd ps)))
      | _ => None
      end
    | EExtendPrim =>
      match step cfg s ExtendFromPrimaries with Ok s' => Some (with_state E s') | _ => None end
    | EInit =>
      match step cfg s InitializeTracks with Ok s' => Some (with_state E s') | _ => None end
    | EPhysics hs =>
      let Ls := phys_all (ebook E) (slots s) hs in
      match step cfg s (PhysicsOutcome (map outcome_of Ls)) with
      | Ok s' =>
        Some (mkE s' (phys_book (slots s) Ls ++ ebook E) (map (@tsecs T) Ls)
                (edep E + sum_tl (@tdep T) Ls) (eesc E + sum_tl (@tesc T) Ls) (ein E))
      | _ => None
      end
    | EExtendSec =>
      match step cfg s ExtendFromSecondaries with
      | Ok s' =>
        Some (mkE s' (issue_book (slots s) (epend E) (next_id s) ++ ebook E)
                (epend E) (edep E) (eesc E) (ein E))
      | _ => None
      end
    | EReseed =>
      match step cfg s Reseed with Ok s' => Some (with_state E s') | _ => None end
    end.

  Fixpoint eexec (cfg : config) (E : estate) (ops : list eop) : option estate :=
    match ops with
    | [] => Some E
    | o :: r => match estep cfg E o with Some E' => eexec cfg E' r | None => None end
    end.

  Definition einit (cfg : config) : estate := mkE (init_state cfg) [] [] n0 n0 n0.

  (** ** the conserved quantity *)

  (** a slot carries a track's energy while the track is to be stepped *)
  Definition carrier (sl : slot) : bool :=
    match sst sl with Alive | Initializing | Errored => true | _ => false end.

  Fixpoint tracks_w (b : book) (l : list trk) : T :=
    match l with [] => n0 | t :: r => weight (bget b (tkey t)) + tracks_w b r end.

  Definition slots_w (b : book) (sls : list slot) : T :=
    tracks_w b (map str (filter carrier sls)).

  Fixpoint pend_w (sls : list slot) (pend : list (list (sec T))) : T :=
    match sls with
    | [] => n0
    | sl :: r =>
      (if status_eqb (sst sl) Inactive then n0 else sumws (hd [] pend)) + pend_w r (tl pend)
    end.

  (** deposited + escaped + live slots + queued initializers (+ the secondaries
      waiting in the slots between the physics and ExtendFromSecondaries) *)
  Definition etotal (E : estate) : T :=
    edep E + eesc E + slots_w (ebook E) (slots (es E)) + tracks_w (ebook E) (stack (es E))
    + (if phase_eqb (ph (es E)) Interacted then pend_w (slots (es E)) (epend E) else n0).

  (** energies of the tracks in the slots / on the stack, for inspection *)
  Definition slot_tracks (E : estate) : list (status * option (track T)) :=
    map (fun sl => (sst sl, if carrier sl then Some (bget (ebook E) (tkey (str sl))) else None))
        (slots (es E)).
  Definition stack_tracks (E : estate) : list (track T) :=
    map (fun t => bget (ebook E) (tkey t)) (stack (es E)).

End InitLedger.

Arguments estate T : clear implicits.
Arguments eop T : clear implicits.
Arguments book T : clear implicits.
