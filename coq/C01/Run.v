(** * C01: entry points for the unit correspondence check (float instance). *)
From Coq Require Import ZArith List Floats Bool.
From Celer Require Import Base.Num Base.NumF C01.LedgerModel.
Import ListNotations.

Definition status_code (s : status) : Z :=
  match s with Inactive => 0 | Initializing => 1 | Alive => 2 | Errored => 3 | Killed => 4 end%Z.
Definition paction_code (a : paction) : Z :=
  match a with ABoundary => 0 | ARange => 1 | ADiscrete => 2 | ATrackingCut => 3
             | AFailure => 4 | AOther => 5 | AModel => 6 | ANone => (-1) end%Z.
Definition paction_of (c : Z) : paction :=
  match c with 0 => ABoundary | 1 => ARange | 2 => ADiscrete | 3 => ATrackingCut
             | 4 => AFailure | 6 => AModel | (-1) => ANone | _ => AOther end%Z.
Definition iaction_of (c : Z) : iaction :=
  match c with 0 => IScattered | 1 => IAbsorbed | 2 => IUnchanged | _ => IFailed end%Z.

(** MeanELoss::calc_eloss with the table look-ups as inputs *)
Definition run_mean (apply_cut : bool) (lowest E step range rate inv lll : float) : float :=
  mean_eloss_cut apply_cut lowest E
    (calc_mean_energy_loss E step rate lll range (fun _ => inv)).

Definition out_slot (s : slot float) :=
  (tE (strk s), sdep s, status_code (sstat s), paction_code (spost s)).

(** ElossApplier{scripted} *)
Definition run_eloss (E m : float) (anti : bool) (dep0 : float) (post : Z)
           (applicable has_at_rest : bool) (value : float) :=
  let s := mkSlot (mkTrack E m anti) dep0 Alive (paction_of post) [] in
  out_slot (eloss_apply applicable has_at_rest value s).

(** ElossApplier{MeanELoss} *)
Definition run_elossmean (E m : float) (anti : bool) (post : Z) (has_at_rest : bool)
           (lowest step range rate inv lll : float) :=
  let s := mkSlot (mkTrack E m anti) 0%float Alive (paction_of post) [] in
  let d := run_mean (eloss_apply_cut s) lowest E step range rate inv lll in
  out_slot (eloss_apply true has_at_rest d s).

(** InteractionApplier: particle ids 0 gamma, 1 electron, 2 positron (mass m, anti) *)
Definition mk_sec (m : float) (p : Z * float) : sec float :=
  let '(pid, e) := p in
  mkSec true (Z.to_nat pid) e (if (pid =? 0)%Z then 0%float else m) (pid =? 2)%Z.

Definition cut3 (g e p : float) (pid : nat) : option float :=
  match pid with 0%nat => Some g | 1%nat => Some e | 2%nat => Some p | _ => None end.

Definition run_interact (apply_post : bool) (gcut ecut pcut me : float)
           (E m : float) (anti : bool) (dep0 : float)
           (act : Z) (iE idep : float) (secs : list (Z * float)) :=
  let s := mkSlot (mkTrack E m anti) dep0 Alive AOther [] in
  let i := mkInt (iaction_of act) iE idep (map (mk_sec me) secs) in
  let '(s', failed) := interaction_apply apply_post (cut3 gcut ecut pcut) i s in
  (tE (strk s'), sdep s', status_code (sstat s'), failed,
   map (fun x => (svalid x, sE x)) (ssecs s')).

Definition run_tcut (E m : float) (anti : bool) (dep0 : float) :=
  let s := tracking_cut_apply (mkSlot (mkTrack E m anti) dep0 Alive AOther []) in
  (tE (strk s), sdep s, status_code (sstat s)).
