(** * C01 x C02: non-vacuity of the composition theorem (a concrete cascade on the
    concrete machine, over R). *)
From Coq Require Import Reals List Arith Bool PeanoNat Lia Lra.
From Celer Require Import Base.Num Base.NumR C01.LedgerModel C01.LedgerProofs.
From Celer Require Import C02.TrackInit.
From Celer Require Import C01.InitLedger C01.InitLedgerProofs.
Import ListNotations.
Local Open Scope R_scope.

(** 2 slots, 4 initializers, LIFO order, one event *)
Definition ex_cfg (charge : bool) : config := mkCfg 2 4 charge 1.

(** a 20 MeV electron is absorbed: 2 deposited locally, an 8 MeV gamma and a
    10 MeV electron are emitted *)
Definition ex_abs : interaction R :=
  mkInt IAbsorbed 0 2 [mkSec true 0 8 0 false; mkSec true 1 10 1 false].

(** the parent dies with two surviving secondaries: the first one is initialised
    in place in the parent's slot (LIFO order) or both go through the stack
    (charge-partitioned order), the other one is popped from the stack by the
    next InitializeTracks; then the gamma escapes and the electron is cut *)
Definition ex_ops (h2 : list (list (tevent R))) : list (eop R) :=
  [ EInsert [(mkPrim 0 1 false, mkTrack 20 1 false)];
    EInit;
    EPhysics [[]; [TInteract false (fun _ => None) ex_abs]];
    EExtendSec;
    EInit;
    EPhysics h2;
    EExtendSec ].

Ltac ecompute := cbv -[Rplus Rminus Rmult Ropp Rinv Rdiv IZR Rltb Rleb Reqb Rlt Rle Rgt Rge].

Lemma ex_lifo_run :
  exists E, eexec (ex_cfg false) (einit (ex_cfg false)) (ex_ops [[TCut]; [TExit]]) = Some E
    /\ ph (es E) = Ready /\ drained (es E) = true
    /\ edep E = 12 /\ eesc E = 8.
Proof.
  eexists. split; [ecompute; reflexivity|]. ecompute. repeat split; try lra; reflexivity.
Qed.

Lemma ex_lifo_ok :
  eops_ok (ex_cfg false) (einit (ex_cfg false)) (ex_ops [[TCut]; [TExit]]).
Proof.
  ecompute. repeat split; try exact I; try lra; repeat (constructor; try reflexivity).
Qed.

(** the in-place initialisation really happens in this run: after the first
    ExtendFromSecondaries the dead parent's slot holds the 8 MeV gamma
    ([Initializing]) and the 10 MeV electron waits on the initializer stack *)
Lemma ex_lifo_in_place :
  exists E, eexec (ex_cfg false) (einit (ex_cfg false)) (firstn 4 (ex_ops [])) = Some E
    /\ slot_tracks E = [(Inactive, None); (Initializing, Some (mkTrack 8 0 false))]
    /\ stack_tracks E = [mkTrack 10 1 false].
Proof.
  eexists. split; [ecompute; reflexivity|]. ecompute. split; reflexivity.
Qed.

(** charge-partitioned order: both secondaries go through the stack *)
Lemma ex_charge_run :
  exists E, eexec (ex_cfg true) (einit (ex_cfg true)) (ex_ops [[TCut]; [TExit]]) = Some E
    /\ eops_ok (ex_cfg true) (einit (ex_cfg true)) (ex_ops [[TCut]; [TExit]])
    /\ ph (es E) = Ready /\ drained (es E) = true
    /\ 0 < edep E /\ 0 < eesc E /\ edep E + eesc E = 20.
Proof.
  eexists. split; [ecompute; reflexivity|]. split.
  - ecompute. repeat split; try exact I; try lra; repeat (constructor; try reflexivity).
  - ecompute. repeat split; try lra; reflexivity.
Qed.

Lemma ex_charge_through_stack :
  exists E, eexec (ex_cfg true) (einit (ex_cfg true)) (firstn 4 (ex_ops [])) = Some E
    /\ slot_tracks E = [(Inactive, None); (Inactive, None)]
    /\ length (stack_tracks E) = 2%nat.
Proof.
  eexists. split; [ecompute; reflexivity|]. ecompute. split; reflexivity.
Qed.

Lemma example_machine_nonvacuous :
  forall charge, exists E,
    eops_ok (ex_cfg charge) (einit (ex_cfg charge)) (ex_ops [[TCut]; [TExit]])
    /\ eexec (ex_cfg charge) (einit (ex_cfg charge)) (ex_ops [[TCut]; [TExit]]) = Some E
    /\ ph (es E) = Ready /\ drained (es E) = true
    /\ 0 < edep E /\ 0 < eesc E
    /\ inserted_w (ex_ops [[TCut]; [TExit]]) = 20 /\ edep E + eesc E = 20.
Proof.
  assert (Hin : inserted_w (ex_ops [[TCut]; [TExit]]) = 20).
  { ecompute. lra. }
  intros [|].
  - destruct ex_charge_run as (E & H1 & H2 & H3 & H4 & H5 & H6 & H7). exists E.
    exact (conj H2 (conj H1 (conj H3 (conj H4 (conj H5 (conj H6 (conj Hin H7))))))).
  - destruct ex_lifo_run as (E & H1 & H3 & H4 & H5 & H6). exists E.
    assert (A1 : 0 < edep E) by lra. assert (A2 : 0 < eesc E) by lra.
    assert (A3 : edep E + eesc E = 20) by lra.
    exact (conj ex_lifo_ok (conj H1 (conj H3 (conj H4 (conj A1 (conj A2 (conj Hin A3))))))).
Qed.
