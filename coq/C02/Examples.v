(** * C02: non-vacuity -- the hypotheses of the theorems are satisfiable.
    4 slots, 2 events in flight, a parent dying with 3 secondaries, under both
    track orders; a capacity error followed by reset; a drained final state. *)
From Coq Require Import List Arith Bool PeanoNat.
From Celer Require Import C02.TrackInit C02.InvA C02.InvB.
Import ListNotations.

Definition ex_cfg (charge : bool) : config := mkCfg 4 8 charge 2.

Definition ex_ops : list op :=
  [ InsertPrimaries [mkPrim 0 0 false; mkPrim 1 1 false; mkPrim 0 0 false];
    InitializeTracks;
    PhysicsOutcome [mkOut false []; mkOut true [2; 1; 0; 2]; mkOut false [2]; mkOut false []];
    ExtendFromSecondaries;
    InsertPrimaries [mkPrim 1 0 false];              (* new primaries while tracks are in flight *)
    InitializeTracks;
    PhysicsOutcome [mkOut true []; mkOut true []; mkOut true [1]; mkOut true []];
    ExtendFromSecondaries ].

Example ex_run_none : exists s, exec (ex_cfg false) (init_state (ex_cfg false)) ex_ops = Some s /\ ph s = Ready
  /\ length (all_tracks s) = 4 /\ n_inactive (slots s) = 3.
Proof. eexists. split; [vm_compute; reflexivity|]. vm_compute. auto. Qed.

Example ex_run_charge : exists s, exec (ex_cfg true) (init_state (ex_cfg true)) ex_ops = Some s /\ ph s = Ready
  /\ length (all_tracks s) = 3 /\ n_inactive (slots s) = 4.
Proof. eexists. split; [vm_compute; reflexivity|]. vm_compute. auto. Qed.

(** the dying parent of slot 1 (3 live secondaries): in place + 2 pushed
    (none), or 3 pushed (init_charge) *)
Example ex_dying_parent_none :
  exists s s', exec (ex_cfg false) (init_state (ex_cfg false)) (firstn 3 ex_ops) = Some s /\
    extend_from_secondaries (ex_cfg false) s = Ok s' /\ c_sec (cnt s') = 3 /\
    sst (nth 1 (slots s') dflt_slot) = Initializing.
Proof. eexists. eexists. split; [vm_compute; reflexivity|]. vm_compute. auto. Qed.

Example ex_dying_parent_charge :
  exists s s', exec (ex_cfg true) (init_state (ex_cfg true)) (firstn 3 ex_ops) = Some s /\
    extend_from_secondaries (ex_cfg true) s = Ok s' /\ c_sec (cnt s') = 3 /\
    sst (nth 1 (slots s') dflt_slot) = Inactive.
Proof. eexists. eexists. split; [vm_compute; reflexivity|]. vm_compute. auto. Qed.

(** capacity error, then reset, then a clean continuation *)
Definition ex_small : config := mkCfg 2 2 false 1.
Example ex_error_reset :
  exists s s1 s2,
    exec ex_small (init_state ex_small)
      [InsertPrimaries [mkPrim 0 0 false; mkPrim 0 0 false]; InitializeTracks;
       PhysicsOutcome [mkOut false [1; 1]; mkOut false [2; 2]]] = Some s /\
    (exists e, extend_from_secondaries ex_small s = Err e) /\
    reset ex_small s = Ok s1 /\
    exec ex_small s1 [InsertPrimaries [mkPrim 0 1 false]; InitializeTracks;
                      PhysicsOutcome [mkOut true []; mkOut true []]; ExtendFromSecondaries; Reseed] = Some s2 /\
    drained s2 = true.
Proof.
  eexists. eexists. eexists. split; [vm_compute; reflexivity|].
  split; [eexists; vm_compute; reflexivity|]. split; [vm_compute; reflexivity|].
  split; vm_compute; reflexivity.
Qed.

(** an insert that exceeds the capacity *)
Example ex_insert_error :
  insert_primaries ex_small (init_state ex_small) [mkPrim 0 0 false; mkPrim 0 0 false; mkPrim 0 0 false]
  = Err (set_ph Failed (init_state ex_small)).
Proof. vm_compute. reflexivity. Qed.

(** scan example *)
Example ex_scan : exclusive_scan 0 [2; 0; 3; 1] = ([0; 2; 2; 5], 6).
Proof. reflexivity. Qed.

(** Observation O2 (NOTES.md): under init_charge, without an
    extend-from-primaries step in between, InitTracksExecutor can read a STALE
    [parents] entry: the slot it names holds a track that is neither the
    parent of the initializer nor its in-place sibling.  Witness: 2 slots. *)
Definition o2_cfg : config := mkCfg 2 8 true 1.
Definition o2_ops : list op :=
  [ InsertPrimaries [mkPrim 0 0 false; mkPrim 0 0 false]; InitializeTracks;
    PhysicsOutcome [mkOut false [2]; mkOut false []]; ExtendFromSecondaries;
    InitializeTracks;                                  (* no vacancy: parents not cleared *)
    PhysicsOutcome [mkOut false []; mkOut true [2]]; ExtendFromSecondaries ].

Lemma parent_slot_stale_refuted :
  exists s sid ini p,
    exec o2_cfg (init_state o2_cfg) o2_ops = Some s /\ ph s = Ready /\
    init_thread o2_cfg s (partition_initializers (stack s) (c_init (cnt s)) 1) 1 0 = (sid, ini, Some p) /\
    tpar ini <> Some (tid (str (nth p (slots s) dflt_slot))) /\
    tpar ini <> tpar (str (nth p (slots s) dflt_slot)).
Proof.
  eexists. eexists. eexists. eexists.
  split; [vm_compute; reflexivity|]. split; [reflexivity|]. split; [vm_compute; reflexivity|].
  split; vm_compute; discriminate.
Qed.
