(** * C02: entry points for the correspondence check.
    Encodes each result of [run] exactly like one dump line of
    props/C02/harness/trackinit.cc (separators removed). *)
From Coq Require Import List Arith Bool.
From Celer Require Import C02.TrackInit C02.InitData.
Import ListNotations.

Definition enc_opt (o : option nat) : nat := match o with None => 0 | Some k => S k end.

Definition status_code (s : status) : nat :=
  match s with Inactive => 0 | Initializing => 1 | Alive => 2 | Errored => 3 | Killed => 4 end.

Definition enc_slot (sl : slot) : list nat :=
  if sused sl then
    [status_code (sst sl); S (tid (str sl)); enc_opt (tpar (str sl)); S (tev (str sl)); S (tpid (str sl))]
  else [status_code (sst sl); 0; 0; 0; 0].

Definition enc_trk (t : trk) : list nat :=
  [S (tid t); enc_opt (tpar t); S (tev t); S (tpid t)].

Definition enc_state (kind : nat) (s : state) : list nat :=
  let c := cnt s in
  [kind; c_gen c; c_init c; c_vac c; c_active c; c_sec c; c_alive c]
  ++ concat (map enc_slot (slots s))
  ++ [length (vac s)] ++ map S (vac s)
  ++ map enc_opt (parents s)
  ++ [length (stack s)] ++ concat (map enc_trk (stack s))
  ++ next_id s.

Definition enc_result (r : result) : list nat :=
  match r with
  | Ok s => enc_state 0 s
  | Err s => enc_state 1 s
  | Misuse => [9]
  end.

Definition run_case (n cap : nat) (charge : bool) (nev : nat) (ops : list op) : list (list nat) :=
  let cfg := mkCfg n cap charge nev in
  map enc_result (run cfg (init_state cfg) ops).

(** the freshly constructed state (CoreState constructor + TrackInitData.hh
    resize), encoded like the "F" line of harness/trackinit.cc *)
Definition b2n (b : bool) : nat := if b then 1 else 0.

Definition fresh_case (n cap : nat) (charge : bool) (nev : nat) : list nat :=
  let cfg := mkCfg n cap charge nev in
  match construct_state cfg with
  | None => [0]
  | Some (s, d) =>
    let c := cnt s in
    [1; length (d_parents d); length (d_indices d); length (d_secondary_counts d);
     length (d_vacancies d); length (d_track_counters d); d_initializers d; b2n (data_assigned d)]
    ++ [c_gen c; c_init c; c_vac c; c_active c; c_sec c; c_alive c]
    ++ map (fun sl => status_code (sst sl)) (slots s)
    ++ map enc_opt (d_parents d) ++ map S (d_vacancies d) ++ d_track_counters d
  end.
