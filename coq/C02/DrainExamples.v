(** * C02: non-vacuity of drain_terminates -- a small cascade.
    Primaries (no parent): at loop iteration 0 they survive and emit a gamma
    and an electron; later they die emitting one electron and one secondary
    that is cut away.  Secondary gammas die emitting one electron, secondary
    electrons die without secondaries. *)
From Coq Require Import List Arith Bool PeanoNat Lia Permutation.
From Celer Require Import C02.TrackInit C02.InvA C02.InvB C02.Drain C02.DrainGen.
Import ListNotations.

Definition ex_G : strategy := fun k _ t =>
  match tpar t with
  | None => if k =? 0 then mkOut false [1; 2] else mkOut true [2; 0]
  | Some _ => if tpid t =? 0 then mkOut true [2] else mkOut true []
  end.

Definition ex_W : nat -> trk -> nat := fun k t =>
  match tpar t with
  | None => if k =? 0 then 6 else 2
  | Some _ => if tpid t =? 0 then 2 else 1
  end.

Lemma ex_child_W : forall k t c, child_of t c -> ex_W k c = if tpid c =? 0 then 2 else 1.
Proof. intros k t c [_ Hp]. unfold ex_W. rewrite Hp. reflexivity. Qed.

Example ex_finitely_productive : finitely_productive ex_G ex_W.
Proof.
  split.
  - intros k t. unfold ex_W. destruct (tpar t); [lia|]. destruct k; cbn; lia.
  - intros k i t cs Hc Hm.
    assert (HW : forall c, In c cs -> ex_W (S k) c = if tpid c =? 0 then 2 else 1).
    { intros c Hin. rewrite Forall_forall in Hc. apply (ex_child_W _ t). apply Hc. exact Hin. }
    unfold ex_G in *. unfold ex_W at 1 3. destruct (tpar t).
    + destruct (tpid t =? 0); cbn in Hm.
      * destruct cs as [|c [|? ?]]; try discriminate. injection Hm as Hm1.
        rewrite wsum_cons, (HW c (or_introl eq_refl)), Hm1. cbn. lia.
      * destruct cs; try discriminate. cbn. lia.
    + destruct k; cbn in Hm.
      * destruct cs as [|c1 [|c2 [|? ?]]]; try discriminate. injection Hm as Hm1 Hm2.
        rewrite !wsum_cons,  (HW c1 (or_introl eq_refl)), (HW c2 (or_intror (or_introl eq_refl))), Hm1, Hm2. cbn. lia.
      * destruct cs as [|c [|? ?]]; try discriminate. injection Hm as Hm1.
        rewrite wsum_cons, (HW c (or_introl eq_refl)), Hm1. cbn. lia.
Qed.

Definition exd_cfg (charge : bool) : config := mkCfg 2 20 charge 1.
Definition exd_ops : list op := [InsertPrimaries [mkPrim 0 0 false; mkPrim 0 0 false; mkPrim 0 1 false]].

(** 2 slots, 3 primaries, both track orders: the loop drains after 7 iterations
    (potential 18); order none: 7 initializers popped = 3 queued + 4 pushed (the
    other secondaries were initialised in place); init_charge: 12 = 3 + 9 *)
Example ex_drain_cascade : forall charge,
  exists s s' L,
    exec (exd_cfg charge) (init_state (exd_cfg charge)) exd_ops = Some s /\ ph s = Ready /\
    potential ex_W 0 s = 18 /\ potential ex_W 0 s <= capacity (exd_cfg charge) /\
    loop (exd_cfg charge) ex_G 0 (potential ex_W 0 s) s (mkL [] [] 0) = Drained s' L /\
    0 < l_iters L <= 18 /\ length (l_popped L) = 3 + length (l_pushed L) /\ 3 < length (l_pushed L).
Proof.
  intros charge. destruct charge; eexists; eexists; eexists.
  all: split; [vm_compute; reflexivity|]; split; [reflexivity|]; split; [vm_compute; reflexivity|].
  all: split; [vm_compute; lia|]; split; [vm_compute; reflexivity|]; vm_compute; lia.
Qed.

(** a starved capacity: the same cascade with room for 3 initializers only
    ends with a reported capacity error, not with a wrong state *)
Example ex_drain_starved :
  exists s s' L,
    exec (mkCfg 2 3 false 1) (init_state (mkCfg 2 3 false 1)) exd_ops = Some s /\
    loop (mkCfg 2 3 false 1) ex_G 0 (potential ex_W 0 s) s (mkL [] [] 0) = CapError s' L /\
    ph s' = Failed /\ l_iters L = 1.
Proof.
  eexists; eexists; eexists. split; [vm_compute; reflexivity|]. split; [vm_compute; reflexivity|]. split; reflexivity.
Qed.
