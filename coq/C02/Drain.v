(** * C02: the stepping loop drains (partial: proved for the non-productive
    outcome stream in which every track in flight dies without secondaries). *)
From Coq Require Import List Arith Bool PeanoNat Lia Permutation.
From Celer Require Import C02.TrackInit C02.ListLemmas C02.InvA C02.InvA2 C02.InvB C02.TrackInitProofs.
Import ListNotations.

Definition kill_all (n : nat) : list outcome := repeat (mkOut true []) n.

(** one iteration of the stepping loop *)
Definition iteration (f : list outcome) : list op :=
  [InitializeTracks; PhysicsOutcome f; ExtendFromSecondaries].

Fixpoint iterate (cfg : config) (k : nat) (s : state) : option state :=
  match k with
  | 0 => Some s
  | S k' => match exec cfg s (iteration (kill_all (n_slots cfg))) with
            | Some s' => iterate cfg k' s'
            | None => None
            end
  end.

Definition dead_or_idle (sl : slot) : Prop :=
  sst sl = Inactive \/ (sst sl = Killed /\ ssecs sl = []).

Lemma physics_kill_all : forall sls,
  Forall (fun sl => status_ok Inited (sst sl)) sls ->
  Forall dead_or_idle (physics_slots sls (kill_all (length sls))).
Proof.
  induction sls as [|x r IH]; intros H; cbn [length kill_all repeat physics_slots hd tl]; constructor.
  - unfold physics_slot, dead_or_idle. destruct (sst x) eqn:Hs; cbn; auto.
  - apply IH. inversion H; assumption.
Qed.

Lemma spec_all_dead : forall charge sls nx,
  Forall dead_or_idle sls ->
  Forall (fun sl => is_inactive sl = true) (fst (fst (spec_all charge sls nx))) /\
  snd (fst (spec_all charge sls nx)) = [] /\ snd (spec_all charge sls nx) = nx.
Proof.
  induction sls as [|sl r IH]; intros nx H; [cbn; auto|].
  inversion H as [|? ? Hd Hr]; subst. rewrite spec_all_cons. cbn [fst snd].
  assert (Hs : spec_slot charge sl nx = (mkSlot Inactive (str sl) (ssecs sl) (sused sl), [], nx)
               \/ spec_slot charge sl nx = (sl, [], nx) /\ is_inactive sl = true).
  { unfold spec_slot. destruct Hd as [Hi|[Hk Hsec]].
    - right. rewrite Hi. cbn. split; [reflexivity|]. unfold is_inactive. rewrite Hi. reflexivity.
    - left. rewrite Hk. cbn [status_eqb]. unfold live_secs. rewrite Hsec. cbn. reflexivity. }
  destruct Hs as [Hs|[Hs Hin]]; rewrite Hs; cbn [fst snd]; destruct (IH nx Hr) as (A & B & C).
  - split; [constructor; [reflexivity|exact A]|]. split; [rewrite B; reflexivity|exact C].
  - split; [constructor; [exact Hin|exact A]|]. split; [rewrite B; reflexivity|exact C].
Qed.

Lemma locate_all_dead_sum : forall charge sls i,
  Forall dead_or_idle sls -> list_sum (map snd (locate_all charge i sls)) = 0.
Proof.
  induction sls as [|sl r IH]; intros i H; [reflexivity|].
  inversion H as [|? ? Hd Hr]; subst. cbn [locate_all map list_sum fold_right].
  fold (list_sum (map snd (locate_all charge (S i) r))). rewrite (IH (S i) Hr).
  unfold locate_alive. destruct Hd as [Hi|[Hk Hsec]].
  - rewrite Hi. reflexivity.
  - rewrite Hk. cbn [status_eqb]. unfold live_secs. rewrite Hsec. cbn. destruct charge; reflexivity.
Qed.

Lemma step_not_failed : forall cfg s o, ph s <> Failed ->
  step cfg s o = match o with
                 | InsertPrimaries ps => insert_primaries cfg s ps
                 | ExtendFromPrimaries => extend_from_primaries cfg s
                 | InitializeTracks => initialize_tracks cfg s
                 | PhysicsOutcome f => physics_outcome cfg s f
                 | ExtendFromSecondaries => extend_from_secondaries cfg s
                 | Reset => reset cfg s
                 | Reseed => reseed cfg s
                 end.
Proof.
  intros cfg s o H. unfold step. destruct (ph s) eqn:E; try contradiction; destruct o; reflexivity.
Qed.

(** one kill-all iteration from a Ready state satisfying the invariant *)
Lemma iteration_kill_all : forall cfg s,
  InvA cfg s -> ph s = Ready ->
  exists s',
    exec cfg s (iteration (kill_all (n_slots cfg))) = Some s' /\
    InvA cfg s' /\ ph s' = Ready /\
    Forall (fun sl => is_inactive sl = true) (slots s') /\
    length (stack s') = length (stack s) - Nat.min (n_inactive (slots s)) (length (stack s)).
Proof.
  intros cfg s HA Hph.
  pose proof HA as ((Hl & Hp & Hn) & Hlive & _). rewrite Hph in Hlive.
  destruct (Hlive ltac:(discriminate)) as (A & B & C & D).
  (* 1. initialize-tracks *)
  assert (Hi : exists s1, initialize_tracks cfg s = Ok s1 /\ ph s1 = Inited /\
                 length (stack s1) = length (stack s) - Nat.min (n_inactive (slots s)) (length (stack s))).
  { unfold initialize_tracks. rewrite Hph. cbn [phase_eqb negb]. rewrite <- C, <- A.
    destruct (Nat.min (c_vac (cnt s)) (c_init (cnt s)) =? 0) eqn:Hz.
    - apply Nat.eqb_eq in Hz. eexists. split; [reflexivity|]. cbn. split; [reflexivity|]. rewrite Hz, A. lia.
    - eexists. split; [reflexivity|]. cbn. split; [reflexivity|]. rewrite firstn_length. rewrite A. lia. }
  destruct Hi as (s1 & Hi & Hph1 & Hlen1).
  pose proof (InvA_initialize cfg s s1 HA Hi) as HA1.
  pose proof HA1 as ((Hl1 & _) & Hlive1 & _). rewrite Hph1 in Hlive1.
  destruct (Hlive1 ltac:(discriminate)) as (A1 & B1 & C1 & D1).
  (* 2. physics: everything in flight dies *)
  set (s2 := mkState (physics_slots (slots s1) (kill_all (n_slots cfg))) (stack s1) (parents s1) (vac s1)
                     (cnt s1) (next_id s1) Interacted).
  assert (Hx : physics_outcome cfg s1 (kill_all (n_slots cfg)) = Ok s2).
  { unfold physics_outcome. rewrite Hph1. reflexivity. }
  pose proof (InvA_physics cfg s1 _ s2 HA1 Hx) as HA2.
  assert (Hdead : Forall dead_or_idle (slots s2)).
  { unfold s2. cbn [slots]. rewrite <- Hl1. apply physics_kill_all. exact D1. }
  (* 3. extend-from-secondaries: no secondaries, no capacity error *)
  assert (Hsum : list_sum (map snd (locate_all (charge_order cfg) 0 (slots s2))) = 0)
    by (apply locate_all_dead_sum; exact Hdead).
  assert (He : exists s3, extend_from_secondaries cfg s2 = Ok s3 /\ ph s3 = Ready).
  { unfold extend_from_secondaries. cbn [ph s2 phase_eqb negb].
    pose proof (exclusive_scan_total (map snd (locate_all (charge_order cfg) 0 (slots s2))) 0) as Htot.
    destruct (exclusive_scan 0 (map snd (locate_all (charge_order cfg) 0 (slots s2)))) as [scan total].
    cbn [snd] in Htot. rewrite Hsum in Htot. cbn in Htot. subst total.
    assert (Hc : (capacity cfg <? c_init (cnt s2) + 0) = false).
    { apply Nat.ltb_ge. unfold s2. cbn [cnt]. lia. }
    rewrite Hc. destruct (proc_all _ _ _ _ _ _ _ _) as [slots' ps]. eexists. split; reflexivity. }
  destruct He as (s3 & He & Hph3).
  pose proof (InvA_extend_sec cfg s2 s3 HA2 (or_introl He)) as HA3.
  destruct (secondaries_layout_inv cfg s2 s3 HA2 He) as (L1 & L2 & L3).
  destruct (spec_all_dead (charge_order cfg) (slots s2) (next_id s2) Hdead) as (S1 & S2 & S3).
  exists s3. split.
  - unfold iteration. cbn [exec].
    rewrite (step_not_failed cfg s InitializeTracks ltac:(rewrite Hph; discriminate)), Hi. cbn [res_state].
    rewrite (step_not_failed cfg s1 (PhysicsOutcome _) ltac:(rewrite Hph1; discriminate)), Hx. cbn [res_state].
    rewrite (step_not_failed cfg s2 ExtendFromSecondaries ltac:(unfold s2; cbn; discriminate)), He. reflexivity.
  - split; [exact HA3|]. split; [exact Hph3|]. split.
    + rewrite L1. exact S1.
    + rewrite L2, S2, app_nil_r. unfold s2. cbn [stack]. exact Hlen1.
Qed.

Lemma drained_of : forall cfg s, InvA cfg s -> ph s = Ready ->
  Forall (fun sl => is_inactive sl = true) (slots s) -> stack s = [] ->
  drained s = true /\ c_init (cnt s) = 0 /\ c_alive (cnt s) = 0.
Proof.
  intros cfg s ((Hl & _) & Hlive & Hready & _) Hph Hall Hst. rewrite Hph in Hlive.
  destruct (Hlive ltac:(discriminate)) as (A & _). destruct (Hready Hph) as (_ & F).
  rewrite Hst in A. cbn in A. split; [|split; [exact A|]].
  - unfold drained. rewrite A. rewrite Nat.eqb_refl, andb_true_r.
    apply forallb_forall. rewrite Forall_forall in Hall. exact Hall.
  - rewrite F, (n_inactive_all _ Hall), Hl. lia.
Qed.

Lemma drain_aux : forall cfg m s, 1 <= n_slots cfg ->
  InvA cfg s -> ph s = Ready -> Forall (fun sl => is_inactive sl = true) (slots s) ->
  length (stack s) <= m ->
  exists k s', k <= m /\ iterate cfg k s = Some s' /\ InvA cfg s' /\ ph s' = Ready /\
               Forall (fun sl => is_inactive sl = true) (slots s') /\ stack s' = [].
Proof.
  induction m as [|m IH]; intros s Hn HA Hph Hall Hlen.
  - exists 0, s. split; [lia|]. split; [reflexivity|]. split; [exact HA|]. split; [exact Hph|]. split; [exact Hall|].
    destruct (stack s); [reflexivity|cbn in Hlen; lia].
  - destruct (stack s) as [|t r] eqn:Hst.
    + exists 0, s. split; [lia|]. split; [reflexivity|]. split; [exact HA|]. split; [exact Hph|]. split; [exact Hall|exact Hst].
    + destruct (iteration_kill_all cfg s HA Hph) as (s1 & E1 & HA1 & Hph1 & Hall1 & Hlen1).
      assert (Hni : n_inactive (slots s) = n_slots cfg).
      { rewrite (n_inactive_all _ Hall). destruct HA as ((Hl & _) & _). exact Hl. }
      rewrite Hni, Hst in Hlen1. cbn [length] in Hlen1, Hlen.
      destruct (IH s1 Hn HA1 Hph1 Hall1 ltac:(lia)) as (k & s' & Hk & Hit & R).
      exists (S k), s'. split; [lia|]. split; [|exact R]. cbn [iterate]. rewrite E1. exact Hit.
Qed.

(** drain_terminates for the kill-all stream: from ANY reachable state of the
    loop (any history of primaries, outcomes, errors and resets before), at most
    1 + queued iterations in which every track dies without secondaries bring
    the loop to alive = queued = 0 *)
Lemma drain_kill_all : forall cfg ops s,
  exec cfg (init_state cfg) ops = Some s -> ph s = Ready -> 1 <= n_slots cfg ->
  exists k s', k <= 1 + length (stack s) /\ iterate cfg k s = Some s' /\
               drained s' = true /\ c_init (cnt s') = 0 /\ c_alive (cnt s') = 0 /\ ph s' = Ready.
Proof.
  intros cfg ops s Hex Hph Hn.
  pose proof (counters_exact cfg ops s Hex) as HA.
  destruct (iteration_kill_all cfg s HA Hph) as (s1 & E1 & HA1 & Hph1 & Hall1 & Hlen1).
  destruct (drain_aux cfg (length (stack s1)) s1 Hn HA1 Hph1 Hall1 (le_n _)) as (k & s' & Hk & Hit & HA' & Hph' & Hall' & Hst').
  destruct (drained_of cfg s' HA' Hph' Hall' Hst') as (D1 & D2 & D3).
  exists (S k), s'. split; [lia|]. split; [cbn [iterate]; rewrite E1; exact Hit|]. auto.
Qed.
