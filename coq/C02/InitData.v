(** * C02: model of the construction of the track-initialisation state
    (src/celeritas/track/TrackInitData.hh [resize], [TrackInitStateData::operator bool],
    [TrackInitParamsData::operator bool]; src/celeritas/global/CoreState.cc
    constructor; src/celeritas/track/SimData.hh [resize] for the statuses).
    NO proofs in this file. *)
From Coq Require Import List Arith Bool PeanoNat.
From Celer Require Import C02.TrackInit.
Import ListNotations.

(** the collections of [TrackInitStateData] right after [resize] *)
Record init_data := mkInitData {
  d_parents : list (option nat);      (* resize(&parents, size): null ids *)
  d_indices : list nat;               (* resized only for init_charge *)
  d_secondary_counts : list nat;      (* size + 1 *)
  d_vacancies : list nat;             (* fill_sequence *)
  d_track_counters : list nat;        (* max_events, filled with 0 *)
  d_initializers : nat }.             (* size of the storage = params.capacity *)

Definition resize_init_data (cfg : config) : init_data :=
  let size := n_slots cfg in
  mkInitData (repeat None size)
             (if charge_order cfg then repeat 0 size else [])
             (repeat 0 (size + 1))
             (seq 0 size)
             (repeat 0 (n_events cfg))
             (capacity cfg).

(** [TrackInitStateData::operator bool] (the CELER_ENSURE at the end of resize;
    compiled out in this build) *)
Definition data_assigned (d : init_data) : bool :=
  (length (d_parents d) =? length (d_vacancies d))
  && ((length (d_indices d) =? length (d_vacancies d)) || (length (d_indices d) =? 0))
  && (length (d_secondary_counts d) =? length (d_vacancies d) + 1)
  && negb (length (d_track_counters d) =? 0)
  && negb (d_initializers d =? 0).

(** [TrackInitParamsData::operator bool] (CELER_EXPECT(params): compiled out) *)
Definition params_assigned (cfg : config) : bool := (0 <? capacity cfg) && (0 <? n_events cfg).

(** [CoreState::CoreState]: CELER_VALIDATE(num_track_slots > 0) (None = the
    RuntimeError), then every state collection is resized (sim statuses filled
    with inactive, track-init data as above), counters are zero except
    num_vacancies = size *)
Definition construct_state (cfg : config) : option (state * init_data) :=
  if n_slots cfg =? 0 then None
  else
    let d := resize_init_data cfg in
    Some (mkState (repeat dflt_slot (n_slots cfg)) [] (d_parents d) (d_vacancies d)
            (mkCnt 0 0 (n_slots cfg) 0 0 0) (d_track_counters d) Ready, d).
