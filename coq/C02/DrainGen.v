(** * C02: drain_terminates, general form.

    The physics is an arbitrary (adaptive) outcome strategy
    [G k i t] = what happens at loop iteration [k] to the track [t] sitting in
    slot [i] (does it die, which secondaries does it emit; kind 0 = cut away).
    Every per-slot outcome stream is such a strategy (ignore [t]); every forest
    of per-track histories is one too (ignore [i]).

    [G] is _finitely productive_ when there is a potential [W k t] (the number
    of track-steps that remain in the subtree of [t] at iteration [k]) that
    - does not grow while a track waits in the initializer stack, and
    - pays for every step: potential of the surviving track plus potential of
      all emitted (non-null) secondaries, plus one, is at most the potential
      before the step.
    Then from any reachable Ready state the stepping loop reaches
    alive = queued = 0 within [sum of W over the tracks in flight] iterations,
    unless a capacity error is reported first; and it cannot be reported when
    the capacity is at least that sum. *)
From Coq Require Import List Arith Bool PeanoNat Lia Permutation.
From Celer Require Import C02.TrackInit C02.ListLemmas C02.InvA C02.InvA2 C02.InvB C02.TrackInitProofs C02.Drain.
Import ListNotations.

(** ** Definitions *)

Definition strategy := nat -> nat -> trk -> outcome.

(** the outcome list handed to the physics op: slot [i] holding track [t] gets [g i t] *)
Fixpoint outcomes_from (g : nat -> trk -> outcome) (i : nat) (sls : list slot) : list outcome :=
  match sls with
  | [] => []
  | sl :: r => g i (str sl) :: outcomes_from g (S i) r
  end.

(** one loop iteration: (state after initialize-tracks, state after extend-from-secondaries) *)
Inductive iter_res := IOk (s1 s3 : state) | IErr (s3 : state) | IMisuse.

Definition iteration_g (cfg : config) (g : nat -> trk -> outcome) (s : state) : iter_res :=
  match step cfg s InitializeTracks with
  | Ok s1 =>
    match step cfg s1 (PhysicsOutcome (outcomes_from g 0 (slots s1))) with
    | Ok s2 =>
      match step cfg s2 ExtendFromSecondaries with
      | Ok s3 => IOk s1 s3
      | Err s3 => IErr s3
      | Misuse => IMisuse
      end
    | _ => IMisuse
    end
  | _ => IMisuse
  end.

(** ghost ledger of the loop: every initializer popped by initialize-tracks,
    every initializer pushed by extend-from-secondaries, iterations done *)
Record ledger := mkL { l_popped : list trk; l_pushed : list trk; l_iters : nat }.

Inductive loop_end :=
| Drained (s : state) (L : ledger)      (* alive = queued = 0 *)
| CapError (s : state) (L : ledger)     (* extend-from-secondaries reported a capacity error *)
| OutOfFuel (s : state) (L : ledger)
| Broken.                               (* protocol misuse: never happens *)

Fixpoint loop (cfg : config) (G : strategy) (k fuel : nat) (s : state) (L : ledger) : loop_end :=
  if drained s then Drained s L
  else match fuel with
       | 0 => OutOfFuel s L
       | S fuel' =>
         match iteration_g cfg (G k) s with
         | IOk s1 s3 =>
           loop cfg G (S k) fuel' s3
                (mkL (l_popped L ++ skipn (length (stack s1)) (stack s))
                     (l_pushed L ++ skipn (length (stack s1)) (stack s3))
                     (S (l_iters L)))
         | IErr s3 => CapError s3 (mkL (l_popped L) (l_pushed L) (S (l_iters L)))
         | IMisuse => Broken
         end
       end.

Definition wsum (w : trk -> nat) (l : list trk) : nat := list_sum (map w l).

Definition child_of (t c : trk) : Prop := tev c = tev t /\ tpar c = Some (tid t).

Definition live_kinds (o : outcome) : list nat := filter (fun k => negb (k =? 0)) (o_secs o).

Definition finitely_productive (G : strategy) (W : nat -> trk -> nat) : Prop :=
  (forall k t, W (S k) t <= W k t) /\
  (forall k i t cs,
     Forall (child_of t) cs -> map tpid cs = map (fun x => x - 1) (live_kinds (G k i t)) ->
     (if o_dies (G k i t) then 0 else W (S k) t) + wsum (W (S k)) cs + 1 <= W k t).

(** the potential of a state at iteration [k] *)
Definition potential (W : nat -> trk -> nat) (k : nat) (s : state) : nat := wsum (W k) (all_tracks s).

(** ** Weighted sums *)

Lemma wsum_app : forall w a b, wsum w (a ++ b) = wsum w a + wsum w b.
Proof.
  intros w a b. unfold wsum. rewrite map_app. induction (map w a) as [|x r IH]; [reflexivity|].
  cbn. cbn in IH. unfold list_sum in *. rewrite IH. lia.
Qed.

Lemma wsum_cons : forall w x l, wsum w (x :: l) = w x + wsum w l.
Proof. reflexivity. Qed.

Lemma wsum_perm : forall w a b, Permutation a b -> wsum w a = wsum w b.
Proof.
  intros w a b P. induction P as [|x l l' _ IH|x y l|l1 l2 l3 _ IH1 _ IH2].
  - reflexivity.
  - rewrite !wsum_cons, IH. reflexivity.
  - rewrite !wsum_cons. lia.
  - congruence.
Qed.

Lemma wsum_mono : forall (w w' : trk -> nat) l, (forall t, w' t <= w t) -> wsum w' l <= wsum w l.
Proof.
  intros w w' l H. induction l as [|x r IH]; [apply le_n|]. rewrite !wsum_cons. specialize (H x). lia.
Qed.

Lemma wsum_ge_length : forall (w : trk -> nat) l, (forall t, 1 <= w t) -> length l <= wsum w l.
Proof.
  intros w l H. induction l as [|x r IH]; [apply le_n|]. rewrite wsum_cons. cbn [length]. specialize (H x). lia.
Qed.

(** ** The secondaries of one slot are children of its track *)

Lemma make_secondaries_children : forall p ev ks nx,
  Forall (fun c => tev c = ev /\ tpar c = Some p) (fst (make_secondaries p ev ks nx)) /\
  map tpid (fst (make_secondaries p ev ks nx)) = map (fun x => x - 1) ks.
Proof.
  induction ks as [|k r IH]; intros nx; [split; [constructor|reflexivity]|].
  rewrite make_secondaries_cons. cbn [fst map].
  destruct (IH (upd ev (S (nth ev nx 0)) nx)) as [H1 H2]. split.
  - constructor; [split; reflexivity|exact H1].
  - rewrite H2. reflexivity.
Qed.

Lemma active_tracks_one : forall sl, active_tracks [sl] = if is_inactive sl then [] else [str sl].
Proof. intros sl. unfold active_tracks, is_active. cbn. destruct (is_inactive sl); reflexivity. Qed.

Lemma active_tracks_cons : forall sl r, active_tracks (sl :: r) = active_tracks [sl] ++ active_tracks r.
Proof. intros. change (sl :: r) with ([sl] ++ r). apply active_tracks_app. Qed.

(** one slot: what is left after the step (the track if it survives, the
    secondary initialised in place, the pushed secondaries) weighs at least one
    less than the track that took the step *)
Lemma spec_slot_weight : forall (w w' : trk -> nat) charge sl o nx,
  sst sl <> Killed ->
  1 <= w (str sl) ->
  (forall cs, Forall (child_of (str sl)) cs -> map tpid cs = map (fun x => x - 1) (live_kinds o) ->
     (if o_dies o then 0 else w' (str sl)) + wsum w' cs + 1 <= w (str sl)) ->
  let sp := spec_slot charge (physics_slot sl o) nx in
  wsum w' (active_tracks [fst (fst sp)]) + wsum w' (snd (fst sp)) + length (active_tracks [sl])
  <= wsum w (active_tracks [sl]).
Proof.
  intros w w' charge sl o nx Hk Hpos Hstep. cbn zeta.
  rewrite (active_tracks_one sl). unfold physics_slot, is_inactive.
  destruct (sst sl) eqn:Hs; try congruence; cbn [status_eqb].
  - (* inactive *)
    unfold spec_slot. rewrite Hs. cbn [status_eqb fst snd]. rewrite active_tracks_one. unfold is_inactive. rewrite Hs. cbn. lia.
  - (* initializing *)
    unfold spec_slot. cbn [sst str ssecs sused].
    destruct (make_secondaries_children (tid (str sl)) (tev (str sl))
                (live_secs (mkSlot (if o_dies o then Killed else Alive) (str sl) (o_secs o) (sused sl))) nx) as [Hc Hp].
    change (live_secs (mkSlot (if o_dies o then Killed else Alive) (str sl) (o_secs o) (sused sl))) with (live_kinds o) in *.
    destruct (make_secondaries (tid (str sl)) (tev (str sl)) (live_kinds o) nx) as [ts nx']. cbn [fst snd] in Hc, Hp.
    specialize (Hstep ts Hc Hp). rewrite wsum_cons. cbn [wsum map list_sum fold_right length].
    destruct (o_dies o); cbn [status_eqb negb andb].
    + destruct ts as [|t0 rest]; [|destruct charge]; cbn [negb fst snd]; rewrite active_tracks_one; unfold is_inactive; cbn [sst status_eqb str];
        rewrite ?wsum_cons in *; cbn [wsum map list_sum fold_right] in *; lia.
    + replace (match ts with [] => _ | _ :: _ => _ end)
        with (mkSlot Alive (str sl) (o_secs o) (sused sl), ts, nx') by (destruct ts; reflexivity).
      cbn [fst snd]. rewrite active_tracks_one. unfold is_inactive. cbn [sst status_eqb str].
      rewrite ?wsum_cons. cbn [wsum map list_sum fold_right] in *. lia.
  - (* alive *)
    unfold spec_slot. cbn [sst str ssecs sused].
    destruct (make_secondaries_children (tid (str sl)) (tev (str sl))
                (live_secs (mkSlot (if o_dies o then Killed else Alive) (str sl) (o_secs o) (sused sl))) nx) as [Hc Hp].
    change (live_secs (mkSlot (if o_dies o then Killed else Alive) (str sl) (o_secs o) (sused sl))) with (live_kinds o) in *.
    destruct (make_secondaries (tid (str sl)) (tev (str sl)) (live_kinds o) nx) as [ts nx']. cbn [fst snd] in Hc, Hp.
    specialize (Hstep ts Hc Hp). rewrite wsum_cons. cbn [wsum map list_sum fold_right length].
    destruct (o_dies o); cbn [status_eqb negb andb].
    + destruct ts as [|t0 rest]; [|destruct charge]; cbn [negb fst snd]; rewrite active_tracks_one; unfold is_inactive; cbn [sst status_eqb str];
        rewrite ?wsum_cons in *; cbn [wsum map list_sum fold_right] in *; lia.
    + replace (match ts with [] => _ | _ :: _ => _ end)
        with (mkSlot Alive (str sl) (o_secs o) (sused sl), ts, nx') by (destruct ts; reflexivity).
      cbn [fst snd]. rewrite active_tracks_one. unfold is_inactive. cbn [sst status_eqb str].
      rewrite ?wsum_cons. cbn [wsum map list_sum fold_right] in *. lia.
  - (* errored: killed by the tracking cut whatever the strategy says *)
    unfold spec_slot. cbn [sst str ssecs sused status_eqb]. unfold live_secs. cbn [ssecs filter make_secondaries negb andb fst snd].
    rewrite active_tracks_one. unfold is_inactive. cbn [sst status_eqb].
    rewrite wsum_cons. cbn [wsum map list_sum fold_right length]. lia.
Qed.

(** the whole grid *)
Lemma spec_all_weight : forall (w w' : trk -> nat) charge (g : nat -> trk -> outcome) sls i nx,
  Forall (fun sl => sst sl <> Killed) sls ->
  (forall t, 1 <= w t) ->
  (forall j t cs, Forall (child_of t) cs -> map tpid cs = map (fun x => x - 1) (live_kinds (g j t)) ->
     (if o_dies (g j t) then 0 else w' t) + wsum w' cs + 1 <= w t) ->
  let sp := spec_all charge (physics_slots sls (outcomes_from g i sls)) nx in
  wsum w' (active_tracks (fst (fst sp))) + wsum w' (snd (fst sp)) + length (active_tracks sls)
  <= wsum w (active_tracks sls).
Proof.
  intros w w' charge g. induction sls as [|sl r IH]; intros i nx Hk Hpos Hstep; cbn zeta.
  - cbn. lia.
  - cbn [outcomes_from physics_slots hd tl]. rewrite spec_all_cons. cbn [fst snd].
    inversion Hk as [|? ? Hk1 Hkr]; subst.
    pose proof (spec_slot_weight w w' charge sl (g i (str sl)) nx Hk1 (Hpos _) (Hstep i (str sl))) as H1.
    cbn zeta in H1.
    specialize (IH (S i) (snd (spec_slot charge (physics_slot sl (g i (str sl))) nx)) Hkr Hpos Hstep).
    cbn zeta in IH.
    rewrite (active_tracks_cons (fst (fst (spec_slot charge (physics_slot sl (g i (str sl))) nx)))).
    rewrite (active_tracks_cons sl r). rewrite !wsum_app, !app_length. lia.
Qed.

(** ** The pushed initializers carry fresh ids *)

Definition below (nev : nat) (nx : list nat) (t : trk) : Prop := tev t < nev /\ tid t < nth (tev t) nx 0.

Lemma fresh_batch_tail : forall nev nx nx' t ts, fresh_batch nev nx nx' (t :: ts) -> fresh_batch nev nx nx' ts.
Proof.
  intros nev nx nx' t ts (L & M & F & N). split; [exact L|]. split; [exact M|]. split.
  - inversion F; assumption.
  - cbn in N. inversion N; assumption.
Qed.

Lemma extend_fresh_lite : forall nev nx nx' old new,
  NoDup (map key old) -> Forall (below nev nx) old -> fresh_batch nev nx nx' new ->
  NoDup (map key (old ++ new)) /\ Forall (below nev nx') (old ++ new).
Proof.
  intros nev nx nx' old new Hnd Hb (L & M & F & N). split.
  - rewrite map_app. apply NoDup_app_intro; [exact Hnd|exact N|].
    intros k Ha Hc. apply in_map_iff in Ha, Hc. destruct Ha as [ta [Ka Ia]]. destruct Hc as [tb [Kb Ib]].
    rewrite Forall_forall in Hb, F. specialize (Hb ta Ia). specialize (F tb Ib).
    destruct Hb as (B1 & B2). unfold key in *. subst k. inversion Kb as [[He Hi]]. rewrite He in F. lia.
  - apply Forall_app. split.
    + eapply Forall_impl; [|exact Hb]. intros t (B1 & B2). split; [exact B1|]. specialize (M (tev t)). lia.
    + rewrite Forall_forall in *. intros t Ht. destruct (F t Ht) as (A & B). split; [exact A|lia].
Qed.

Lemma spec_slot_pushed : forall nev charge sl nx,
  length nx = nev -> (is_active sl = true -> tev (str sl) < nev) ->
  fresh_batch nev nx (snd (spec_slot charge sl nx)) (snd (fst (spec_slot charge sl nx))).
Proof.
  intros nev charge sl nx Hlen Hev. unfold spec_slot.
  destruct (status_eqb (sst sl) Inactive) eqn:Hin; [apply fresh_batch_nil|].
  assert (Hact : is_active sl = true) by (unfold is_active, is_inactive; rewrite Hin; reflexivity).
  destruct (make_secondaries_fresh nev (tid (str sl)) (tev (str sl)) (live_secs sl) nx (Hev Hact) Hlen) as [Hf _].
  destruct (make_secondaries (tid (str sl)) (tev (str sl)) (live_secs sl) nx) as [ts nx']. cbn [fst snd] in Hf.
  destruct ts as [|t0 rest]; [exact Hf|].
  destruct (negb (status_eqb (sst sl) Alive) && negb charge); cbn [fst snd]; [eapply fresh_batch_tail; exact Hf|exact Hf].
Qed.

Lemma spec_all_pushed : forall nev charge sls nx,
  length nx = nev -> Forall (fun sl => is_active sl = true -> tev (str sl) < nev) sls ->
  fresh_batch nev nx (snd (spec_all charge sls nx)) (snd (fst (spec_all charge sls nx))).
Proof.
  intros nev charge. induction sls as [|sl r IH]; intros nx Hlen Hev; [apply fresh_batch_nil|].
  rewrite spec_all_cons. cbn [fst snd]. inversion Hev as [|? ? H1 Hr]; subst.
  pose proof (spec_slot_pushed (length nx) charge sl nx eq_refl H1) as F1.
  eapply fresh_batch_app; [exact F1|]. apply IH; [|exact Hr]. destruct F1 as (L & _). exact L.
Qed.

(** ** One iteration *)

Lemma status_inited_not_killed : forall sls,
  Forall (fun sl => status_ok Inited (sst sl)) sls -> Forall (fun sl => sst sl <> Killed) sls.
Proof. intros sls H. eapply Forall_impl; [|exact H]. intros sl Hs. exact Hs. Qed.

Lemma n_active_inactive : forall sls, length (active_tracks sls) + n_inactive sls = length sls.
Proof.
  unfold active_tracks, n_inactive, is_active. induction sls as [|x r IH]; [reflexivity|].
  cbn [filter]. destruct (is_inactive x); cbn [negb map length]; lia.
Qed.

Lemma finitely_productive_pos : forall G W, finitely_productive G W -> forall k t, 1 <= W k t.
Proof.
  intros G W [_ H] k t.
  specialize (H k 0 t (map (fun x => mkTrk 0 (Some (tid t)) (tev t) (x - 1) false) (live_kinds (G k 0 t)))).
  assert (A : Forall (child_of t) (map (fun x => mkTrk 0 (Some (tid t)) (tev t) (x - 1) false) (live_kinds (G k 0 t)))).
  { apply Forall_forall. intros c Hc. apply in_map_iff in Hc. destruct Hc as [x [Hx _]]. subst c. split; reflexivity. }
  specialize (H A). rewrite map_map in H. cbn [tpid] in H. specialize (H eq_refl). lia.
Qed.

Definition iter_spec (cfg : config) (w w' : trk -> nat) (s : state) (r : iter_res) : Prop :=
  match r with
  | IOk s1 s3 =>
    InvA cfg s3 /\ InvB cfg s3 /\ ph s3 = Ready /\
    (* the measure pays one unit per track in flight *)
    wsum w' (all_tracks s3) + (n_slots cfg - n_inactive (slots s1)) <= wsum w (all_tracks s) /\
    n_inactive (slots s1) = n_inactive (slots s) - Nat.min (n_inactive (slots s)) (length (stack s)) /\
    (* ledger *)
    stack s = stack s1 ++ skipn (length (stack s1)) (stack s) /\
    stack s3 = stack s1 ++ skipn (length (stack s1)) (stack s3) /\
    fresh_batch (n_events cfg) (next_id s) (next_id s3) (skipn (length (stack s1)) (stack s3)) /\
    (exists f, exec cfg s (iteration f) = Some s3)
  | IErr s3 =>
    ph s3 = Failed /\ capacity cfg < c_init (cnt s3) /\
    c_init (cnt s3) + (n_slots cfg - n_inactive (slots s3)) <= wsum w (all_tracks s) /\
    (exists f, exec cfg s (iteration f) = Some s3)
  | IMisuse => False
  end.

Lemma iteration_g_spec : forall cfg g w w' s,
  InvA cfg s -> InvB cfg s -> ph s = Ready ->
  (forall t, 1 <= w t) -> (forall t, 1 <= w' t) -> (forall t, w' t <= w t) ->
  (forall j t cs, Forall (child_of t) cs -> map tpid cs = map (fun x => x - 1) (live_kinds (g j t)) ->
     (if o_dies (g j t) then 0 else w' t) + wsum w' cs + 1 <= w t) ->
  iter_spec cfg w w' s (iteration_g cfg g s).
Proof.
  intros cfg g w w' s HA HB Hph Hpos Hpos' Hwait Hstep.
  pose proof HA as ((Hl & Hp & Hn) & Hlive & _). rewrite Hph in Hlive.
  destruct (Hlive ltac:(discriminate)) as (A & B & C & D).
  unfold iteration_g.
  (* 1. initialize-tracks *)
  rewrite (step_not_failed cfg s InitializeTracks ltac:(rewrite Hph; discriminate)).
  assert (Hi : exists s1, initialize_tracks cfg s = Ok s1 /\ ph s1 = Inited /\
                 stack s1 = firstn (length (stack s) - Nat.min (n_inactive (slots s)) (length (stack s))) (stack s) /\
                 c_vac (cnt s1) = n_inactive (slots s) - Nat.min (n_inactive (slots s)) (length (stack s))).
  { unfold initialize_tracks. rewrite Hph. cbn [phase_eqb negb]. rewrite <- C, <- A.
    destruct (Nat.min (c_vac (cnt s)) (c_init (cnt s)) =? 0) eqn:Hz.
    - apply Nat.eqb_eq in Hz. eexists. split; [reflexivity|]. cbn. split; [reflexivity|]. rewrite Hz, A, Nat.sub_0_r.
      split; [symmetry; apply firstn_all|lia].
    - eexists. split; [reflexivity|]. cbn. auto. }
  destruct Hi as (s1 & Hi & Hph1 & Hst1 & Hcv1). rewrite Hi.
  pose proof (InvA_initialize cfg s s1 HA Hi) as HA1.
  pose proof (InvB_initialize cfg s s1 HA HB Hi) as HB1.
  destruct (initialize_tracks_perm cfg s s1 HA Hi) as (Hperm1 & Hnx1 & _).
  pose proof HA1 as ((Hl1 & _) & Hlive1 & _). rewrite Hph1 in Hlive1.
  destruct (Hlive1 ltac:(discriminate)) as (A1 & B1 & C1 & D1).
  (* 2. physics *)
  set (f := outcomes_from g 0 (slots s1)).
  set (s2 := mkState (physics_slots (slots s1) f) (stack s1) (parents s1) (vac s1) (cnt s1) (next_id s1) Interacted).
  assert (Hx : physics_outcome cfg s1 f = Ok s2) by (unfold physics_outcome; rewrite Hph1; reflexivity).
  rewrite (step_not_failed cfg s1 (PhysicsOutcome f) ltac:(rewrite Hph1; discriminate)), Hx.
  pose proof (InvA_physics cfg s1 f s2 HA1 Hx) as HA2.
  pose proof (InvB_physics cfg s1 f s2 HB1 Hx) as HB2.
  (* the measure, on the array-free specification of extend-from-secondaries *)
  pose proof (spec_all_weight w w' (charge_order cfg) g (slots s1) 0 (next_id s1)
                (status_inited_not_killed _ D1) Hpos Hstep) as Hw.
  cbn zeta in Hw. fold f in Hw.
  set (sp := spec_all (charge_order cfg) (physics_slots (slots s1) f) (next_id s1)) in *.
  assert (Hm : wsum w' (active_tracks (fst (fst sp))) + wsum w' (stack s1 ++ snd (fst sp))
               + (n_slots cfg - n_inactive (slots s1)) <= wsum w (all_tracks s)).
  { rewrite <- (wsum_perm w _ _ Hperm1). unfold all_tracks. rewrite !wsum_app.
    pose proof (wsum_mono w w' (stack s1) Hwait). pose proof (n_active_inactive (slots s1)). lia. }
  assert (Hfirst : forall (l : list trk) n, l = firstn n l ++ skipn (length (firstn n l)) l).
  { intros l n. rewrite firstn_length. destruct (Nat.le_ge_cases n (length l)) as [Hle|Hge].
    - rewrite Nat.min_l by exact Hle. symmetry. apply firstn_skipn.
    - rewrite Nat.min_r by exact Hge. rewrite firstn_all2 by exact Hge. rewrite skipn_all. symmetry. apply app_nil_r. }
  (* 3. extend-from-secondaries *)
  rewrite (step_not_failed cfg s2 ExtendFromSecondaries ltac:(unfold s2; cbn; discriminate)).
  destruct (extend_from_secondaries cfg s2) as [s3|s3|] eqn:He.
  - (* Ok *)
    pose proof (InvA_extend_sec cfg s2 s3 HA2 (or_introl He)) as HA3.
    pose proof (InvB_extend_sec cfg s2 s3 HA2 HB2 He) as HB3.
    destruct (secondaries_layout_inv cfg s2 s3 HA2 He) as (L1 & L2 & L3).
    unfold s2 in L1, L2, L3. cbn [slots stack next_id] in L1, L2, L3. fold sp in L1, L2, L3.
    assert (Hph3 : ph s3 = Ready).
    { unfold extend_from_secondaries in He. destruct (negb _); [discriminate|].
      destruct (exclusive_scan _ _). destruct (capacity cfg <? _); [discriminate|].
      destruct (proc_all _ _ _ _ _ _ _ _). inversion He; reflexivity. }
    cbn [iter_spec]. split; [exact HA3|]. split; [exact HB3|]. split; [exact Hph3|]. split.
    { unfold all_tracks at 1. rewrite L1, L2, wsum_app. lia. }
    split; [rewrite <- C1; exact Hcv1|]. split.
    { rewrite Hst1. apply Hfirst. }
    assert (Hsk : skipn (length (stack s1)) (stack s3) = snd (fst sp)).
    { rewrite L2. rewrite skipn_app, Nat.sub_diag, skipn_all. reflexivity. }
    split; [rewrite Hsk; exact L2|].
    split.
    { rewrite Hsk, L3, <- Hnx1. unfold sp. apply spec_all_pushed.
      - destruct HA1 as ((_ & _ & Hn1') & _). exact Hn1'.
      - destruct (HB2 ltac:(unfold s2; cbn; discriminate)) as [_ Hbd2].
        apply Forall_forall. intros sl Hin Ha.
        assert (Hin' : In (str sl) (all_tracks s2)).
        { unfold all_tracks, active_tracks. apply in_or_app. left. apply in_map. apply filter_In. unfold s2. cbn [slots]. auto. }
        rewrite Forall_forall in Hbd2. destruct (Hbd2 _ Hin') as (B1' & _). exact B1'. }
    exists f. unfold iteration. cbn [exec].
    rewrite (step_not_failed cfg s InitializeTracks ltac:(rewrite Hph; discriminate)), Hi. cbn [res_state].
    rewrite (step_not_failed cfg s1 (PhysicsOutcome _) ltac:(rewrite Hph1; discriminate)), Hx. cbn [res_state].
    rewrite (step_not_failed cfg s2 ExtendFromSecondaries ltac:(unfold s2; cbn; discriminate)), He. reflexivity.
  - (* Err: reported before any write, and only if the potential exceeds the capacity *)
    cbn [iter_spec].
    assert (Hph3 : ph s3 = Failed) by (eapply extend_sec_err_failed; eauto).
    destruct (capacity_checked_first cfg s2) as (_ & _ & Herr & _).
    destruct (Herr s3 He) as (E1 & E2 & _ & _ & E5).
    assert (Hci : c_init (cnt s3) = length (stack s1) + length (snd (fst sp))).
    { clear - He A1. unfold extend_from_secondaries in He. destruct (negb _); [discriminate|].
      pose proof (exclusive_scan_total (map snd (locate_all (charge_order cfg) 0 (slots s2))) 0) as Ht.
      destruct (exclusive_scan 0 _) as [scan total]. cbn [snd] in Ht.
      destruct (capacity cfg <? _); [|destruct (proc_all _ _ _ _ _ _ _ _); discriminate].
      inversion He; subst s3. cbn [cnt c_init]. rewrite A1. f_equal.
      subst total. cbn [Nat.add]. unfold sp. unfold s2. cbn [slots]. generalize (next_id s1).
      generalize (physics_slots (slots s1) f). generalize 0.
      intros n0 l. revert n0. induction l as [|sl r IH]; intros n nx; [reflexivity|].
      cbn [locate_all map]. rewrite spec_all_cons. cbn [fst snd]. rewrite app_length.
      cbn [list_sum fold_right]. fold (list_sum (map snd (locate_all (charge_order cfg) (S n) r))).
      rewrite (IH (S n) (snd (spec_slot (charge_order cfg) sl nx))). rewrite (locate_count _ n sl nx). reflexivity. }
    split; [exact Hph3|]. split; [exact E5|]. split.
    { rewrite E1. unfold s2. cbn [slots]. rewrite physics_slots_n_inactive.
      pose proof (wsum_ge_length w' (stack s1 ++ snd (fst sp)) Hpos') as Hg. rewrite app_length in Hg. lia. }
    exists f. unfold iteration. cbn [exec].
    rewrite (step_not_failed cfg s InitializeTracks ltac:(rewrite Hph; discriminate)), Hi. cbn [res_state].
    rewrite (step_not_failed cfg s1 (PhysicsOutcome _) ltac:(rewrite Hph1; discriminate)), Hx. cbn [res_state].
    rewrite (step_not_failed cfg s2 ExtendFromSecondaries ltac:(unfold s2; cbn; discriminate)), He. reflexivity.
  - (* Misuse is impossible *)
    exfalso. unfold extend_from_secondaries in He. unfold s2 in He. cbn [ph phase_eqb negb] in He.
    destruct (exclusive_scan _ _). destruct (capacity cfg <? _); [discriminate|].
    destruct (proc_all _ _ _ _ _ _ _ _). discriminate.
Qed.

(** ** The loop *)

Lemma exec_app : forall cfg a b s,
  exec cfg s (a ++ b) = match exec cfg s a with Some s1 => exec cfg s1 b | None => None end.
Proof.
  intros cfg. induction a as [|o r IH]; intros b s; [reflexivity|].
  cbn [app exec]. destruct (step cfg s o); try reflexivity; apply IH.
Qed.

Lemma n_inactive_lt : forall sls,
  forallb (fun sl => status_eqb (sst sl) Inactive) sls = false -> n_inactive sls < length sls.
Proof.
  unfold n_inactive. induction sls as [|x r IH]; intros H; [discriminate|].
  cbn [forallb] in H. cbn [filter length]. unfold is_inactive at 1.
  pose proof (n_inactive_le r) as Hle. unfold n_inactive in Hle.
  destruct (status_eqb (sst x) Inactive); cbn [andb] in H; cbn [length]; [specialize (IH H)|]; lia.
Qed.

Lemma drained_facts : forall cfg s, InvA cfg s -> ph s = Ready -> drained s = true ->
  stack s = [] /\ c_init (cnt s) = 0 /\ c_alive (cnt s) = 0 /\ all_tracks s = [].
Proof.
  intros cfg s HA Hph Hd. pose proof (drained_no_tracks cfg s HA Hph Hd) as Hall.
  assert (Hst : stack s = []).
  { unfold all_tracks in Hall. apply app_eq_nil in Hall. tauto. }
  assert (Hin : Forall (fun sl => is_inactive sl = true) (slots s)).
  { unfold drained in Hd. apply andb_true_iff in Hd. destruct Hd as [H1 _]. rewrite forallb_forall in H1.
    apply Forall_forall. exact H1. }
  destruct (drained_of cfg s HA Hph Hin Hst) as (_ & D2 & D3). auto.
Qed.

Lemma not_drained_progress : forall cfg s n1, InvA cfg s -> ph s = Ready -> 1 <= n_slots cfg ->
  drained s = false ->
  n1 = n_inactive (slots s) - Nat.min (n_inactive (slots s)) (length (stack s)) ->
  1 <= n_slots cfg - n1.
Proof.
  intros cfg s n1 ((Hl & _) & Hlive & _) Hph Hn Hd Hn1. rewrite Hph in Hlive.
  destruct (Hlive ltac:(discriminate)) as (A & _).
  pose proof (n_inactive_le (slots s)) as Hle. rewrite Hl in Hle.
  unfold drained in Hd. apply andb_false_iff in Hd. destruct Hd as [Hd|Hd].
  - apply n_inactive_lt in Hd. rewrite Hl in Hd. lia.
  - apply Nat.eqb_neq in Hd. lia.
Qed.

Lemma perm_ledger : forall (popped pk s1 qk base pushed : list trk),
  Permutation (popped ++ s1 ++ pk) (base ++ pushed) ->
  Permutation (popped ++ pk ++ s1 ++ qk) (base ++ pushed ++ qk).
Proof.
  intros popped pk s1 qk base pushed P.
  transitivity ((popped ++ s1 ++ pk) ++ qk).
  - rewrite <- !app_assoc. apply Permutation_app_head. rewrite !app_assoc. apply Permutation_app_tail.
    apply Permutation_app_comm.
  - rewrite P. rewrite <- app_assoc. reflexivity.
Qed.

Definition loop_post (cfg : config) (W : nat -> trk -> nat) (k : nat) (s : state) (L : ledger) (e : loop_end) : Prop :=
  match e with
  | Drained s' L' =>
    InvA cfg s' /\ ph s' = Ready /\ drained s' = true /\
    l_iters L' <= l_iters L + potential W k s /\
    (forall base, Permutation (l_popped L ++ stack s) (base ++ l_pushed L) ->
                  Permutation (l_popped L') (base ++ l_pushed L')) /\
    (forall base, NoDup (map key (base ++ l_pushed L)) ->
                  Forall (below (n_events cfg) (next_id s)) (base ++ l_pushed L) ->
                  NoDup (map key (base ++ l_pushed L'))) /\
    exists ops', exec cfg s ops' = Some s'
  | CapError s' L' =>
    ph s' = Failed /\ capacity cfg < c_init (cnt s') /\ capacity cfg < potential W k s /\
    l_iters L' <= l_iters L + potential W k s /\
    exists ops', exec cfg s ops' = Some s'
  | _ => False
  end.

Lemma loop_spec : forall cfg G W, finitely_productive G W -> 1 <= n_slots cfg ->
  forall fuel k s L, InvA cfg s -> InvB cfg s -> ph s = Ready -> potential W k s <= fuel ->
  loop_post cfg W k s L (loop cfg G k fuel s L).
Proof.
  intros cfg G W HFP Hn. pose proof (finitely_productive_pos G W HFP) as Hpos. destruct HFP as [Hwait Hstep].
  induction fuel as [|fuel IH]; intros k s L HA HB Hph Hfuel.
  - cbn [loop]. destruct (drained s) eqn:Hd.
    + cbn [loop_post]. destruct (drained_facts cfg s HA Hph Hd) as (Hst & _).
      split; [exact HA|]. split; [exact Hph|]. split; [exact Hd|]. split; [lia|]. split.
      * intros base P. rewrite Hst, app_nil_r in P. exact P.
      * split; [intros base N _; exact N|]. exists []. reflexivity.
    + exfalso.
      pose proof (iteration_g_spec cfg (G k) (W k) (W (S k)) s HA HB Hph (Hpos k) (Hpos (S k)) (Hwait k) (Hstep k)) as Hs.
      destruct (iteration_g cfg (G k) s) as [s1 s3|s3|]; cbn [iter_spec] in Hs.
      * destruct Hs as (_ & _ & _ & Hm & Hn1 & _).
        pose proof (not_drained_progress cfg s _ HA Hph Hn Hd Hn1). unfold potential in Hfuel. lia.
      * destruct Hs as (_ & Hc & Hm & _).
        assert (capacity cfg < wsum (W k) (all_tracks s)) by lia. unfold potential in Hfuel.
        pose proof HA as (_ & Hlive & _). rewrite Hph in Hlive. destruct (Hlive ltac:(discriminate)) as (_ & B & _). lia.
      * exact Hs.
  - cbn [loop]. destruct (drained s) eqn:Hd.
    + cbn [loop_post]. destruct (drained_facts cfg s HA Hph Hd) as (Hst & _).
      split; [exact HA|]. split; [exact Hph|]. split; [exact Hd|]. split; [lia|]. split.
      * intros base P. rewrite Hst, app_nil_r in P. exact P.
      * split; [intros base N _; exact N|]. exists []. reflexivity.
    + pose proof (iteration_g_spec cfg (G k) (W k) (W (S k)) s HA HB Hph (Hpos k) (Hpos (S k)) (Hwait k) (Hstep k)) as Hs.
      destruct (iteration_g cfg (G k) s) as [s1 s3|s3|]; cbn [iter_spec] in Hs.
      * destruct Hs as (HA3 & HB3 & Hph3 & Hm & Hn1 & Hl1 & Hl3 & Hfr & (f & Hex)).
        pose proof (not_drained_progress cfg s _ HA Hph Hn Hd Hn1) as Hprog.
        assert (Hdec : potential W (S k) s3 + 1 <= potential W k s) by (unfold potential; lia).
        set (L1 := mkL (l_popped L ++ skipn (length (stack s1)) (stack s))
                       (l_pushed L ++ skipn (length (stack s1)) (stack s3)) (S (l_iters L))).
        specialize (IH (S k) s3 L1 HA3 HB3 Hph3 ltac:(lia)).
        destruct (loop cfg G (S k) fuel s3 L1) as [s' L'|s' L'|s' L'|]; cbn [loop_post] in IH |- *; try exact IH.
        -- destruct IH as (I1 & I2 & I3 & I4 & I5 & I5b & (ops' & I6)).
           split; [exact I1|]. split; [exact I2|]. split; [exact I3|]. split; [unfold L1 in I4; cbn [l_iters] in I4; lia|]. split.
           ++ intros base P. apply I5. unfold L1. cbn [l_popped l_pushed].
              rewrite Hl3 at 1. rewrite <- !app_assoc. apply perm_ledger. rewrite <- Hl1. exact P.
           ++ split.
              ** intros base N B. unfold L1 in I5b. cbn [l_pushed] in I5b.
                 destruct (extend_fresh_lite _ _ _ _ _ N B Hfr) as [N' B'].
                 rewrite <- app_assoc in N', B'. apply I5b; assumption.
              ** exists (iteration f ++ ops'). rewrite exec_app, Hex. exact I6.
        -- destruct IH as (I1 & I2 & I3 & I4 & (ops' & I6)).
           split; [exact I1|]. split; [exact I2|]. split; [lia|]. split; [unfold L1 in I4; cbn [l_iters] in I4; lia|].
           exists (iteration f ++ ops'). rewrite exec_app, Hex. exact I6.
      * destruct Hs as (Hph3 & Hc & Hm & (f & Hex)). cbn [loop_post l_iters].
        split; [exact Hph3|]. split; [exact Hc|]. split; [unfold potential; lia|]. split; [unfold potential; lia|].
        exists (iteration f). exact Hex.
      * exact Hs.
Qed.

(** ** drain_terminates *)

Lemma drain_terminates : forall cfg ops s G W k,
  exec cfg (init_state cfg) ops = Some s -> ph s = Ready -> 1 <= n_slots cfg ->
  finitely_productive G W ->
  match loop cfg G k (potential W k s) s (mkL [] [] 0) with
  | Drained s' L =>
    l_iters L <= potential W k s /\
    ph s' = Ready /\ drained s' = true /\ c_init (cnt s') = 0 /\ c_alive (cnt s') = 0 /\ all_tracks s' = [] /\
    Permutation (l_popped L) (stack s ++ l_pushed L) /\ NoDup (map key (stack s ++ l_pushed L)) /\
    exists ops', exec cfg (init_state cfg) ops' = Some s'
  | CapError s' L =>
    l_iters L <= potential W k s /\
    ph s' = Failed /\ capacity cfg < c_init (cnt s') /\ capacity cfg < potential W k s /\
    exists ops', exec cfg (init_state cfg) ops' = Some s'
  | _ => False
  end.
Proof.
  intros cfg ops s G W k Hex Hph Hn HFP.
  destruct (reachable_inv cfg ops s Hex) as [HA HB].
  pose proof (loop_spec cfg G W HFP Hn (potential W k s) k s (mkL [] [] 0) HA HB Hph (le_n _)) as H.
  destruct (loop cfg G k (potential W k s) s (mkL [] [] 0)) as [s' L'|s' L'|s' L'|]; cbn [loop_post l_iters l_popped l_pushed] in H; try exact H.
  - destruct H as (I1 & I2 & I3 & I4 & I5 & I5b & (ops' & I6)).
    destruct (drained_facts cfg s' I1 I2 I3) as (D1 & D2 & D3 & D4).
    split; [lia|]. split; [exact I2|]. split; [exact I3|]. split; [exact D2|]. split; [exact D3|]. split; [exact D4|]. split.
    + apply I5. cbn [app]. rewrite app_nil_r. reflexivity.
    + split; [|exists (ops ++ ops'); rewrite exec_app, Hex; exact I6].
      destruct (HB ltac:(rewrite Hph; discriminate)) as [Hnd Hbd].
      unfold all_tracks in Hnd, Hbd. rewrite map_app in Hnd. apply NoDup_app_elim in Hnd. destruct Hnd as (_ & Hnd2 & _).
      apply Forall_app in Hbd. destruct Hbd as [_ Hbd2].
      apply I5b; rewrite app_nil_r; [exact Hnd2|].
      eapply Forall_impl; [|exact Hbd2]. intros t (B1 & B2 & _). split; assumption.
  - destruct H as (I1 & I2 & I3 & I4 & (ops' & I6)).
    split; [lia|]. split; [exact I1|]. split; [exact I2|]. split; [exact I3|].
    exists (ops ++ ops'). rewrite exec_app, Hex. exact I6.
Qed.

(** capacities that are not exceeded: the loop drains *)
Lemma drain_terminates_ample : forall cfg ops s G W k,
  exec cfg (init_state cfg) ops = Some s -> ph s = Ready -> 1 <= n_slots cfg ->
  finitely_productive G W -> potential W k s <= capacity cfg ->
  exists s' L, loop cfg G k (potential W k s) s (mkL [] [] 0) = Drained s' L /\
    l_iters L <= potential W k s /\
    ph s' = Ready /\ drained s' = true /\ c_init (cnt s') = 0 /\ c_alive (cnt s') = 0 /\ all_tracks s' = [] /\
    Permutation (l_popped L) (stack s ++ l_pushed L) /\ NoDup (map key (stack s ++ l_pushed L)) /\
    exists ops', exec cfg (init_state cfg) ops' = Some s'.
Proof.
  intros cfg ops s G W k Hex Hph Hn HFP Hcap.
  pose proof (drain_terminates cfg ops s G W k Hex Hph Hn HFP) as H.
  destruct (loop cfg G k (potential W k s) s (mkL [] [] 0)) as [s' L'|s' L'|s' L'|]; try contradiction.
  - exists s', L'. split; [reflexivity|exact H].
  - destruct H as (_ & _ & _ & H & _). lia.
Qed.
