(** * C02: generic list lemmas used by the track-init proofs *)
From Coq Require Import List Arith Bool PeanoNat Lia Permutation.
From Celer Require Import C02.TrackInit.
Import ListNotations.

Lemma upd_length : forall {A} (l : list A) i x, length (upd i x l) = length l.
Proof.
  induction l as [|y r IH]; intros i x; [destruct i; reflexivity|].
  destruct i; cbn; [reflexivity|]. rewrite IH. reflexivity.
Qed.

Lemma nth_upd_eq : forall {A} (l : list A) i x d, i < length l -> nth i (upd i x l) d = x.
Proof.
  induction l as [|y r IH]; intros i x d Hi; [cbn in Hi; lia|].
  destruct i; cbn; [reflexivity|]. apply IH. cbn in Hi. lia.
Qed.

Lemma nth_upd_neq : forall {A} (l : list A) i j x d, i <> j -> nth j (upd i x l) d = nth j l d.
Proof.
  induction l as [|y r IH]; intros i j x d Hij; [destruct i; reflexivity|].
  destruct i, j; cbn; try reflexivity; try lia. apply IH. lia.
Qed.

Lemma upd_out : forall {A} (l : list A) i x, length l <= i -> upd i x l = l.
Proof.
  induction l as [|y r IH]; intros i x Hi; [destruct i; reflexivity|].
  destruct i; cbn in *; [lia|]. rewrite IH; [reflexivity|lia].
Qed.

Lemma upd_app_exact : forall {A} (pre : list A) x y post,
  upd (length pre) x (pre ++ y :: post) = pre ++ x :: post.
Proof.
  induction pre as [|z pre IH]; intros x y post; cbn; [reflexivity|]. rewrite IH. reflexivity.
Qed.

Lemma upd_split : forall {A} (l : list A) i x d, i < length l ->
  upd i x l = firstn i l ++ x :: skipn (S i) l /\ l = firstn i l ++ nth i l d :: skipn (S i) l.
Proof.
  induction l as [|y r IH]; intros i x d Hi; [cbn in Hi; lia|].
  destruct i; cbn; [split; reflexivity|].
  cbn in Hi. destruct (IH i x d ltac:(lia)) as [H1 H2]. split; [rewrite H1; reflexivity|].
  f_equal. exact H2.
Qed.

Lemma repeat_app_S : forall {A} (x : A) n, repeat x (S n) = x :: repeat x n.
Proof. reflexivity. Qed.

(** exclusive scan *)
Lemma exclusive_scan_length : forall l acc, length (fst (exclusive_scan acc l)) = length l.
Proof.
  induction l as [|x r IH]; intros acc; cbn; [reflexivity|].
  specialize (IH (acc + x)). destruct (exclusive_scan (acc + x) r). cbn in *. lia.
Qed.

Lemma exclusive_scan_total : forall l acc, snd (exclusive_scan acc l) = acc + list_sum l.
Proof.
  unfold list_sum. induction l as [|x r IH]; intros acc; cbn; [lia|].
  specialize (IH (acc + x)). destruct (exclusive_scan (acc + x) r). cbn in *. lia.
Qed.

Lemma exclusive_scan_nth : forall l acc i, i < length l ->
  nth i (fst (exclusive_scan acc l)) 0 = acc + list_sum (firstn i l).
Proof.
  unfold list_sum. induction l as [|x r IH]; intros acc i Hi; [cbn in Hi; lia|].
  cbn. specialize (IH (acc + x)). destruct (exclusive_scan (acc + x) r) as [s t]. cbn in *.
  destruct i; cbn; [lia|]. rewrite IH; lia.
Qed.

Lemma list_sum_firstn_le : forall l i, list_sum (firstn i l) <= list_sum l.
Proof.
  unfold list_sum. induction l as [|x r IH]; intros i; destruct i; cbn; try lia. specialize (IH i). lia.
Qed.

Lemma list_sum_firstn_S : forall l i, i < length l ->
  list_sum (firstn (S i) l) = list_sum (firstn i l) + nth i l 0.
Proof.
  unfold list_sum. induction l as [|x r IH]; intros i Hi; [cbn in Hi; lia|].
  destruct i; cbn; [lia|]. cbn in Hi. rewrite <- Nat.add_assoc. f_equal.
  apply IH. lia.
Qed.

(** stable partition is a permutation; neutrals first *)
Lemma stable_partition_perm : forall {A} (f : A -> bool) l, Permutation (stable_partition f l) l.
Proof.
  intros A f l. unfold stable_partition. induction l as [|x r IH]; cbn; [constructor|].
  destruct (f x); cbn.
  - constructor. exact IH.
  - apply Permutation_sym. apply Permutation_cons_app. apply Permutation_sym. exact IH.
Qed.

Lemma stable_partition_length : forall {A} (f : A -> bool) l, length (stable_partition f l) = length l.
Proof. intros. apply Permutation_length. apply stable_partition_perm. Qed.

Lemma stable_partition_nth_front : forall {A} (f : A -> bool) l p d,
  p < length (filter f l) -> f (nth p (stable_partition f l) d) = true.
Proof.
  intros A f l p d Hp. unfold stable_partition. rewrite app_nth1 by exact Hp.
  assert (H : In (nth p (filter f l) d) (filter f l)) by (apply nth_In; exact Hp).
  apply filter_In in H. tauto.
Qed.

Lemma stable_partition_nth_back : forall {A} (f : A -> bool) l p d,
  length (filter f l) <= p < length l -> f (nth p (stable_partition f l) d) = false.
Proof.
  intros A f l p d Hp. unfold stable_partition. rewrite app_nth2 by lia.
  assert (Hlen : length (filter f l) + length (filter (fun x => negb (f x)) l) = length l).
  { rewrite <- app_length. apply Permutation_length. apply (stable_partition_perm f l). }
  assert (H : In (nth (p - length (filter f l)) (filter (fun x => negb (f x)) l) d)
                 (filter (fun x => negb (f x)) l)) by (apply nth_In; lia).
  apply filter_In in H. destruct H as [_ H]. apply negb_true_iff in H. exact H.
Qed.

(** NoDup and append *)
Lemma NoDup_app_intro : forall {A} (a b : list A),
  NoDup a -> NoDup b -> (forall x, In x a -> In x b -> False) -> NoDup (a ++ b).
Proof.
  induction a as [|x r IH]; intros b Ha Hb Hd; cbn; [exact Hb|].
  inversion Ha as [|? ? Hx Hr]; subst. constructor.
  - intros Hin. apply in_app_or in Hin. destruct Hin as [Hin|Hin]; [contradiction|].
    apply (Hd x); [left; reflexivity|exact Hin].
  - apply IH; auto. intros y Hy. apply Hd. right. exact Hy.
Qed.

Lemma NoDup_app_elim : forall {A} (a b : list A),
  NoDup (a ++ b) -> NoDup a /\ NoDup b /\ (forall x, In x a -> In x b -> False).
Proof.
  induction a as [|x r IH]; intros b H; cbn in H.
  - split; [constructor|]. split; [exact H|]. intros y [].
  - inversion H as [|? ? Hx Hr]; subst. destruct (IH b Hr) as (A1 & A2 & A3).
    split; [constructor; [intros Hc; apply Hx; apply in_or_app; left; exact Hc|exact A1]|].
    split; [exact A2|]. intros y [Hy|Hy] Hb; [subst; apply Hx; apply in_or_app; right; exact Hb|eapply A3; eauto].
Qed.

(** reading a whole window of a list *)
Lemma map_nth_seq_skipn : forall {A} (l : list A) d a n,
  a + n = length l -> map (fun i => nth i l d) (seq a n) = skipn a l.
Proof.
  intros A l d. induction l as [|x r IH]; intros a n H.
  - cbn in H. assert (n = 0) by lia. subst. destruct a; reflexivity.
  - destruct a as [|a'].
    + cbn in H. destruct n as [|n']; [lia|]. cbn [seq map skipn nth]. f_equal.
      rewrite <- seq_shift, map_map. cbn [nth].
      specialize (IH 0 n' ltac:(lia)). cbn [skipn] in IH. exact IH.
    + cbn [skipn]. rewrite <- seq_shift, map_map. cbn [nth]. apply IH. cbn in H. lia.
Qed.
